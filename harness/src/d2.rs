//! D2: parity-row generators (C10).
//!
//! Query lines (the cfg token makes the model side flag-free):
//!   row new   <M> <N> std|ffr   flash_algo_new::fragmentation::get_parity_matrix_row(N, M, buf)
//!   row orig  <M> <N> std|ffr   original_flash_algo::fragmentation::get_parity_matrix_row(N, M, buf)
//!   row lfdbt <M> <m>           parity_reconstruct::lfdbt::LfdbtParity::new(M).row(m)  (no cfg: the crate has no force-full-r)
//!   !sweep <M> <N>              oracle-only: all three generators against the reference, answer `-`
//! Answer: hex of the first ceil(M/8) bytes of the row (`-` when M = 0), or `PANIC`.
//!
//! `UpdaterMatrix` (flash-algo-new/src/update/matrix.rs) is private and has no public observer that returns a row;
//! its index mapping is covered by the Lean theorem `updater_matrix_row` and, end to end, by the D5 suite
//! (a wrong row makes reconstruction produce a wrong image).
//!
//! Oracle: `ts004_matrix_line` below is written from the TS004 text (MATLAB-style pseudo-code) and does not call
//! the crates.
use crate::util::*;
use bitvec::array::BitArray;
use parity_reconstruct::ParityMatrix;

const BITS: usize = 16384;
type Row = BitArray<[u8; BITS / 8]>;

fn cfg_name() -> &'static str {
    if cfg!(feature = "ffr") { "ffr" } else { "std" }
}

// ---------------------------------------------------------------- reference (TS004)
// function r = prbs23(x): b0 = bitand(x,1); b1 = bitand(x,32)/32; x = floor(x/2) + bitxor(b0,b1)*2^22
fn ts004_prbs23(x: u64) -> u64 {
    let b0 = x & 1;
    let b1 = (x & 32) / 32;
    x / 2 + (b0 ^ b1) * (1 << 22)
}

// function matrix_line = matrix_line(N, M)
//   matrix_line = zeros(1,M); m = 0; if is_power2(M) m = 1; x = 1 + 1001*N;
//   for nb_coeff = 1:floor(M/2)  r = 2^16; while (r >= M) x = prbs23(x); r = mod(x, M+m); end; matrix_line(r+1) = 1; end
// returns None when the while loop does not end within 10_000 steps
fn ts004_matrix_line(n: u64, m_cap: u64) -> Option<Vec<bool>> {
    let mut line = vec![false; m_cap as usize];
    let mut p = 1u64;
    while p < m_cap {
        p *= 2;
    }
    let m = if m_cap != 0 && p == m_cap { 1 } else { 0 };
    let mut x = 1 + 1001 * n;
    for _ in 0..(m_cap / 2) {
        let mut r = 1u64 << 16;
        let mut steps = 0;
        while r >= m_cap {
            x = ts004_prbs23(x);
            r = x % (m_cap + m);
            steps += 1;
            if steps > 10_000 {
                return None;
            }
        }
        line[r as usize] = true;
    }
    Some(line)
}

fn bits_to_bytes(v: &[bool], nbytes: usize) -> Vec<u8> {
    let mut b = vec![0u8; nbytes];
    for (i, x) in v.iter().enumerate() {
        if *x {
            b[i / 8] |= 1 << (i % 8);
        }
    }
    b
}

// ---------------------------------------------------------------- implementation calls
fn call(which: &str, m_cap: u32, arg: u64) -> Result<Row, String> {
    guarded(|| match which {
        "new" => {
            let mut r: Row = BitArray::ZERO;
            flash_algo_new::fragmentation::get_parity_matrix_row(arg as u32, m_cap, &mut r);
            r
        }
        "orig" => {
            let mut r: Row = BitArray::ZERO;
            original_flash_algo::fragmentation::get_parity_matrix_row(arg as u32, m_cap, &mut r);
            r
        }
        _ => {
            let p = parity_reconstruct::lfdbt::LfdbtParity::new(m_cap as usize);
            let r: Row = p.row(arg as usize);
            r
        }
    })
}

/// property oracle for one generated row; `n` = 1-based coded-fragment number
fn oracle(which: &str, m_cap: u32, n: u64, row: &Row, ffr_applies: bool, o: &mut Out) {
    let raw = row.as_raw_slice();
    let nbytes = (m_cap as usize + 7) / 8;
    let pop: usize = row.count_ones();
    // never addresses a fragment >= M
    if let Some(i) = row.iter_ones().find(|i| *i >= m_cap as usize) {
        o.fail("C10", format!("{} M={} N={} [{}]: bit {} >= M is set", which, m_cap, n, cfg_name(), i));
    }
    if m_cap >= 2 && pop == 0 {
        o.fail("C10", format!("{} M={} N={} [{}]: empty row", which, m_cap, n, cfg_name()));
    }
    if ffr_applies {
        if pop != (m_cap / 2) as usize {
            o.fail("C10", format!("{} M={} N={} [ffr]: popcount {} != M/2 = {}", which, m_cap, n, pop, m_cap / 2));
        }
        // the row must still be drawn from the TS004 sequence: every TS004 row bit set before the first
        // duplicate is also set here; cheap necessary condition: TS004 row is a subset
        if 1 + 1001 * n < (1u64 << 32) {
            if let Some(line) = ts004_matrix_line(n, m_cap as u64) {
                let want = bits_to_bytes(&line, nbytes);
                if want.iter().zip(raw.iter()).any(|(w, g)| w & !g != 0) {
                    o.fail("C10", format!("{} M={} N={} [ffr]: TS004 row is not a subset of the force-full-r row", which, m_cap, n));
                }
            }
        }
    } else if 1 + 1001 * n < (1u64 << 32) {
        match ts004_matrix_line(n, m_cap as u64) {
            None => o.fail("C10", format!("reference did not terminate M={} N={}", m_cap, n)),
            Some(line) => {
                let want = bits_to_bytes(&line, nbytes);
                if want[..] != raw[..nbytes] {
                    let at = want.iter().zip(raw.iter()).position(|(a, b)| a != b).unwrap_or(0);
                    o.fail("C10", format!("{} M={} N={} [{}]: row differs from TS004 matrix_line at byte {}: want {:02x} got {:02x}",
                        which, m_cap, n, cfg_name(), at, want[at], raw[at]));
                }
            }
        }
    }
}

fn answer(which: &str, m_cap: u32, arg: u64, o: &mut Out, stats: bool) -> String {
    match call(which, m_cap, arg) {
        Err(e) => {
            let coded_n = if which == "lfdbt" { arg.saturating_sub(m_cap as u64) } else { arg };
            if (1..=BITS as u32).contains(&m_cap) && coded_n >= 1 {
                o.fail("C10", format!("{} M={} N={} [{}]: panicked: {}", which, m_cap, coded_n, cfg_name(), e));
            }
            "PANIC".into()
        }
        Ok(row) => {
            let nbytes = (m_cap as usize + 7) / 8;
            // which (M, N) does this call stand for?
            let (is_coded, n) = if which == "lfdbt" {
                (arg >= m_cap as u64, arg.wrapping_sub(m_cap as u64))
            } else {
                (true, arg)
            };
            if is_coded && n >= 1 {
                let ffr_applies = cfg!(feature = "ffr") && which != "lfdbt";
                oracle(which, m_cap, n, &row, ffr_applies, o);
                if stats {
                    let pop = row.count_ones() as u64;
                    if m_cap >= 2 {
                        let q = (8 * pop / (m_cap as u64 / 2).max(1)).min(8);
                        o.stat(&format!("row-weight-eighths-of-M/2:{}", q));
                    }
                }
            } else if which == "lfdbt" && !is_coded {
                // identity rows
                if row.count_ones() != 1 || !row[arg as usize] {
                    o.fail("C10", format!("lfdbt M={} m={}: data row is not the unit row", m_cap, arg));
                }
            }
            hex(&row.as_raw_slice()[..nbytes])
        }
    }
}

fn push3(q: &mut Vec<String>, m: u64, n: u64, o: &mut Out) {
    let c = cfg_name();
    q.push(format!("row new {} {} {}", m, n, c));
    q.push(format!("row orig {} {} {}", m, n, c));
    q.push(format!("row lfdbt {} {}", m, m + n));
    o.stat(if m.is_power_of_two() { "pairs-M-power-of-two" } else { "pairs-M-other" });
    o.stat(match m { 0..=64 => "pairs-M<=64", 65..=512 => "pairs-M<=512", 513..=4096 => "pairs-M<=4096", _ => "pairs-M<=16384" });
}

/// generator: query lines only
pub fn gen(seed: u64, thorough: bool, o: &mut Out) -> Vec<String> {
    let mut q: Vec<String> = vec![];
    let mut rng = Rng::new(seed ^ 0xD2);
    let c = cfg_name();
    // 1. exhaustive small grid
    let (gm, gn) = if thorough { (512u64, 128u64) } else { (64, 64) };
    for m in 1..=gm {
        for n in 1..=gn {
            push3(&mut q, m, n, o);
        }
        // identity rows of the lfdbt matrix
        for i in [0, m / 2, m - 1] {
            q.push(format!("row lfdbt {} {}", m, i));
        }
    }
    // 2. random pairs over the whole range (biased towards powers of two and their neighbours)
    let nr = if thorough { 3000 } else { 670 };
    for i in 0..nr {
        let m = match i % 5 {
            0 => 1u64 << rng.range(1, 14),
            1 => (((1u64 << rng.range(2, 14)) as i64 + [-1i64, 1][rng.below(2) as usize]) as u64).min(16384),
            _ => rng.range(1, 16384),
        };
        let n = if i % 7 == 0 { *rng.pick(&[1u64, 2, 16383]) } else { rng.range(1, 16383) };
        push3(&mut q, m, n, o);
        if i < 2 {
            o.sample(format!("row new {} {} {}", m, n, c));
        }
    }
    // 2b. force-full-r: the rows that need the most PRBS draws (M with many factors of 2 correlate with the LFSR);
    //     for each such M the coded-fragment numbers with the highest draw counts, found with the independent generator
    if cfg!(feature = "ffr") {
        let ms: Vec<u64> = if thorough { (1..=40u64).map(|i| 32 * i).chain([68, 100, 136, 1536, 2048, 4096]).collect() } else { vec![64, 68, 96, 128, 192, 256, 288, 320, 384, 512] };
        for m in ms {
            let step = if thorough || m <= 320 { 1 } else { 3 };
            let mut best: Vec<(usize, u64)> = vec![];
            let mut n = 1u64;
            while n <= 16383 {
                if let Some(d) = crate::rows::ffr_draws(n as u32, m as usize) {
                    best.push((d, n));
                }
                n += step;
            }
            best.sort();
            best.reverse();
            for (_, n) in best.iter().take(if thorough { 6 } else { 3 }) {
                push3(&mut q, m, *n, o);
                o.stat("ffr-most-draws-queries");
            }
        }
    }
    // 3. edges: the asserts, M = 0, the largest geometry, u32 wrap-around of the seed (std only:
    //    with force-full-r the wrapped seed 0 (N = 1240005543) never yields a second distinct draw and the call hangs)
    for (m, n) in [(0u64, 1u64), (1, 1), (16384, 1), (16384, 16383), (16383, 16383), (16385, 1), (5, 0), (16, 0), (20000, 3)] {
        q.push(format!("row new {} {} {}", m, n, c));
        q.push(format!("row orig {} {} {}", m, n, c));
        o.stat("edge-queries");
    }
    q.push("row lfdbt 0 0".into());
    q.push("row lfdbt 0 5".into());
    q.push("row lfdbt 1 1".into());
    q.push("row lfdbt 16384 32767".into());
    if !cfg!(feature = "ffr") {
        for n in [1240005543u64, 4290677, 4290676, 0xFFFF_FFFF, 0x8000_0000, 1240005542, 1240005544] {
            for m in [2u64, 3, 16, 21, 64, 1000] {
                q.push(format!("row new {} {} {}", m, n, c));
                q.push(format!("row orig {} {} {}", m, n, c));
                o.stat("seed-wrap-queries");
            }
        }
        for _ in 0..40 {
            let n = rng.next() as u32 as u64;
            let m = rng.range(1, 600);
            if n != 0 {
                q.push(format!("row new {} {} {}", m, n, c));
                q.push(format!("row lfdbt {} {}", m, m + n));
                o.stat("seed-wrap-queries");
            }
        }
    }
    // 4. thorough: every M with 8 values of N on the implementation (oracle-only), one of them through the model
    if thorough {
        for m in 1..=16384u64 {
            let ns = [1u64, 2, 3, 1 + m % 97, 255 + m % 1000, 4096 + (m * 7) % 4096, 16382 - m % 5, 16383];
            for n in ns {
                q.push(format!("!sweep {} {}", m, n));
            }
            let n = ns[(m % 8) as usize];
            match m % 3 {
                0 => q.push(format!("row new {} {} {}", m, n, c)),
                1 => q.push(format!("row orig {} {} {}", m, n, c)),
                _ => q.push(format!("row lfdbt {} {}", m, m + n)),
            }
            o.stat("sweep-M");
        }
    }
    q
}

pub fn exec(line: &str, o: &mut Out) -> String {
    let t: Vec<&str> = line.split(' ').collect();
    let num = |i: usize| -> u64 { t.get(i).and_then(|s| s.parse().ok()).unwrap_or(0) };
    match (t[0], t.get(1).copied().unwrap_or("")) {
        ("row", w @ ("new" | "orig")) => {
            if t.get(4).copied() != Some(cfg_name()) {
                return format!("WRONG-CFG built={}", cfg_name());
            }
            o.stat(&format!("queries-{}", w));
            answer(w, num(2) as u32, num(3), o, true)
        }
        ("row", "lfdbt") => {
            o.stat("queries-lfdbt");
            answer("lfdbt", num(2) as u32, num(3), o, false)
        }
        ("!sweep", _) => {
            let (m, n) = (num(1), num(2));
            for w in ["new", "orig"] {
                let _ = answer(w, m as u32, n, o, false);
            }
            let _ = answer("lfdbt", m as u32, m + n, o, false);
            o.stat_n("sweep-rows", 3);
            "-".into()
        }
        _ => "bad-op".into(),
    }
}
