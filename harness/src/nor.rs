//! Byte-accurate NOR simulator: AND-programming, per-block erase, op log, crash / torn / fault injection.
//! Implements the `SpiFlash` trait of both flash crates.

#[derive(Clone, Debug, PartialEq)]
pub enum Op {
    Erase(usize),
    Write(usize, Vec<u8>),
}

#[derive(Debug, PartialEq, Clone, Copy)]
pub enum E {
    Crash,
    Fault,
}

#[derive(Clone, Copy, Debug, PartialEq)]
pub struct Tear {
    /// number of bytes fully programmed
    pub prefix: usize,
    /// byte `prefix` is programmed with `old & (new | keep)`: `keep` = bits NOT yet cleared
    pub keep: u8,
}

#[derive(Clone)]
pub struct Nor {
    pub mem: Vec<u8>,
    pub block: usize,
    /// mutating operations that took effect (a torn op is logged with what was programmed)
    pub log: Vec<Op>,
    /// crash before the mutating op with this index (counted from `arm`), optional tear of that op
    pub crash_at: Option<(usize, Option<Tear>)>,
    pub dead: bool,
    /// transient fault on the op (reads + mutations) with this index, once, no effect on the medium
    pub fail_at: Option<usize>,
    /// transient fault on the mutating op with this index (counted from arm), once
    pub fail_mut_at: Option<usize>,
    pub opcount: usize,
    pub mutcount: usize,
    pub reads: usize,
    /// programs that would have needed a 0 -> 1 transition
    pub needs_set: usize,
    /// accesses outside the device
    pub oob: usize,
    pub faults_fired: usize,
    /// address of the first read since `arm` (used to observe which slot a returned `Slot` handle refers to)
    pub first_read: Option<usize>,
}

impl Nor {
    pub fn new(block: usize, total: usize) -> Self {
        Nor {
            mem: vec![0xFF; total],
            block,
            log: vec![],
            crash_at: None,
            dead: false,
            fail_at: None,
            fail_mut_at: None,
            opcount: 0,
            mutcount: 0,
            reads: 0,
            needs_set: 0,
            oob: 0,
            faults_fired: 0,
            first_read: None,
        }
    }
    /// reset counters and log; injection indices are relative to this point
    pub fn arm(&mut self) {
        self.log.clear();
        self.opcount = 0;
        self.mutcount = 0;
        self.reads = 0;
        self.needs_set = 0;
        self.first_read = None;
    }
    pub fn reboot(&mut self) {
        self.dead = false;
        self.crash_at = None;
        self.fail_at = None;
        self.fail_mut_at = None;
    }
    fn tick(&mut self) -> Result<(), E> {
        if self.dead {
            return Err(E::Crash);
        }
        let i = self.opcount;
        self.opcount += 1;
        if self.fail_at == Some(i) {
            self.fail_at = None;
            self.faults_fired += 1;
            return Err(E::Fault);
        }
        Ok(())
    }
    /// returns Ok(None) = go ahead, Ok(Some(tear)) = apply torn then die, Err = die/fault now
    fn mutate(&mut self) -> Result<Option<Tear>, E> {
        let i = self.mutcount;
        if let Some((k, tear)) = self.crash_at {
            if i == k {
                self.dead = true;
                return match tear {
                    None => Err(E::Crash),
                    Some(t) => Ok(Some(t)),
                };
            }
        }
        if self.fail_mut_at == Some(i) {
            self.fail_mut_at = None;
            self.faults_fired += 1;
            return Err(E::Fault);
        }
        self.mutcount += 1;
        Ok(None)
    }
    pub fn do_erase(&mut self, a: usize) -> Result<(), NorErr> {
        self.tick().map_err(NorErr::Custom)?;
        if a % self.block != 0 {
            return Err(NorErr::Unaligned);
        }
        if a + self.block > self.mem.len() {
            self.oob += 1;
            return Err(NorErr::Oob);
        }
        match self.mutate().map_err(NorErr::Custom)? {
            None => {}
            Some(_) => return Err(NorErr::Custom(E::Crash)), // erase is atomic: torn erase = no erase
        }
        self.log.push(Op::Erase(a));
        for b in &mut self.mem[a..a + self.block] {
            *b = 0xFF;
        }
        Ok(())
    }
    pub fn do_read(&mut self, a: usize, buf: &mut [u8]) -> Result<(), NorErr> {
        self.tick().map_err(NorErr::Custom)?;
        self.reads += 1;
        if self.first_read.is_none() {
            self.first_read = Some(a);
        }
        if a.checked_add(buf.len()).map(|e| e > self.mem.len()).unwrap_or(true) {
            // a refused read is not an access; only mutating requests beyond the device are counted
            return Err(NorErr::Oob);
        }
        buf.copy_from_slice(&self.mem[a..a + buf.len()]);
        Ok(())
    }
    pub fn do_write(&mut self, a: usize, buf: &[u8]) -> Result<(), NorErr> {
        self.tick().map_err(NorErr::Custom)?;
        if a.checked_add(buf.len()).map(|e| e > self.mem.len()).unwrap_or(true) {
            self.oob += 1;
            return Err(NorErr::Oob);
        }
        match self.mutate().map_err(NorErr::Custom)? {
            None => {
                self.log.push(Op::Write(a, buf.to_vec()));
                let mut ns = false;
                for (m, b) in self.mem[a..a + buf.len()].iter_mut().zip(buf) {
                    if (*m & *b) != *b {
                        ns = true;
                    }
                    *m &= *b;
                }
                if ns {
                    self.needs_set += 1;
                }
                Ok(())
            }
            Some(t) => {
                let mut eff = vec![];
                for (i, b) in buf.iter().enumerate() {
                    let v = if i < t.prefix {
                        *b
                    } else if i == t.prefix {
                        *b | t.keep
                    } else {
                        break;
                    };
                    eff.push(v);
                }
                for (m, b) in self.mem[a..a + eff.len()].iter_mut().zip(&eff) {
                    *m &= *b;
                }
                self.log.push(Op::Write(a, eff));
                Err(NorErr::Custom(E::Crash))
            }
        }
    }
    pub fn word(&self, a: usize) -> u32 {
        u32::from_le_bytes([self.mem[a], self.mem[a + 1], self.mem[a + 2], self.mem[a + 3]])
    }
    pub fn put_word(&mut self, a: usize, v: u32) {
        self.mem[a..a + 4].copy_from_slice(&v.to_le_bytes());
    }
}

pub enum NorErr {
    Unaligned,
    Oob,
    Custom(E),
}

macro_rules! impl_spi {
    ($krate:ident) => {
        impl $krate::spi_flash::SpiFlash for Nor {
            type Error = E;
            fn total_size(&self) -> usize {
                self.mem.len()
            }
            fn block_size(&self) -> usize {
                self.block
            }
            async fn erase_block(&mut self, a: usize) -> Result<(), $krate::spi_flash::SpiFlashError<E>> {
                self.do_erase(a).map_err(|e| match e {
                    NorErr::Unaligned => $krate::spi_flash::SpiFlashError::UnalignedAccess,
                    NorErr::Oob => $krate::spi_flash::SpiFlashError::OutOfBounds,
                    NorErr::Custom(c) => $krate::spi_flash::SpiFlashError::Custom(c),
                })
            }
            async fn erase_all(&mut self) -> Result<(), $krate::spi_flash::SpiFlashError<E>> {
                for b in &mut self.mem {
                    *b = 0xFF;
                }
                Ok(())
            }
            async fn read_to(&mut self, a: usize, buf: &mut [u8]) -> Result<(), $krate::spi_flash::SpiFlashError<E>> {
                self.do_read(a, buf).map_err(|e| match e {
                    NorErr::Unaligned => $krate::spi_flash::SpiFlashError::UnalignedAccess,
                    NorErr::Oob => $krate::spi_flash::SpiFlashError::OutOfBounds,
                    NorErr::Custom(c) => $krate::spi_flash::SpiFlashError::Custom(c),
                })
            }
            async fn write_from(&mut self, a: usize, buf: &[u8]) -> Result<(), $krate::spi_flash::SpiFlashError<E>> {
                self.do_write(a, buf).map_err(|e| match e {
                    NorErr::Unaligned => $krate::spi_flash::SpiFlashError::UnalignedAccess,
                    NorErr::Oob => $krate::spi_flash::SpiFlashError::OutOfBounds,
                    NorErr::Custom(c) => $krate::spi_flash::SpiFlashError::Custom(c),
                })
            }
        }
    };
}
impl_spi!(flash_algo_new);
impl_spi!(original_flash_algo);
