//! D5/D6: `SlotManager` + `Updater` of flash-algo-new on the NOR simulator.
//! One executor for sessions (start / fragments / check), crash, torn and fault injection, reboot + recovery,
//! cancel, status marks and the query calls. Generators live in d5gen.rs.
use crate::nor::{Nor, Op, Tear};
use crate::util::*;
use flash_algo_new::manager::{BlBootStatus, ManagerError, ScratchRam, SlotManager};
use flash_algo_new::spi_flash::SpiFlashError;
use flash_algo_new::update::{SegmentOutcome, Updater};

pub enum Mgr {
    M4(SlotManager<4>),
    M5(SlotManager<5>),
    M6(SlotManager<6>),
}
macro_rules! mgr {
    ($s:expr, $m:ident => $e:expr) => {
        match $s {
            Mgr::M4($m) => $e,
            Mgr::M5($m) => $e,
            Mgr::M6($m) => $e,
        }
    };
}

pub fn merr<E: std::fmt::Debug>(e: &ManagerError<E>) -> String {
    match e {
        ManagerError::Spi(SpiFlashError::UnalignedAccess) => "Spi(Unaligned)".into(),
        ManagerError::Spi(SpiFlashError::OutOfBounds) => "Spi(OutOfBounds)".into(),
        ManagerError::Spi(SpiFlashError::HardwareFailure) => "Spi(HardwareFailure)".into(),
        ManagerError::Spi(SpiFlashError::Custom(_)) => "Spi(Custom)".into(),
        ManagerError::Spi(SpiFlashError::LogicError) => "Spi(LogicError)".into(),
        ManagerError::FlashRepr(_) => "FlashRepr".into(),
        ManagerError::Fatal => "Fatal".into(),
        ManagerError::UnexpectedMissingHeader => "UnexpectedMissingHeader".into(),
        ManagerError::SegmentCountMismatch => "SegmentCountMismatch".into(),
        ManagerError::SegmentSizeMismatch => "SegmentSizeMismatch".into(),
        ManagerError::TooManySegments => "TooManySegments".into(),
        ManagerError::SegmentsTooLarge => "SegmentsTooLarge".into(),
        ManagerError::Crc32Mismatch => "Crc32Mismatch".into(),
        ManagerError::CheckFailNotDone => "CheckFailNotDone".into(),
        ManagerError::CheckFailNotFirmware => "CheckFailNotFirmware".into(),
    }
}

pub struct Exec {
    pub f: Nor,
    pub s: Box<ScratchRam>,
    pub m: Mgr,
    pub nslots: usize,
    pub slot: usize,
    pub u: Option<Updater>,
    /// slots of the live session (firmware, parity), learnt from the ops of `start`
    pub sess: Option<(usize, usize)>,
    pub image: Vec<u8>,
    pub sz: usize,
    pub n: usize,
    pub last_recv: Option<u32>,
    pub crashed: bool,
    pub faulted: bool,
    pub complete_seen: bool,
    /// per slot: id of the start attempt that last wrote its header (chimera detection), 0 = none
    pub owner: Vec<u32>,
    pub attempt: u32,
    /// outcomes of the reference (uninterrupted) run for twin comparisons
    pub base: Vec<String>,
    pub recording_base: bool,
    pub variant_pos: usize,
    pub in_variant: bool,
    pub variant_key: String,
    pub variant_prop: String,
    /// counters just before the last reboot (C07)
    pub pre_reboot: Option<String>,
    /// a session was successfully started and neither completed (marked) nor cancelled
    pub started_ok: bool,
    /// lifecycle oracle (C12): per slot
    pub life: Vec<Life>,
    pub confirm_clock: u32,
    /// firmware slot of the last session (C04 image comparison)
    pub last_fw: Option<usize>,
    /// flash contents were written directly by the scenario (arbitrary-flash scenarios)
    pub crafted: bool,
    /// the interrupted final mark had already completed the firmware slot (C06: nothing left to resume)
    pub completed_by_mark: bool,
    /// session-level rank oracle (C15: completion exactly at full rank; refusal above the capacity)
    pub rk: Option<RankOracle>,
}

pub struct RankOracle {
    pub n: usize,
    pub maxl: usize,
    pub rx: Vec<bool>,
    pub st2: bool,
    pub unk: Vec<usize>,
    pub gf: crate::d1::Gf2,
    pub done: bool,
}
impl RankOracle {
    fn words(bits: &[bool]) -> Vec<u64> {
        let mut w = vec![0u64; bits.len() / 64 + 1];
        for (i, b) in bits.iter().enumerate() {
            if *b {
                w[i / 64] |= 1 << (i % 64);
            }
        }
        w
    }
    /// feed one accepted-or-refused delivery; returns Some(expected completion) or None when the oracle cannot judge
    pub fn deliver(&mut self, idx1: u32) -> Option<bool> {
        if idx1 == 0 {
            return Some(self.done);
        }
        if self.done {
            return Some(true);
        }
        let n = self.n;
        let row: Vec<bool> = if idx1 as usize <= n {
            (0..n).map(|i| i + 1 == idx1 as usize).collect()
        } else {
            crate::rows::parity_row(idx1 - n as u32, n, crate::rows::ffr())?
        };
        if !self.st2 {
            if idx1 as usize <= n {
                self.rx[idx1 as usize - 1] = true;
            } else {
                let unknown = self.rx.iter().filter(|b| !**b).count();
                if unknown > self.maxl.min(2048) {
                    return Some(false); // refused: no effect
                }
                self.st2 = true;
                self.unk = (0..n).filter(|i| !self.rx[*i]).collect();
                self.gf = crate::d1::Gf2::new(self.unk.len());
            }
        }
        if self.st2 {
            let red: Vec<bool> = self.unk.iter().map(|i| row[*i]).collect();
            self.gf.add(Self::words(&red));
        }
        let full = if self.st2 { self.gf.rank() == self.unk.len() } else { self.rx.iter().all(|b| *b) };
        if full {
            self.done = true;
        }
        Some(full)
    }
}

#[derive(Clone, Copy, Debug, PartialEq)]
pub enum Life {
    None,
    InProgress,
    Aborted,
    CopyPending,
    AckPending,
    Confirmed(u32),
    Rejected,
}

pub fn ops_str(f: &Nor, slot: usize) -> String {
    if f.log.is_empty() {
        return "-".into();
    }
    f.log
        .iter()
        .map(|o| match o {
            Op::Erase(a) => format!("E{}+{}", a / slot, a % slot),
            Op::Write(a, d) => {
                if d.len() <= 8 {
                    format!("W{}+{}:{}", a / slot, a % slot, hex(d))
                } else {
                    format!("W{}+{}:{}#{:016x}", a / slot, a % slot, d.len(), fnv(d))
                }
            }
        })
        .collect::<Vec<_>>()
        .join(",")
}

impl Exec {
    pub fn new() -> Self {
        Exec {
            f: Nor::new(4096, 4 * 20480),
            s: Box::new(ScratchRam::new()),
            m: Mgr::M4(SlotManager::<4>::new(20480)),
            nslots: 4,
            slot: 20480,
            u: None,
            sess: None,
            image: vec![],
            sz: 0,
            n: 0,
            last_recv: None,
            crashed: false,
            faulted: false,
            complete_seen: false,
            owner: vec![0; 4],
            attempt: 0,
            base: vec![],
            recording_base: false,
            variant_pos: 0,
            in_variant: false,
            variant_key: String::new(),
            variant_prop: String::new(),
            pre_reboot: None,
            started_ok: false,
            life: vec![Life::None; 4],
            confirm_clock: 0,
            last_fw: None,
            crafted: false,
            completed_by_mark: false,
            rk: None,
        }
    }

    /// lifecycle oracle: slots erased by the logged operations lose their image
    fn life_apply_erases(&mut self) {
        for op in &self.f.log {
            if let Op::Erase(a) = op {
                let sl = a / self.slot;
                if sl < self.nslots && a % self.slot == 0 {
                    self.life[sl] = Life::None;
                }
            }
        }
    }
    fn life_expect_bl(&self) -> String {
        for (i, l) in self.life.iter().enumerate() {
            match l {
                Life::CopyPending => return format!("Copy({})", i),
                Life::AckPending => return format!("Unack({})", i),
                _ => {}
            }
        }
        "Idle".into()
    }
    fn life_expect_fb(&self) -> String {
        let mut best: Option<(u32, usize)> = None;
        for (i, l) in self.life.iter().enumerate() {
            if let Life::Confirmed(c) = l {
                if best.map(|b| b.0 < *c).unwrap_or(true) {
                    best = Some((*c, i));
                }
            }
        }
        match best {
            Some((_, i)) => format!("Some({})", i),
            None => "None".into(),
        }
    }
    fn pending_count(&self) -> usize {
        self.life.iter().filter(|l| matches!(l, Life::CopyPending | Life::AckPending)).count()
    }

    fn hdr_words(&self, slot: usize) -> [u32; 7] {
        let mut w = [0u32; 7];
        for i in 0..7 {
            w[i] = self.f.word(slot * self.slot + 4 * i);
        }
        w
    }

    /// C08 oracle on the ops of one API call. `session_only`: ops must fall into the session's two slots.
    fn check_ops(&mut self, what: &str, session_only: bool, o: &mut Out) {
        let slot = self.slot;
        for op in self.f.log.clone() {
            let (a, len) = match &op {
                Op::Erase(a) => (*a, self.f.block),
                Op::Write(a, d) => (*a, d.len()),
            };
            if len == 0 {
                continue;
            }
            let s0 = a / slot;
            let s1 = (a + len - 1) / slot;
            if s0 != s1 || s1 >= self.nslots {
                o.fail("C08", format!("{}: operation at {:#x} len {} is not inside one slot", what, a, len));
            }
            if session_only {
                if let Some((fw, par)) = self.sess {
                    if s0 != fw && s0 != par {
                        o.fail("C08", format!("{}: operation at slot {} outside the session's slots ({}, {})", what, s0, fw, par));
                    }
                }
            }
            if let Op::Write(a, d) = &op {
                let off = a % slot;
                if off < 0x400 && !(d.len() == 4 && off % 4 == 0 && off <= 24) && !(self.crashed) {
                    o.fail("C08", format!("{}: program of {} bytes at header-area offset {:#x}", what, d.len(), off));
                }
            }
        }
        if !self.crashed && !self.faulted && self.f.needs_set != 0 {
            o.fail("C08", format!("{}: {} program operation(s) needed a 0 -> 1 transition in a crash-free run", what, self.f.needs_set));
        }
        if self.f.oob != 0 {
            o.fail("C17", format!("{}: {} access(es) outside the device", what, self.f.oob));
            self.f.oob = 0;
        }
    }

    fn counters(&self) -> String {
        match &self.u {
            None => "recv=- ; total=- ; complete=- ; rem=-".into(),
            Some(u) => {
                let r = guarded(|| (u.received_firmware_segments(), u.total_firmware_segments(), u.is_complete()));
                let rem = guarded(|| u.remaining_firmware_segments()).map(|v| v.to_string()).unwrap_or("PANIC".into());
                match r {
                    Ok((r, t, c)) => format!("recv={} ; total={} ; complete={} ; rem={}", r, t, c, rem),
                    Err(_) => "recv=PANIC ; total=- ; complete=- ; rem=-".into(),
                }
            }
        }
    }

    /// record / compare against the reference run (twin scenarios)
    fn twin(&mut self, tag: &str, outcome: &str, o: &mut Out) {
        if self.recording_base {
            self.base.push(format!("{} {}", tag, outcome));
        } else if self.in_variant && self.variant_prop == "C07" {
            let want = self.base.get(self.variant_pos).cloned();
            let got = format!("{} {}", tag, outcome);
            if want.as_deref() != Some(&got) {
                let (p, k) = (self.variant_prop.clone(), self.variant_key.clone());
                o.fail_key(&p, &k, format!("twin run diverges at step {}: uninterrupted run gave {:?}, this run gave {:?}", self.variant_pos, want, got));
                self.in_variant = false; // report once
            }
            self.variant_pos += 1;
        }
    }

    pub fn line(&mut self, line: &str, o: &mut Out) -> String {
        tick_gen(line);
        let t: Vec<&str> = line.split(' ').collect();
        match t[0] {
            "new" => {
                // new dev <nslots> <slot> <block>
                self.nslots = t[2].parse().unwrap();
                self.slot = t[3].parse().unwrap();
                let block: usize = t[4].parse().unwrap();
                self.f = Nor::new(block, self.nslots * self.slot);
                self.m = match self.nslots {
                    4 => Mgr::M4(SlotManager::<4>::new(self.slot)),
                    5 => Mgr::M5(SlotManager::<5>::new(self.slot)),
                    _ => Mgr::M6(SlotManager::<6>::new(self.slot)),
                };
                self.u = None;
                self.sess = None;
                self.image = vec![];
                self.last_recv = None;
                self.crashed = false;
                self.faulted = false;
                self.complete_seen = false;
                self.owner = vec![0; self.nslots];
                self.attempt = 0;
                self.in_variant = false;
                self.recording_base = false;
                self.pre_reboot = None;
                self.started_ok = false;
                self.life = vec![Life::None; self.nslots];
                self.confirm_clock = 0;
                self.last_fw = None;
                self.crafted = false;
                self.completed_by_mark = false;
                self.rk = None;
                o.stat("scenarios");
                "ok".into()
            }
            "base" => {
                // base begin | base end : record the outcomes of the uninterrupted run
                self.recording_base = t[1] == "begin";
                if self.recording_base {
                    self.base.clear();
                }
                "ok".into()
            }
            "variant" => {
                // variant <property> <key> : compare the following outcomes with the recorded base
                self.in_variant = true;
                self.variant_pos = 0;
                self.variant_prop = t[1].to_string();
                self.variant_key = t[2].to_string();
                "ok".into()
            }
            "skipbase" => {
                // the interrupted fragment is lost: skip one recorded outcome
                self.variant_pos += t[1].parse::<usize>().unwrap();
                "ok".into()
            }
            "image" => {
                self.sz = t[1].parse().unwrap();
                self.n = t[2].parse().unwrap();
                self.image = unhex(t[3]);
                "ok".into()
            }
            "poke" => {
                // poke <addr> <hex> : raw flash contents (corrupt / crafted flash scenarios)
                let a: usize = t[1].parse().unwrap();
                let d = unhex(t[2]);
                self.f.mem[a..a + d.len()].copy_from_slice(&d);
                self.crafted = true;
                "ok".into()
            }
            "fill" => {
                // fill <addr> <len> <seed> : pseudo-random bytes
                let a: usize = t[1].parse().unwrap();
                let len: usize = t[2].parse().unwrap();
                let mut r = Rng::new(t[3].parse().unwrap());
                for b in &mut self.f.mem[a..a + len] {
                    *b = r.next() as u8;
                }
                self.crafted = true;
                "ok".into()
            }
            "crash" => {
                // crash <k> [<prefix> <keep>] : power is lost before (or while, torn) the k-th mutating op from now
                let k: usize = t[1].parse().unwrap();
                let tear = if t.len() >= 4 { Some(Tear { prefix: t[2].parse().unwrap(), keep: t[3].parse().unwrap() }) } else { None };
                self.f.arm();
                self.f.crash_at = Some((k, tear));
                "ok".into()
            }
            "fault" => {
                let k: usize = t[1].parse().unwrap();
                self.f.arm();
                self.f.fail_mut_at = Some(k);
                "ok".into()
            }
            "!faultop" => {
                let k: usize = t[1].parse().unwrap();
                self.f.arm();
                self.f.fail_at = Some(k);
                "-".into()
            }
            "reboot" => {
                self.pre_reboot = if self.u.is_some() && !self.crashed && !self.faulted { Some(self.counters()) } else { None };
                self.u = None;
                self.f.reboot();
                self.last_recv = None;
                "ok".into()
            }
            "start" => {
                let sz: u32 = t[1].parse().unwrap();
                let n: u32 = t[2].parse().unwrap();
                self.u = None;
                let armed = self.f.crash_at.is_some() || self.f.fail_mut_at.is_some() || self.f.fail_at.is_some();
                if !armed {
                    self.f.arm();
                }
                // C05: the newest confirmed image (lifecycle oracle) and its validity before the start
                let fb_before = self.life_expect_fb();
                let fb_slot: Option<usize> = fb_before.strip_prefix("Some(").map(|x| x.trim_end_matches(')').parse().unwrap());
                let fb_bytes: Option<Vec<u8>> = fb_slot.map(|i| self.f.mem[i * self.slot..(i + 1) * self.slot].to_vec());
                let r = {
                    let (f, s) = (&mut self.f, &mut *self.s);
                    guarded(|| mgr!(&mut self.m, m => block_on(m.start_update(f, s, sz, n))))
                };
                if let (Some(i), Some(b)) = (fb_slot, &fb_bytes) {
                    if self.nslots >= 4 && &self.f.mem[i * self.slot..(i + 1) * self.slot] != &b[..] {
                        o.fail_key("C05", "start-modified-fallback", format!("start_update({}, {}) erased or modified slot {} which holds the most recently confirmed firmware", sz, n, i));
                    }
                }
                self.life_apply_erases();
                self.started_ok = matches!(&r, Ok(Ok(_)));
                if self.f.dead {
                    self.crashed = true;
                }
                if self.f.faults_fired > 0 {
                    self.faulted = true;
                }
                let res = match &r {
                    Err(_) => "PANIC".to_string(),
                    Ok(Ok(_)) => "Ok".into(),
                    Ok(Err(e)) => format!("Err({})", merr(e)),
                };
                // slots touched by this start (from the erase ops)
                let mut touched: Vec<usize> = vec![];
                for op in &self.f.log {
                    let a = match op { Op::Erase(a) => *a, Op::Write(a, _) => *a };
                    let sl = a / self.slot;
                    if !touched.contains(&sl) {
                        touched.push(sl);
                    }
                }
                self.attempt += 1;
                for sl in &touched {
                    if *sl < self.nslots {
                        self.owner[*sl] = self.attempt;
                    }
                }
                let ops = ops_str(&self.f, self.slot);
                // C15 oracle: accept iff representable and fitting; an error touches nothing; never panics
                let legal = sz >= 1 && sz <= 256 && n >= 1 && n <= 16384 && (sz as u64 * n as u64) <= (self.slot as u64 - 0x4400);
                if !armed {
                    match &r {
                        Err(_) => o.fail_key("C15", &format!("start-panic sz={} n={}", if sz == 0 { "0".into() } else { "x".to_string() }, if n == 0 { "0" } else if n > 16384 { ">16384" } else { "x" }), format!("start_update({}, {}) panicked", sz, n)),
                        Ok(Ok(_)) if !legal => o.fail_key("C15", &format!("accepted-illegal {}", if sz == 0 { "size=0" } else if n == 0 { "count=0" } else if n > 16384 { "count>16384" } else { "other" }), format!("start_update({}, {}) accepted on slot size {}", sz, n, self.slot)),
                        Ok(Err(e)) if legal => o.fail("C15", format!("start_update({}, {}) rejected ({}) although it fits slot size {}", sz, n, merr(e), self.slot)),
                        Ok(Err(_)) if !self.f.log.is_empty() => o.fail("C15", format!("start_update({}, {}) failed after {} flash modification(s)", sz, n, self.f.log.len())),
                        _ => {}
                    }
                }
                if matches!(&r, Err(_)) {
                    o.fail_key("C17", "start-panic", format!("start_update({}, {}) panicked", sz, n));
                }
                let mut extra = String::new();
                if let Ok(Ok(u)) = r {
                    self.u = Some(u);
                    if touched.len() == 2 {
                        // firmware slot = the one whose kind word reads 0
                        let (a, b) = (touched[0], touched[1]);
                        let fw = if self.f.word(a * self.slot) == 0 { a } else { b };
                        let par = if fw == a { b } else { a };
                        self.sess = Some((fw, par));
                        self.last_fw = Some(fw);
                        self.life[fw] = Life::InProgress;
                        self.life[par] = Life::None;
                        let maxl = self.f.word(par * self.slot + 12) as usize;
                        // C15: the capacity delivered is at least the documented one
                        let (szz, room) = (sz as usize, self.slot);
                        let mut doc = 0usize;
                        for l in 0..2048usize {
                            if 17408 + l * szz + 4 * (l / 8) * (l / 8 + 1) + (l % 8) * (l / 8 + 1) < room {
                                doc = l;
                            }
                        }
                        let parses = (1..=16384).contains(&(maxl as u32));
                        let got = if parses { maxl } else { 0 };
                        if got < doc && !armed {
                            o.fail_key("C15", "capacity-below-documented", format!("start_update({}, {}) on slot size {}: parity capacity {} is below the documented {}", sz, n, self.slot, got, doc));
                        }
                        self.rk = if !armed && !self.crafted && parses {
                            Some(RankOracle { n: n as usize, maxl: got, rx: vec![false; n as usize], st2: false, unk: vec![], gf: crate::d1::Gf2::new(1), done: false })
                        } else {
                            None
                        };
                        extra = format!(" ; fw={} ; par={} ; maxl={}", fw, par, self.f.word(par * self.slot + 12));
                    } else {
                        o.fail("C08", format!("start_update touched {} slots: {:?}", touched.len(), touched));
                    }
                    self.complete_seen = false;
                    self.last_recv = Some(0);
                } else if touched.len() <= 2 {
                    self.sess = None;
                }
                self.check_ops("start_update", false, o);
                self.f.crash_at = None;
                self.f.fail_mut_at = None;
                self.f.fail_at = None;
                o.stat(&format!("start-{}", res.split('(').next().unwrap()));
                format!("res={} ; ops={}{}", res, ops, extra)
            }
            "seg" => {
                let idx: u32 = t[1].parse().unwrap();
                let d = unhex(t[2]);
                let Some(u) = self.u.as_mut() else { return "res=NoSession".into() };
                let armed = self.f.crash_at.is_some() || self.f.fail_mut_at.is_some() || self.f.fail_at.is_some();
                if !armed {
                    self.f.arm();
                }
                let recv_before = guarded(|| u.received_firmware_segments()).ok();
                let r = {
                    let (f, s) = (&mut self.f, &mut *self.s);
                    guarded(|| block_on(u.handle_segment(f, s, idx, &d)))
                };
                if self.f.dead {
                    self.crashed = true;
                }
                if self.f.faults_fired > 0 {
                    self.faulted = true;
                }
                let res = match &r {
                    Err(_) => "PANIC".to_string(),
                    Ok(Ok(SegmentOutcome::Consumed)) => "Consumed".into(),
                    Ok(Ok(SegmentOutcome::FirmwareComplete)) => "Complete".into(),
                    Ok(Err(e)) => format!("Err({})", merr(e)),
                };
                let ops = ops_str(&self.f, self.slot);
                let cnt = self.counters();
                // classify a faulted delivery: after the row write of the completing fragment the call is inside `finish`
                if matches!(&r, Ok(Err(_))) && self.in_variant && self.variant_prop == "C18" && self.variant_key == "fault-site=any-op" {
                    if let Some((_, par)) = self.sess {
                        let par_writes = self.f.log.iter().filter(|op| matches!(op, Op::Write(a, _) if a / self.slot == par)).count();
                        self.variant_key = if par_writes >= 2 { "fault-site=finish".into() } else { "fault-site=before-finish".into() };
                    }
                }
                // C17: out-of-range index
                if r.is_err() {
                    o.fail_key("C17", &format!("seg-panic idx={}", if idx == 0 { "0".to_string() } else if idx as usize > self.n { ">n".into() } else { "in-range".into() }), format!("handle_segment(idx={}) panicked", idx));
                }
                if idx == 0 && r.is_ok() {
                    let recv_after = guarded(|| self.u.as_ref().unwrap().received_firmware_segments()).ok();
                    if !self.f.log.is_empty() || recv_before != recv_after {
                        o.fail_key("C17", "seg-idx0-effect", format!("fragment index 0 programmed the flash ({} ops) or changed progress {:?} -> {:?}", self.f.log.len(), recv_before, recv_after));
                    }
                }
                // C01 counters: monotone, <= n, == n exactly at completion
                if let Ok(rr) = &r {
                    if let Ok(recv) = guarded(|| self.u.as_ref().unwrap().received_firmware_segments()) {
                        if !self.crashed && !self.faulted {
                            if let Some(prev) = self.last_recv {
                                if recv < prev {
                                    o.fail("C01", format!("received counter decreased {} -> {}", prev, recv));
                                }
                            }
                            if recv as usize > self.n && self.n > 0 {
                                o.fail("C01", format!("received counter {} exceeds fragment count {}", recv, self.n));
                            }
                            let complete = matches!(rr, Ok(SegmentOutcome::FirmwareComplete));
                            if self.n > 0 && complete != (recv as usize == self.n) && rr.is_ok() {
                                o.fail("C01", format!("received counter {} of {} but outcome {}", recv, self.n, res));
                            }
                        }
                        self.last_recv = Some(recv);
                    }
                    if matches!(rr, Ok(SegmentOutcome::FirmwareComplete)) {
                        self.complete_seen = true;
                    }
                }
                // C15: completion exactly at full rank (independent rows and GF(2) elimination); counters within bounds
                if self.crashed || self.faulted || armed {
                    self.rk = None;
                }
                if let (Some(rk), Ok(Ok(out))) = (self.rk.as_mut(), &r) {
                    if d.len() == self.sz || self.sz == 0 {
                        match rk.deliver(idx) {
                            None => self.rk = None,
                            Some(full) => {
                                let complete = matches!(out, SegmentOutcome::FirmwareComplete);
                                if complete != full {
                                    let msg = format!("fragment {}: outcome {} but the fragments accepted so far {} full rank over the missing blocks (capacity {})", idx, res, if full { "have" } else { "do not have" }, rk.maxl);
                                    o.fail_key("C15", "completion-vs-rank", msg);
                                    self.rk = None;
                                }
                            }
                        }
                    }
                }
                if cnt.contains("rem=PANIC") {
                    o.fail_key("C17", "remaining-counter-panic", "remaining_firmware_segments() panicked".into());
                }
                self.check_ops("handle_segment", true, o);
                self.twin("seg", &format!("{} {}", res, cnt.split(" ; ").next().unwrap_or("")), o);
                self.f.crash_at = None;
                self.f.fail_mut_at = None;
                self.f.fail_at = None;
                o.stat(&format!("seg-{}", res.split('(').next().unwrap()));
                format!("res={} ; ops={} ; {}", res, ops, cnt)
            }
            "check" => {
                let Some(u) = self.u.take() else { return "res=NoSession".into() };
                let armed = self.f.crash_at.is_some() || self.f.fail_mut_at.is_some() || self.f.fail_at.is_some();
                if !armed {
                    self.f.arm();
                }
                let r = {
                    let (f, s) = (&mut self.f, &mut *self.s);
                    guarded(|| block_on(u.check_and_mark_done(f, s)))
                };
                if self.f.dead {
                    self.crashed = true;
                }
                let res = match &r {
                    Err(_) => "PANIC".to_string(),
                    Ok(Ok(i)) => format!("Ok({})", i),
                    Ok(Err(e)) => format!("Err({})", merr(e)),
                };
                let ops = ops_str(&self.f, self.slot);
                // C14 gate: a failing check leaves the flash unmodified
                if !matches!(r, Ok(Ok(_))) && !self.f.log.is_empty() && !self.crashed {
                    o.fail("C14", format!("check_and_mark_done failed ({}) after {} flash modification(s)", res, self.f.log.len()));
                }
                self.check_ops("check_and_mark_done", true, o);
                // C01: exact image, validation, header
                if let Ok(Ok(slot)) = &r {
                    let slot = *slot;
                    if !self.image.is_empty() {
                        let base = slot * self.slot + 0x4400;
                        let got = &self.f.mem[base..base + self.image.len()];
                        let prop = if self.in_variant { self.variant_prop.clone() } else { "C01".to_string() };
                        let key = if self.in_variant { self.variant_key.clone() } else { "-".to_string() };
                        if got != &self.image[..] {
                            let at = got.iter().zip(&self.image).position(|(a, b)| a != b).unwrap();
                            o.fail_key(&prop, &key, format!("completed update: data region differs from the transmitted image at byte {} (fragment {})", at, at / self.sz.max(1)));
                        }
                        let v = {
                            let (f, s) = (&mut self.f, &mut *self.s);
                            mgr!(&self.m, m => guarded(|| block_on(m.open(slot).is_valid_firmware(f, s))))
                        };
                        if !matches!(v, Ok(Ok(()))) {
                            o.fail_key(&prop, &key, "completed update does not pass firmware validation".into());
                        }
                        let w = self.hdr_words(slot);
                        if w[0] != 0 || w[2] as usize != self.sz || w[3] as usize != self.n || w[4] != 0x4444_4444 || w[5] != 0xFFFF_FFFF || w[6] != 0xFFFF_FFFF {
                            o.fail_key(&prop, &key, format!("completed firmware header is {:x?}", w));
                        }
                    }
                }
                if let Ok(Ok(slot)) = &r {
                    self.life[*slot] = Life::CopyPending;
                    self.started_ok = false;
                } else if self.f.dead {
                    // power lost inside the final step: once the firmware slot's mark is programmed the image awaits its copy
                    if let Some((fw, _)) = self.sess {
                        if fw < self.nslots && self.hdr_words(fw)[4] == 0x4444_4444 {
                            self.life[fw] = Life::CopyPending;
                            self.started_ok = false;
                        }
                    }
                }
                self.twin("check", &res, o);
                if self.in_variant && !matches!(r, Ok(Ok(_))) && self.variant_prop != "C07" && self.variant_prop != "C04" {
                    // resumed / retried sessions must end in a successful check
                    let (p, k) = (self.variant_prop.clone(), self.variant_key.clone());
                    o.fail_key(&p, &k, format!("final check of the resumed session: {}", res));
                }
                self.f.crash_at = None;
                self.f.fail_mut_at = None;
                self.f.fail_at = None;
                self.sess = None;
                o.stat(&format!("check-{}", res.split('(').next().unwrap()));
                format!("res={} ; ops={}", res, ops)
            }
            "recover" => {
                self.u = None;
                let armed = self.f.crash_at.is_some() || self.f.fail_mut_at.is_some();
                if !armed {
                    self.f.arm();
                }
                let hdr_before: Vec<[u32; 7]> = (0..self.nslots).map(|i| self.hdr_words(i)).collect();
                let r = {
                    let (f, s) = (&mut self.f, &mut *self.s);
                    guarded(|| mgr!(&mut self.m, m => block_on(m.try_recover(f, s))))
                };
                if self.f.dead {
                    self.crashed = true;
                }
                let res = match &r {
                    Err(_) => "PANIC".to_string(),
                    Ok(Ok(Some(_))) => "Some".into(),
                    Ok(Ok(None)) => "None".into(),
                    Ok(Err(e)) => format!("Err({})", merr(e)),
                };
                let ops = ops_str(&self.f, self.slot);
                if r.is_err() {
                    o.fail_key("C17", "recover-panic", "try_recover panicked".into());
                    o.fail_key("C04", "recover-panic", "try_recover panicked".into());
                }
                self.check_ops("try_recover", false, o);
                // C13 post-conditions on the parsed headers
                if let Ok(Ok(got)) = &r {
                    if !self.f.dead {
                        let inprog: Vec<usize> = (0..self.nslots).filter(|i| parses_in_progress(&self.hdr_words(*i))).collect();
                        match got {
                            None => {
                                if !inprog.is_empty() {
                                    o.fail("C13", format!("try_recover returned None but slots {:?} still read as in progress", inprog));
                                }
                            }
                            Some(_) => {
                                if inprog.len() != 2 {
                                    o.fail("C13", format!("try_recover returned a session but the in-progress slots are {:?}", inprog));
                                } else if !self.crafted && (self.owner[inprog[0]] != self.owner[inprog[1]] || self.owner[inprog[0]] == 0) {
                                    o.fail_key("C13", "chimera", format!("recovered session pairs slots written by different start attempts: {:?} owners {:?}", inprog, self.owner));
                                }
                            }
                        }
                        // never modifies confirmed / rejected / ack-pending slots
                        for i in 0..self.nslots {
                            let b = &hdr_before[i];
                            let settled = b[4] == 0x4444_4444 && b[5] == 0x1111_1111;
                            if settled && self.f.log.iter().any(|op| (match op { Op::Erase(a) => *a, Op::Write(a, _) => *a }) / self.slot == i) {
                                o.fail("C13", format!("try_recover modified slot {} which holds a confirmed / rejected / ack-pending image", i));
                            }
                        }
                    }
                }
                let mut cnt = String::new();
                if let Ok(Ok(Some(u))) = r {
                    self.u = Some(u);
                    cnt = format!(" ; {}", self.counters());
                    let inprog: Vec<usize> = (0..self.nslots).filter(|i| parses_in_progress(&self.hdr_words(*i))).collect();
                    if inprog.len() == 2 {
                        let fw = if self.f.word(inprog[0] * self.slot) == 0 { inprog[0] } else { inprog[1] };
                        let par = if fw == inprog[0] { inprog[1] } else { inprog[0] };
                        self.sess = Some((fw, par));
                    }
                    self.last_recv = None;
                    if cnt.contains("rem=PANIC") {
                        o.fail_key("C17", "remaining-counter-panic", "remaining_firmware_segments() of a recovered session panicked".into());
                    }
                    if let Some(u) = self.u.as_ref() {
                        if let Ok((rv, tt)) = guarded(|| (u.received_firmware_segments(), u.total_firmware_segments())) {
                            if rv > tt {
                                o.fail_key("C17", "received-exceeds-total", format!("recovered session reports {} received of {}", rv, tt));
                            }
                        }
                    }
                    self.rk = None;
                } else {
                    self.sess = None;
                    self.rk = None;
                }
                self.life_apply_erases();
                if res == "None" && !self.f.dead {
                    for l in self.life.iter_mut() {
                        if *l == Life::InProgress {
                            *l = Life::Aborted;
                        }
                    }
                }
                if self.in_variant && self.variant_prop == "C07" {
                    let want = self.pre_reboot.clone();
                    if res != "Some" {
                        let k = self.variant_key.clone();
                        o.fail_key("C07", &k, format!("a started, uncompleted session was not recovered after a clean reboot: {}", res));
                    } else if let Some(w) = want {
                        if format!(" ; {}", w) != cnt {
                            let k = self.variant_key.clone();
                            o.fail_key("C07", &k, format!("counters differ across a clean reboot: before [{}] after [{}]", w, cnt));
                        }
                    }
                }
                if self.in_variant && self.variant_prop == "C06" && self.started_ok && res != "Some" {
                    // acceptable only when the interrupted final mark had already completed the firmware slot
                    let mut done = false;
                    if let Some(fw) = self.last_fw {
                        let w = self.hdr_words(fw);
                        let b = fw * self.slot + 0x4400;
                        if parses(&w) && w[0] == 0 && w[4] == 0x4444_4444 && !self.image.is_empty() && self.f.mem[b..b + self.image.len()] == self.image[..] {
                            done = true;
                        }
                    }
                    if done {
                        self.completed_by_mark = true;
                        o.stat("crash-after-firmware-mark-update-already-complete");
                    } else {
                        let k = self.variant_key.clone();
                        o.fail_key("C06", &k, format!("the session was fully started but recovery returned {}", res));
                    }
                }
                // C13: recovery returns a session whenever the latest start succeeded and was neither completed nor cancelled
                if self.started_ok && res != "Some" && !self.crashed && !self.faulted && !self.crafted && !armed && !(self.in_variant && self.variant_prop == "C06") {
                    o.fail_key("C13", "live-session-not-recovered", format!("the latest start succeeded and the update was neither completed nor cancelled, but try_recover returned {}", res));
                }
                if res != "Some" {
                    self.started_ok = false;
                }
                self.f.crash_at = None;
                self.f.fail_mut_at = None;
                o.stat(&format!("recover-{}", res));
                format!("res={} ; ops={}{}", res, ops, cnt)
            }
            "cancel" => {
                self.u = None;
                if self.f.crash_at.is_none() {
                    self.f.arm();
                }
                let r = {
                    let (f, s) = (&mut self.f, &mut *self.s);
                    guarded(|| mgr!(&mut self.m, m => block_on(m.cancel_all_ext_pending(f, s))))
                };
                if self.f.dead {
                    self.crashed = true;
                }
                let res = match &r {
                    Err(_) => "PANIC".to_string(),
                    Ok(Ok(())) => "Ok".into(),
                    Ok(Err(e)) => format!("Err({})", merr(e)),
                };
                let ops = ops_str(&self.f, self.slot);
                if r.is_err() {
                    o.fail_key("C17", "cancel-panic", "cancel_all_ext_pending panicked".into());
                }
                self.check_ops("cancel_all_ext_pending", false, o);
                if matches!(r, Ok(Ok(()))) && !self.f.dead {
                    let inprog: Vec<usize> = (0..self.nslots).filter(|i| parses_in_progress(&self.hdr_words(*i))).collect();
                    if !inprog.is_empty() {
                        o.fail("C13", format!("after cancel-all slots {:?} still read as in progress", inprog));
                    }
                }
                self.sess = None;
                self.started_ok = false;
                if matches!(r, Ok(Ok(()))) {
                    for l in self.life.iter_mut() {
                        if *l == Life::InProgress {
                            *l = Life::Aborted;
                        }
                    }
                }
                self.f.crash_at = None;
                format!("res={} ; ops={}", res, ops)
            }
            "mark" => {
                // mark <slot> <aborted|complete|int|ok|bad>
                let sl: usize = t[1].parse().unwrap();
                if self.f.crash_at.is_none() {
                    self.f.arm();
                }
                let r = {
                    let f = &mut self.f;
                    mgr!(&self.m, m => guarded(|| {
                        let mut s = m.open(sl);
                        match t[2] {
                            "aborted" => block_on(s.mark_ext_status_aborted(f)),
                            "complete" => block_on(s.mark_ext_status_complete(f)),
                            "int" => block_on(s.mark_int_status_complete(f)),
                            "ok" => block_on(s.mark_boot_outcome_successful(f)),
                            _ => block_on(s.mark_boot_outcome_unsuccessful(f)),
                        }
                    }))
                };
                if self.f.dead {
                    self.crashed = true;
                }
                let res = match &r {
                    Err(_) => "PANIC".to_string(),
                    Ok(Ok(())) => "Ok".into(),
                    Ok(Err(e)) => format!("Err({})", merr(e)),
                };
                let ops = ops_str(&self.f, self.slot);
                self.check_ops("status mark", false, o);
                if matches!(t[2], "aborted" | "complete") {
                    self.started_ok = false;
                }
                if matches!(r, Ok(Ok(()))) && sl < self.nslots {
                    match (t[2], self.life[sl]) {
                        ("int", Life::CopyPending) => self.life[sl] = Life::AckPending,
                        ("ok", Life::AckPending) => {
                            self.confirm_clock += 1;
                            self.life[sl] = Life::Confirmed(self.confirm_clock);
                        }
                        ("bad", Life::AckPending) => self.life[sl] = Life::Rejected,
                        ("aborted", Life::InProgress) => self.life[sl] = Life::Aborted,
                        _ => {}
                    }
                }
                self.f.crash_at = None;
                format!("res={} ; ops={}", res, ops)
            }
            "bl" => {
                self.f.arm();
                let r = {
                    let (f, s) = (&mut self.f, &mut *self.s);
                    guarded(|| mgr!(&mut self.m, m => block_on(m.bl_boot_status(f, s))))
                };
                let res = match &r {
                    Err(_) => "PANIC".to_string(),
                    Ok(Ok(BlBootStatus::Idle)) => "Idle".into(),
                    Ok(Ok(BlBootStatus::IncompleteInternal { idx })) => format!("Copy({})", idx),
                    Ok(Ok(BlBootStatus::FailedLoad { idx })) => format!("Unack({})", idx),
                    Ok(Err(e)) => format!("Err({})", merr(e)),
                };
                if r.is_err() {
                    o.fail_key("C17", "bl-panic", "bl_boot_status panicked".into());
                    o.fail_key("C04", "bl-panic", "bl_boot_status panicked".into());
                }
                if !self.f.log.is_empty() {
                    o.fail("C08", "bl_boot_status modified the flash".into());
                }
                if t.len() > 1 && t[1] == "life" && self.pending_count() <= 1 && res != self.life_expect_bl() {
                    o.fail("C12", format!("bootloader status is {} but the lifecycle says {} ({:?})", res, self.life_expect_bl(), self.life));
                }
                // C04: the designated slot must validate (when it reads as a completed firmware)
                if let Ok(Ok(BlBootStatus::IncompleteInternal { idx })) | Ok(Ok(BlBootStatus::FailedLoad { idx })) = &r {
                    let idx = *idx as usize;
                    let v = {
                        let (f, s) = (&mut self.f, &mut *self.s);
                        mgr!(&self.m, m => guarded(|| block_on(m.open(idx).is_valid_firmware(f, s))))
                    };
                    if !matches!(v, Ok(Ok(()))) && !self.crafted {
                        o.fail_key("C04", "bl-designates-invalid", format!("bootloader status designates slot {} which fails validation", idx));
                    }
                }
                format!("res={}", res)
            }
            "fb" => {
                self.f.arm();
                // the slot index of the returned handle is private: it is observed through the address of the first
                // flash read that `is_valid_firmware` issues on that handle (the slot's header)
                let r = {
                    let (f, s) = (&mut self.f, &mut *self.s);
                    guarded(|| mgr!(&self.m, m => {
                        match block_on(m.fallback_firmware(f, s)) {
                            Err(e) => Err(e),
                            Ok(None) => Ok(None),
                            Ok(Some(slot)) => {
                                f.arm();
                                let _ = block_on(slot.is_valid_firmware(f, s));
                                Ok(Some(f.first_read))
                            }
                        }
                    }))
                };
                let slot_size = self.slot;
                let res = match &r {
                    Err(_) => "PANIC".to_string(),
                    Ok(Ok(Some(addr))) => format!("Some({})", addr.map(|a| (a / slot_size) as i64).unwrap_or(-1)),
                    Ok(Ok(None)) => "None".into(),
                    Ok(Err(e)) => format!("Err({})", merr(e)),
                };
                if r.is_err() {
                    o.fail_key("C17", "fb-panic", "fallback_firmware panicked".into());
                    o.fail_key("C04", "fb-panic", "fallback_firmware panicked".into());
                }
                if t.len() > 1 && t[1] == "life" && self.pending_count() <= 1 && res != self.life_expect_fb() {
                    o.fail("C12", format!("fallback is {} but the most recently confirmed image is {} ({:?})", res, self.life_expect_fb(), self.life));
                    o.fail_key("C05", "fallback-lost", format!("fallback query answers {} but the most recently confirmed image is {}", res, self.life_expect_fb()));
                }
                format!("res={}", res)
            }
            "valid" => {
                let sl: usize = t[1].parse().unwrap();
                self.f.arm();
                let v = {
                    let (f, s) = (&mut self.f, &mut *self.s);
                    mgr!(&self.m, m => guarded(|| block_on(m.open(sl).is_valid_firmware(f, s))))
                };
                let res = match &v {
                    Err(_) => "PANIC".to_string(),
                    Ok(Ok(())) => "Ok".into(),
                    Ok(Err(e)) => format!("Err({})", merr(e)),
                };
                if v.is_err() {
                    o.fail_key("C17", "valid-panic", "is_valid_firmware panicked".into());
                }
                format!("res={}", res)
            }
            "sweep" => {
                // C04 post-crash sweep: every slot whose header reads as completed firmware must validate
                let mut bad = vec![];
                for i in 0..self.nslots {
                    let w = self.hdr_words(i);
                    if parses(&w) && w[0] == 0 && w[4] == 0x4444_4444 {
                        let v = {
                            let (f, s) = (&mut self.f, &mut *self.s);
                            mgr!(&self.m, m => guarded(|| block_on(m.open(i).is_valid_firmware(f, s))))
                        };
                        if !matches!(v, Ok(Ok(()))) {
                            bad.push(i);
                            let key = if self.in_variant && self.variant_prop == "C04" { self.variant_key.clone() } else { "complete-but-invalid".to_string() };
                            o.fail_key("C04", &key, format!("slot {} reads as completed firmware but fails validation", i));
                        }
                        if self.last_fw == Some(i) && !self.image.is_empty() && w[3] as usize == self.n && w[2] as usize == self.sz {
                            let b = i * self.slot + 0x4400;
                            if self.f.mem[b..b + self.image.len()] != self.image[..] {
                                let key = if self.in_variant && self.variant_prop == "C04" { self.variant_key.clone() } else { "complete-but-different".to_string() };
                                o.fail_key("C04", &key, format!("slot {} reads as completed firmware of the interrupted session but differs from the transmitted image", i));
                            }
                        }
                    }
                }
                format!("bad={:?}", bad)
            }
            "dump" => {
                // header words and region digests of every slot
                let mut parts = vec![];
                for i in 0..self.nslots {
                    let w = self.hdr_words(i);
                    let b = i * self.slot;
                    parts.push(format!(
                        "s{}={:x}.{:x}.{:x}.{:x}.{:x}.{:x}.{:x}/{:016x}/{:016x}",
                        i, w[0], w[1], w[2], w[3], w[4], w[5], w[6],
                        fnv(&self.f.mem[b + 0x400..b + 0x4400]),
                        fnv(&self.f.mem[b + 0x4400..b + self.slot])
                    ));
                }
                parts.join(" ; ")
            }
            _ => "bad-op".into(),
        }
    }
}

pub fn parses(w: &[u32; 7]) -> bool {
    (w[0] == 0 || w[0] == 1)
        && w[1] != 0xFFFF_FFFF
        && (1..=256).contains(&w[2])
        && (1..=16384).contains(&w[3])
        && [0xFFFF_FFFF, 0xAAAA_AAAA, 0x4444_4444].contains(&w[4])
        && [0xFFFF_FFFF, 0x1111_1111].contains(&w[5])
        && [0xFFFF_FFFF, 0xABCD_1234, 0xCDEF_7890].contains(&w[6])
}
pub fn parses_in_progress(w: &[u32; 7]) -> bool {
    parses(w) && w[4] == 0xFFFF_FFFF
}
