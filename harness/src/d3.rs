//! D3: header codec, field codecs, status classification, torn status words (C11).
use crate::nor::Nor;
use crate::util::*;

const SLOT: usize = 20480;
const BLK: usize = 4096;

macro_rules! codec {
    ($name:ident, $m:path) => {
        mod $name {
            use $m as L;
            use L::FlashRepr;
            pub fn parse_hdr(b: &[u8]) -> String {
                match L::SlotHeader::take_from_bytes(b) {
                    None => "none".into(),
                    Some((h, rest)) => {
                        let mut enc = [0u8; 28];
                        let r = h.write_to_bytes(&mut enc).map(|r| r.len());
                        let k = match h.kind { L::Kind::Firmware => 0, L::Kind::Parity => 1 };
                        let e = match h.write_ext_status { L::WriteExtStatus::InProgress => 0, L::WriteExtStatus::Aborted => 1, L::WriteExtStatus::Complete => 2 };
                        let i = match h.write_int_status { L::WriteIntStatus::InProgress => 0, L::WriteIntStatus::Complete => 1 };
                        let bo = match h.boot_outcome { L::BootOutcome::Untested => 0, L::BootOutcome::Successful => 1, L::BootOutcome::Unsuccessful => 2 };
                        format!("some k={} seq={} sz={} n={} e={} i={} b={} rest={} enc={} encrest={:?}",
                            k, h.seq_no.0, h.segment_size.0, h.num_segments.0, e, i, bo, rest.len(), crate::util::hex(&enc), r.ok())
                    }
                }
            }
            /// parse one field; answer = legal index or "none"
            pub fn parse_fld(f: &str, w: u32) -> String {
                let b = w.to_le_bytes();
                let r: Option<u32> = match f {
                    "kind" => L::Kind::take_from_bytes(&b).map(|(k, _)| match k { L::Kind::Firmware => 0, L::Kind::Parity => 1 }),
                    "seq" => L::SequenceNumber::take_from_bytes(&b).map(|(s, _)| s.0),
                    "size" => L::SegmentSize::take_from_bytes(&b).map(|(s, _)| s.0),
                    "nseg" => L::NumberOfSegments::take_from_bytes(&b).map(|(s, _)| s.0),
                    "ext" => L::WriteExtStatus::take_from_bytes(&b).map(|(s, _)| match s { L::WriteExtStatus::InProgress => 0, L::WriteExtStatus::Aborted => 1, L::WriteExtStatus::Complete => 2 }),
                    "int" => L::WriteIntStatus::take_from_bytes(&b).map(|(s, _)| match s { L::WriteIntStatus::InProgress => 0, L::WriteIntStatus::Complete => 1 }),
                    "boot" => L::BootOutcome::take_from_bytes(&b).map(|(s, _)| match s { L::BootOutcome::Untested => 0, L::BootOutcome::Successful => 1, L::BootOutcome::Unsuccessful => 2 }),
                    _ => unreachable!(),
                };
                match r { None => "none".into(), Some(v) => format!("{}", v) }
            }
            pub fn codes(f: &str) -> Vec<u32> {
                match f {
                    "ext" => vec![L::WriteExtStatus::IN_PROGRESS, L::WriteExtStatus::ABORTED, L::WriteExtStatus::COMPLETE],
                    "int" => vec![L::WriteIntStatus::IN_PROGRESS, L::WriteIntStatus::COMPLETE],
                    "boot" => vec![L::BootOutcome::UNTESTED, L::BootOutcome::SUCCESSFUL, L::BootOutcome::UNSUCCESSFUL],
                    "kind" => vec![L::Kind::FIRMWARE, L::Kind::PARITY],
                    _ => vec![],
                }
            }
            /// encode a status value and return the word
            pub fn enc(f: &str, idx: usize) -> u32 {
                let mut b = [0u8; 4];
                match (f, idx) {
                    ("ext", 0) => { L::WriteExtStatus::InProgress.write_to_bytes(&mut b).unwrap(); }
                    ("ext", 1) => { L::WriteExtStatus::Aborted.write_to_bytes(&mut b).unwrap(); }
                    ("ext", 2) => { L::WriteExtStatus::Complete.write_to_bytes(&mut b).unwrap(); }
                    ("int", 0) => { L::WriteIntStatus::InProgress.write_to_bytes(&mut b).unwrap(); }
                    ("int", 1) => { L::WriteIntStatus::Complete.write_to_bytes(&mut b).unwrap(); }
                    ("boot", 0) => { L::BootOutcome::Untested.write_to_bytes(&mut b).unwrap(); }
                    ("boot", 1) => { L::BootOutcome::Successful.write_to_bytes(&mut b).unwrap(); }
                    ("boot", 2) => { L::BootOutcome::Unsuccessful.write_to_bytes(&mut b).unwrap(); }
                    ("kind", 0) => { L::Kind::Firmware.write_to_bytes(&mut b).unwrap(); }
                    ("kind", 1) => { L::Kind::Parity.write_to_bytes(&mut b).unwrap(); }
                    _ => unreachable!(),
                }
                u32::from_le_bytes(b)
            }
        }
    };
}
codec!(newc, flash_algo_new::layout);
codec!(origc, original_flash_algo::protocol);

fn orig_total_status(b: &[u8]) -> String {
    use original_flash_algo::protocol::{total_status, FlashRepr, SlotHeader};
    match SlotHeader::take_from_bytes(b) {
        None => "none".into(),
        Some((h, _)) => format!("{:?}", total_status(&h)),
    }
}

/// Observable classification of a header by the new crate's public queries (slot 0 of a 4-slot device):
/// bootloader status, fallback, and what recovery's remediation does to it when slots 1,2 hold a newer live session.
fn new_classify(b: &[u8]) -> String {
    use flash_algo_new::manager::{BlBootStatus, ScratchRam, SlotManager};
    let mut f = Nor::new(BLK, 4 * SLOT);
    f.mem[..28].copy_from_slice(&b[..28]);
    let seq = u32::from_le_bytes([b[4], b[5], b[6], b[7]]);
    let mut s = ScratchRam::new();
    let mut m = SlotManager::<4>::new(SLOT);
    let r = guarded(|| {
        let bl = match block_on(m.bl_boot_status(&mut f, &mut s)) {
            Ok(BlBootStatus::Idle) => "idle".to_string(),
            Ok(BlBootStatus::IncompleteInternal { idx }) => format!("copy{}", idx),
            Ok(BlBootStatus::FailedLoad { idx }) => format!("unack{}", idx),
            Err(_) => "err".into(),
        };
        let fb = match block_on(m.fallback_firmware(&mut f, &mut s)) {
            Ok(None) => "none".to_string(),
            Ok(Some(_)) => "some".into(),
            Err(_) => "err".into(),
        };
        (bl, fb)
    });
    let (bl, fb) = match r { Ok(x) => x, Err(_) => return "PANIC".into() };
    // remediation effect
    let rem = if seq <= 0xFFFF_FFF0 {
        let hdr = |k: u32, sq: u32, n: u32| -> Vec<u8> {
            let mut v = vec![];
            for w in [k, sq, 16, n, 0xFFFF_FFFF, 0xFFFF_FFFF, 0xFFFF_FFFF] { v.extend_from_slice(&w.to_le_bytes()); }
            v
        };
        f.mem[SLOT..SLOT + 28].copy_from_slice(&hdr(0, seq + 1, 4));
        f.mem[2 * SLOT..2 * SLOT + 28].copy_from_slice(&hdr(1, seq + 2, 4));
        f.arm();
        match guarded(|| block_on(m.try_recover(&mut f, &mut s)).map(|o| o.is_some())) {
            Err(_) => "PANIC".to_string(),
            Ok(Err(_)) => "err".into(),
            Ok(Ok(got)) => {
                let touched: Vec<String> = f.log.iter().filter_map(|o| match o {
                    crate::nor::Op::Erase(a) if *a < SLOT => Some("erase".to_string()),
                    crate::nor::Op::Write(a, d) if *a < SLOT => Some(format!("w{}:{}", a, hex(d))),
                    _ => None }).collect();
                let mut t = touched; t.dedup();
                format!("{}:{}", if got { "sess" } else { "nosess" }, if t.is_empty() { "keep".to_string() } else { t.join(",") })
            }
        }
    } else { "skip".into() };
    // cancel-all on the header alone (no session): what it programs, and whether that needed a 0 -> 1 transition
    let can = {
        let mut f2 = Nor::new(BLK, 4 * SLOT);
        f2.mem[..28].copy_from_slice(&b[..28]);
        f2.arm();
        match guarded(|| block_on(m.cancel_all_ext_pending(&mut f2, &mut s))) {
            Err(_) => "PANIC".to_string(),
            Ok(Err(_)) => "err".into(),
            Ok(Ok(())) => {
                let t: Vec<String> = f2.log.iter().map(|o| match o {
                    crate::nor::Op::Erase(_) => "erase".to_string(),
                    crate::nor::Op::Write(a, d) => format!("w{}:{}", a, hex(d)),
                }).collect();
                format!("{}{}", if t.is_empty() { "keep".to_string() } else { t.join(",") }, if f2.needs_set > 0 { "!needs-set" } else { "" })
            }
        }
    };
    format!("bl={} fb={} rem={} can={}", bl, fb, rem, can)
}

/// the documented classification, written independently from the table in the property / layout.rs comments:
/// (ext, int, boot) -> lifecycle state; everything else needs erase
fn documented_class(w: &[u32; 7]) -> &'static str {
    let legal = (w[0] == 0 || w[0] == 1) && w[1] != 0xFFFF_FFFF && (1..=256).contains(&w[2]) && (1..=16384).contains(&w[3])
        && [0xFFFF_FFFF, 0xAAAA_AAAA, 0x4444_4444].contains(&w[4]) && [0xFFFF_FFFF, 0x1111_1111].contains(&w[5])
        && [0xFFFF_FFFF, 0xABCD_1234, 0xCDEF_7890].contains(&w[6]);
    if !legal {
        return "unparseable";
    }
    match (w[4], w[5], w[6]) {
        (0xFFFF_FFFF, 0xFFFF_FFFF, 0xFFFF_FFFF) => "AppWriteInProgress",
        (0xAAAA_AAAA, 0xFFFF_FFFF, 0xFFFF_FFFF) => "AppWriteAborted",
        (0x4444_4444, 0xFFFF_FFFF, 0xFFFF_FFFF) => "BootloadWriteInProgress",
        (0x4444_4444, 0x1111_1111, 0xFFFF_FFFF) => "FirstBootPendingAck",
        (0x4444_4444, 0x1111_1111, 0xABCD_1234) => "ConfirmedImage",
        (0x4444_4444, 0x1111_1111, 0xCDEF_7890) => "RejectedImage",
        _ => "InvalidNeedsErase",
    }
}

/// what the public queries must show for a header of that class in slot 0 (see `new_classify`)
fn expected_observation(w: &[u32; 7]) -> String {
    let c = documented_class(w);
    let fw = w[0] == 0;
    let bl = match c { "BootloadWriteInProgress" if fw => "copy0", "FirstBootPendingAck" if fw => "unack0", _ => "idle" };
    let fb = if c == "ConfirmedImage" { "some" } else { "none" };
    let rem = if w[1] > 0xFFFF_FFF0 { "skip".to_string() } else {
        match c {
            "AppWriteInProgress" => "sess:w16:aaaaaaaa".to_string(),
            "BootloadWriteInProgress" | "InvalidNeedsErase" => "sess:erase".into(),
            _ => "sess:keep".into(),
        }
    };
    // cancel-all aborts exactly the headers whose external status reads in progress
    let can = if c != "unparseable" && w[4] == 0xFFFF_FFFF { "w16:aaaaaaaa" } else { "keep" };
    format!("bl={} fb={} rem={} can={}", bl, fb, rem, can)
}

fn words_to_bytes(w: &[u32; 7]) -> Vec<u8> {
    w.iter().flat_map(|x| x.to_le_bytes()).collect()
}

/// generator: query lines only
pub fn gen(seed: u64, thorough: bool, o: &mut Out) -> Vec<String> {
    let mut q: Vec<String> = vec![];
    let mut rng = Rng::new(seed);
    let fields = ["kind", "seq", "size", "nseg", "ext", "int", "boot"];
    let legal: [Vec<u32>; 7] = [
        newc::codes("kind"),
        vec![0, 1, 2, 0x7FFF_FFFF, 0xFFFF_FFFD, 0xFFFF_FFFE],
        vec![1, 2, 45, 255, 256],
        vec![1, 2, 658, 16383, 16384],
        newc::codes("ext"),
        newc::codes("int"),
        newc::codes("boot"),
    ];
    let boundary: Vec<u32> = vec![0, 1, 2, 255, 256, 257, 16383, 16384, 16385, 0x33, 0xFF, 0xFFFF, 0x10000, 0x7FFF_FFFF, 0x8000_0000,
        0xFFFF_FFFD, 0xFFFF_FFFE, 0xFFFF_FFFF, 0xAAAA_AAAA, 0x4444_4444, 0x1111_1111, 0xABCD_1234, 0xCDEF_7890, 0x3412_CDAB, 0x9078_EFCD];

    // 1. field codecs: boundary values and every word within 2 bit flips of a legal code
    for (fi, f) in fields.iter().enumerate() {
        let mut ws: Vec<u32> = boundary.clone();
        for c in &legal[fi] {
            ws.push(*c);
            for i in 0..32 {
                ws.push(c ^ (1 << i));
                for j in (i + 1)..32 {
                    ws.push(c ^ (1 << i) ^ (1 << j));
                }
            }
        }
        for _ in 0..(if thorough { 20000 } else { 500 }) {
            ws.push(rng.next() as u32);
        }
        ws.sort();
        ws.dedup();
        for w in ws {
            q.push(format!("fld new {} {}", f, w));
            q.push(format!("fld orig {} {}", f, w));
            o.stat(&format!("field-queries-{}", f));
        }
    }
    for (f, n) in [("kind", 2usize), ("ext", 3), ("int", 2), ("boot", 3)] {
        for i in 0..n {
            q.push(format!("enc new {} {}", f, i));
            q.push(format!("enc orig {} {}", f, i));
        }
    }
    // 2. whole headers: legal, one illegal field, random, boundary mixes, longer / shorter buffers
    let nh = if thorough { 40000 } else { 3000 };
    for it in 0..nh {
        let mut w = [0u32; 7];
        let class = it % 5;
        for i in 0..7 {
            w[i] = *rng.pick(&legal[i]);
        }
        match class {
            0 => {}
            1 => {
                let i = rng.below(7) as usize;
                w[i] = *rng.pick(&boundary);
            }
            2 => {
                let i = rng.below(7) as usize;
                w[i] ^= 1 << rng.below(32);
            }
            3 => {
                for i in 0..7 {
                    if rng.chance(1, 2) {
                        w[i] = *rng.pick(&boundary);
                    }
                }
            }
            _ => {
                for i in 0..7 {
                    w[i] = rng.next() as u32;
                }
            }
        }
        o.stat(&format!("header-class-{}", ["legal", "one-boundary-field", "one-bit-flip", "boundary-mix", "random"][class]));
        let mut b = words_to_bytes(&w);
        let extra = if rng.chance(1, 8) { rng.below(6) as usize } else { 0 };
        b.extend(rng.bytes(extra));
        if rng.chance(1, 50) {
            let l = rng.below(28) as usize;
            b.truncate(l);
        }
        q.push(format!("hdr new {}", hex(&b)));
        q.push(format!("hdr orig {}", hex(&b)));
        if b.len() >= 28 {
            q.push(format!("ts orig {}", hex(&b)));
            if it % 4 == 0 || thorough {
                q.push(format!("cls new {}", hex(&b[..28])));
                o.stat("classify-queries");
            }
        }
        if it < 3 {
            o.sample(format!("hdr new {}", hex(&b)));
        }
    }
    // every legal status triple x kind, through both classification views
    for k in 0..2u32 {
        for e in newc::codes("ext") {
            for i in newc::codes("int") {
                for bo in newc::codes("boot") {
                    for seq in [0u32, 7, 0xFFFF_FFF0] {
                        let b = words_to_bytes(&[k, seq, 16, 4, e, i, bo]);
                        q.push(format!("ts orig {}", hex(&b)));
                        q.push(format!("cls new {}", hex(&b)));
                        o.stat("status-triples");
                    }
                }
            }
        }
    }
    // 3. torn status words: exhaustive on the implementation (oracle-only lines start with '!'),
    //    plus a sample of the patterns through the model
    for f in ["ext", "int", "boot"] {
        let cs = newc::codes(f);
        for (oi, old) in cs.iter().enumerate() {
            for (ni, new) in cs.iter().enumerate() {
                if oi == ni {
                    continue;
                }
                q.push(format!("!torn {} {} {}", f, oi, ni));
                let lo = old & new;
                let free = old & !new;
                for _ in 0..40 {
                    let w = lo | (rng.next() as u32 & free);
                    q.push(format!("fld new {} {}", f, w));
                    q.push(format!("fld orig {} {}", f, w));
                }
            }
        }
    }
    for name in ["aborted", "complete", "int", "ok", "bad"] {
        q.push(format!("mark {}", name));
    }
    q.push("!pinned".into());
    // 4. sequence numbers around the reserved value: the headers `start_update` writes next to a confirmed image
    //    whose sequence number is s carry next(s), next(next(s)) and must parse
    for s in [0u32, 1, 2, 0x7FFF_FFFF, 0x8000_0000, 0xFFFF_FFF0, 0xFFFF_FFFA, 0xFFFF_FFFB, 0xFFFF_FFFC, 0xFFFF_FFFD, 0xFFFF_FFFE] {
        q.push(format!("alloc {}", s));
    }
    for _ in 0..8 {
        q.push(format!("alloc {}", (rng.next() as u32).min(0xFFFF_FFFE)));
    }
    q
}

/// executor: one query line -> the implementation's answer (+ property oracle)
pub fn exec(line: &str, o: &mut Out) -> String {
    let t: Vec<&str> = line.split(' ').collect();
    match t[0] {
        "fld" => {
            let w: u32 = t[3].parse().unwrap();
            if t[1] == "new" { newc::parse_fld(t[2], w) } else { origc::parse_fld(t[2], w) }
        }
        "enc" => {
            let i: usize = t[3].parse().unwrap();
            format!("{}", if t[1] == "new" { newc::enc(t[2], i) } else { origc::enc(t[2], i) })
        }
        "hdr" => {
            let b = unhex(t[2]);
            let a = if t[1] == "new" { newc::parse_hdr(&b) } else { origc::parse_hdr(&b) };
            o.stat(if a == "none" { "headers-unparseable" } else { "headers-parse" });
            // oracle (C11): parse then re-encode reproduces the bytes
            if a != "none" {
                let enc = a.split("enc=").nth(1).unwrap().split(' ').next().unwrap().to_string();
                if enc != hex(&b[..28]) {
                    o.fail("C11", format!("re-encoding differs: bytes {} enc {}", hex(&b[..28]), enc));
                }
            }
            a
        }
        "ts" => {
            let b = unhex(t[2]);
            let a = orig_total_status(&b);
            if b.len() >= 28 {
                let mut w = [0u32; 7];
                for i in 0..7 {
                    w[i] = u32::from_le_bytes([b[4 * i], b[4 * i + 1], b[4 * i + 2], b[4 * i + 3]]);
                }
                let want = documented_class(&w);
                if (want == "unparseable") != (a == "none") || (want != "unparseable" && a != want) {
                    o.fail("C11", format!("deprecated crate classifies header {} as {}, documented class {}", hex(&b), a, want));
                }
            }
            a
        }
        "cls" => {
            let b = unhex(t[2]);
            let a = new_classify(&b);
            let mut w = [0u32; 7];
            for i in 0..7 {
                w[i] = u32::from_le_bytes([b[4 * i], b[4 * i + 1], b[4 * i + 2], b[4 * i + 3]]);
            }
            let want = expected_observation(&w);
            if a != want {
                o.fail("C11", format!("header {} (documented class {}) is treated as [{}], the documented classification gives [{}]", hex(&b), documented_class(&w), a, want));
            }
            if a.contains("needs-set") {
                o.fail("C11", format!("a status transition performed by cancel-all on header {} needs a 0 -> 1 bit change", hex(&b)));
            }
            a
        }
        "!torn" => {
            // every ordered pair of legal codes (old, new): every pattern w with old&new ⊆ w ⊆ old
            // must parse as old, new or not at all
            let f = t[1];
            let (oi, ni): (usize, usize) = (t[2].parse().unwrap(), t[3].parse().unwrap());
            let mut bad = 0u64;
            let mut count = 0u64;
            for (nm, cs) in [("new", newc::codes(f)), ("orig", origc::codes(f))] {
                let (old, new) = (cs[oi], cs[ni]);
                let lo = old & new;
                let free = old & !new;
                let mut sub: u32 = 0;
                loop {
                    let w = lo | sub;
                    let r = if nm == "new" { newc::parse_fld(f, w) } else { origc::parse_fld(f, w) };
                    let ok = r == "none" || (w == old && r == format!("{}", oi)) || (w == new && r == format!("{}", ni));
                    if !ok {
                        if bad == 0 {
                            o.fail("C11", format!("torn {} word ({} crate) old={:#x} new={:#x} pattern={:#x} parses as legal code #{}", f, nm, old, new, w, r));
                        }
                        bad += 1;
                    }
                    count += 1;
                    if sub == free {
                        break;
                    }
                    sub = (sub.wrapping_sub(free)) & free;
                }
            }
            o.stat_n(&format!("torn-patterns-{}", f), count);
            format!("patterns={} bad={}", count, bad)
        }
        "!pinned" => {
            // the values deployed bootloaders read (stated by the property itself), both crates
            let mut bad = 0;
            let want: [(&str, &[u32]); 4] = [("kind", &[0, 1]), ("ext", &[0xFFFF_FFFF, 0xAAAA_AAAA, 0x4444_4444]),
                ("int", &[0xFFFF_FFFF, 0x1111_1111]), ("boot", &[0xFFFF_FFFF, 0xABCD_1234, 0xCDEF_7890])];
            for (f, ws) in want {
                for (i, w) in ws.iter().enumerate() {
                    for (nm, got) in [("new", newc::enc(f, i)), ("orig", origc::enc(f, i))] {
                        if got != *w {
                            bad += 1;
                            o.fail("C11", format!("{} crate encodes {} value #{} as {:#x}, deployed bootloaders read {:#x}", nm, f, i, got, w));
                        }
                        let parsed = if nm == "new" { newc::parse_fld(f, *w) } else { origc::parse_fld(f, *w) };
                        if parsed != format!("{}", i) {
                            bad += 1;
                            o.fail("C11", format!("{} crate parses the pinned {} code {:#x} as {}", nm, f, w, parsed));
                        }
                    }
                }
            }
            {
                use flash_algo_new::layout as L;
                use L::FlashRepr;
                let offs = [(L::SlotHeader::KIND_OFFSET, 0), (L::SlotHeader::SEQUENCE_NUMBER_OFFSET, 4), (L::SlotHeader::SEGMENT_SIZE_OFFSET, 8),
                    (L::SlotHeader::NUMBER_OF_SEGMENTS_OFFSET, 12), (L::SlotHeader::WRITE_EXT_STATUS_OFFSET, 16),
                    (L::SlotHeader::WRITE_INT_STATUS_OFFSET, 20), (L::SlotHeader::BOOT_OUTCOME_OFFSET, 24), (<L::SlotHeader as FlashRepr>::SIZE, 28),
                    (L::WRITTEN_OFFSET, 0x400), (L::DATA_REGION_OFFSET, 0x4400), (L::DATA_PAYLOAD_OFFSET, 0x4444),
                    (L::segment_status_table::DATA_WRITTEN as usize, 0x33), (L::segment_status_table::MAX_SEGMENTS, 16384),
                    (L::segment_status_table::MAX_SEGMENT_SIZE, 256)];
                for (k, (got, want)) in offs.iter().enumerate() {
                    if got != want {
                        bad += 1;
                        o.fail("C11", format!("layout constant #{} is {:#x}, pinned value {:#x}", k, got, want));
                    }
                }
            }
            {
                use original_flash_algo::manager as M;
                use original_flash_algo::protocol as L;
                use L::FlashRepr;
                let offs = [(L::SlotHeader::KIND_OFFSET, 0), (L::SlotHeader::SEQUENCE_NUMBER_OFFSET, 4), (L::SlotHeader::SEGMENT_SIZE_OFFSET, 8),
                    (L::SlotHeader::NUMBER_OF_SEGMENTS_OFFSET, 12), (L::SlotHeader::WRITE_EXT_STATUS_OFFSET, 16),
                    (L::SlotHeader::WRITE_INT_STATUS_OFFSET, 20), (L::SlotHeader::BOOT_OUTCOME_OFFSET, 24), (<L::SlotHeader as FlashRepr>::SIZE, 28),
                    (M::WRITTEN_OFFSET, 0x400), (M::DATA_REGION_OFFSET, 0x4400), (M::DATA_PAYLOAD_OFFSET, 0x4444),
                    (L::segment_status_table::DATA_WRITTEN as usize, 0x33), (L::segment_status_table::MAX_SEGMENTS, 16384),
                    (L::segment_status_table::MAX_SEGMENT_SIZE, 256)];
                for (k, (got, want)) in offs.iter().enumerate() {
                    if got != want {
                        bad += 1;
                        o.fail("C11", format!("deprecated crate: layout constant #{} is {:#x}, pinned value {:#x}", k, got, want));
                    }
                }
            }
            // on-device layout: a started update's header words sit at the pinned offsets
            format!("bad={}", bad)
        }
        "mark" => {
            use flash_algo_new::manager::SlotManager;
            let m = SlotManager::<4>::new(SLOT);
            let mut f = Nor::new(BLK, 4 * SLOT);
            let mut sl = m.open(2);
            f.arm();
            let r = match t[1] {
                "aborted" => block_on(sl.mark_ext_status_aborted(&mut f)).is_ok(),
                "complete" => block_on(sl.mark_ext_status_complete(&mut f)).is_ok(),
                "int" => block_on(sl.mark_int_status_complete(&mut f)).is_ok(),
                "ok" => block_on(sl.mark_boot_outcome_successful(&mut f)).is_ok(),
                _ => block_on(sl.mark_boot_outcome_unsuccessful(&mut f)).is_ok(),
            };
            let log: Vec<String> = f.log.iter().map(|op| match op {
                crate::nor::Op::Erase(a) => format!("E{}", a),
                crate::nor::Op::Write(a, d) => format!("W{}:{}", a - 2 * SLOT, hex(d)),
            }).collect();
            if f.needs_set != 0 {
                o.fail("C11", format!("mark {} needs a 0->1 transition on erased flash", t[1]));
            }
            let want = match t[1] { "aborted" => "W16:aaaaaaaa", "complete" => "W16:44444444", "int" => "W20:11111111", "ok" => "W24:3412cdab", _ => "W24:9078efcd" };
            if log.join(",") != want || !r {
                o.fail("C11", format!("mark {} programs {} (expected exactly {})", t[1], log.join(","), want));
            }
            format!("{} {}", r, log.join(","))
        }
        "alloc" => {
            use flash_algo_new::manager::{ScratchRam, SlotManager};
            let sq: u32 = t[1].parse().unwrap();
            let mut m = SlotManager::<4>::new(SLOT);
            let mut f = Nor::new(BLK, 4 * SLOT);
            // slot 0: a completed, confirmed firmware (32-byte fragments, 8 of them) with sequence number sq
            for (k, w) in [0u32, sq, 32, 8, 0x4444_4444, 0x1111_1111, 0xABCD_1234].iter().enumerate() {
                f.put_word(4 * k, *w);
            }
            f.arm();
            let mut scratch = Box::new(ScratchRam::new());
            let r = block_on(m.start_update(&mut f, &mut scratch, 32, 8)).is_ok();
            let mut parts = vec![format!("r={}", r)];
            for i in 1..4 {
                let hb: Vec<u8> = f.mem[i * SLOT..i * SLOT + 28].to_vec();
                let blank = hb.iter().all(|b| *b == 0xFF);
                if !blank {
                    let w = f.word(i * SLOT + 4);
                    parts.push(format!("seq{}={}", i, w));
                    o.stat(if w < sq { "alloc-seq-wrapped" } else { "alloc-seq-plain" });
                    // oracle (C11): a header the library encoded parses (the reserved code is never used as a value)
                    if r && newc::parse_hdr(&hb) == "none" {
                        o.fail("C11", format!("start_update next to a confirmed image with sequence number {:#x} wrote header {} into slot {}, which does not parse", sq, hex(&hb), i));
                    }
                }
            }
            parts.join(" ")
        }
        _ => "bad-op".into(),
    }
}
