//! D4: the three `embedded-storage` adapters of `parity-reconstruct/src/flash.rs` (data / parity / matrix) on an
//! in-memory `NorFlash` device with AND-programming, an access log and monitors. Serves C16.
//!
//! Line protocol (one adapter instance at a time, created by `new`):
//!   new data W R start end len | new parity W R start end len tail=R|W | new matrix W R start end N
//!   store m hex | get m | setrow m hexrow | getrow m | numrows | ! offcontract
//! Answers: `res=ok|err:<kind>|PANIC ; val=<hex or number or -> ; log=<accesses>` where the log lists every call the
//! adapter made on the device, in order, as `E<from>:<to>`, `R<addr>:<len>`, `W<addr>:<hex>` (the rejected call
//! of a failing operation is the last entry).
use crate::util::*;
use bitvec::array::BitArray;
use embedded_storage_async::nor_flash::{ErrorType, MultiwriteNorFlash, NorFlash, NorFlashError, NorFlashErrorKind, ReadNorFlash};
use parity_reconstruct::flash::{FlashDataStorage, FlashMatrixStorage, FlashParityStorage};
use parity_reconstruct::{DataStorage, MatrixStorage, ParityStorage};
use std::cell::RefCell;
use std::collections::HashMap;
use std::rc::Rc;

/// Which tail-read variant of `FlashParityStorage::get` the Lean model is asked to follow:
/// "R" = pinned tree (`&mut buffer[..F::READ_SIZE]`), "W" = repaired (`WRITE_SIZE`).
pub const TAIL_VARIANT: &str = "W";

pub const DEV_SIZE: usize = 8192;
pub const ERASE: usize = 256;
const WS: [usize; 6] = [1, 2, 4, 8, 16, 32];
const NS: [usize; 16] = [1, 2, 3, 4, 5, 7, 8, 9, 12, 16, 17, 24, 32, 33, 48, 64];

// ------------------------------------------------------------------------------------------------ device

#[derive(Debug, Clone, Copy, PartialEq)]
pub enum DevErr {
    NotAligned,
    OutOfBounds,
}
impl NorFlashError for DevErr {
    fn kind(&self) -> NorFlashErrorKind {
        match self {
            DevErr::NotAligned => NorFlashErrorKind::NotAligned,
            DevErr::OutOfBounds => NorFlashErrorKind::OutOfBounds,
        }
    }
}
fn err_str(e: DevErr) -> &'static str {
    match e {
        DevErr::NotAligned => "err:NotAligned",
        DevErr::OutOfBounds => "err:OutOfBounds",
    }
}

struct Inner {
    mem: Vec<u8>,
    /// programs since the last erase, per byte
    written: Vec<u8>,
    log: Vec<String>,
    /// configured `flash_range` of the adapter under test
    range: (usize, usize),
    /// the adapter was given a `MultiwriteNorFlash` (data adapter): a word may be programmed twice
    multi: bool,
    /// monitor hits: (key, description)
    viol: Vec<(&'static str, String)>,
    /// bytes programmed with 0xFF over a byte that is not 0xFF (legal no-op of a multi-write device)
    ff_over_data: u64,
}
impl Inner {
    fn new() -> Self {
        Inner { mem: vec![0; DEV_SIZE], written: vec![0; DEV_SIZE], log: vec![], range: (0, 0), multi: false, viol: vec![], ff_over_data: 0 }
    }
    fn v(&mut self, k: &'static str, s: String) {
        if self.viol.len() < 8 {
            self.viol.push((k, s));
        }
    }
    fn in_range(&self, a: usize, n: usize) -> bool {
        a >= self.range.0 && a + n <= self.range.1
    }
}

pub struct Dev<const W: usize, const R: usize>(Rc<RefCell<Inner>>);

impl<const W: usize, const R: usize> ErrorType for Dev<W, R> {
    type Error = DevErr;
}
impl<const W: usize, const R: usize> ReadNorFlash for Dev<W, R> {
    const READ_SIZE: usize = R;
    async fn read(&mut self, offset: u32, bytes: &mut [u8]) -> Result<(), DevErr> {
        let mut d = self.0.borrow_mut();
        let (a, n) = (offset as usize, bytes.len());
        d.log.push(format!("R{}:{}", a, n));
        if !d.in_range(a, n) {
            let rg = d.range;
            d.v("out-of-range", format!("read {}..{} outside the configured range {}..{}", a, a + n, rg.0, rg.1));
        }
        if a % R != 0 || n % R != 0 {
            d.v("unaligned-read", format!("read addr {} len {} not a multiple of the read size {}", a, n, R));
        }
        // embedded_storage::nor_flash::check_read: bounds first, then alignment
        if n > DEV_SIZE || a > DEV_SIZE - n {
            return Err(DevErr::OutOfBounds);
        }
        if a % R != 0 || n % R != 0 {
            return Err(DevErr::NotAligned);
        }
        bytes.copy_from_slice(&d.mem[a..a + n]);
        Ok(())
    }
    fn capacity(&self) -> usize {
        DEV_SIZE
    }
}
impl<const W: usize, const R: usize> NorFlash for Dev<W, R> {
    const WRITE_SIZE: usize = W;
    const ERASE_SIZE: usize = ERASE;
    async fn erase(&mut self, from: u32, to: u32) -> Result<(), DevErr> {
        let mut d = self.0.borrow_mut();
        let (a, b) = (from as usize, to as usize);
        d.log.push(format!("E{}:{}", a, b));
        if a > b || b > DEV_SIZE {
            return Err(DevErr::OutOfBounds);
        }
        if a % ERASE != 0 || b % ERASE != 0 {
            return Err(DevErr::NotAligned);
        }
        if !d.in_range(a, b - a) {
            d.v("out-of-range", format!("erase {}..{} outside the configured range", a, b));
        }
        for i in a..b {
            d.mem[i] = 0xFF;
            d.written[i] = 0;
        }
        Ok(())
    }
    async fn write(&mut self, offset: u32, bytes: &[u8]) -> Result<(), DevErr> {
        let mut d = self.0.borrow_mut();
        let (a, n) = (offset as usize, bytes.len());
        d.log.push(format!("W{}:{}", a, hex(bytes)));
        if !d.in_range(a, n) {
            let rg = d.range;
            d.v("out-of-range", format!("program {}..{} outside the configured range {}..{}", a, a + n, rg.0, rg.1));
        }
        if a % W != 0 || n % W != 0 {
            d.v("unaligned-write", format!("program addr {} len {} not aligned to / a multiple of the write size {}", a, n, W));
        }
        if n > DEV_SIZE || a > DEV_SIZE - n {
            return Err(DevErr::OutOfBounds);
        }
        if a % W != 0 || n % W != 0 {
            return Err(DevErr::NotAligned);
        }
        for i in 0..n {
            let (old, new) = (d.mem[a + i], bytes[i]);
            if new != 0xFF && (old & new) != new {
                d.v("needs-set", format!("program of {:02x} over {:02x} at {} needs a 0 -> 1 transition", new, old, a + i));
            }
            if new == 0xFF && old != 0xFF {
                d.ff_over_data += 1;
            }
            if d.written[a + i] >= 1 && !d.multi {
                d.v("rewrite", format!("byte {} programmed twice since erase on a device that is not MultiwriteNorFlash", a + i));
            }
            if d.written[a + i] >= 2 {
                d.v("rewrite", format!("byte {} programmed three times since erase", a + i));
            }
            d.written[a + i] = d.written[a + i].saturating_add(1);
            d.mem[a + i] = old & new;
        }
        Ok(())
    }
}
impl<const W: usize, const R: usize> MultiwriteNorFlash for Dev<W, R> {}

// ------------------------------------------------------------------------------------------------ adapters behind one object type

trait Ad {
    fn store(&mut self, _m: usize, _d: &[u8]) -> Result<(), DevErr> {
        unreachable!()
    }
    fn get(&mut self, _m: usize, _len: usize) -> Result<Vec<u8>, DevErr> {
        unreachable!()
    }
    fn set_row(&mut self, _m: usize, _raw: &[u8]) -> Result<(), DevErr> {
        unreachable!()
    }
    fn row(&mut self, _m: usize) -> Result<Vec<u8>, DevErr> {
        unreachable!()
    }
    fn num_rows(&self) -> usize {
        unreachable!()
    }
}
struct DataAd<F: MultiwriteNorFlash>(FlashDataStorage<F>);
impl<F: MultiwriteNorFlash<Error = DevErr>> Ad for DataAd<F> {
    fn store(&mut self, m: usize, d: &[u8]) -> Result<(), DevErr> {
        block_on(self.0.store(m, d))
    }
    fn get(&mut self, m: usize, len: usize) -> Result<Vec<u8>, DevErr> {
        let mut b = vec![0xAA; len];
        block_on(self.0.get(m, &mut b))?;
        Ok(b)
    }
}
struct ParAd<F: NorFlash>(FlashParityStorage<F>);
impl<F: NorFlash<Error = DevErr>> Ad for ParAd<F> {
    fn store(&mut self, m: usize, d: &[u8]) -> Result<(), DevErr> {
        block_on(self.0.store(m, d))
    }
    fn get(&mut self, m: usize, len: usize) -> Result<Vec<u8>, DevErr> {
        let mut b = vec![0xAA; len];
        block_on(self.0.get(m, &mut b))?;
        Ok(b)
    }
}
struct MatAd<F: NorFlash, const N: usize>(FlashMatrixStorage<F>);
impl<F: NorFlash<Error = DevErr>, const N: usize> Ad for MatAd<F, N> {
    fn set_row(&mut self, m: usize, raw: &[u8]) -> Result<(), DevErr> {
        let mut a = [0u8; N];
        a.copy_from_slice(raw);
        block_on(MatrixStorage::<[u8; N]>::set_row(&mut self.0, m, BitArray::new(a)))
    }
    fn row(&mut self, m: usize) -> Result<Vec<u8>, DevErr> {
        let r: BitArray<[u8; N]> = block_on(MatrixStorage::<[u8; N]>::row(&mut self.0, m))?;
        Ok(r.as_raw_slice().to_vec())
    }
    fn num_rows(&self) -> usize {
        MatrixStorage::<[u8; N]>::num_rows(&self.0)
    }
}

#[derive(Clone, Copy, PartialEq, Debug)]
enum Kind {
    None,
    Data,
    Parity,
    Matrix,
}

fn mk<const W: usize, const R: usize>(kind: Kind, inner: &Rc<RefCell<Inner>>, a: u32, b: u32, n: usize) -> Result<Box<dyn Ad>, DevErr> {
    let dev = || Dev::<W, R>(inner.clone());
    Ok(match kind {
        Kind::Data => Box::new(DataAd(block_on(FlashDataStorage::new(dev(), a..b))?)),
        Kind::Parity => Box::new(ParAd(block_on(FlashParityStorage::new(dev(), a..b))?)),
        Kind::Matrix => {
            let ms = block_on(FlashMatrixStorage::new(dev(), a..b))?;
            macro_rules! by_n {
                ($($n:literal)*) => {
                    match n { $( $n => Box::new(MatAd::<Dev<W, R>, $n>(ms)) as Box<dyn Ad>, )* _ => panic!("matrix width {} not instantiated", n) }
                };
            }
            by_n!(1 2 3 4 5 7 8 9 12 16 17 24 32 33 48 64)
        }
        Kind::None => unreachable!(),
    })
}

fn mk_dyn(kind: Kind, w: usize, r: usize, inner: &Rc<RefCell<Inner>>, a: u32, b: u32, n: usize) -> Result<Box<dyn Ad>, DevErr> {
    macro_rules! by_wr {
        ($(($w:literal, $r:literal))*) => {
            match (w, r) { $( ($w, $r) => mk::<$w, $r>(kind, inner, a, b, n), )* _ => panic!("device ({}, {}) not instantiated", w, r) }
        };
    }
    by_wr!((1,1) (2,1) (2,2) (4,1) (4,2) (4,4) (8,1) (8,2) (8,4) (8,8) (16,1) (16,2) (16,4) (16,8) (16,16)
           (32,1) (32,2) (32,4) (32,8) (32,16) (32,32))
}

// ------------------------------------------------------------------------------------------------ executor + oracle

pub struct Exec {
    kind: Kind,
    ad: Option<Box<dyn Ad>>,
    inner: Rc<RefCell<Inner>>,
    w: usize,
    r: usize,
    start: usize,
    end: usize,
    len: usize,
    n: usize,
    /// what was stored per index (the oracle's shadow map)
    shadow: HashMap<usize, Vec<u8>>,
    /// last value read back per index that was never stored
    last_read: HashMap<usize, Vec<u8>>,
    /// the scenario deliberately leaves the callers' contract (index beyond capacity, short blocks): no oracle
    offcontract: bool,
    cfg: String,
    /// oracle reports per key (each key is reported a few times only, so that a frequent finding cannot use up
    /// the global report budget of `Out` and hide a different one)
    reported: HashMap<String, usize>,
}

/// reports per oracle key
const PER_KEY: usize = 5;

fn round_up(x: usize, k: usize) -> usize {
    (x + k - 1) / k * k
}
/// independent row size: bytes of bits 0..=m, rounded up to the write size
fn row_size(m: usize, w: usize) -> usize {
    round_up(m / 8 + 1, w)
}

impl Exec {
    pub fn new() -> Self {
        Exec {
            kind: Kind::None, ad: None, inner: Rc::new(RefCell::new(Inner::new())), w: 1, r: 1, start: 0, end: 0, len: 0, n: 0,
            shadow: HashMap::new(), last_read: HashMap::new(), offcontract: false, cfg: String::new(),
            reported: HashMap::new(),
        }
    }

    fn answer(&mut self, res: &str, val: &str) -> String {
        let mut d = self.inner.borrow_mut();
        let log = if d.log.is_empty() { "-".to_string() } else { d.log.join(",") };
        d.log.clear();
        format!("res={} ; val={} ; log={}", res, val, log)
    }

    fn monitors(&mut self, line: &str, o: &mut Out) {
        let v: Vec<(&'static str, String)> = std::mem::take(&mut self.inner.borrow_mut().viol);
        if self.offcontract {
            return;
        }
        for (k, s) in v {
            self.report(o, k, format!("{} [{} ; {}]", s, self.cfg, line));
        }
    }

    fn report(&mut self, o: &mut Out, key: &str, what: String) {
        let n = self.reported.entry(key.to_string()).or_insert(0);
        *n += 1;
        o.stat(&format!("oracle failures {}", key));
        if *n <= PER_KEY {
            o.fail_key("C16", key, what);
        }
    }

    fn fail(&mut self, o: &mut Out, key: &str, what: String, line: &str) {
        if !self.offcontract {
            let w = format!("{} [{} ; {}]", what, self.cfg, line);
            self.report(o, key, w);
        }
    }

    fn do_new(&mut self, t: &[&str], o: &mut Out) -> String {
        let kind = match t[1] {
            "data" => Kind::Data,
            "parity" => Kind::Parity,
            "matrix" => Kind::Matrix,
            _ => return "bad-op".into(),
        };
        let p = |i: usize| t[i].parse::<usize>().unwrap();
        let (w, r, a, b, x) = (p(2), p(3), p(4), p(5), p(6));
        self.inner = Rc::new(RefCell::new(Inner::new()));
        {
            let mut d = self.inner.borrow_mut();
            d.range = (a, b);
            d.multi = kind == Kind::Data;
        }
        self.kind = Kind::None;
        self.ad = None;
        self.shadow.clear();
        self.last_read.clear();
        self.offcontract = false;
        self.w = w;
        self.r = r;
        self.start = a;
        self.end = b;
        self.len = if kind == Kind::Matrix { 0 } else { x };
        self.n = if kind == Kind::Matrix { x } else { 0 };
        self.cfg = t.join(" ");
        let inner = self.inner.clone();
        match guarded(|| mk_dyn(kind, w, r, &inner, a as u32, b as u32, x)) {
            Err(_) => self.answer("PANIC", "-"),
            Ok(Err(e)) => self.answer(err_str(e), "-"),
            Ok(Ok(ad)) => {
                self.ad = Some(ad);
                self.kind = kind;
                o.stat(&format!("new {}", t[1]));
                o.stat(&format!("W={}", w));
                // `new` must leave the range erased and everything else alone
                let d = self.inner.borrow();
                let bad = (0..DEV_SIZE).find(|&i| d.mem[i] != if i >= a && i < b { 0xFF } else { 0 });
                drop(d);
                if let Some(i) = bad {
                    self.fail(o, "new-erase", format!("after new byte {} is not as expected", i), "new");
                }
                self.answer("ok", "-")
            }
        }
    }

    /// after a mutating call: everything outside the configured range is still 0x00
    fn outside_untouched(&mut self, line: &str, o: &mut Out) {
        let d = self.inner.borrow();
        let bad = (0..DEV_SIZE).find(|&i| (i < self.start || i >= self.end) && d.mem[i] != 0);
        drop(d);
        if let Some(i) = bad {
            self.fail(o, "out-of-range", format!("byte {} outside the configured range was modified", i), line);
        }
    }

    pub fn line(&mut self, l: &str, o: &mut Out) -> String {
        let t: Vec<&str> = l.trim().split(' ').collect();
        if t[0] == "!" {
            if t.get(1) == Some(&"offcontract") {
                self.offcontract = true;
            }
            return "-".into();
        }
        if t[0] == "new" {
            let a = self.do_new(&t, o);
            self.monitors(l, o);
            return a;
        }
        if self.ad.is_none() {
            return "bad-op".into();
        }
        let mut ad = self.ad.take().unwrap();
        let m: usize = t.get(1).and_then(|s| s.parse().ok()).unwrap_or(0);
        let ans = match (t[0], self.kind) {
            ("store", Kind::Data) | ("store", Kind::Parity) => {
                let d = unhex(t[2]);
                match guarded(|| ad.store(m, &d)) {
                    Err(_) => self.answer("PANIC", "-"),
                    Ok(Err(e)) => self.answer(err_str(e), "-"),
                    Ok(Ok(())) => {
                        o.stat("store");
                        if self.shadow.contains_key(&m) {
                            self.offcontract = true; // storing an index twice is outside the contract
                        }
                        self.shadow.insert(m, d.clone());
                        self.last_read.remove(&m);
                        if self.kind == Kind::Data {
                            // contiguous layout without padding: byte k of block m at start + m*len + k
                            let dev = self.inner.borrow();
                            let base = self.start + m * self.len;
                            let ok = base + d.len() <= DEV_SIZE && dev.mem[base..base + d.len()] == d[..];
                            drop(dev);
                            if !ok {
                                self.fail(o, "data-layout", format!("block {} is not at {}..{} after store", m, base, base + d.len()), l);
                            }
                        }
                        self.outside_untouched(l, o);
                        self.answer("ok", "-")
                    }
                }
            }
            ("get", Kind::Data) | ("get", Kind::Parity) => {
                let len = self.len;
                match guarded(|| ad.get(m, len)) {
                    Err(_) => self.answer("PANIC", "-"),
                    Ok(Err(e)) => self.answer(err_str(e), "-"),
                    Ok(Ok(v)) => {
                        o.stat("get");
                        self.check_read(m, &v, l, o);
                        self.answer("ok", &hex(&v))
                    }
                }
            }
            ("setrow", Kind::Matrix) => {
                let raw = unhex(t[2]);
                match guarded(|| ad.set_row(m, &raw)) {
                    Err(_) => self.answer("PANIC", "-"),
                    Ok(Err(e)) => self.answer(err_str(e), "-"),
                    Ok(Ok(())) => {
                        o.stat("setrow");
                        if self.shadow.contains_key(&m) {
                            self.offcontract = true;
                        }
                        self.shadow.insert(m, raw);
                        self.last_read.remove(&m);
                        self.outside_untouched(l, o);
                        self.answer("ok", "-")
                    }
                }
            }
            ("getrow", Kind::Matrix) => match guarded(|| ad.row(m)) {
                Err(_) => self.answer("PANIC", "-"),
                Ok(Err(e)) => self.answer(err_str(e), "-"),
                Ok(Ok(v)) => {
                    o.stat("getrow");
                    self.check_read(m, &v, l, o);
                    self.answer("ok", &hex(&v))
                }
            },
            ("numrows", Kind::Matrix) => {
                let n = ad.num_rows();
                o.stat("numrows");
                let total: usize = (0..n).map(|i| row_size(i, self.w)).sum();
                if n > 8 * self.n {
                    self.fail(o, "num-rows-fit", format!("num_rows {} exceeds the {} bits of a row", n, 8 * self.n), l);
                }
                if total > self.end - self.start {
                    self.fail(o, "num-rows-fit", format!("num_rows {} rows need {} bytes, the range has {}", n, total, self.end - self.start), l);
                }
                self.answer("ok", &format!("{}", n))
            }
            _ => "bad-op".into(),
        };
        self.ad = Some(ad);
        self.monitors(l, o);
        ans
    }

    /// round trip (stored index) / frame (index that was never stored reads the same as before)
    fn check_read(&mut self, m: usize, v: &[u8], line: &str, o: &mut Out) {
        if let Some(exp) = self.shadow.get(&m) {
            if exp[..] != v[..] {
                // classify: the known parity tail defect returns zeros after the first R bytes of the padded tail word
                let mut key = match self.kind {
                    Kind::Data => "data-roundtrip",
                    Kind::Parity => "parity-roundtrip",
                    _ => "matrix-roundtrip",
                };
                if self.kind == Kind::Parity {
                    let down = self.len - self.len % self.w;
                    let mut pred = exp.clone();
                    for i in (down + self.r).min(self.len)..self.len {
                        pred[i] = 0;
                    }
                    if pred[..] == v[..] {
                        key = "parity-get-tail-read-size";
                    }
                }
                let what = format!("index {} stored {} reads back {}", m, hex(exp), hex(v));
                self.fail(o, key, what, line);
            }
        } else {
            if let Some(prev) = self.last_read.get(&m) {
                if prev[..] != v[..] {
                    let key = match self.kind {
                        Kind::Data => "data-frame",
                        Kind::Parity => "parity-frame",
                        _ => "matrix-frame",
                    };
                    let what = format!("index {} was never stored but its read-back changed from {} to {}", m, hex(prev), hex(v));
                    self.fail(o, key, what, line);
                }
            }
            self.last_read.insert(m, v.to_vec());
        }
    }
}

// ------------------------------------------------------------------------------------------------ generator

fn divisors(w: usize) -> Vec<usize> {
    WS.iter().copied().filter(|r| w % r == 0).collect()
}

fn permutations(k: usize) -> Vec<Vec<usize>> {
    fn rec(cur: &mut Vec<usize>, used: &mut Vec<bool>, k: usize, out: &mut Vec<Vec<usize>>) {
        if cur.len() == k {
            out.push(cur.clone());
            return;
        }
        for i in 0..k {
            if !used[i] {
                used[i] = true;
                cur.push(i);
                rec(cur, used, k, out);
                cur.pop();
                used[i] = false;
            }
        }
    }
    let mut out = vec![];
    rec(&mut vec![], &mut vec![false; k], k, &mut out);
    out
}

fn block_bytes(rng: &mut Rng, len: usize) -> Vec<u8> {
    let mut d = rng.bytes(len);
    // some erased-looking and some all-zero bytes
    for b in d.iter_mut() {
        match rng.below(16) {
            0 => *b = 0xFF,
            1 => *b = 0x00,
            _ => {}
        }
    }
    d
}

/// a row obeying the `set_row` contract: bit m set, none above
fn row_bytes(rng: &mut Rng, m: usize, n: usize) -> Vec<u8> {
    let mut raw = vec![0u8; n];
    for i in 0..m {
        if rng.chance(1, 2) {
            raw[i / 8] |= 1 << (i % 8);
        }
    }
    raw[m / 8] |= 1 << (m % 8);
    raw
}

#[derive(Clone, Copy, PartialEq)]
enum Probe {
    /// after every store read back every index of the window
    Full,
    /// after every store read back the index and its two neighbours; everything at the end
    Light,
    /// read back only at the end
    End,
}

struct Gen {
    lines: Vec<String>,
    rng: Rng,
}
impl Gen {
    fn range_for(&mut self, need: usize) -> (usize, usize) {
        let start = ERASE * self.rng.below(5) as usize;
        let blocks = (need + ERASE - 1) / ERASE + self.rng.below(3) as usize;
        let end = (start + blocks.max(1) * ERASE).min(DEV_SIZE);
        (start, end)
    }

    /// one scenario of the data or parity adapter: store `order` (distinct indices), probe the `window`
    fn blocks(&mut self, kind: &str, w: usize, r: usize, start: usize, end: usize, len: usize, order: &[usize], window: &[usize], probe: Probe) {
        if kind == "parity" {
            self.lines.push(format!("new parity {} {} {} {} {} tail={}", w, r, start, end, len, TAIL_VARIANT));
        } else {
            self.lines.push(format!("new data {} {} {} {} {}", w, r, start, end, len));
        }
        if probe != Probe::End {
            for j in window {
                self.lines.push(format!("get {}", j));
            }
        }
        for &m in order {
            let d = block_bytes(&mut self.rng, len);
            self.lines.push(format!("store {} {}", m, hex(&d)));
            match probe {
                Probe::Full => {
                    for j in window {
                        self.lines.push(format!("get {}", j));
                    }
                }
                Probe::Light => {
                    for j in window {
                        if j + 1 >= m && *j <= m + 1 {
                            self.lines.push(format!("get {}", j));
                        }
                    }
                }
                Probe::End => {}
            }
        }
        if probe != Probe::Full {
            for j in window {
                self.lines.push(format!("get {}", j));
            }
        }
    }

    fn matrix(&mut self, w: usize, r: usize, start: usize, end: usize, n: usize, order: &[usize], window: &[usize], probe: Probe) {
        self.lines.push(format!("new matrix {} {} {} {} {}", w, r, start, end, n));
        self.lines.push("numrows".into());
        if probe != Probe::End {
            for j in window {
                self.lines.push(format!("getrow {}", j));
            }
        }
        for &m in order {
            let raw = row_bytes(&mut self.rng, m, n);
            self.lines.push(format!("setrow {} {}", m, hex(&raw)));
            match probe {
                Probe::Full => {
                    for j in window {
                        self.lines.push(format!("getrow {}", j));
                    }
                }
                Probe::Light => {
                    for j in window {
                        if j + 1 >= m && *j <= m + 1 {
                            self.lines.push(format!("getrow {}", j));
                        }
                    }
                }
                Probe::End => {}
            }
        }
        if probe != Probe::Full {
            for j in window {
                self.lines.push(format!("getrow {}", j));
            }
        }
    }
}

/// rows the generator may use: what `num_rows` must advertise at least (computed independently and conservatively:
/// the largest k with sum_{i<=k-1} row_size(i) < range and k <= 8 N)
fn usable_rows(w: usize, n: usize, range: usize) -> usize {
    let mut total = 0;
    let mut k = 0;
    while k < 8 * n {
        total += row_size(k, w);
        if total >= range {
            break;
        }
        k += 1;
    }
    k
}

pub fn gen(seed: u64, thorough: bool, o: &mut Out) -> Vec<String> {
    let mut g = Gen { lines: vec![], rng: Rng::new(seed ^ 0xD4D4) };
    let maxperm = if thorough { 5 } else { 4 };
    let mut rot = 0usize;

    for kind in ["data", "parity"] {
        for &w in &WS {
            let rs = divisors(w);
            for len in 1..=64usize {
                if kind == "data" && len < w {
                    continue;
                }
                let slot = if kind == "parity" { round_up(len, w) } else { len };
                // (a) every read size: up to 12 distinct indices in random order, among them the first and the last index
                //     of the range, neighbours probed after each store
                for &r in &rs {
                    let reps = if thorough { 3 } else { 1 };
                    for _ in 0..reps {
                        let k = g.rng.range(1, 12) as usize;
                        let (start, end) = g.range_for(slot * (k + 2));
                        let cap = (end - start) / slot;
                        let mut cand: Vec<usize> = (0..cap.min(16)).collect();
                        g.rng.shuffle(&mut cand);
                        let mut order: Vec<usize> = cand.into_iter().take(k.min(cap)).collect();
                        if g.rng.chance(1, 2) && !order.contains(&(cap - 1)) {
                            order[0] = cap - 1;
                        }
                        g.rng.shuffle(&mut order);
                        let mut window: Vec<usize> = order.clone();
                        for &m in &order {
                            if m > 0 {
                                window.push(m - 1);
                            }
                            if m + 1 < cap {
                                window.push(m + 1);
                            }
                        }
                        window.sort();
                        window.dedup();
                        g.blocks(kind, w, r, start, end, len, &order, &window, Probe::Light);
                        o.stat(&format!("{} random-order scenarios", kind));
                    }
                }
                // (b) every store order of 2 and 3 adjacent indices (all of them probed after every store), of 4
                //     (and 5 in the thorough tier) probed before the first and after the last store; the read size rotates
                for k in 2..=maxperm {
                    let r = rs[rot % rs.len()];
                    rot += 1;
                    let (start, end) = g.range_for(slot * (k + 3));
                    let cap = (end - start) / slot;
                    let base = (g.rng.below(3) as usize).min(cap - k);
                    let window: Vec<usize> = (base.saturating_sub(1)..(base + k + 1).min(cap)).collect();
                    for p in permutations(k) {
                        let order: Vec<usize> = p.iter().map(|i| base + i).collect();
                        g.blocks(kind, w, r, start, end, len, &order, &window, if k <= 3 { Probe::Full } else { Probe::End });
                        o.stat(&format!("{} permutation scenarios of {} indices", kind, k));
                    }
                }
            }
        }
    }

    // matrix adapter
    for &w in &WS {
        for &r in &divisors(w) {
            for &n in &NS {
                let reps = if thorough { 4 } else { 2 };
                for rep in 0..reps {
                    // range sometimes limits the row count, sometimes the bit-array width does
                    let full: usize = (0..8 * n).map(|i| row_size(i, w)).sum();
                    let start = ERASE * g.rng.below(4) as usize;
                    let want = if rep % 2 == 0 { full + 1 + g.rng.below(300) as usize } else { 1 + g.rng.below(full as u64 + 1) as usize };
                    let end = (start + round_up(want.max(1), ERASE)).min(DEV_SIZE);
                    let rows = usable_rows(w, n, end - start);
                    if rows == 0 {
                        g.lines.push(format!("new matrix {} {} {} {} {}", w, r, start, end, n));
                        g.lines.push("numrows".into());
                        continue;
                    }
                    // interesting rows: first, last, around multiples of 8 and of 8 W, first row longer than N bytes
                    let mut cand: Vec<usize> = vec![0, rows - 1];
                    for b in [8, 8 * w, 16 * w, 8 * (n / w) * w] {
                        for d in [b.wrapping_sub(1), b, b + 1] {
                            if d < rows {
                                cand.push(d);
                            }
                        }
                    }
                    for _ in 0..8 {
                        cand.push(g.rng.below(rows as u64) as usize);
                    }
                    cand.sort();
                    cand.dedup();
                    g.rng.shuffle(&mut cand);
                    cand.truncate(12);
                    let mut window = cand.clone();
                    for &m in &cand {
                        if m > 0 {
                            window.push(m - 1);
                        }
                        if m + 1 < rows {
                            window.push(m + 1);
                        }
                    }
                    window.sort();
                    window.dedup();
                    g.matrix(w, r, start, end, n, &cand, &window, Probe::Light);
                    o.stat("matrix random-order scenarios");
                    o.stat(if n % w == 0 { "matrix N multiple of W" } else { "matrix N not a multiple of W" });
                }
            }
        }
        // all store orders of adjacent rows, around the row where the padded tail word starts
        for &n in &NS {
            let r = divisors(w)[rot % divisors(w).len()];
            rot += 1;
            let full: usize = (0..8 * n).map(|i| row_size(i, w)).sum();
            let start = ERASE * g.rng.below(4) as usize;
            let end = (start + round_up(full + 1, ERASE)).min(DEV_SIZE);
            let rows = usable_rows(w, n, end - start);
            for k in 2..=maxperm {
                if rows < k + 1 {
                    continue;
                }
                let bases = [0usize, (8 * (n / w) * w).saturating_sub(2).min(rows - k), (8 * w).saturating_sub(1).min(rows - k), rows - k];
                let mut bs: Vec<usize> = bases.to_vec();
                bs.sort();
                bs.dedup();
                for base in bs {
                    let window: Vec<usize> = (base.saturating_sub(1)..(base + k + 1).min(rows)).collect();
                    for p in permutations(k) {
                        let order: Vec<usize> = p.iter().map(|i| base + i).collect();
                        g.matrix(w, r, start, end, n, &order, &window, if k <= 3 { Probe::Full } else { Probe::End });
                        o.stat(&format!("matrix permutation scenarios of {} rows", k));
                    }
                }
            }
        }
    }

    // differential-only probes outside the callers' contract (no property oracle): rejected `new`, short data blocks,
    // indices beyond the range, rows beyond num_rows
    for &w in &WS {
        let r = divisors(w)[rot % divisors(w).len()];
        rot += 1;
        for (a, b) in [(w, 512 + w), (256, 300), (512, 256), (0, DEV_SIZE + 256), (7936, DEV_SIZE)] {
            g.lines.push(format!("new data {} {} {} {} {}", w, r, a, b, w.max(3)));
            g.lines.push("! offcontract".into());
            g.lines.push(format!("store 0 {}", hex(&g.rng.bytes(w.max(3)))));
        }
        if w > 1 {
            for len in [1, w - 1, w / 2 + 1] {
                g.lines.push(format!("new data {} {} 256 1024 {}", w, r, len));
                g.lines.push("! offcontract".into());
                for m in 0..4 {
                    g.lines.push(format!("store {} {}", m, hex(&g.rng.bytes(len))));
                    g.lines.push(format!("get {}", m));
                }
            }
        }
        for kind in ["data", "parity"] {
            let len = w + 3;
            let slot = if kind == "parity" { round_up(len, w) } else { len };
            for end in [512usize, DEV_SIZE] {
                if kind == "parity" {
                    g.lines.push(format!("new parity {} {} 256 {} {} tail={}", w, r, end, len, TAIL_VARIANT));
                } else {
                    g.lines.push(format!("new data {} {} 256 {} {}", w, r, end, len));
                }
                g.lines.push("! offcontract".into());
                let cap = (end - 256) / slot;
                for m in [cap - 1, cap, cap + 1] {
                    g.lines.push(format!("store {} {}", m, hex(&g.rng.bytes(len))));
                    g.lines.push(format!("get {}", m));
                }
            }
        }
        for &n in &[1usize, 3, 9, 33] {
            g.lines.push(format!("new matrix {} {} 256 {} {}", w, r, DEV_SIZE, n));
            g.lines.push("! offcontract".into());
            g.lines.push("numrows".into());
            for m in [8 * n - 1, 8 * n, 8 * n + 7, 8 * (n + w), 8 * (n + w) + 1] {
                g.lines.push(format!("getrow {}", m));
                if m < 8 * n {
                    g.lines.push(format!("setrow {} {}", m, hex(&row_bytes(&mut g.rng, m, n))));
                    g.lines.push(format!("getrow {}", m));
                }
            }
        }
    }
    o.sample(g.lines.iter().take(12).cloned().collect::<Vec<_>>().join(" | "));
    g.lines
}
