#![allow(dead_code)]
mod consts;
mod d1;
mod d2;
mod d3;
mod d4;
mod d5;
mod d7;
mod d8;
mod d5gen;
mod nor;
mod rows;
mod util;

fn main() {
    let args: Vec<String> = std::env::args().skip(1).collect();
    if std::env::var("FH_DEBUG").is_err() {
        std::panic::set_hook(Box::new(|_| {}));
    }
    let get = |k: &str, d: &str| -> String {
        args.iter().position(|a| a == k).and_then(|i| args.get(i + 1).cloned()).unwrap_or(d.to_string())
    };
    let seed: u64 = get("--seed", "1").parse().unwrap();
    let tier = get("--tier", "quick");
    let out = get("--out", "/tmp/fh-out");
    let thorough = tier == "thorough";
    // hang watchdog: a library call (or a generator) that makes no progress for FH_HANG_SECS seconds is reported with
    // the scenario being executed (<out>/hang.txt) and the process exits with status 3
    {
        let out = out.clone();
        let limit: u64 = std::env::var("FH_HANG_SECS").ok().and_then(|v| v.parse().ok()).unwrap_or(120);
        std::thread::spawn(move || {
            use std::sync::atomic::Ordering;
            let mut last = util::PROGRESS.load(Ordering::Relaxed);
            let mut idle = 0u64;
            loop {
                std::thread::sleep(std::time::Duration::from_secs(1));
                let now = util::PROGRESS.load(Ordering::Relaxed);
                if now != last {
                    last = now;
                    idle = 0;
                    continue;
                }
                idle += 1;
                let lim = if util::GENERATING.load(Ordering::Relaxed) { limit * 3 } else { limit };
                if idle >= lim {
                    let cur = util::CURRENT.lock().map(|c| c.clone()).unwrap_or_default();
                    let _ = std::fs::create_dir_all(&out);
                    let _ = std::fs::write(format!("{}/hang.txt", out), cur.join("\n") + "\n");
                    eprintln!("HANG: no progress for {} s; the scenario being executed is in {}/hang.txt", idle, out);
                    std::process::exit(3);
                }
            }
        });
    }
    let run = |name: &str, gen: &dyn Fn(u64, bool, &mut util::Out) -> Vec<String>, exec: &mut dyn FnMut(&str, &mut util::Out) -> String| {
        let mut o = util::Out::new();
        let lines: Vec<String> = match args.iter().position(|a| a == "--in") {
            Some(i) => std::fs::read_to_string(&args[i + 1]).unwrap().lines().map(|s| s.to_string()).collect(),
            None => {
                // minimised past failures run first: <corpus>/<suite>.txt
                let mut v: Vec<String> = vec![];
                if let Some(i) = args.iter().position(|a| a == "--corpus") {
                    if let Ok(t) = std::fs::read_to_string(format!("{}/{}.txt", args[i + 1], name)) {
                        v.extend(t.lines().filter(|l| !l.trim().is_empty() && !l.starts_with('#')).map(|s| s.to_string()));
                        o.stat_n("corpus-lines", v.len() as u64);
                    }
                }
                v.extend(gen(seed, thorough, &mut o));
                v
            }
        };
        util::GENERATING.store(false, std::sync::atomic::Ordering::Relaxed);
        for l in lines {
            util::tick(&l);
            let a = match util::guarded(|| exec(&l, &mut o)) {
                Ok(a) => a,
                Err(e) => format!("HARNESS-PANIC {}", e.replace('\n', " ")),
            };
            o.qa(l, a);
        }
        o.write(&out);
    };
    match args.first().map(|s| s.as_str()) {
        Some("consts") => consts::run(),
        Some("d3") => run("d3", &d3::gen, &mut d3::exec),
        Some("d2") => run("d2", &d2::gen, &mut d2::exec),
        Some("d7") => run("d7", &d7::gen, &mut d7::exec),
        Some("d4") => {
            let mut ex = d4::Exec::new();
            run("d4", &d4::gen, &mut |l, o| ex.line(l, o))
        }
        Some("d1") => {
            let mut ex = d1::Exec::new();
            run("d1", &d1::gen, &mut |l, o| ex.line(l, o))
        }
        Some("d5s") => {
            let mut ex = d5::Exec::new();
            run("d5s", &d5gen::gen_sessions, &mut |l, o| ex.line(l, o))
        }
        Some("d5g") => {
            let mut ex = d5::Exec::new();
            run("d5g", &d5gen::gen_geometry, &mut |l, o| ex.line(l, o))
        }
        Some("d5r") => { let mut ex = d5::Exec::new(); run("d5r", &d5gen::gen_reboot, &mut |l, o| ex.line(l, o)) }
        Some("d5c") => { let mut ex = d5::Exec::new(); run("d5c", &d5gen::gen_crash_resume, &mut |l, o| ex.line(l, o)) }
        Some("d5t") => { let mut ex = d5::Exec::new(); run("d5t", &d5gen::gen_torn_resume, &mut |l, o| ex.line(l, o)) }
        Some("d5f") => { let mut ex = d5::Exec::new(); run("d5f", &d5gen::gen_flash_faults, &mut |l, o| ex.line(l, o)) }
        Some("d5fr") => { let mut ex = d5::Exec::new(); run("d5fr", &d5gen::gen_flash_faults_reads, &mut |l, o| ex.line(l, o)) }
        Some("d5m") => { let mut ex = d5::Exec::new(); run("d5m", &d5gen::gen_malformed, &mut |l, o| ex.line(l, o)) }
        Some("d5w") => { let mut ex = d5::Exec::new(); run("d5w", &d5gen::gen_crash_sweep, &mut |l, o| ex.line(l, o)) }
        Some("d6") => { let mut ex = d5::Exec::new(); run("d6", &d5gen::gen_ring, &mut |l, o| ex.line(l, o)) }
        Some("d8s") => { let mut ex = d8::Exec::new(); run("d8s", &d8::gen_sessions, &mut |l, o| ex.line(l, o)) }
        Some("d8c") => { let mut ex = d8::Exec::new(); run("d8c", &d8::gen_crash, &mut |l, o| ex.line(l, o)) }
        Some("d8r") => { let mut ex = d8::Exec::new(); run("d8r", &d8::gen_ring, &mut |l, o| ex.line(l, o)) }
        Some("d1f") => {
            let mut ex = d1::Exec::new();
            run("d1f", &d1::gen_faults, &mut |l, o| ex.line(l, o))
        }
        _ => {
            eprintln!("usage: fh <consts|d3|...> [--seed n] [--tier quick|thorough] [--out dir] [--in scen.txt]");
            std::process::exit(2);
        }
    }
}
