//! Scenario generators for the session suites (D5) over `d5::Exec`.
use crate::d5::Exec;
use crate::util::*;

#[derive(Clone)]
pub struct Geo {
    pub nslots: usize,
    pub slot: usize,
    pub block: usize,
}

#[derive(Clone)]
pub struct Img {
    pub sz: usize,
    pub n: usize,
    pub bytes: Vec<u8>,
}

impl Img {
    /// an image that passes validation: LE32 CRC-32/CKSUM of bytes 68.. at offset 0, 64 signature bytes, payload
    pub fn make(rng: &mut Rng, sz: usize, n: usize) -> Img {
        let total = sz * n;
        let mut bytes = rng.bytes(total);
        // firmware-like content in a third of the images: fragments of 0xFF padding, all-zero fragments, repeated
        // fragments (equal blocks XOR to zero), fragments beginning with FF FF FF FF
        if n >= 3 && rng.chance(1, 3) {
            let style = rng.below(4);
            let k = rng.range(1, (n as u64 / 2).max(1)) as usize;
            for _ in 0..k {
                let i = rng.below(n as u64) as usize;
                let j = rng.below(n as u64) as usize;
                match style {
                    0 => bytes[i * sz..(i + 1) * sz].fill(0xFF),
                    1 => bytes[i * sz..(i + 1) * sz].fill(0x00),
                    2 => {
                        let src = bytes[j * sz..(j + 1) * sz].to_vec();
                        bytes[i * sz..(i + 1) * sz].copy_from_slice(&src);
                    }
                    _ => {
                        let m = sz.min(4);
                        bytes[i * sz..i * sz + m].fill(0xFF);
                    }
                }
            }
        }
        let crc = if total > 68 { crc_cksum(&bytes[68..]) } else { crc_cksum(&[]) };
        let c = crc.to_le_bytes();
        for i in 0..4.min(total) {
            bytes[i] = c[i];
        }
        Img { sz, n, bytes }
    }
    /// recompute the CRC word after the payload was edited
    pub fn fix_crc(&mut self) {
        let total = self.bytes.len();
        let crc = if total > 68 { crc_cksum(&self.bytes[68..]) } else { crc_cksum(&[]) };
        let c = crc.to_le_bytes();
        for i in 0..4.min(total) {
            self.bytes[i] = c[i];
        }
    }
    pub fn frag(&self, i0: usize) -> &[u8] {
        &self.bytes[i0 * self.sz..(i0 + 1) * self.sz]
    }
    /// coded fragment k (1-based): XOR of the data fragments selected by row k (independent row generator, `rows.rs`);
    /// an undefined row (non-terminating generator) yields a zero fragment — callers skip such indices
    pub fn coded(&self, k: u32) -> Vec<u8> {
        let mut out = vec![0u8; self.sz];
        if let Some(row) = crate::rows::parity_row(k, self.n, crate::rows::ffr()) {
            for i in 0..self.n {
                if row[i] {
                    for (o, b) in out.iter_mut().zip(self.frag(i)) {
                        *o ^= *b;
                    }
                }
            }
        }
        out
    }
    /// 1-based fragment index -> bytes
    pub fn fragment(&self, idx1: u32) -> Vec<u8> {
        if idx1 as usize <= self.n {
            self.frag(idx1 as usize - 1).to_vec()
        } else {
            self.coded(idx1 - self.n as u32)
        }
    }
    pub fn lines(&self) -> Vec<String> {
        vec![format!("image {} {} {}", self.sz, self.n, hex(&self.bytes))]
    }
}

/// parity capacity the code computes for a geometry (binary search of start_update, re-derived independently)
pub fn capacity(slot: usize, sz: usize) -> usize {
    let room = slot - 0x4400;
    let off = |i: usize| {
        let c = i / 8;
        let p = i % 8;
        c * (c + 1) * 4 + p * (c + 1)
    };
    let mut best = 0;
    for l in 0..2048 {
        if off(l) + l * sz <= room {
            best = l;
        }
    }
    best
}

pub fn pick_geo(rng: &mut Rng, thorough: bool) -> Geo {
    let nslots = *rng.pick(&[4usize, 4, 5, 6]);
    let block = *rng.pick(&[256usize, 1024, 4096]);
    let min_blocks = 17408 / block + 1;
    let extra = match rng.below(4) {
        0 => 0,
        1 => rng.range(1, 4),
        2 => rng.range(4, 16),
        _ => rng.range(1, if thorough { 64 } else { 24 }),
    } as usize;
    // slot sizes from the minimum upward; erase blocks divide the slot
    let slot = (min_blocks + extra) * block;
    Geo { nslots, slot, block }
}

pub fn pick_size(rng: &mut Rng) -> usize {
    match rng.below(4) {
        0 => *rng.pick(&[1usize, 2, 3, 4, 17, 34, 45, 67, 68, 69, 136, 255, 256]),
        1 => rng.range(1, 16) as usize,
        _ => rng.range(1, 256) as usize,
    }
}

/// delivery order over 1-based fragment indices
pub fn delivery(rng: &mut Rng, n: usize, lost: &[usize], ncoded: usize, o: &mut Out) -> Vec<u32> {
    let mut data: Vec<u32> = (1..=n as u32).filter(|i| !lost.contains(&(*i as usize - 1))).collect();
    // coded-fragment numbers: mostly 1.., sometimes late in the transmission (fragment numbers around and above
    // 2^14, the largest TS004 coded-fragment numbers, PRBS seeds >= 2^23)
    let base: u32 = match rng.below(8) {
        0 => (16384u32 - (n as u32).min(16380)).saturating_sub(rng.range(0, 6) as u32),
        1 => *rng.pick(&[8380u32, 8381, 16000, 16383 - ncoded as u32 % 16000]),
        _ => 0,
    };
    if base != 0 {
        o.stat("coded-numbers-late");
    }
    let mut coded: Vec<u32> = (1..=ncoded as u32)
        .map(|k| base + k)
        .filter(|k| crate::rows::parity_row(*k, n, crate::rows::ffr()).is_some())
        .map(|k| n as u32 + k)
        .collect();
    let style = rng.below(5);
    o.stat(&format!("order-{}", ["in-order", "shuffled", "coded-first", "duplicates", "interleaved"][style as usize]));
    let mut seq: Vec<u32> = vec![];
    match style {
        0 => {
            seq.extend(&data);
            seq.extend(&coded);
        }
        1 => {
            seq.extend(&data);
            seq.extend(&coded);
            rng.shuffle(&mut seq);
        }
        2 => {
            let k = rng.range(0, coded.len() as u64) as usize;
            rng.shuffle(&mut coded);
            seq.extend(&coded[..k]);
            rng.shuffle(&mut data);
            seq.extend(&data);
            seq.extend(&coded[k..]);
        }
        3 => {
            seq.extend(&data);
            seq.extend(&coded);
            for _ in 0..(if seq.is_empty() { 0 } else { seq.len() / 3 + 1 }) {
                let v = seq[rng.below(seq.len() as u64) as usize];
                let p = rng.below(seq.len() as u64 + 1) as usize;
                seq.insert(p, v);
            }
        }
        _ => {
            let mut ci = 0;
            for d in &data {
                seq.push(*d);
                if ci < coded.len() && rng.chance(1, 3) {
                    seq.push(coded[ci]);
                    ci += 1;
                }
            }
            seq.extend(&coded[ci..]);
        }
    }
    seq
}

/// bring the ring to a random position: a few tiny completed / cancelled updates before the scenario proper; completed
/// images are (mostly) taken through the bootloader copy and the first-boot acknowledgement, so that confirmed images
/// are skipped by later allocations and wrapped pairs (firmware in the last slot, parity in slot 0) occur.
/// Generated by executing the lines (the slot a completed image landed in is read from the answer of `check`).
pub fn preamble(rng: &mut Rng, g: &Geo) -> Vec<String> {
    let mut q = vec![];
    let mut ex = Exec::new();
    let mut dummy = Out::new();
    let mut push = |q: &mut Vec<String>, ex: &mut Exec, l: String, keep: bool| -> String {
        let a = guarded(|| ex.line(&l, &mut dummy)).unwrap_or_else(|_| "HARNESS-PANIC".into());
        if keep {
            q.push(l);
        }
        a
    };
    push(&mut q, &mut ex, format!("new dev {} {} {}", g.nslots, g.slot, g.block), false);
    let k = rng.below(2 * g.nslots as u64) as usize;
    for _ in 0..k {
        let img = Img::make(rng, 4, 18);
        push(&mut q, &mut ex, format!("start {} {}", img.sz, img.n), true);
        match rng.below(3) {
            0 => {
                push(&mut q, &mut ex, "cancel".into(), true);
            }
            _ => {
                for l in img.lines() {
                    push(&mut q, &mut ex, l, true);
                }
                for i in 1..=img.n as u32 {
                    push(&mut q, &mut ex, format!("seg {} {}", i, hex(&img.fragment(i))), true);
                }
                let a = push(&mut q, &mut ex, "check".into(), true);
                let slot = a.strip_prefix("res=Ok(").and_then(|r| r.split(')').next()).and_then(|v| v.parse::<usize>().ok());
                if let Some(sl) = slot {
                    match rng.below(6) {
                        0 | 1 => {} // left awaiting the bootloader copy
                        2 => {
                            push(&mut q, &mut ex, format!("mark {} int", sl), true);
                            push(&mut q, &mut ex, format!("mark {} bad", sl), true);
                        }
                        _ => {
                            push(&mut q, &mut ex, format!("mark {} int", sl), true);
                            push(&mut q, &mut ex, format!("mark {} ok", sl), true);
                        }
                    }
                }
            }
        }
    }
    q
}

/// a script with a fixed geometry, image size and loss set
pub fn directed_script(rng: &mut Rng, geo: Geo, sz: usize, n: usize, lost: &[usize], ncoded: usize, pre: Vec<String>) -> Script {
    let img = Img::make(rng, sz, n);
    let mut ops = vec![format!("start {} {}", sz, n)];
    for i in 1..=n as u32 {
        if !lost.contains(&(i as usize - 1)) {
            ops.push(format!("seg {} {}", i, hex(&img.fragment(i))));
        }
    }
    for k in 1..=ncoded as u32 {
        ops.push(format!("seg {} {}", n as u32 + k, hex(&img.fragment(n as u32 + k))));
    }
    for i in lost {
        ops.push(format!("seg {} {}", i + 1, hex(&img.fragment(*i as u32 + 1))));
    }
    ops.push("check".into());
    Script { geo, pre, img, ops }
}

/// (slot size, fragment size) pairs whose parity region is filled exactly: capacity * size + row offset == room
pub fn exact_fit_geometries() -> Vec<(usize, usize)> {
    let mut v = vec![];
    for slot in [20480usize, 24576, 32768, 65536] {
        let room = slot - 0x4400;
        for sz in 1..=256usize {
            let l = capacity(slot, sz);
            let c = l / 8;
            let p = l % 8;
            if l > 0 && l < 2047 && c * (c + 1) * 4 + p * (c + 1) + l * sz == room {
                v.push((slot, sz));
            }
        }
    }
    v
}

/// G1: complete sessions (C01 C08 and the session part of C15)
pub fn gen_sessions(seed: u64, thorough: bool, o: &mut Out) -> Vec<String> {
    let mut rng = Rng::new(seed ^ 0xD5);
    let mut q = vec![];
    let nscn = if thorough { 600 } else { 60 };
    for it in 0..nscn {
        let g = pick_geo(&mut rng, thorough);
        let sz = pick_size(&mut rng);
        let room = g.slot - 0x4400;
        let maxn = (room / sz).min(16384).max(1);
        let n = match rng.below(5) {
            0 => 1.min(maxn),
            1 => maxn.min(rng.range(1, 8) as usize),
            2 => maxn.min(300),
            _ => maxn.min(rng.range(1, if thorough { 300 } else { 120 }) as usize),
        };
        let cap = capacity(g.slot, sz);
        let img = Img::make(&mut rng, sz, n);
        // loss sets up to and beyond the parity capacity
        let nloss = match rng.below(5) {
            0 => 0,
            1 => 1.min(n),
            2 => cap.min(n),
            3 => (cap + 1).min(n),
            _ => rng.range(0, n.min(cap + 3) as u64) as usize,
        };
        let mut idx: Vec<usize> = (0..n).collect();
        rng.shuffle(&mut idx);
        let lost: Vec<usize> = idx[..nloss].to_vec();
        let ncoded = match rng.below(4) {
            0 => 0,
            1 => nloss,
            2 => nloss + rng.range(1, 6) as usize,
            _ => rng.range(0, (2 * n) as u64).min(40) as usize,
        };
        o.stat(&format!("nslots-{}", g.nslots));
        o.stat(if nloss == 0 { "loss-none" } else if nloss <= cap { "loss-within-capacity" } else { "loss-beyond-capacity" });
        o.stat(if sz * n <= 68 { "image<=68B" } else if sz < 68 { "size<68" } else if sz == 68 { "size=68" } else { "size>68" });
        q.push(format!("new dev {} {} {}", g.nslots, g.slot, g.block));
        q.extend(preamble(&mut rng, &g));
        q.extend(img.lines());
        q.push(format!("start {} {}", sz, n));
        let seq = delivery(&mut rng, n, &lost, ncoded, o);
        if it < 2 {
            o.sample(format!("dev {}x{} block {} ; image {}x{} ; lost {:?} ; order {:?}", g.nslots, g.slot, g.block, sz, n, &lost[..lost.len().min(8)], &seq[..seq.len().min(16)]));
        }
        for i in &seq {
            q.push(format!("seg {} {}", i, hex(&img.fragment(*i))));
        }
        // a full pass of the data afterwards in half of the cases (always completes then)
        if rng.chance(1, 2) {
            for i in 1..=n as u32 {
                q.push(format!("seg {} {}", i, hex(&img.fragment(i))));
            }
        }
        q.push("check".into());
        q.push("dump".into());
    }
    // directed classes: (a) losses confined to the 64 signature bytes (offsets 4..68), which the CRC does not cover,
    // with zero-filled and random signatures; (b) exactly as many losses as the parity capacity on the smallest slots
    let ndir = if thorough { 60 } else { 12 };
    for it in 0..ndir {
        let block = 256usize;
        let slot = (17408 / block + 1 + (it % 3)) * block;
        let sz = if it % 3 == 0 { 1 } else { *rng.pick(&[1usize, 2, 4, 8, 16]) };
        let cap = capacity(slot, sz);
        let room = slot - 0x4400;
        let n = (room / sz).min(if sz == 1 { 200 } else { 120 }).max(68 / sz + 2);
        let mut img = Img::make(&mut rng, sz, n);
        if it % 2 == 0 {
            // zero signature (a placeholder, as shipped images have)
            for b in &mut img.bytes[4..68.min(sz * n)] {
                *b = 0;
            }
        }
        if it % 4 >= 2 {
            // firmware-like tail: the last third of the image is 0xFF padding (received fragments that read like erased flash)
            let total = sz * n;
            let from = (total * 2 / 3).max(68.min(total));
            for b in &mut img.bytes[from..] {
                *b = 0xFF;
            }
            img.fix_crc();
            o.stat("image-with-ff-padding-tail");
        }
        // fragments lying entirely inside bytes 4..68
        let inside: Vec<usize> = (0..n).filter(|i| i * sz >= 4 && (i + 1) * sz <= 68).collect();
        let mut lost: Vec<usize> = inside.clone();
        rng.shuffle(&mut lost);
        let want = match it % 3 { 0 => cap, 1 => cap.min(lost.len()).saturating_sub(1).max(1), _ => 2 };
        lost.truncate(want.min(cap).min(lost.len()));
        o.stat("loss-inside-signature-bytes");
        if lost.len() == cap {
            o.stat("loss-exactly-capacity");
        }
        let nslots = 4;
        q.push(format!("new dev {} {} {}", nslots, slot, block));
        q.extend(img.lines());
        q.push(format!("start {} {}", sz, n));
        for i in 1..=n as u32 {
            if !lost.contains(&(i as usize - 1)) {
                q.push(format!("seg {} {}", i, hex(&img.fragment(i))));
            }
        }
        for k in 1..=(lost.len() as u32 + 6) {
            q.push(format!("seg {} {}", n as u32 + k, hex(&img.fragment(n as u32 + k))));
        }
        q.push("check".into());
        q.push("dump".into());
    }
    // (c) a coded fragment refused while more fragments are missing than the capacity, then exactly enough data to come
    // back within the capacity, then only coded fragments: must complete at full rank (nothing "sticks" from the refusal)
    for it in 0..(if thorough { 24 } else { 6 }) {
        let block = 256usize;
        let slot = (17408 / block + 1 + (it % 3)) * block;
        let sz = *rng.pick(&[1usize, 2, 4]);
        let cap = capacity(slot, sz);
        let room = slot - 0x4400;
        let n = (room / sz).min(cap + 40);
        if cap == 0 || n < cap + 4 {
            continue;
        }
        let img = Img::make(&mut rng, sz, n);
        let over = 1 + (it / 3) % 3;
        let mut idx: Vec<usize> = (0..n).collect();
        rng.shuffle(&mut idx);
        let lost: Vec<usize> = idx[..cap + over].to_vec();
        o.stat("refused-then-within-capacity");
        q.push(format!("new dev 4 {} {}", slot, block));
        q.extend(img.lines());
        q.push(format!("start {} {}", sz, n));
        for i in 1..=n as u32 {
            if !lost.contains(&(i as usize - 1)) {
                q.push(format!("seg {} {}", i, hex(&img.fragment(i))));
            }
        }
        // refused
        for k in 1..=(1 + it as u32 % 2) {
            q.push(format!("seg {} {}", n as u32 + k, hex(&img.fragment(n as u32 + k))));
        }
        // exactly enough data to be within the capacity (it % 2: one more than needed)
        for i in &lost[..over + (it / 2) % 2] {
            q.push(format!("seg {} {}", i + 1, hex(&img.fragment(*i as u32 + 1))));
        }
        for k in 3..=(cap as u32 + 14) {
            q.push(format!("seg {} {}", n as u32 + k, hex(&img.fragment(n as u32 + k))));
        }
        q.push("check".into());
        q.push("dump".into());
    }
    q
}

/// G2: geometry acceptance (C15): boundary classes of (size, count) x slot sizes, nothing touched on error
pub fn gen_geometry(seed: u64, thorough: bool, o: &mut Out) -> Vec<String> {
    let mut rng = Rng::new(seed ^ 0x15);
    let mut q = vec![];
    let vals: Vec<u32> = vec![0, 1, 2, 255, 256, 257, 16383, 16384, 16385, 65535, 65536, 0x7FFF_FFFF, 0xFFFF_FFFF];
    // 294912 / 299008: the documented capacity reaches its maximum 2047 (1..3-byte / 16-byte fragments)
    let slots: Vec<usize> = if thorough { vec![17409 + 255, 20480, 24576, 65536, 262144, 294912, 299008, 1048576] } else { vec![20480, 65536, 294912] };
    for slot in &slots {
        let block = if slot % 4096 == 0 { 4096 } else { 1 };
        let slot = if block == 1 { *slot } else { *slot };
        for sz in &vals {
            for n in &vals {
                q.push(format!("new dev 4 {} {}", slot, if block == 1 { slot } else { 4096 }));
                q.push(format!("start {} {}", sz, n));
                o.stat("geometry-boundary-pairs");
            }
        }
        // every fragment size once on the big slots (the capacity oracle of `start` compares with the documented bound)
        if slot >= 262144 {
            for sz in [1u32, 2, 3, 4, 8, 16, 17, 64, 255, 256] {
                q.push(format!("new dev 4 {} 4096", slot));
                q.push(format!("start {} {}", sz, 100));
                o.stat("geometry-large-slot-capacity");
            }
        }
        // around the exact fit
        for _ in 0..(if thorough { 300 } else { 60 }) {
            let sz = pick_size(&mut rng) as u32;
            let room = (slot - 0x4400) as u32;
            let fit = room / sz;
            let n = (fit as i64 + rng.range(0, 4) as i64 - 2).max(0) as u32;
            q.push(format!("new dev 4 {} {}", slot, if block == 1 { slot } else { 4096 }));
            q.push(format!("start {} {}", sz, n));
            o.stat("geometry-around-fit");
        }
    }
    q
}

/// reference execution of scenario lines; returns the implementation's answers
pub fn reference(lines: &[String]) -> Vec<String> {
    let mut ex = Exec::new();
    let mut dummy = Out::new();
    lines.iter().map(|l| guarded(|| ex.line(l, &mut dummy)).unwrap_or_else(|_| "HARNESS-PANIC".into())).collect()
}

pub fn nops(ans: &str) -> usize {
    match ans.split(" ; ").find(|p| p.starts_with("ops=")) {
        None => 0,
        Some(p) => {
            let v = &p[4..];
            if v == "-" { 0 } else { v.matches(',').count() + 1 }
        }
    }
}

// ------------------------------------------------------------------ twin / crash / fault / malformed generators

/// a session script: device, preamble, image, the operations (start, seg..., check)
pub struct Script {
    pub geo: Geo,
    pub pre: Vec<String>,
    pub img: Img,
    pub ops: Vec<String>, // "start sz n", "seg i hex"..., "check"
}

pub fn small_script(rng: &mut Rng, o: &mut Out, with_preamble: bool) -> Script {
    // small geometries so that every operation boundary can be enumerated
    let nslots = *rng.pick(&[4usize, 4, 5, 6]);
    let variant = rng.below(7); // 0..3 small, 4 = many losses (rows with index >= 8), 5 = image fills the slot, losses = capacity,
                                // 6 = many losses all covered by the first coded fragment delivered (a stored row of all ones)
    let block = if variant == 5 { 256 } else { *rng.pick(&[1024usize, 4096]) };
    let slot = if variant == 5 { (17408 / block + 1) * block } else { ((17408 / block) + 1 + rng.range(0, 2) as usize) * block };
    let geo = Geo { nslots, slot, block };
    let sz = if variant == 5 { *rng.pick(&[2usize, 3, 4]) } else { *rng.pick(&[1usize, 3, 4, 7, 17, 40]) };
    let room = slot - 0x4400;
    let cap = capacity(slot, sz);
    let n = match variant {
        4 | 6 => rng.range(24, 40).min((room / sz) as u64) as usize,
        5 => (room / sz).min(cap + 15),
        _ => rng.range(2, 14).min((room / sz) as u64) as usize,
    };
    let img = Img::make(rng, sz, n.max(1));
    let n = img.n;
    let nloss = match variant {
        4 | 6 => rng.range(9, 14).min(cap.min(n) as u64) as usize,
        5 => cap.min(n),
        _ => rng.range(0, (cap.min(n).min(4)) as u64) as usize,
    };
    o.stat(&format!("script-variant-{}", ["small", "small", "small", "small", "many-losses", "losses=capacity", "all-ones-row"][variant as usize]));
    let mut idx: Vec<usize> = (0..n).collect();
    rng.shuffle(&mut idx);
    let mut lost: Vec<usize> = idx[..nloss].to_vec();
    let ncoded = nloss + rng.range(0, 3) as usize;
    let mut seq = delivery(rng, n, &lost, ncoded, o);
    if variant == 6 {
        // lose fragments from the support of one coded fragment and deliver that coded fragment first
        let k = rng.range(1, 6) as u32;
        if let Some(row) = crate::rows::parity_row(k, n, crate::rows::ffr()) {
            let mut sup: Vec<usize> = (0..n).filter(|i| row[*i]).collect();
            rng.shuffle(&mut sup);
            sup.truncate(nloss.max(9).min(cap));
            if sup.len() >= 9 {
                lost = sup;
                seq = (1..=n as u32).filter(|i| !lost.contains(&(*i as usize - 1))).collect();
                seq.push(n as u32 + k);
                for kk in 1..=(lost.len() as u32 + 4) {
                    if kk != k {
                        seq.push(n as u32 + kk);
                    }
                }
            }
        }
    }
    let mut ops = vec![format!("start {} {}", sz, n)];
    for i in &seq {
        ops.push(format!("seg {} {}", i, hex(&img.fragment(*i))));
    }
    // full pass of the data so that the reference run always completes
    for i in 1..=n as u32 {
        ops.push(format!("seg {} {}", i, hex(&img.fragment(i))));
    }
    ops.push("check".into());
    let pre = if with_preamble { preamble(rng, &geo) } else { vec![] };
    Script { geo, pre, img, ops }
}

impl Script {
    pub fn head(&self) -> Vec<String> {
        let mut q = vec![format!("new dev {} {} {}", self.geo.nslots, self.geo.slot, self.geo.block)];
        q.extend(self.pre.clone());
        q.extend(self.img.lines());
        q
    }
    pub fn full_pass(&self) -> Vec<String> {
        (1..=self.img.n as u32).map(|i| format!("seg {} {}", i, hex(&self.img.fragment(i)))).collect()
    }
}

/// G4 (C07): clean reboot between two fragments, at every position (sampled in quick tier), 1..3 reboots
pub fn gen_reboot(seed: u64, thorough: bool, o: &mut Out) -> Vec<String> {
    let mut rng = Rng::new(seed ^ 0x07);
    let mut q = vec![];
    let nscn = if thorough { 120 } else { 14 };
    for it in 0..nscn {
        let mut s = small_script(&mut rng, o, it % 2 == 0);
        while capacity(s.geo.slot, s.img.sz) == 0 {
            s = small_script(&mut rng, o, it % 2 == 0);
        }
        // reference (uninterrupted) run
        q.extend(s.head());
        q.push("base begin".into());
        q.extend(s.ops.clone());
        q.push("base end".into());
        q.push("dump".into());
        let nops = s.ops.len();
        let mut positions: Vec<usize> = (1..nops).collect(); // after op p-1, before op p (p=1: before the first fragment)
        if !thorough && positions.len() > 10 {
            rng.shuffle(&mut positions);
            positions.truncate(10);
            positions.push(1);
            positions.push(nops - 1); // after completion, before the final mark
        }
        for p in positions {
            q.extend(s.head());
            q.push("variant C07 reboot".into());
            let reboots = rng.range(1, 3);
            for (j, op) in s.ops.iter().enumerate() {
                if j == p {
                    for _ in 0..reboots {
                        q.push("reboot".into());
                        q.push("recover".into());
                    }
                }
                q.push(op.clone());
            }
            q.push("dump".into());
            o.stat("reboot-positions");
        }
    }
    // ---- directed scripts
    let mut directed: Vec<(Script, &str)> = vec![];
    // (a) wrapped pair: firmware in the last slot, parity in slot 0 (or the reverse)
    // (with 4 slots pairs always start at an even slot; with 6 a wrapped pair needs a confirmed image in the way)
    for nsl in [5usize, 6] {
        for _ in 0..(if thorough { 3 } else { 1 }) {
            for _try in 0..(if nsl == 5 { 80 } else { 120 }) {
                let mut s = small_script(&mut rng, &mut Out::new(), false);
                if capacity(s.geo.slot, s.img.sz) == 0 {
                    continue;
                }
                s.geo.nslots = nsl;
                s.pre = preamble(&mut rng, &s.geo);
                let mut probe = s.head();
                probe.push(s.ops[0].clone());
                let a = reference(&probe).pop().unwrap_or_default();
                let get = |k: &str| a.split(" ; ").find_map(|p| p.strip_prefix(k)).and_then(|v| v.parse::<usize>().ok());
                if let (Some(fw), Some(par)) = (get("fw="), get("par=")) {
                    if fw.max(par) == nsl - 1 && fw.min(par) == 0 {
                        directed.push((s, "reboot-wrapped-pair"));
                        break;
                    }
                }
            }
        }
    }
    // (b) more than 256 fragments with one whole aligned page of 256 status entries still blank and later entries set
    for page in 0..2usize {
        let geo = Geo { nslots: 4, slot: 20480, block: 4096 };
        let n = 700;
        let lost: Vec<usize> = (page * 256..page * 256 + 256).collect();
        directed.push((directed_script(&mut rng, geo, 4, n, &lost, 2, vec![]), "reboot-blank-status-page"));
    }
    // (c) geometries whose parity region is filled exactly
    let fits = exact_fit_geometries();
    for j in 0..(if thorough { fits.len() } else { fits.len().min(3) }) {
        let (slot, sz) = fits[(j * 7 + seed as usize) % fits.len()];
        let geo = Geo { nslots: *rng.pick(&[4usize, 5, 6]), slot, block: 4096 };
        let n = rng.range(6, 14) as usize;
        let mut idx: Vec<usize> = (0..n).collect();
        rng.shuffle(&mut idx);
        let lost = idx[..2].to_vec();
        directed.push((directed_script(&mut rng, geo, sz, n, &lost, 3, vec![]), "reboot-exact-fit-geometry"));
    }
    for (s, class) in directed {
        o.stat(class);
        q.extend(s.head());
        q.push("base begin".into());
        q.extend(s.ops.clone());
        q.push("base end".into());
        q.push("dump".into());
        let nops = s.ops.len();
        let mut positions: Vec<usize> = vec![1, nops / 3, nops / 2, nops - 2, nops - 1];
        if class == "reboot-blank-status-page" {
            // after the stored fragments (n - 256 of them), before and after the coded ones
            positions = vec![1 + (s.img.n - 256), 1 + (s.img.n - 256) + 2, nops - 1];
        }
        positions.sort();
        positions.dedup();
        for p in positions {
            if p == 0 || p >= nops {
                continue;
            }
            q.extend(s.head());
            q.push("variant C07 reboot".into());
            for (j, op) in s.ops.iter().enumerate() {
                if j == p {
                    q.push("reboot".into());
                    q.push("recover".into());
                }
                q.push(op.clone());
            }
            q.push("dump".into());
            o.stat("reboot-positions");
        }
    }
    q
}

fn site_of(addr_slot: usize, off: usize, fw: usize, par: usize, in_finish: bool, kind: &str, first_parity_write_of_seg: bool) -> &'static str {
    let _ = kind;
    if addr_slot == fw {
        if in_finish { "finish" } else if off < 0x400 { "header" } else if off < 0x4400 { "status" } else { "data" }
    } else if addr_slot == par {
        if off < 0x400 { "header" } else if first_parity_write_of_seg { "parity-block" } else { "row" }
    } else {
        "other-slot"
    }
}

/// per operation of a script: the list of (site class) of its mutating ops, from a reference run
pub fn op_sites(s: &Script) -> Vec<Vec<&'static str>> {
    let mut lines = s.head();
    lines.extend(s.ops.clone());
    let ans = reference(&lines);
    let base = s.head().len();
    // learn fw / par from the start answer
    let start_ans = &ans[base];
    let getk = |k: &str| -> usize {
        start_ans.split(" ; ").find(|p| p.starts_with(k)).map(|p| p[k.len()..].parse().unwrap_or(99)).unwrap_or(99)
    };
    let (fw, par) = (getk("fw="), getk("par="));
    let mut out = vec![];
    for (j, _) in s.ops.iter().enumerate() {
        let a = &ans[base + j];
        let opsf = a.split(" ; ").find(|p| p.starts_with("ops=")).map(|p| &p[4..]).unwrap_or("-");
        let mut v = vec![];
        if opsf != "-" {
            let is_start = s.ops[j].starts_with("start");
            let is_check = s.ops[j] == "check";
            let mut seen_par = false;
            let mut seen_row = false;
            for op in opsf.split(',') {
                // E<slot>+<off> | W<slot>+<off>:...
                let body = &op[1..];
                let (sl, rest) = body.split_once('+').unwrap();
                let off: usize = rest.split(':').next().unwrap().parse().unwrap();
                let sl: usize = sl.parse().unwrap();
                let site = if is_start { "start" } else if is_check { "mark" } else {
                    let first_par = sl == par && !seen_par;
                    let st = site_of(sl, off, fw, par, seen_row, "", first_par);
                    if sl == par {
                        if seen_par { seen_row = true; }
                        seen_par = true;
                    }
                    st
                };
                v.push(site);
            }
        }
        out.push(v);
    }
    out
}

/// G5 (C06): power loss at every mutating-op boundary of start / fragments / check, then recovery and completion
pub fn gen_crash_resume(seed: u64, thorough: bool, o: &mut Out) -> Vec<String> {
    let mut rng = Rng::new(seed ^ 0x06);
    let mut q = vec![];
    let nscn = if thorough { 60 } else { 8 };
    for it in 0..nscn {
        let mut s = small_script(&mut rng, o, it % 3 == 0);
        while capacity(s.geo.slot, s.img.sz) == 0 {
            s = small_script(&mut rng, o, it % 3 == 0);
        }
        let sites = op_sites(&s);
        let mut points: Vec<(usize, usize)> = vec![];
        for (j, v) in sites.iter().enumerate() {
            for k in 0..v.len() {
                points.push((j, k));
            }
        }
        if !thorough && points.len() > 60 {
            // keep every non-start point class, thin out the (many) erase ops of start
            let mut keep: Vec<(usize, usize)> = points.iter().cloned().filter(|(j, _)| *j != 0).collect();
            let mut st: Vec<(usize, usize)> = points.iter().cloned().filter(|(j, _)| *j == 0).collect();
            rng.shuffle(&mut st);
            st.truncate(12);
            rng.shuffle(&mut keep);
            keep.truncate(48);
            keep.extend(st);
            points = keep;
        }
        for (j, k) in points {
            let site = sites[j][k];
            // the interrupted fragment is lost or re-sent after the reboot
            let resend = rng.chance(1, 2);
            q.extend(s.head());
            for op in &s.ops[..j] {
                q.push(op.clone());
            }
            q.push(format!("crash {}", k));
            q.push(s.ops[j].clone());
            q.push("reboot".into());
            let key = format!("crash-site={}{}", site, if site == "row" && !resend { "-lost" } else { "" });
            q.push(format!("variant C06 {}", key));
            q.push("recover".into());
            if j == 0 {
                // loss inside start_update: recovery may report none; the device must be able to start again
                q.push(s.ops[0].clone());
                for op in &s.ops[1..] {
                    q.push(op.clone());
                }
            } else if s.ops[j] == "check" {
                q.extend(s.full_pass());
                q.push("check".into());
            } else {
                let from = if resend { j } else { j + 1 };
                for op in &s.ops[from..s.ops.len() - 1] {
                    q.push(op.clone());
                }
                q.extend(s.full_pass());
                q.push("check".into());
            }
            q.push("dump".into());
            o.stat(&format!("crash-site-{}", site));
        }
    }
    q
}

/// lengths of the mutating operations of every script op (0 = erase), from a reference run
pub fn op_lens(s: &Script) -> Vec<Vec<usize>> {
    let mut lines = s.head();
    lines.extend(s.ops.clone());
    let ans = reference(&lines);
    let base = s.head().len();
    let mut out = vec![];
    for (j, _) in s.ops.iter().enumerate() {
        let a = &ans[base + j];
        let opsf = a.split(" ; ").find(|p| p.starts_with("ops=")).map(|p| &p[4..]).unwrap_or("-");
        let mut v = vec![];
        if opsf != "-" {
            for op in opsf.split(',') {
                if op.starts_with('E') {
                    v.push(0);
                } else {
                    let d = op.split(':').nth(1).unwrap_or("");
                    v.push(match d.split_once('#') {
                        Some((l, _)) => l.parse().unwrap_or(1),
                        None => d.len() / 2,
                    });
                }
            }
        }
        out.push(v);
    }
    out
}

/// G5t (C04): power loss INSIDE a program operation of a fragment's handling (a prefix of the bytes, then one byte with
/// only a subset of its bits cleared), reboot, recovery, the interrupted fragment again, the rest of the transmission,
/// a full pass of the data, the final check. The losses lie inside image bytes 4..68, which the CRC does not cover, so
/// a wrongly rebuilt fragment is not caught by validation: a successful final check must leave exactly the image.
pub fn gen_torn_resume(seed: u64, thorough: bool, o: &mut Out) -> Vec<String> {
    let mut rng = Rng::new(seed ^ 0x7047);
    let mut q = vec![];
    let nscn = if thorough { 16 } else { 3 };
    for it in 0..nscn {
        let sz = *rng.pick(&[4usize, 8, 16]);
        let geo = Geo { nslots: *rng.pick(&[4usize, 5, 6]), slot: 20480, block: 4096 };
        let n = 68 / sz + rng.range(3, 9) as usize;
        let inside: Vec<usize> = (0..n).filter(|i| i * sz >= 4 && (i + 1) * sz <= 68).collect();
        let mut lost = inside.clone();
        rng.shuffle(&mut lost);
        lost.truncate(rng.range(2, 5).min(lost.len() as u64) as usize);
        lost.sort();
        let img = Img::make(&mut rng, sz, n);
        let mut ops = vec![format!("start {} {}", sz, n)];
        for i in 1..=n as u32 {
            if !lost.contains(&(i as usize - 1)) {
                ops.push(format!("seg {} {}", i, hex(&img.fragment(i))));
            }
        }
        let first_coded = ops.len();
        // coded fragments; prefer (first) those that cover only some of the lost fragments (rows with zero bits below the pivot)
        let mut ks: Vec<u32> = (1..=(lost.len() as u32 + 8)).collect();
        ks.sort_by_key(|k| {
            let row = crate::rows::parity_row(*k, n, crate::rows::ffr());
            match row {
                Some(r) => {
                    let c = lost.iter().filter(|i| r[**i]).count();
                    if c > 0 && c < lost.len() { 0 } else { 1 }
                }
                None => 2,
            }
        });
        for k in &ks {
            if crate::rows::parity_row(*k, n, crate::rows::ffr()).is_some() {
                ops.push(format!("seg {} {}", n as u32 + k, hex(&img.fragment(n as u32 + k))));
            }
        }
        ops.push("check".into());
        let s = Script { geo, pre: if it % 2 == 1 { vec![] } else { vec![] }, img, ops };
        let lens = op_lens(&s);
        let sites = op_sites(&s);
        let mut points: Vec<(usize, usize, usize, u8)> = vec![];
        for j in 1..s.ops.len() - 1 {
            for (k, len) in lens[j].iter().enumerate() {
                if *len == 0 {
                    continue;
                }
                let stage2 = j >= first_coded;
                let mut prefixes = vec![0usize, len - 1];
                if *len > 2 {
                    prefixes.push(rng.range(1, *len as u64 - 2) as usize);
                }
                prefixes.sort();
                prefixes.dedup();
                for p in prefixes {
                    let mut keeps: Vec<u8> = vec![0xFF, rng.next() as u8];
                    if stage2 || rng.chance(1, 6) {
                        keeps.extend((0..8).map(|b| 1u8 << b));
                        keeps.extend((0..3).map(|_| rng.next() as u8));
                    }
                    for keep in keeps {
                        points.push((j, k, p, keep));
                    }
                }
            }
        }
        let maxp = if thorough { 1200 } else { 260 };
        if points.len() > maxp {
            // keep all points of the coded fragments first
            let mut a: Vec<_> = points.iter().cloned().filter(|p| p.0 >= first_coded).collect();
            let mut b: Vec<_> = points.iter().cloned().filter(|p| p.0 < first_coded).collect();
            rng.shuffle(&mut a);
            rng.shuffle(&mut b);
            a.truncate(maxp * 4 / 5);
            b.truncate(maxp - a.len());
            a.extend(b);
            points = a;
        }
        for (j, k, p, keep) in points {
            q.extend(s.head());
            for op in &s.ops[..j] {
                q.push(op.clone());
            }
            q.push(format!("crash {} {} {}", k, p, keep));
            q.push(s.ops[j].clone());
            q.push("reboot".into());
            // site class of the torn program; for a matrix row, whether the tear lies in its last byte (the byte that
            // holds the inverted diagonal bit = the "row present" marker) or in an earlier byte
            let site = sites[j][k];
            let resend = site == "finish" || rng.chance(3, 4);
            let key = format!(
                "torn-site={}{}{}",
                site,
                if site == "row" { if p + 1 == lens[j][k] { "-diagonal-byte" } else { "-earlier-byte" } } else { "" },
                if resend { "" } else { "-lost" }
            );
            q.push(format!("variant C04 {}", key));
            q.push("recover".into());
            for op in &s.ops[(if resend { j } else { j + 1 })..s.ops.len() - 1] {
                q.push(op.clone());
            }
            q.extend(s.full_pass());
            q.push("check".into());
            q.push("sweep".into());
            q.push("dump".into());
            o.stat(if j >= first_coded { "torn-in-coded-fragment" } else { "torn-in-data-fragment" });
        }
    }
    q
}

/// G6 (C18, flash level): one transient SpiFlash write/erase fault at each mutating-op index of a fragment, redelivery
pub fn gen_flash_faults(seed: u64, thorough: bool, o: &mut Out) -> Vec<String> {
    let mut rng = Rng::new(seed ^ 0x18);
    let mut q = vec![];
    let nscn = if thorough { 60 } else { 8 };
    for it in 0..nscn {
        let s = small_script(&mut rng, o, it % 3 == 0);
        let sites = op_sites(&s);
        let mut points: Vec<(usize, usize)> = vec![];
        for (j, v) in sites.iter().enumerate().skip(1) {
            if s.ops[j] == "check" {
                continue;
            }
            for k in 0..v.len() {
                points.push((j, k));
            }
        }
        if !thorough && points.len() > 40 {
            rng.shuffle(&mut points);
            points.truncate(40);
        }
        // thorough: also sequences of up to 3 faults (each followed by redelivery)
        for (j, k) in points {
            let site = sites[j][k];
            q.extend(s.head());
            q.push(format!("variant C18 fault-site={}", site));
            for (jj, op) in s.ops.iter().enumerate() {
                if jj == j {
                    q.push(format!("fault {}", k));
                    q.push(op.clone()); // fails
                    q.push("skipbase 0".into());
                }
                q.push(op.clone());
            }
            q.push("dump".into());
            o.stat(&format!("fault-site-{}", site));
        }
        // bounded sequences of failures: up to 3 faulted fragments per session, and a second (and third) failure on the
        // redelivery of the same fragment before it finally goes through
        let mut all: Vec<(usize, usize)> = vec![];
        for (j, v) in sites.iter().enumerate().skip(1) {
            if s.ops[j] != "check" && !v.is_empty() && !v.contains(&"finish") {
                all.push((j, v.len()));
            }
        }
        for _ in 0..(if thorough { 12 } else { 3 }) {
            if all.is_empty() {
                break;
            }
            let mut chosen = all.clone();
            rng.shuffle(&mut chosen);
            chosen.truncate(rng.range(1, 3) as usize);
            q.extend(s.head());
            q.push("variant C18 fault-site=sequence".into());
            for (jj, op) in s.ops.iter().enumerate() {
                if let Some((_, nops)) = chosen.iter().find(|(j, _)| *j == jj) {
                    for _ in 0..rng.range(1, 3) {
                        q.push(format!("fault {}", rng.below(*nops as u64)));
                        q.push(op.clone()); // fails (or not, if the redelivery needs fewer operations)
                        q.push("skipbase 0".into());
                    }
                }
                q.push(op.clone());
            }
            q.push("dump".into());
            o.stat("fault-sequences");
        }
    }
    q
}

/// G6r (C18, oracle only): transient fault on *any* operation index (reads included)
pub fn gen_flash_faults_reads(seed: u64, thorough: bool, o: &mut Out) -> Vec<String> {
    let mut rng = Rng::new(seed ^ 0x181);
    let mut q = vec![];
    let nscn = if thorough { 40 } else { 6 };
    for it in 0..nscn {
        let s = small_script(&mut rng, o, it % 3 == 0);
        // number of flash operations (reads + mutations) per fragment: probe by failing op k until no fault fires
        for j in 1..s.ops.len() - 1 {
            let maxk = if thorough { 40 } else { 12 };
            for k in 0..maxk {
                if !thorough && !rng.chance(1, 3) {
                    continue;
                }
                q.extend(s.head());
                q.push("variant C18 fault-site=any-op".into());
                for (jj, op) in s.ops.iter().enumerate() {
                    if jj == j {
                        q.push(format!("!faultop {}", k));
                        q.push(op.clone());
                    }
                    q.push(op.clone());
                }
                o.stat("read-or-write-fault-points");
            }
        }
    }
    q
}

/// G3 (C17): malformed fragment indices at every stage of a session; arbitrary flash contents
pub fn gen_malformed(seed: u64, thorough: bool, o: &mut Out) -> Vec<String> {
    let mut rng = Rng::new(seed ^ 0x17);
    let mut q = vec![];
    let nscn = if thorough { 80 } else { 10 };
    for it in 0..nscn {
        let s = small_script(&mut rng, o, it % 2 == 0);
        let n = s.img.n as u32;
        let mut bad: Vec<u32> = vec![0, n + 1240005543, 1 << 14, 1 << 16, 0xFFFF_FFFF, 0xFFFF_FFFE, n + 2049, n + 16384, (rng.next() as u32) | 0x8000_0000];
        // with force-full-r, coded fragment 1240005543 has PRBS seed 0 (the fixed point of PRBS23): the row generator
        // never returns (DESIGN.md, findings outside the given properties) — not deliverable
        bad.retain(|b| *b <= n || crate::rows::parity_row(*b - n, n as usize, crate::rows::ffr()).is_some());
        // positions: before the first fragment, in stage 1, in stage 2, after completion
        let mut positions: Vec<usize> = (1..s.ops.len()).collect();
        if !thorough {
            rng.shuffle(&mut positions);
            positions.truncate(4);
            positions.push(1);
            positions.push(s.ops.len() - 1);
        }
        for p in positions {
            q.extend(s.head());
            q.push("base begin".into());
            // the reference for "the session still completes correctly" is the oracle of check itself
            q.push("base end".into());
            for (j, op) in s.ops.iter().enumerate() {
                if j == p {
                    for b in &bad {
                        // index 0 must be a no-op; indices beyond n are coded fragments of some row: only deliver
                        // *consistent* data for those (the XOR the row defines), otherwise the session is poisoned
                        if *b == 0 {
                            q.push(format!("seg 0 {}", hex(&s.img.fragment(1))));
                        } else if *b > n {
                            q.push(format!("seg {} {}", b, hex(&s.img.fragment(*b))));
                        }
                        o.stat("malformed-index-deliveries");
                    }
                }
                q.push(op.clone());
            }
            q.push("dump".into());
        }
    }
    // directed: a plausible in-progress firmware/parity pair whose parity header announces 2047..16384 rows, on slots
    // large enough for the matrix diagonal of row 2048 to lie inside the slot; plus one written diagonal byte
    for slot in [65536usize, 262144, 524288, 1048576] {
        for segsz in [1u32, 16, 256] {
            for rows in [2047u32, 2048, 2049, 3000, 4000, 16384] {
                if !thorough && (slot == 65536 || rows == 3000) {
                    continue;
                }
                q.push(format!("new dev 4 {} 4096", slot));
                let h = |k: u32, sq: u32, n: u32| -> String {
                    hex(&[k, sq, segsz, n, 0xFFFF_FFFF, 0xFFFF_FFFF, 0xFFFF_FFFF].iter().flat_map(|x| x.to_le_bytes()).collect::<Vec<u8>>())
                };
                q.push(format!("poke 0 {}", h(0, 0, 10)));
                q.push(format!("poke {} {}", slot, h(1, 1, rows)));
                // a written diagonal byte of row 0 (so that recovery enters stage 2)
                let moff = rows as usize * segsz as usize;
                if 1024 + moff < slot {
                    q.push(format!("poke {} fe", slot + 1024 + moff));
                }
                q.push("recover".into());
                q.push(format!("seg 11 {}", hex(&vec![0u8; segsz as usize])));
                q.push("bl".into());
                q.push("start 4 18".into());
                o.stat("crafted-oversize-parity-rows");
            }
        }
    }
    // directed: a structurally valid in-progress pair whose status table and matrix diagonal disagree: more "received"
    // fragments plus "used" rows than the image has fragments (the progress counters must stay within 0..=n)
    for it in 0..(if thorough { 40 } else { 8 }) {
        let nslots = *rng.pick(&[4usize, 5, 6]);
        let slot = 20480usize;
        let segsz = *rng.pick(&[4usize, 8, 16]);
        let maxl = capacity(slot, segsz);
        let n = rng.range(6, 14) as u32;
        let ndone = rng.range(n as u64 / 2, n as u64) as usize;
        let nrows = rng.range((n as usize - ndone) as u64 + 1, n as u64) as usize;
        let first = rng.below(nslots as u64 - 1) as usize;
        q.push(format!("new dev {} {} 4096", nslots, slot));
        let h = |k: u32, sq: u32, n: u32| -> String {
            hex(&[k, sq, segsz as u32, n, 0xFFFF_FFFF, 0xFFFF_FFFF, 0xFFFF_FFFF].iter().flat_map(|x| x.to_le_bytes()).collect::<Vec<u8>>())
        };
        q.push(format!("poke {} {}", first * slot, h(0, 7, n)));
        q.push(format!("poke {} {}", (first + 1) * slot, h(1, 8, maxl as u32)));
        q.push(format!("poke {} {}", first * slot + 0x400, hex(&vec![0x33u8; ndone])));
        let moff = (first + 1) * slot + 0x400 + maxl * segsz;
        for i in 0..nrows.min(maxl) {
            let (c, pp) = (i / 8, i % 8);
            let roff = c * (c + 1) * 4 + pp * (c + 1);
            q.push(format!("poke {} {:02x}", moff + roff + c, 0xFFu8 & !(1u8 << pp)));
        }
        q.push("recover".into());
        q.push(format!("seg {} {}", n, hex(&vec![0u8; segsz])));
        q.push(format!("seg {} {}", n + 1, hex(&vec![0u8; segsz])));
        q.push("bl".into());
        q.push("dump".into());
        o.stat("crafted-inconsistent-progress");
    }
    // arbitrary flash contents: random / adversarial headers, status tables and data, then every query call
    let ncraft = if thorough { 3000 } else { 300 };
    let legal: [Vec<u32>; 7] = [
        vec![0, 1],
        vec![0, 1, 2, 3, 4, 5, 6, 7, 0x7FFF_FFFF, 0xFFFF_FFFD, 0xFFFF_FFFE],
        vec![1, 4, 40, 255, 256],
        vec![1, 2, 18, 300, 2047, 2048, 2049, 3000, 16384],
        vec![0xFFFF_FFFF, 0xAAAA_AAAA, 0x4444_4444],
        vec![0xFFFF_FFFF, 0x1111_1111],
        vec![0xFFFF_FFFF, 0xABCD_1234, 0xCDEF_7890],
    ];
    for it in 0..ncraft {
        let nslots = *rng.pick(&[4usize, 5, 6]);
        let slot = *rng.pick(&[20480usize, 20480, 24576, 65536, 262144, 1048576]);
        if slot > 65536 && !thorough && it % 8 != 0 {
            continue;
        }
        q.push(format!("new dev {} {} 4096", nslots, slot));
        let base_seq = *rng.pick(&[0u32, 5, 0xFFFF_FFF0]);
        for sl in 0..nslots {
            let style = rng.below(6);
            let mut w = [0xFFFF_FFFFu32; 7];
            match style {
                0 => {} // blank
                1 | 2 | 3 => {
                    for i in 0..7 {
                        w[i] = *rng.pick(&legal[i]);
                    }
                    if rng.chance(2, 3) {
                        w[1] = base_seq.wrapping_add(rng.below(nslots as u64 + 1) as u32);
                    }
                    if style == 3 {
                        let i = rng.below(7) as usize;
                        w[i] = rng.next() as u32;
                    }
                }
                4 => {
                    for i in 0..7 {
                        w[i] = rng.next() as u32;
                    }
                }
                _ => {
                    // a plausible in-progress pair member
                    w = [(sl % 2) as u32, base_seq.wrapping_add(sl as u32), 4, 18, 0xFFFF_FFFF, 0xFFFF_FFFF, 0xFFFF_FFFF];
                }
            }
            if style != 0 {
                q.push(format!("poke {} {}", sl * slot, hex(&w.iter().flat_map(|x| x.to_le_bytes()).collect::<Vec<u8>>())));
            }
            // status table / data / parity region contents
            match rng.below(4) {
                0 => {}
                1 => q.push(format!("fill {} {} {}", sl * slot + 0x400, 64, rng.next() % 100000)),
                2 => {
                    let tbl: Vec<u8> = (0..40).map(|_| if rng.chance(1, 2) { 0x33 } else { 0xFF }).collect();
                    q.push(format!("poke {} {}", sl * slot + 0x400, hex(&tbl)));
                }
                _ => q.push(format!("fill {} {} {}", sl * slot + 0x4400, 200, rng.next() % 100000)),
            }
        }
        for sl in 0..nslots {
            if rng.chance(1, 2) {
                q.push(format!("valid {}", sl));
            }
        }
        q.push("bl".into());
        q.push("fb".into());
        q.push("recover".into());
        q.push("recover".into());
        q.push("bl".into());
        q.push("fb".into());
        q.push("start 4 18".into());
        q.push("dump".into());
        o.stat("crafted-flash-images");
    }
    q
}

/// G7 (C04): power loss (incl. torn programs) inside every kind of operation, then the post-reboot calls and a sweep
pub fn gen_crash_sweep(seed: u64, thorough: bool, o: &mut Out) -> Vec<String> {
    let mut rng = Rng::new(seed ^ 0x04);
    let mut q = vec![];
    let nscn = if thorough { 14 } else { 6 };
    let post = |q: &mut Vec<String>| {
        q.push("reboot".into());
        q.push("sweep".into());
        q.push("recover".into());
        q.push("bl".into());
        q.push("fb".into());
        q.push("sweep".into());
        q.push("start 4 18".into());
        q.push("sweep".into());
        q.push("dump".into());
    };
    for it in 0..nscn {
        let s = small_script(&mut rng, o, it % 2 == 0);
        let sites = op_sites(&s);
        // the script is extended by the bootloader / application marks on the completed slot
        let mut lines = s.head();
        lines.extend(s.ops.clone());
        let ans = reference(&lines);
        let done_slot: Option<usize> = ans.last().and_then(|a| a.strip_prefix("res=Ok(")).and_then(|r| r.split(')').next()).and_then(|x| x.parse().ok());
        let mut points: Vec<(usize, usize, usize)> = vec![]; // (op, mutating index, payload length)
        for (j, v) in sites.iter().enumerate() {
            for k in 0..v.len() {
                points.push((j, k, 4));
            }
        }
        if points.len() > (if thorough { 160 } else { 40 }) {
            let mut keep: Vec<(usize, usize, usize)> = points.iter().cloned().filter(|(j, _, _)| *j != 0).collect();
            let mut st: Vec<(usize, usize, usize)> = points.iter().cloned().filter(|(j, _, _)| *j == 0).collect();
            rng.shuffle(&mut st);
            st.truncate(if thorough { 24 } else { 8 });
            rng.shuffle(&mut keep);
            keep.truncate(if thorough { 130 } else { 30 });
            keep.extend(st);
            points = keep;
        }
        for (j, k, _) in points {
            // variants: clean boundary, torn prefixes, torn bits
            let mut tears: Vec<Option<(usize, u8)>> = vec![None];
            for p in 0..4 {
                tears.push(Some((p, 0xFF))); // p bytes programmed, nothing of byte p
                tears.push(Some((p, rng.next() as u8)));
                if thorough && p % 2 == 0 {
                    tears.push(Some((p, 1 << rng.below(8))));
                    tears.push(Some((p, !(1u8 << rng.below(8)))));
                }
            }
            if !thorough {
                rng.shuffle(&mut tears[1..]);
                tears.truncate(4);
            }
            for t in tears {
                q.extend(s.head());
                for op in &s.ops[..j] {
                    q.push(op.clone());
                }
                match t {
                    None => q.push(format!("crash {}", k)),
                    Some((p, keep)) => q.push(format!("crash {} {} {}", k, p, keep)),
                }
                q.push(s.ops[j].clone());
                post(&mut q);
                o.stat(&format!("crash-in-{}", if j == 0 { "start" } else if s.ops[j] == "check" { "check" } else { "fragment" }));
            }
        }
        // crashes inside recovery (remediation), cancel-all and the status marks
        if let Some(ds) = done_slot {
            let tail_ops: Vec<Vec<String>> = vec![
                vec![format!("mark {} int", ds)],
                vec![format!("mark {} int", ds), format!("mark {} ok", ds)],
                vec![format!("mark {} int", ds), format!("mark {} bad", ds)],
                vec!["start 4 18".into(), "reboot".into(), "recover".into()],
                vec!["start 4 18".into(), "cancel".into()],
                vec!["start 4 18".into(), "start 3 20".into(), "reboot".into(), "recover".into()],
            ];
            for tops in tail_ops {
                // number of mutating ops of the last op of `tops` from a reference run
                let mut l2 = s.head();
                l2.extend(s.ops.clone());
                l2.extend(tops.clone());
                let a2 = reference(&l2);
                let nk = nops(a2.last().unwrap());
                for k in 0..nk.min(if thorough { 64 } else { 6 }) {
                    for t in [None, Some((rng.below(4) as usize, rng.next() as u8)), Some((rng.below(4) as usize, 0xFFu8))] {
                        q.extend(s.head());
                        q.extend(s.ops.clone());
                        for op in &tops[..tops.len() - 1] {
                            q.push(op.clone());
                        }
                        match t {
                            None => q.push(format!("crash {}", k)),
                            Some((p, keep)) => q.push(format!("crash {} {} {}", k, p, keep)),
                        }
                        q.push(tops.last().unwrap().clone());
                        post(&mut q);
                        o.stat("crash-in-mark/recover/cancel");
                    }
                }
            }
        }
    }
    q
}

/// D6: long random histories of the slot ring (C05 C12 C13): start / deliver / complete / cancel / reboot+recover /
/// copy-done / confirm / reject / power loss inside start; after every step the two queries are compared with the
/// lifecycle oracle kept by the executor. The generator executes the history as it builds it, so that the
/// bootloader / application marks are driven by what the bootloader query actually reports.
pub fn gen_ring(seed: u64, thorough: bool, o: &mut Out) -> Vec<String> {
    let mut rng = Rng::new(seed ^ 0xD6);
    let mut q = vec![];
    let nhist = if thorough { 400 } else { 40 };
    for _ in 0..nhist {
        let nslots = *rng.pick(&[4usize, 4, 5, 6]);
        let slot = 20480;
        let mut ex = Exec::new();
        let mut dummy = Out::new();
        let mut push = |q: &mut Vec<String>, ex: &mut Exec, l: String| -> String {
            let a = guarded(|| ex.line(&l, &mut dummy)).unwrap_or_else(|_| "HARNESS-PANIC".into());
            q.push(l);
            a
        };
        push(&mut q, &mut ex, format!("new dev {} {} 4096", nslots, slot));
        let steps = rng.range(12, if thorough { 80 } else { 45 });
        let mut live_img: Option<Img> = None;
        for _ in 0..steps {
            let mut choice = rng.below(12);
            // drive pending images through the bootloader most of the time, so that several images get confirmed
            // and the ring wraps around them
            if rng.chance(2, 3) {
                let a = push(&mut q, &mut ex, "bl life".into());
                if a != "res=Idle" {
                    choice = 8;
                } else if live_img.is_some() && rng.chance(1, 2) {
                    choice = 4;
                }
            }
            match choice {
                0..=3 => {
                    let (isz, inn) = (*rng.pick(&[3usize, 4, 5]), rng.range(15, 24) as usize);
                    let img = Img::make(&mut rng, isz, inn);
                    for l in img.lines() {
                        push(&mut q, &mut ex, l);
                    }
                    if rng.chance(1, 5) {
                        let ck = rng.below(14);
                        push(&mut q, &mut ex, format!("crash {}", ck));
                        push(&mut q, &mut ex, format!("start {} {}", img.sz, img.n));
                        push(&mut q, &mut ex, "reboot".into());
                        let a = push(&mut q, &mut ex, "recover".into());
                        live_img = if a.starts_with("res=Some") { live_img } else { None };
                        if let Some(old) = live_img.clone() {
                            // the earlier session survived: its image is the one in flight again
                            for l in old.lines() {
                                push(&mut q, &mut ex, l);
                            }
                        }
                        o.stat("ring-crash-in-start");
                    } else {
                        let a = push(&mut q, &mut ex, format!("start {} {}", img.sz, img.n));
                        live_img = if a.starts_with("res=Ok") { Some(img) } else { None };
                        o.stat("ring-start");
                    }
                }
                4 | 5 => {
                    // deliver everything and complete — only when no other image is awaiting copy / acknowledgement
                    let bl = push(&mut q, &mut ex, "bl life".into());
                    if let (Some(img), true) = (live_img.clone(), bl == "res=Idle") {
                        for i in 1..=img.n as u32 {
                            push(&mut q, &mut ex, format!("seg {} {}", i, hex(&img.fragment(i))));
                        }
                        if rng.chance(1, 6) {
                            // power loss between (k = 1) or before (k = 0) the two final marks
                            let k = rng.below(2);
                            push(&mut q, &mut ex, format!("crash {}", k));
                            push(&mut q, &mut ex, "check".into());
                            push(&mut q, &mut ex, "reboot".into());
                            push(&mut q, &mut ex, "bl life".into());
                            push(&mut q, &mut ex, "recover".into());
                            o.stat("ring-crash-in-check");
                        } else {
                            push(&mut q, &mut ex, "check".into());
                            o.stat("ring-complete");
                        }
                        live_img = None;
                    }
                }
                6 => {
                    push(&mut q, &mut ex, "cancel".into());
                    live_img = None;
                    o.stat("ring-cancel");
                }
                7 => {
                    push(&mut q, &mut ex, "reboot".into());
                    let a = push(&mut q, &mut ex, "recover".into());
                    if !a.starts_with("res=Some") {
                        live_img = None;
                    }
                    if rng.chance(1, 3) {
                        push(&mut q, &mut ex, "recover".into()); // idempotence
                    }
                    o.stat("ring-reboot-recover");
                }
                8 | 9 => {
                    // bootloader copy / first-boot acknowledgement, driven by the bootloader query
                    let bl = push(&mut q, &mut ex, "bl life".into());
                    if let Some(r) = bl.strip_prefix("res=Copy(") {
                        let sl: usize = r.trim_end_matches(')').parse().unwrap();
                        push(&mut q, &mut ex, format!("mark {} int", sl));
                        o.stat("ring-copy-done");
                    } else if let Some(r) = bl.strip_prefix("res=Unack(") {
                        let sl: usize = r.trim_end_matches(')').parse().unwrap();
                        if rng.chance(4, 5) {
                            push(&mut q, &mut ex, format!("mark {} ok", sl));
                            o.stat("ring-confirm");
                        } else {
                            push(&mut q, &mut ex, format!("mark {} bad", sl));
                            o.stat("ring-reject");
                        }
                    }
                }
                10 => {
                    let (bsz, bn) = (*rng.pick(&[0u32, 257, 4]), *rng.pick(&[0u32, 16385, 5000]));
                    push(&mut q, &mut ex, format!("start {} {}", bsz, bn));
                    live_img = None; // the in-memory session object is gone (the on-flash session is not)
                    o.stat("ring-start-invalid");
                }
                _ => {
                    if let Some(img) = live_img.clone() {
                        for _ in 0..rng.range(1, 6) {
                            let i = rng.range(1, img.n as u64 + 4) as u32;
                            push(&mut q, &mut ex, format!("seg {} {}", i, hex(&img.fragment(i))));
                        }
                    }
                }
            }
            push(&mut q, &mut ex, "bl life".into());
            push(&mut q, &mut ex, "fb life".into());
        }
        push(&mut q, &mut ex, "dump".into());
    }
    q
}
