//! Scenario generators for the session suites (D5) over `d5::Exec`.
use crate::d5::Exec;
use crate::util::*;
use bitvec::array::BitArray;

#[derive(Clone)]
pub struct Geo {
    pub nslots: usize,
    pub slot: usize,
    pub block: usize,
}

#[derive(Clone)]
pub struct Img {
    pub sz: usize,
    pub n: usize,
    pub bytes: Vec<u8>,
}

impl Img {
    /// an image that passes validation: LE32 CRC-32/CKSUM of bytes 68.. at offset 0, 64 signature bytes, payload
    pub fn make(rng: &mut Rng, sz: usize, n: usize) -> Img {
        let total = sz * n;
        let mut bytes = rng.bytes(total);
        let crc = if total > 68 { crc_cksum(&bytes[68..]) } else { crc_cksum(&[]) };
        let c = crc.to_le_bytes();
        for i in 0..4.min(total) {
            bytes[i] = c[i];
        }
        Img { sz, n, bytes }
    }
    pub fn frag(&self, i0: usize) -> &[u8] {
        &self.bytes[i0 * self.sz..(i0 + 1) * self.sz]
    }
    /// coded fragment k (1-based): XOR of the data fragments selected by the library's own row generator
    pub fn coded(&self, k: u32) -> Vec<u8> {
        let mut row = BitArray::<[u8; 2048]>::ZERO;
        flash_algo_new::fragmentation::get_parity_matrix_row(k, self.n as u32, &mut row);
        let mut out = vec![0u8; self.sz];
        for i in 0..self.n {
            if row[i] {
                for (o, b) in out.iter_mut().zip(self.frag(i)) {
                    *o ^= *b;
                }
            }
        }
        out
    }
    /// 1-based fragment index -> bytes
    pub fn fragment(&self, idx1: u32) -> Vec<u8> {
        if idx1 as usize <= self.n {
            self.frag(idx1 as usize - 1).to_vec()
        } else {
            self.coded(idx1 - self.n as u32)
        }
    }
    pub fn lines(&self) -> Vec<String> {
        vec![format!("image {} {} {}", self.sz, self.n, hex(&self.bytes))]
    }
}

/// parity capacity the code computes for a geometry (binary search of start_update, re-derived independently)
pub fn capacity(slot: usize, sz: usize) -> usize {
    let room = slot - 0x4400;
    let off = |i: usize| {
        let c = i / 8;
        let p = i % 8;
        c * (c + 1) * 4 + p * (c + 1)
    };
    let mut best = 0;
    for l in 0..2048 {
        if off(l) + l * sz <= room {
            best = l;
        }
    }
    best
}

pub fn pick_geo(rng: &mut Rng, thorough: bool) -> Geo {
    let nslots = *rng.pick(&[4usize, 4, 5, 6]);
    let block = *rng.pick(&[256usize, 1024, 4096]);
    let min_blocks = 17408 / block + 1;
    let extra = match rng.below(4) {
        0 => 0,
        1 => rng.range(1, 4),
        2 => rng.range(4, 16),
        _ => rng.range(1, if thorough { 64 } else { 24 }),
    } as usize;
    // slot sizes from the minimum upward; erase blocks divide the slot
    let slot = (min_blocks + extra) * block;
    Geo { nslots, slot, block }
}

pub fn pick_size(rng: &mut Rng) -> usize {
    match rng.below(4) {
        0 => *rng.pick(&[1usize, 2, 3, 4, 17, 34, 45, 67, 68, 69, 136, 255, 256]),
        1 => rng.range(1, 16) as usize,
        _ => rng.range(1, 256) as usize,
    }
}

/// delivery order over 1-based fragment indices
pub fn delivery(rng: &mut Rng, n: usize, lost: &[usize], ncoded: usize, o: &mut Out) -> Vec<u32> {
    let mut data: Vec<u32> = (1..=n as u32).filter(|i| !lost.contains(&(*i as usize - 1))).collect();
    let mut coded: Vec<u32> = (1..=ncoded as u32).map(|k| n as u32 + k).collect();
    let style = rng.below(5);
    o.stat(&format!("order-{}", ["in-order", "shuffled", "coded-first", "duplicates", "interleaved"][style as usize]));
    let mut seq: Vec<u32> = vec![];
    match style {
        0 => {
            seq.extend(&data);
            seq.extend(&coded);
        }
        1 => {
            seq.extend(&data);
            seq.extend(&coded);
            rng.shuffle(&mut seq);
        }
        2 => {
            let k = rng.range(0, coded.len() as u64) as usize;
            rng.shuffle(&mut coded);
            seq.extend(&coded[..k]);
            rng.shuffle(&mut data);
            seq.extend(&data);
            seq.extend(&coded[k..]);
        }
        3 => {
            seq.extend(&data);
            seq.extend(&coded);
            for _ in 0..(if seq.is_empty() { 0 } else { seq.len() / 3 + 1 }) {
                let v = seq[rng.below(seq.len() as u64) as usize];
                let p = rng.below(seq.len() as u64 + 1) as usize;
                seq.insert(p, v);
            }
        }
        _ => {
            let mut ci = 0;
            for d in &data {
                seq.push(*d);
                if ci < coded.len() && rng.chance(1, 3) {
                    seq.push(coded[ci]);
                    ci += 1;
                }
            }
            seq.extend(&coded[ci..]);
        }
    }
    seq
}

/// bring the ring to a random position: a few tiny completed / cancelled updates before the scenario proper
pub fn preamble(rng: &mut Rng, g: &Geo) -> Vec<String> {
    let mut q = vec![];
    let k = rng.below(2 * g.nslots as u64) as usize;
    for _ in 0..k {
        let img = Img::make(rng, 4, 18);
        q.push(format!("start {} {}", img.sz, img.n));
        match rng.below(3) {
            0 => q.push("cancel".into()),
            _ => {
                q.extend(img.lines());
                for i in 1..=img.n as u32 {
                    q.push(format!("seg {} {}", i, hex(&img.fragment(i))));
                }
                q.push("check".into());
            }
        }
    }
    q
}

/// G1: complete sessions (C01 C08 and the session part of C15)
pub fn gen_sessions(seed: u64, thorough: bool, o: &mut Out) -> Vec<String> {
    let mut rng = Rng::new(seed ^ 0xD5);
    let mut q = vec![];
    let nscn = if thorough { 600 } else { 60 };
    for it in 0..nscn {
        let g = pick_geo(&mut rng, thorough);
        let sz = pick_size(&mut rng);
        let room = g.slot - 0x4400;
        let maxn = (room / sz).min(16384).max(1);
        let n = match rng.below(5) {
            0 => 1.min(maxn),
            1 => maxn.min(rng.range(1, 8) as usize),
            2 => maxn.min(300),
            _ => maxn.min(rng.range(1, if thorough { 300 } else { 120 }) as usize),
        };
        let cap = capacity(g.slot, sz);
        let img = Img::make(&mut rng, sz, n);
        // loss sets up to and beyond the parity capacity
        let nloss = match rng.below(5) {
            0 => 0,
            1 => 1.min(n),
            2 => cap.min(n),
            3 => (cap + 1).min(n),
            _ => rng.range(0, n.min(cap + 3) as u64) as usize,
        };
        let mut idx: Vec<usize> = (0..n).collect();
        rng.shuffle(&mut idx);
        let lost: Vec<usize> = idx[..nloss].to_vec();
        let ncoded = match rng.below(4) {
            0 => 0,
            1 => nloss,
            2 => nloss + rng.range(1, 6) as usize,
            _ => rng.range(0, (2 * n) as u64).min(40) as usize,
        };
        o.stat(&format!("nslots-{}", g.nslots));
        o.stat(if nloss == 0 { "loss-none" } else if nloss <= cap { "loss-within-capacity" } else { "loss-beyond-capacity" });
        o.stat(if sz * n <= 68 { "image<=68B" } else if sz < 68 { "size<68" } else if sz == 68 { "size=68" } else { "size>68" });
        q.push(format!("new dev {} {} {}", g.nslots, g.slot, g.block));
        q.extend(preamble(&mut rng, &g));
        q.extend(img.lines());
        q.push(format!("start {} {}", sz, n));
        let seq = delivery(&mut rng, n, &lost, ncoded, o);
        if it < 2 {
            o.sample(format!("dev {}x{} block {} ; image {}x{} ; lost {:?} ; order {:?}", g.nslots, g.slot, g.block, sz, n, &lost[..lost.len().min(8)], &seq[..seq.len().min(16)]));
        }
        for i in &seq {
            q.push(format!("seg {} {}", i, hex(&img.fragment(*i))));
        }
        // a full pass of the data afterwards in half of the cases (always completes then)
        if rng.chance(1, 2) {
            for i in 1..=n as u32 {
                q.push(format!("seg {} {}", i, hex(&img.fragment(i))));
            }
        }
        q.push("check".into());
        q.push("dump".into());
    }
    q
}

/// G2: geometry acceptance (C15): boundary classes of (size, count) x slot sizes, nothing touched on error
pub fn gen_geometry(seed: u64, thorough: bool, o: &mut Out) -> Vec<String> {
    let mut rng = Rng::new(seed ^ 0x15);
    let mut q = vec![];
    let vals: Vec<u32> = vec![0, 1, 2, 255, 256, 257, 16383, 16384, 16385, 65535, 65536, 0x7FFF_FFFF, 0xFFFF_FFFF];
    let slots: Vec<usize> = if thorough { vec![17409 + 255, 20480, 24576, 65536, 262144] } else { vec![20480, 65536] };
    for slot in &slots {
        let block = if slot % 4096 == 0 { 4096 } else { 1 };
        let slot = if block == 1 { *slot } else { *slot };
        for sz in &vals {
            for n in &vals {
                q.push(format!("new dev 4 {} {}", slot, if block == 1 { slot } else { 4096 }));
                q.push(format!("start {} {}", sz, n));
                o.stat("geometry-boundary-pairs");
            }
        }
        // around the exact fit
        for _ in 0..(if thorough { 300 } else { 60 }) {
            let sz = pick_size(&mut rng) as u32;
            let room = (slot - 0x4400) as u32;
            let fit = room / sz;
            let n = (fit as i64 + rng.range(0, 4) as i64 - 2).max(0) as u32;
            q.push(format!("new dev 4 {} {}", slot, if block == 1 { slot } else { 4096 }));
            q.push(format!("start {} {}", sz, n));
            o.stat("geometry-around-fit");
        }
    }
    q
}

/// reference execution of scenario lines; returns the implementation's answers
pub fn reference(lines: &[String]) -> Vec<String> {
    let mut ex = Exec::new();
    let mut dummy = Out::new();
    lines.iter().map(|l| guarded(|| ex.line(l, &mut dummy)).unwrap_or_else(|_| "HARNESS-PANIC".into())).collect()
}

pub fn nops(ans: &str) -> usize {
    match ans.split(" ; ").find(|p| p.starts_with("ops=")) {
        None => 0,
        Some(p) => {
            let v = &p[4..];
            if v == "-" { 0 } else { v.matches(',').count() + 1 }
        }
    }
}
