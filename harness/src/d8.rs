//! D8: the single-erasure ("V1") updaters (properties C19, C20).
//!
//! * the naive back-end of flash-algo-new (`update/naive.rs`, the harness built with `--no-default-features`) is driven
//!   through `d5::Exec` (same API as the matrix back-end, same line protocol);
//! * the deprecated crate `original-flash-algo` has its own executor (`OExec`) and lines:
//!     new odev <nslots> <slot> <block>     fresh device (3..6 slots)
//!     oring <h0> <h1> ...                  erase the device and craft one header per slot: `-` (blank) or
//!                                          `k:seq:size:n:e:i:b`, k in f|p, e in p|a|c, i in p|c, b in u|s|x
//!     oimage <sz> <n> <hex>                the transmitted image (oracle only)
//!     ostart <sz> <n>                      SlotManager::start
//!     oseg <idx> <hex>                     write_segment, then `while repair_step()?.is_some() {}` when the outcome is
//!                                          ConsumedMaybeParity (the composition flash-algo-new's handle_segment inlines)
//!     owrite <idx> <hex> / orepair         write_segment / one repair_step
//!     ocheck / oapp / obl / ocancel / omark <slot> <what> / ovalid <slot> / odump / oreboot
//!
//! Oracles (independent of the model, run on the implementation):
//!   C19  peeling decoder (iterative single-missing-fragment closure over received data ∪ coded rows) decides the
//!        expected completion point and the exact set of fragments each call may program; every programmed data
//!        fragment equals the original; a duplicate issues no program; final check = exact image; both crates fed
//!        the same fragments complete at the same fragment; naive resumes after every operation-boundary crash.
//!   C20  placement and numbering of `start` on every consistent ring state, `app_boot_status` resumes exactly the
//!        newest in-progress pair and leaves no other slot in progress, every accepted fragment write stays in its slot.
use crate::d5;
use crate::d5gen::{self, Geo, Img};
use crate::nor::{Nor, Op};
use crate::util::*;
use original_flash_algo::manager as om;
use original_flash_algo::spi_flash::SpiFlashError as OSpi;
use std::collections::HashSet;


/// report an oracle failure; at most 4 per (property, key) and run, so that one finding cannot crowd out another
/// (the shared `Out` keeps 200 entries)
fn fk(o: &mut Out, prop: &str, key: &str, what: String) {
    let c = format!("oracle-failures:{}:{}", prop, key);
    let seen = o.stats.get(&c).cloned().unwrap_or(0);
    o.stat(&c);
    if seen < 4 {
        o.fail_key(prop, key, what);
    }
}

// ------------------------------------------------------------------------------------------------ reference: rows

/// TS004 `matrix_line(N, M)` (written from the specification text; not a call into the crates)
fn ts004_row(n_cap: u64, m_cap: u64) -> Vec<usize> {
    let mut line = vec![false; m_cap as usize];
    let m = if m_cap != 0 && (m_cap & (m_cap - 1)) == 0 { 1 } else { 0 };
    let mut x = 1 + 1001 * n_cap;
    for _ in 0..(m_cap / 2) {
        let mut r = 1u64 << 16;
        while r >= m_cap {
            let b0 = x & 1;
            let b1 = (x & 32) / 32;
            x = x / 2 + (b0 ^ b1) * (1 << 22);
            r = x % (m_cap + m);
        }
        line[r as usize] = true;
    }
    (0..m_cap as usize).filter(|i| line[*i]).collect()
}

/// data fragments covered by coded fragment `k` (1-based) of an `n`-fragment image
fn row_indices(k: u32, n: usize) -> Vec<usize> {
    if cfg!(feature = "ffr") {
        // force-full-r deviates from TS004 on purpose: use the crate's generator (tied to its model by suite D2)
        let mut row = bitvec::array::BitArray::<[u8; 2048]>::ZERO;
        flash_algo_new::fragmentation::get_parity_matrix_row(k, n as u32, &mut row);
        (0..n).filter(|i| row[*i]).collect()
    } else {
        ts004_row(k as u64, n as u64)
    }
}

// ------------------------------------------------------------------------------------------------ peeling oracle

pub struct Peel {
    pub sz: usize,
    pub n: usize,
    pub image: Vec<u8>,
    /// data fragments delivered
    pub have: Vec<bool>,
    /// coded fragments delivered (k, covered indices)
    pub rows: Vec<(u32, Vec<usize>)>,
    /// peeling closure of `have` under `rows`
    pub closed: Vec<bool>,
    pub delivered: HashSet<u32>,
    pub steps: usize,
    pub complete_at: Option<usize>,
}

impl Peel {
    pub fn new(sz: usize, n: usize, image: &[u8]) -> Self {
        Peel { sz, n, image: image.to_vec(), have: vec![false; n], rows: vec![], closed: vec![false; n], delivered: HashSet::new(), steps: 0, complete_at: None }
    }
    pub fn frag(&self, i0: usize) -> &[u8] {
        &self.image[i0 * self.sz..(i0 + 1) * self.sz]
    }
    pub fn fragment(&self, idx1: u32) -> Vec<u8> {
        if idx1 as usize <= self.n {
            self.frag(idx1 as usize - 1).to_vec()
        } else {
            let mut out = vec![0u8; self.sz];
            for i in row_indices(idx1 - self.n as u32, self.n) {
                for (o, b) in out.iter_mut().zip(self.frag(i)) {
                    *o ^= *b;
                }
            }
            out
        }
    }
    /// iterative single-missing-fragment closure (order-free: repeat until no row has exactly one missing fragment)
    pub fn closure(&self) -> Vec<bool> {
        let mut c = self.have.clone();
        loop {
            let mut progress = false;
            for (_, r) in &self.rows {
                let miss: Vec<usize> = r.iter().cloned().filter(|i| !c[*i]).collect();
                if miss.len() == 1 {
                    c[miss[0]] = true;
                    progress = true;
                }
            }
            if !progress {
                return c;
            }
        }
    }
    pub fn all(&self) -> bool {
        self.closed.iter().all(|b| *b)
    }
}

/// the C19 oracle for one delivery, evaluated on the implementation's outcome and flash operations
#[allow(clippy::too_many_arguments)]
fn session_oracle(p: &mut Peel, who: &str, idx: u32, data: &[u8], res: &str, log: &[Op], fw: usize, par: usize, slot: usize, known: Option<&str>, o: &mut Out) {
    let n = p.n;
    let sz = p.sz;
    let cap = (slot - 0x4400) / sz;
    let in_range = idx >= 1 && (idx as usize) <= n + cap.min(16384);
    if !in_range || data.len() != sz || data != &p.fragment(idx)[..] {
        o.stat("deliveries-outside-the-oracle");
        return;
    }
    let key = |k: &str| -> String { known.map(|s| s.to_string()).unwrap_or(format!("{}-{}", who, k)) };
    p.steps += 1;
    let programs: Vec<(usize, &Vec<u8>)> = log.iter().filter_map(|op| if let Op::Write(a, d) = op { Some((*a, d)) } else { None }).collect();
    if log.iter().any(|op| matches!(op, Op::Erase(_))) {
        fk(o, "C19", &key("erase-in-delivery"), format!("{}: delivering fragment {} erased flash", who, idx));
    }
    if res.starts_with("Err") || res == "PANIC" {
        let dup = p.delivered.contains(&idx) || ((idx as usize) <= n && p.closed[idx as usize - 1]);
        fk(o, "C19", &key(if dup { "dup-error" } else { "seg-error" }), format!("{}: {} fragment {} of {} (size {}, slot size {}) answered {}", who, if dup { "re-delivered" } else { "genuine" }, idx, n, sz, slot, res));
        return;
    }
    let dup = p.delivered.contains(&idx) || ((idx as usize) <= n && p.closed[idx as usize - 1]);
    if dup {
        o.stat(&format!("{}-duplicates", who));
        if !programs.is_empty() {
            fk(o, "C19", &key("dup-programs"), format!("{}: re-delivery of fragment {} issued {} program(s)", who, idx, programs.len()));
        }
        if res != "Consumed" {
            fk(o, "C19", &key("dup-outcome"), format!("{}: re-delivery of fragment {} answered {}", who, idx, res));
        }
        return;
    }
    p.delivered.insert(idx);
    if (idx as usize) <= n {
        p.have[idx as usize - 1] = true;
    } else {
        let k = idx - n as u32;
        p.rows.push((k, row_indices(k, n)));
    }
    let old = p.closed.clone();
    p.closed = p.closure();
    let newly: Vec<usize> = (0..n).filter(|i| p.closed[*i] && !old[*i]).collect();
    if newly.len() > 1 || (newly.len() == 1 && (idx as usize) > n) {
        o.stat(&format!("{}-calls-with-repairs", who));
        o.stat_n(&format!("{}-fragments-repaired", who), newly.iter().filter(|i| (**i + 1) as u32 != idx).count() as u64);
    }
    let expect_complete = p.all();
    let got_complete = res == "Complete";
    if expect_complete != got_complete {
        fk(o, "C19", &key("completion-mismatch"), format!("{}: after fragment {} (delivery #{}) the peeling decoder {} recover all {} fragments but the outcome is {}", who, idx, p.steps, if expect_complete { "can" } else { "cannot" }, n, res));
    }
    if got_complete && p.complete_at.is_none() {
        p.complete_at = Some(p.steps);
    }
    // what was programmed: exactly the newly determined fragments (+ the delivered coded fragment), with the original bytes
    let mut seen: HashSet<usize> = HashSet::new();
    for (a, d) in &programs {
        let s = a / slot;
        let off = a % slot;
        if s == fw && off >= 0x4400 {
            let i = (off - 0x4400) / sz;
            if (off - 0x4400) % sz != 0 || d.len() != sz || i >= n {
                fk(o, "C19", &key("stray-write"), format!("{}: fragment {}: program of {} bytes at firmware-slot offset {:#x}", who, idx, d.len(), off));
                continue;
            }
            if &d[..] != p.frag(i) {
                fk(o, "C19", &key("repair-wrote-wrong-data"), format!("{}: fragment {}: data fragment {} was programmed with bytes that differ from the original", who, idx, i + 1));
            }
            if !newly.contains(&i) {
                fk(o, "C19", &key("undetermined-write"), format!("{}: fragment {}: data fragment {} was programmed although parity does not determine it (or it was already present)", who, idx, i + 1));
            }
            seen.insert(i);
        } else if s == fw && off >= 0x400 && off < 0x4400 {
            let i = off - 0x400;
            if d.len() != 1 || d[0] != 0x33 || !newly.contains(&i) {
                fk(o, "C19", &key("stray-write"), format!("{}: fragment {}: status program {:?} at firmware-slot offset {:#x}", who, idx, d, off));
            }
        } else if s == par && (idx as usize) > n {
            let k0 = idx as usize - n - 1;
            let ok_data = off == 0x4400 + k0 * sz && &d[..] == data;
            let ok_status = off == 0x400 + k0 && d.len() == 1 && d[0] == 0x33;
            if !(ok_data || ok_status) {
                fk(o, "C19", &key("stray-write"), format!("{}: coded fragment {}: program of {} bytes at parity-slot offset {:#x}", who, idx, d.len(), off));
            }
        } else {
            fk(o, "C19", &key("stray-write"), format!("{}: fragment {}: program at slot {} offset {:#x} (session slots {} / {})", who, idx, s, off, fw, par));
        }
    }
    for i in &newly {
        if !seen.contains(i) {
            fk(o, "C19", &key("missed-repair"), format!("{}: after fragment {} parity determines data fragment {} but it was not written", who, idx, i + 1));
        }
    }
}

// ------------------------------------------------------------------------------------------------ original crate

pub enum OMgr {
    M3(om::SlotManager<3>),
    M4(om::SlotManager<4>),
    M5(om::SlotManager<5>),
    M6(om::SlotManager<6>),
}
macro_rules! omgr {
    ($s:expr, $m:ident => $e:expr) => {
        match $s {
            OMgr::M3($m) => $e,
            OMgr::M4($m) => $e,
            OMgr::M5($m) => $e,
            OMgr::M6($m) => $e,
        }
    };
}

fn ospi<E>(e: &OSpi<E>) -> String {
    match e {
        OSpi::UnalignedAccess => "Spi(Unaligned)".into(),
        OSpi::OutOfBounds => "Spi(OutOfBounds)".into(),
        OSpi::HardwareFailure => "Spi(HardwareFailure)".into(),
        OSpi::Custom(_) => "Spi(Custom)".into(),
        OSpi::LogicError => "Spi(LogicError)".into(),
    }
}
fn omerr<E>(e: &om::ManagerError<E>) -> String {
    match e {
        om::ManagerError::Spi(s) => ospi(s),
        om::ManagerError::FlashRepr(_) => "FlashRepr".into(),
        om::ManagerError::Fatal => "Fatal".into(),
        om::ManagerError::UnexpectedMissingHeader => "UnexpectedMissingHeader".into(),
        om::ManagerError::SegmentCountMismatch => "SegmentCountMismatch".into(),
        om::ManagerError::SegmentSizeMismatch => "SegmentSizeMismatch".into(),
        om::ManagerError::TooManySegments => "TooManySegments".into(),
        om::ManagerError::SegmentsTooLarge => "SegmentsTooLarge".into(),
        om::ManagerError::Crc32Mismatch => "Crc32Mismatch".into(),
        om::ManagerError::CheckFailNotDone => "CheckFailNotDone".into(),
    }
}

/// the fields of an `ActiveStatus` (crate-private; read through its `Debug` rendering)
#[derive(Clone, Copy, Debug, Default)]
pub struct ActF {
    pub slot_size: usize,
    pub seg: usize,
    pub fw: usize,
    pub par: usize,
    pub total_fw: u64,
    pub total_par: u64,
    pub rem_fw: u64,
    pub rem_par: u64,
}
fn act_fields(a: &om::ActiveStatus) -> ActF {
    let s = format!("{:?}", a);
    let get = |name: &str| -> u64 {
        let pat = format!("{}: ", name);
        let at = s.find(&pat).unwrap() + pat.len();
        s[at..].chars().take_while(|c| c.is_ascii_digit()).collect::<String>().parse().unwrap()
    };
    ActF {
        slot_size: get("slot_size") as usize,
        seg: get("segment_size") as usize,
        fw: get("firmware_slot_idx") as usize,
        par: get("parity_slot_idx") as usize,
        total_fw: get("total_firmware_segments"),
        total_par: get("total_parity_segments"),
        rem_fw: get("remaining_firmware_segments"),
        rem_par: get("remaining_parity_segments"),
    }
}
fn act_str(f: &ActF) -> String {
    format!("fw={} ; par={} ; seg={} ; total={}/{} ; rem={}/{}", f.fw, f.par, f.seg, f.total_fw, f.total_par, f.rem_fw, f.rem_par)
}

/// one crafted header of an `oring` line
#[derive(Clone, Debug, PartialEq)]
pub struct HDesc {
    pub kind: char,
    pub seq: u32,
    pub size: u32,
    pub n: u32,
    pub ext: char,
    pub int: char,
    pub boot: char,
}
impl HDesc {
    pub fn parse(t: &str) -> Option<HDesc> {
        if t == "-" {
            return None;
        }
        let p: Vec<&str> = t.split(':').collect();
        let c = |s: &str| s.chars().next().unwrap();
        Some(HDesc { kind: c(p[0]), seq: p[1].parse().unwrap(), size: p[2].parse().unwrap(), n: p[3].parse().unwrap(), ext: c(p[4]), int: c(p[5]), boot: c(p[6]) })
    }
    pub fn tok(&self) -> String {
        format!("{}:{}:{}:{}:{}:{}:{}", self.kind, self.seq, self.size, self.n, self.ext, self.int, self.boot)
    }
    pub fn words(&self) -> [u32; 7] {
        [
            if self.kind == 'p' { 1 } else { 0 },
            self.seq,
            self.size,
            self.n,
            match self.ext { 'a' => 0xAAAA_AAAA, 'c' => 0x4444_4444, _ => 0xFFFF_FFFF },
            if self.int == 'c' { 0x1111_1111 } else { 0xFFFF_FFFF },
            match self.boot { 's' => 0xABCD_1234, 'x' => 0xCDEF_7890, _ => 0xFFFF_FFFF },
        ]
    }
    /// `AppWriteInProgress`
    pub fn in_progress(&self) -> bool {
        self.ext == 'p' && self.int == 'p' && self.boot == 'u'
    }
}

/// reference `next_seq`: successor in 0 .. 2^32-2 (the reserved value 2^32-1 is skipped)
fn ref_next(s: u32) -> u32 {
    ((s as u64 + 1) % 0xFFFF_FFFF) as u32
}

/// a consistent ring state: (position of the oldest, fill, oldest sequence number); `None` = not consistent
fn analyze_ring(r: &[Option<HDesc>]) -> Option<(usize, usize, u32)> {
    let n = r.len();
    let k = r.iter().filter(|h| h.is_some()).count();
    if k == 0 {
        return Some((0, 0, 0));
    }
    for p in 0..n {
        let run_ok = (0..n).all(|j| r[(p + j) % n].is_some() == (j < k));
        if !run_ok {
            continue;
        }
        let s0 = r[p].as_ref().unwrap().seq;
        let mut s = s0;
        let mut ok = s0 != 0xFFFF_FFFF;
        for j in 1..k {
            s = ref_next(s);
            ok &= r[(p + j) % n].as_ref().unwrap().seq == s;
        }
        if ok {
            return Some((p, k, s0));
        }
    }
    None
}

pub struct OExec {
    pub f: Nor,
    pub s: Box<om::ScratchRam>,
    pub m: OMgr,
    pub nslots: usize,
    pub slot: usize,
    pub a: Option<om::ActiveStatus>,
    pub peel: Option<Peel>,
    pub image: Vec<u8>,
    pub isz: usize,
    pub inn: usize,
    pub ring: Option<Vec<Option<HDesc>>>,
}

fn mk_mgr(n: usize, slot: usize) -> OMgr {
    match n {
        3 => OMgr::M3(om::SlotManager::<3>::new(slot)),
        4 => OMgr::M4(om::SlotManager::<4>::new(slot)),
        5 => OMgr::M5(om::SlotManager::<5>::new(slot)),
        _ => OMgr::M6(om::SlotManager::<6>::new(slot)),
    }
}

impl OExec {
    pub fn new() -> Self {
        OExec { f: Nor::new(4096, 4 * 20480), s: Box::new(om::ScratchRam::new()), m: mk_mgr(4, 20480), nslots: 4, slot: 20480, a: None, peel: None, image: vec![], isz: 0, inn: 0, ring: None }
    }
    fn hdr_words(&self, slot: usize) -> [u32; 7] {
        let mut w = [0u32; 7];
        for i in 0..7 {
            w[i] = self.f.word(slot * self.slot + 4 * i);
        }
        w
    }
    /// the ring as the header words on flash describe it (a slot whose header does not parse counts as blank)
    fn ring_from_flash(&self) -> Vec<Option<HDesc>> {
        (0..self.nslots)
            .map(|i| {
                let w = self.hdr_words(i);
                if !d5::parses(&w) {
                    return None;
                }
                Some(HDesc {
                    kind: if w[0] == 1 { 'p' } else { 'f' },
                    seq: w[1],
                    size: w[2],
                    n: w[3],
                    ext: match w[4] { 0xAAAA_AAAA => 'a', 0x4444_4444 => 'c', _ => 'p' },
                    int: if w[5] == 0x1111_1111 { 'c' } else { 'p' },
                    boot: match w[6] { 0xABCD_1234 => 's', 0xCDEF_7890 => 'x', _ => 'u' },
                })
            })
            .collect()
    }
    fn rem(&self) -> String {
        match &self.a {
            Some(a) => {
                let (x, y) = a.remaining();
                format!("rem={}/{}", x, y)
            }
            None => "rem=-".into(),
        }
    }
    /// C20: every program / erase of a fragment write lies in the slot the fragment belongs to
    fn in_slot_oracle(&mut self, what: &str, idx: u32, own: usize, o: &mut Out) {
        for op in &self.f.log {
            let (a, len) = match op {
                Op::Erase(a) => (*a, self.f.block),
                Op::Write(a, d) => (*a, d.len()),
            };
            if len == 0 {
                continue;
            }
            if a / self.slot != own || (a + len - 1) / self.slot != own {
                fk(o, "C20", "orig-write-beyond-slot", format!("{}({}): {} bytes programmed at {:#x} = slot {} offset {:#x}..{:#x}, the fragment belongs to slot {} (slot size {}, fragment size {})", what, idx, len, a, a / self.slot, a % self.slot, a % self.slot + len, own, self.slot, len));
            }
        }
        if self.f.oob != 0 {
            fk(o, "C20", "orig-write-beyond-slot", format!("{}({}): the accepted fragment write was issued beyond the end of the device ({} refused operation(s)); it belongs to slot {}", what, idx, self.f.oob, own));
            self.f.oob = 0;
        }
    }

    /// counters and log restart at every call unless a crash was armed just before (indices count from `ocrash`)
    fn arm(&mut self) {
        if self.f.crash_at.is_none() {
            self.f.arm();
        }
    }

    pub fn line(&mut self, line: &str, o: &mut Out) -> String {
        tick_gen(line);
        let armed = self.f.crash_at.is_some();
        let a = self.line_inner(line, o);
        if armed {
            self.f.crash_at = None;
        }
        a
    }

    fn line_inner(&mut self, line: &str, o: &mut Out) -> String {
        let t: Vec<&str> = line.split(' ').collect();
        match t[0] {
            "new" => {
                self.nslots = t[2].parse().unwrap();
                self.slot = t[3].parse().unwrap();
                let block: usize = t[4].parse().unwrap();
                self.f = Nor::new(block, self.nslots * self.slot);
                self.m = mk_mgr(self.nslots, self.slot);
                self.a = None;
                self.peel = None;
                self.image = vec![];
                self.ring = None;
                o.stat("orig-devices");
                "ok".into()
            }
            "oimage" => {
                self.isz = t[1].parse().unwrap();
                self.inn = t[2].parse().unwrap();
                self.image = unhex(t[3]);
                self.peel = None;
                "ok".into()
            }
            "oring" => {
                let block = self.f.block;
                self.f = Nor::new(block, self.nslots * self.slot);
                let descs: Vec<Option<HDesc>> = t[1..].iter().map(|x| HDesc::parse(x)).collect();
                for (i, d) in descs.iter().enumerate() {
                    if let Some(d) = d {
                        for (j, w) in d.words().iter().enumerate() {
                            self.f.put_word(i * self.slot + 4 * j, *w);
                        }
                    }
                }
                self.ring = Some(descs);
                self.a = None;
                o.stat("orig-crafted-ring-states");
                "ok".into()
            }
            "oreboot" => {
                self.a = None;
                self.f.reboot();
                "ok".into()
            }
            "ocrash" => {
                // power is lost before the k-th mutating operation from now
                let k: usize = t[1].parse().unwrap();
                self.f.arm();
                self.f.crash_at = Some((k, None));
                "ok".into()
            }
            "ostart" => {
                let sz: u32 = t[1].parse().unwrap();
                let n: u32 = t[2].parse().unwrap();
                self.a = None;
                self.arm();
                let before = self.f.mem.clone();
                let ring = self.ring_from_flash();
                let r = {
                    let (f, s) = (&mut self.f, &mut *self.s);
                    guarded(|| omgr!(&mut self.m, m => block_on(m.start(f, s, sz, n))))
                };
                let ops = d5::ops_str(&self.f, self.slot);
                let res = match &r {
                    Err(_) => "PANIC".to_string(),
                    Ok(Ok(_)) => "Ok".into(),
                    Ok(Err(e)) => format!("Err({})", omerr(e)),
                };
                if r.is_err() {
                    fk(o, "C20", "start-panic", format!("start({}, {}) panicked on ring {:?}", sz, n, ring.iter().map(|h| h.as_ref().map(|h| h.tok()).unwrap_or("-".into())).collect::<Vec<_>>()));
                }
                let mut extra = String::new();
                if let Ok(Ok(a)) = r {
                    let af = act_fields(&a);
                    extra = format!(" ; {}", act_str(&af));
                    // C20 placement oracle on consistent ring states (a blank device is the state with fill 0)
                    // a geometry the header cannot represent (the crate's is_reasonably_sized does not reject it)
                    let degenerate = sz == 0 || sz > 256 || n == 0 || n > 16384;
                    let kp = |k: &'static str| -> &'static str { if degenerate { "start-unrepresentable-geometry" } else { k } };
                    if let Some((p, k, s0)) = analyze_ring(&ring) {
                        let nn = self.nslots;
                        let (efw, epar) = if k == 0 { (0, 1) } else { ((p + k) % nn, (p + k + 1) % nn) };
                        let (es1, es2) = if k == 0 {
                            (0u32, 1u32)
                        } else {
                            let mut s = s0;
                            for _ in 1..k {
                                s = ref_next(s);
                            }
                            (ref_next(s), ref_next(ref_next(s)))
                        };
                        o.stat(&format!("placement-N{}-fill{}", nn, k));
                        if af.fw != efw || af.par != epar {
                            fk(o, "C20", kp("start-placement"), format!("start({}, {}) on ring (oldest at {}, fill {}, oldest seq {}) took slots {} / {}, expected the two positions after the newest: {} / {}", sz, n, p, k, s0, af.fw, af.par, efw, epar));
                        }
                        let wf = self.hdr_words(efw);
                        let wp = self.hdr_words(epar);
                        let want_f = [0, es1, sz, n, 0xFFFF_FFFF, 0xFFFF_FFFF, 0xFFFF_FFFF];
                        let want_p = [1, es2, sz, 16384, 0xFFFF_FFFF, 0xFFFF_FFFF, 0xFFFF_FFFF];
                        if wf != want_f || wp != want_p {
                            fk(o, "C20", kp("start-numbering"), format!("start on ring (oldest at {}, fill {}, oldest seq {}): headers {:x?} / {:x?}, expected {:x?} / {:x?}", p, k, s0, wf, wp, want_f, want_p));
                        }
                        if wf[1] == 0xFFFF_FFFF || wp[1] == 0xFFFF_FFFF {
                            fk(o, "C20", kp("start-reserved-seq"), "start left the reserved sequence number in a slot it took".into());
                        }
                        for sl in 0..nn {
                            if sl != efw && sl != epar && self.f.mem[sl * self.slot..(sl + 1) * self.slot] != before[sl * self.slot..(sl + 1) * self.slot] {
                                fk(o, "C20", kp("start-touched-other-slot"), format!("start on ring (oldest at {}, fill {}) modified slot {}", p, k, sl));
                            }
                        }
                    }
                    self.peel = if !self.image.is_empty() && self.isz == sz as usize && self.inn == n as usize { Some(Peel::new(self.isz, self.inn, &self.image)) } else { None };
                    self.a = Some(a);
                }
                self.ring = None;
                o.stat(&format!("ostart-{}", res.split('(').next().unwrap()));
                format!("res={} ; ops={}{}", res, ops, extra)
            }
            "oseg" | "owrite" => {
                let idx: u32 = t[1].parse().unwrap();
                let d = unhex(t[2]);
                let Some(a) = self.a.as_mut() else { return "res=NoSession".into() };
                let af = act_fields(a);
                if self.f.crash_at.is_none() {
                    self.f.arm();
                }
                self.f.oob = 0;
                let full = t[0] == "oseg";
                let r = {
                    let (f, s) = (&mut self.f, &mut *self.s);
                    guarded(|| -> Result<(om::WriteSegmentOutcome, Vec<usize>), OSpi<crate::nor::E>> {
                        let w = block_on(a.write_segment(f, s, idx, &d))?;
                        let mut rep = vec![];
                        if full && w == om::WriteSegmentOutcome::ConsumedMaybeParity {
                            while let Some(i) = block_on(a.repair_step(f, s))? {
                                rep.push(i);
                            }
                        }
                        Ok((w, rep))
                    })
                };
                let ops = d5::ops_str(&self.f, self.slot);
                let complete = self.a.as_ref().map(|a| a.is_complete()).unwrap_or(false);
                let wname = |w: &om::WriteSegmentOutcome| match w {
                    om::WriteSegmentOutcome::Consumed => "Consumed",
                    om::WriteSegmentOutcome::ConsumedMaybeParity => "MaybeParity",
                    om::WriteSegmentOutcome::FirmwareComplete => "Complete",
                };
                let (res, ans) = match &r {
                    Err(_) => ("PANIC".to_string(), format!("res=PANIC ; ops={} ; {}", ops, self.rem())),
                    Ok(Err(e)) => (format!("Err({})", ospi(e)), format!("res=Err({}) ; ops={} ; {}", ospi(e), ops, self.rem())),
                    Ok(Ok((w, rep))) => {
                        if full {
                            // the outcome handle_segment would report
                            let res = match w {
                                om::WriteSegmentOutcome::Consumed => "Consumed",
                                om::WriteSegmentOutcome::FirmwareComplete => "Complete",
                                om::WriteSegmentOutcome::ConsumedMaybeParity => if complete { "Complete" } else { "Consumed" },
                            };
                            (res.to_string(), format!("res={} ; w={} ; rep=[{}] ; ops={} ; {}", res, wname(w), rep.iter().map(|i| i.to_string()).collect::<Vec<_>>().join(","), ops, self.rem()))
                        } else {
                            (wname(w).to_string(), format!("res={} ; ops={} ; {}", wname(w), ops, self.rem()))
                        }
                    }
                };
                // C20: an accepted write stays in the slot the fragment belongs to
                if idx >= 1 {
                    let own = if (idx as u64) <= af.total_fw { af.fw } else { af.par };
                    if !full || !matches!(&r, Ok(Ok((_, rep))) if !rep.is_empty()) {
                        self.in_slot_oracle(if full { "write_segment+repair" } else { "write_segment" }, idx, own, o);
                    } else {
                        // with repairs the call legitimately programs both session slots
                        for op in &self.f.log {
                            if let Op::Write(a, dd) = op {
                                let s0 = a / self.slot;
                                let s1 = (a + dd.len().max(1) - 1) / self.slot;
                                if s0 != s1 || (s0 != af.fw && s0 != af.par) {
                                    fk(o, "C20", "orig-write-beyond-slot", format!("write_segment+repair({}): {} bytes programmed at {:#x} outside the session's slots {} / {}", idx, dd.len(), a, af.fw, af.par));
                                }
                            }
                        }
                    }
                }
                if r.is_err() {
                    o.stat("orig-seg-panics");
                }
                if full {
                    if let Some(p) = self.peel.as_mut() {
                        let log = self.f.log.clone();
                        session_oracle(p, "orig", idx, &d, &res, &log, af.fw, af.par, self.slot, None, o);
                    }
                }
                o.stat(&format!("{}-{}", t[0], res.split('(').next().unwrap()));
                ans
            }
            "orepair" => {
                let Some(a) = self.a.as_mut() else { return "res=NoSession".into() };
                if self.f.crash_at.is_none() {
                    self.f.arm();
                }
                let r = {
                    let (f, s) = (&mut self.f, &mut *self.s);
                    guarded(|| block_on(a.repair_step(f, s)))
                };
                let ops = d5::ops_str(&self.f, self.slot);
                let res = match &r {
                    Err(_) => "PANIC".to_string(),
                    Ok(Ok(Some(i))) => format!("Some({})", i),
                    Ok(Ok(None)) => "None".into(),
                    Ok(Err(e)) => format!("Err({})", ospi(e)),
                };
                format!("res={} ; ops={} ; {}", res, ops, self.rem())
            }
            "ocheck" => {
                let Some(a) = self.a.as_mut() else { return "res=NoSession".into() };
                let af = act_fields(a);
                if self.f.crash_at.is_none() {
                    self.f.arm();
                }
                let r = {
                    let (f, s) = (&mut self.f, &mut *self.s);
                    guarded(|| block_on(a.check_and_mark_done(f, s)))
                };
                let ops = d5::ops_str(&self.f, self.slot);
                let res = match &r {
                    Err(_) => "PANIC".to_string(),
                    Ok(Ok(i)) => format!("Ok({})", i),
                    Ok(Err(e)) => format!("Err({})", omerr(e)),
                };
                if let Some(p) = &self.peel {
                    let want_ok = p.all();
                    let got_ok = matches!(r, Ok(Ok(_)));
                    if want_ok != got_ok {
                        fk(o, "C19", "orig-final-check", format!("orig: the peeling decoder {} recover the image but check_and_mark_done answered {}", if want_ok { "can" } else { "cannot" }, res));
                    }
                    if got_ok {
                        let b = af.fw * self.slot + 0x4400;
                        if self.f.mem[b..b + p.image.len()] != p.image[..] {
                            fk(o, "C19", "orig-final-image", "orig: completed update differs from the transmitted image".into());
                        }
                        let v = {
                            let (f, s) = (&mut self.f, &mut *self.s);
                            omgr!(&self.m, m => guarded(|| block_on(m.validate_firmware_slot(f, s, af.fw)).map(|v| (v.data_start, v.data_len))))
                        };
                        if !matches!(v, Ok(Ok(_))) {
                            fk(o, "C19", "orig-final-image", "orig: completed update does not pass validate_firmware_slot".into());
                        }
                    }
                }
                if !matches!(r, Ok(Ok(_))) && !self.f.log.is_empty() {
                    fk(o, "C19", "orig-failed-check-wrote", format!("orig: check_and_mark_done failed ({}) after {} flash modification(s)", res, self.f.log.len()));
                }
                o.stat(&format!("ocheck-{}", res.split('(').next().unwrap()));
                format!("res={} ; ops={}", res, ops)
            }
            "oapp" => {
                self.a = None;
                self.arm();
                let ring = self.ring_from_flash();
                let table_blank = |sl: usize| self.f.mem[sl * self.slot + 0x400..sl * self.slot + 0x4400].iter().all(|b| *b == 0xFF);
                let tables_blank: Vec<bool> = (0..self.nslots).map(table_blank).collect();
                let r = {
                    let (f, s) = (&mut self.f, &mut *self.s);
                    guarded(|| omgr!(&mut self.m, m => block_on(m.app_boot_status(f, s))))
                };
                let ops = d5::ops_str(&self.f, self.slot);
                let (res, extra, got) = match r {
                    Err(_) => ("PANIC".to_string(), String::new(), None),
                    Ok(Ok(om::AppBootStatus::Idle)) => ("Idle".to_string(), String::new(), None),
                    Ok(Ok(om::AppBootStatus::InProgress(a))) => {
                        let af = act_fields(&a);
                        self.a = Some(a);
                        ("InProgress".to_string(), format!(" ; {}", act_str(&af)), Some(af))
                    }
                    Ok(Err(e)) => (format!("Err({})", omerr(&e)), String::new(), None),
                };
                if res == "PANIC" {
                    fk(o, "C20", "app-panic", "app_boot_status panicked".into());
                }
                {
                    if let Some((p, k, _)) = analyze_ring(&ring) {
                        let nn = self.nslots;
                        o.stat(&format!("app-status-N{}-fill{}", nn, k));
                        let expect: Option<(usize, usize)> = if k >= 2 {
                            let pi = (p + k - 1) % nn;
                            let fi = (p + k - 2) % nn;
                            let (fh, ph) = (ring[fi].as_ref().unwrap(), ring[pi].as_ref().unwrap());
                            if fh.kind == 'f' && ph.kind == 'p' && fh.in_progress() && ph.in_progress() && fh.size == ph.size { Some((fi, pi)) } else { None }
                        } else {
                            None
                        };
                        let gotp = got.map(|a| (a.fw, a.par));
                        // a pair whose firmware geometry does not fit the slot is not a state `start` can produce: whether
                        // it is resumed is not prescribed (the in-slot oracle of the writes still applies)
                        let oversize = k >= 2 && {
                            let fh = ring[(p + k - 2) % nn].as_ref().unwrap();
                            fh.size == 0 || fh.n == 0 || (fh.size as usize) * (fh.n as usize) > self.slot.saturating_sub(0x4400)
                        };
                        if oversize {
                            o.stat("app-status-on-oversize-pair");
                        } else if res.starts_with("Err") {
                            fk(o, "C20", "app-status-err", format!("app_boot_status on ring {:?} answered {} (neither resumes nor reports idle); expected {:?}", ring.iter().map(|h| h.as_ref().map(|h| h.tok()).unwrap_or("-".into())).collect::<Vec<_>>(), res, expect));
                        } else if res == "PANIC" || gotp != expect {
                            fk(o, "C20", "app-status", format!("app_boot_status on ring {:?} answered {} {:?}, expected {:?}", ring.iter().map(|h| h.as_ref().map(|h| h.tok()).unwrap_or("-".into())).collect::<Vec<_>>(), res, gotp, expect));
                        }
                        if let Some(a) = got {
                            if a.total_fw != ring[a.fw].as_ref().map(|h| h.n as u64).unwrap_or(0) || (tables_blank[a.fw] && a.rem_fw != a.total_fw) || (tables_blank[a.par] && a.rem_par != a.total_par) {
                                fk(o, "C20", "app-status-counters", format!("resumed session counters {:?} on an empty status table", a));
                            }
                        }
                        // afterwards no slot other than the resumed pair reads as in progress
                        for sl in 0..nn {
                            if gotp.map(|(f, p)| f == sl || p == sl).unwrap_or(false) {
                                continue;
                            }
                            if d5::parses_in_progress(&self.hdr_words(sl)) {
                                fk(o, "C20", if res.starts_with("Err") { "app-status-err" } else { "app-leaves-in-progress" }, format!("after app_boot_status ({}) slot {} still reads as in progress", res, sl));
                            }
                        }
                        // the resumed pair itself is untouched
                        if let Some((f, p)) = gotp {
                            for sl in [f, p] {
                                if self.hdr_words(sl) != ring[sl].as_ref().unwrap().words() {
                                    fk(o, "C20", "app-status", format!("app_boot_status modified the header of the resumed slot {}", sl));
                                }
                            }
                        }
                    }
                }
                o.stat(&format!("oapp-{}", res.split('(').next().unwrap()));
                format!("res={} ; ops={}{}", res, ops, extra)
            }
            "obl" => {
                self.arm();
                let r = {
                    let (f, s) = (&mut self.f, &mut *self.s);
                    guarded(|| omgr!(&mut self.m, m => block_on(m.bl_boot_status(f, s))))
                };
                let res = match &r {
                    Err(_) => "PANIC".to_string(),
                    Ok(Ok(om::BlBootStatus::Idle)) => "Idle".into(),
                    Ok(Ok(om::BlBootStatus::IncompleteInternal { idx })) => format!("Copy({})", idx),
                    Ok(Ok(om::BlBootStatus::FailedLoad { idx })) => format!("Unack({})", idx),
                    Ok(Err(e)) => format!("Err({})", omerr(e)),
                };
                if r.is_err() {
                    fk(o, "C20", "bl-panic", "bl_boot_status panicked".into());
                }
                if !self.f.log.is_empty() {
                    fk(o, "C20", "bl-modifies", "bl_boot_status modified the flash".into());
                }
                format!("res={}", res)
            }
            "ocancel" => {
                self.a = None;
                self.arm();
                let r = {
                    let (f, s) = (&mut self.f, &mut *self.s);
                    guarded(|| omgr!(&mut self.m, m => block_on(m.cancel_all_ext_pending_from_scratch(f, s)).map(|_| ())))
                };
                let res = match &r {
                    Err(_) => "PANIC".to_string(),
                    Ok(Ok(())) => "Ok".into(),
                    Ok(Err(e)) => format!("Err({})", omerr(e)),
                };
                format!("res={} ; ops={}", res, d5::ops_str(&self.f, self.slot))
            }
            "omark" => {
                let sl: usize = t[1].parse().unwrap();
                self.arm();
                let r = {
                    let f = &mut self.f;
                    omgr!(&mut self.m, m => guarded(|| match t[2] {
                        "aborted" => block_on(m.write_ext_status_aborted(f, sl)),
                        "int" => block_on(m.write_int_status_complete(f, sl)),
                        "ok" => block_on(m.write_boot_outcome_successful(f, sl)),
                        _ => block_on(m.write_boot_outcome_unsuccessful(f, sl)),
                    }))
                };
                let res = match &r {
                    Err(_) => "PANIC".to_string(),
                    Ok(Ok(())) => "Ok".into(),
                    Ok(Err(e)) => format!("Err({})", omerr(e)),
                };
                format!("res={} ; ops={}", res, d5::ops_str(&self.f, self.slot))
            }
            "ovalid" => {
                let sl: usize = t[1].parse().unwrap();
                self.arm();
                let v = {
                    let (f, s) = (&mut self.f, &mut *self.s);
                    omgr!(&self.m, m => guarded(|| block_on(m.validate_firmware_slot(f, s, sl)).map(|v| (v.data_start, v.data_len))))
                };
                match &v {
                    Err(_) => "res=PANIC".to_string(),
                    Ok(Ok((a, l))) => format!("res=Ok({},{})", a, l),
                    Ok(Err(e)) => format!("res=Err({})", omerr(e)),
                }
            }
            "odump" => {
                let mut parts = vec![];
                for i in 0..self.nslots {
                    let w = self.hdr_words(i);
                    let b = i * self.slot;
                    parts.push(format!(
                        "s{}={:x}.{:x}.{:x}.{:x}.{:x}.{:x}.{:x}/{:016x}/{:016x}",
                        i, w[0], w[1], w[2], w[3], w[4], w[5], w[6],
                        fnv(&self.f.mem[b + 0x400..b + 0x4400]),
                        fnv(&self.f.mem[b + 0x4400..b + self.slot])
                    ));
                }
                parts.join(" ; ")
            }
            _ => "bad-op".into(),
        }
    }
}

// ------------------------------------------------------------------------------------------------ combined executor

pub struct Exec {
    pub nv: d5::Exec,
    pub ov: OExec,
    pub np: Option<Peel>,
    pub cross_reported: bool,
}

fn field<'a>(ans: &'a str, k: &str) -> Option<&'a str> {
    ans.split(" ; ").find(|p| p.starts_with(k)).map(|p| &p[k.len()..])
}

impl Exec {
    pub fn new() -> Self {
        Exec { nv: d5::Exec::new(), ov: OExec::new(), np: None, cross_reported: false }
    }
    /// the parity count of the pinned naive start_update does not fit the header field for this geometry
    fn unclamped(&self) -> bool {
        self.nv.sz > 0 && (self.nv.slot - 0x4400) / self.nv.sz > 16384
    }
    fn known(&self) -> Option<&'static str> {
        if self.unclamped() { Some("naive-parity-count-unclamped") } else { None }
    }

    pub fn line(&mut self, line: &str, o: &mut Out) -> String {
        let a = self.line_inner(line, o);
        // `d5::Exec` also evaluates the oracles of the matrix back-end's properties (C01, C08, ...): not this suite's
        o.oracle_fail.retain(|f| f.0 == "C19" || f.0 == "C20");
        a
    }

    fn line_inner(&mut self, line: &str, o: &mut Out) -> String {
        let t: Vec<&str> = line.split(' ').collect();
        let is_orig = t[0].starts_with('o') || (t[0] == "new" && t.get(1) == Some(&"odev"));
        if is_orig {
            let ans = self.ov.line(line, o);
            if t[0] == "oseg" {
                // C19: fed the same fragments, both implementations report completion at the same delivery
                if let (Some(np), Some(op)) = (&self.np, &self.ov.peel) {
                    if np.steps == op.steps && np.complete_at.is_some() != op.complete_at.is_some() && !self.cross_reported && !self.nv.crashed {
                        self.cross_reported = true;
                        let key = self.known().unwrap_or("naive-orig-completion-differs");
                        fk(o, "C19", key, format!("after the same {} deliveries (last: fragment {}) naive completion = {:?}, original completion = {:?} (delivery numbers)", np.steps, t[1], np.complete_at, op.complete_at));
                    }
                }
            }
            return ans;
        }
        match t[0] {
            "new" => {
                self.np = None;
                self.cross_reported = false;
                self.nv.line(line, o)
            }
            "image" => {
                self.np = None;
                self.nv.line(line, o)
            }
            "crash" | "fault" | "poke" | "fill" => {
                // the peeling oracle is for crash-free runs on flash only the library wrote
                self.np = None;
                self.nv.line(line, o)
            }
            "start" => {
                let ans = self.nv.line(line, o);
                self.np = None;
                self.cross_reported = false;
                if field(&ans, "res=") == Some("Ok") && !self.nv.crashed && !self.nv.image.is_empty() && t[1].parse::<usize>().ok() == Some(self.nv.sz) && t[2].parse::<usize>().ok() == Some(self.nv.n) && self.nv.image.len() == self.nv.sz * self.nv.n {
                    self.np = Some(Peel::new(self.nv.sz, self.nv.n, &self.nv.image));
                    o.stat(if self.unclamped() { "naive-sessions-parity-count>16384" } else { "naive-sessions" });
                }
                ans
            }
            "seg" => {
                let ans = self.nv.line(line, o);
                if self.nv.crashed || self.nv.faulted {
                    self.np = None;
                }
                let known = self.known();
                if let (Some(p), Some((fw, par))) = (self.np.as_mut(), self.nv.sess) {
                    let idx: u32 = t[1].parse().unwrap();
                    let d = unhex(t[2]);
                    let res = field(&ans, "res=").unwrap_or("?").to_string();
                    let log = self.nv.f.log.clone();
                    let before = p.steps;
                    session_oracle(p, "naive", idx, &d, &res, &log, fw, par, self.nv.slot, known, o);
                    // counters: received == size of the closure, complete flag == outcome history
                    if p.steps != before && !res.starts_with("Err") && res != "PANIC" {
                        let want = p.closed.iter().filter(|b| **b).count();
                        let got = field(&ans, "recv=").and_then(|v| v.parse::<usize>().ok());
                        if got != Some(want) {
                            fk(o, "C19", known.unwrap_or("naive-received-counter"), format!("naive: received counter {:?} after fragment {}, the peeling decoder has {}", got, idx, want));
                        }
                    }
                }
                ans
            }
            "check" => {
                let had = self.nv.u.is_some();
                let ans = self.nv.line(line, o);
                if let (Some(p), true) = (&self.np, had) {
                    if !self.nv.crashed {
                        let res = field(&ans, "res=").unwrap_or("?");
                        let want_ok = p.all();
                        let got_ok = res.starts_with("Ok(");
                        if want_ok != got_ok {
                            fk(o, "C19", self.known().unwrap_or("naive-final-check"), format!("naive: the peeling decoder {} recover the image but check_and_mark_done answered {}", if want_ok { "can" } else { "cannot" }, res));
                        }
                        if got_ok {
                            let slot: usize = res[3..res.len() - 1].parse().unwrap();
                            let b = slot * self.nv.slot + 0x4400;
                            if self.nv.f.mem[b..b + p.image.len()] != p.image[..] {
                                fk(o, "C19", "naive-final-image", "naive: completed update differs from the transmitted image".into());
                            }
                        }
                    }
                }
                self.np = None;
                ans
            }
            "recover" => {
                let started = self.nv.started_ok;
                let in_c19_variant = self.nv.in_variant && self.nv.variant_prop == "C19";
                let vkey = self.nv.variant_key.clone();
                let ans = self.nv.line(line, o);
                let res = field(&ans, "res=").unwrap_or("?").to_string();
                if in_c19_variant && started && res != "Some" {
                    // acceptable only when the interrupted final mark had already completed the firmware slot
                    let mut done = false;
                    if let Some(fw) = self.nv.last_fw {
                        let mut w = [0u32; 7];
                        for i in 0..7 {
                            w[i] = self.nv.f.word(fw * self.nv.slot + 4 * i);
                        }
                        let b = fw * self.nv.slot + 0x4400;
                        if d5::parses(&w) && w[0] == 0 && w[4] == 0x4444_4444 && !self.nv.image.is_empty() && self.nv.f.mem[b..b + self.nv.image.len()] == self.nv.image[..] {
                            done = true;
                        }
                    }
                    if done {
                        o.stat("crash-after-firmware-mark-update-already-complete");
                    } else {
                        fk(o, "C19", self.known().unwrap_or(&vkey), format!("naive: the session was fully started but recovery after the power loss returned {}", res));
                    }
                } else if !in_c19_variant && self.np.is_some() && !self.nv.crashed && res != "Some" {
                    // clean reboot of an active session
                    fk(o, "C19", self.known().unwrap_or("naive-not-recovered"), format!("naive: an active session (fragment size {}, {} fragments, slot size {}) is not recovered after a clean reboot: {}", self.nv.sz, self.nv.n, self.nv.slot, res));
                    self.np = None;
                }
                if res == "Some" {
                    if let Some(p) = &self.np {
                        // counters of the recovered session = the closure reached before the reboot
                        let want = p.closed.iter().filter(|b| **b).count();
                        let got = field(&ans, "recv=").and_then(|v| v.parse::<usize>().ok());
                        if got != Some(want) && !self.nv.crashed {
                            fk(o, "C19", self.known().unwrap_or("naive-recovered-counter"), format!("naive: recovered session reports {:?} received fragments, {} were written", got, want));
                        }
                    }
                }
                ans
            }
            _ => self.nv.line(line, o),
        }
    }
}

// ------------------------------------------------------------------------------------------------ generators

fn ring_line(r: &[Option<HDesc>]) -> String {
    format!("oring {}", r.iter().map(|h| h.as_ref().map(|h| h.tok()).unwrap_or("-".into())).collect::<Vec<_>>().join(" "))
}

/// consistent ring: run of `k` headers from position `p`, numbered from `s0`; `st(j, k)` gives (kind, ext, int, boot)
fn make_ring(n: usize, p: usize, k: usize, s0: u32, size: u32, cnt: u32, st: &dyn Fn(usize, usize) -> (char, char, char, char)) -> Vec<Option<HDesc>> {
    let mut r: Vec<Option<HDesc>> = vec![None; n];
    let mut s = s0;
    for j in 0..k {
        let (kind, e, i, b) = st(j, k);
        r[(p + j) % n] = Some(HDesc { kind, seq: s, size, n: if kind == 'p' { 16384 } else { cnt }, ext: e, int: i, boot: b });
        s = ref_next(s);
    }
    r
}

/// kinds alternate backwards from the newest (parity), i.e. completed pairs; the oldest of an odd run is a lone parity
fn kind_at(j: usize, k: usize) -> char {
    if (k - 1 - j) % 2 == 0 { 'p' } else { 'f' }
}

fn confirmed(j: usize, k: usize) -> (char, char, char, char) {
    (kind_at(j, k), 'c', 'c', 's')
}

/// sessions for BOTH crates fed the same fragments (C19)
pub fn gen_sessions(seed: u64, thorough: bool, o: &mut Out) -> Vec<String> {
    let mut rng = Rng::new(seed ^ 0xD8);
    let mut q = vec![];
    let nscn = if thorough { 500 } else { 70 };
    let emit = |q: &mut Vec<String>, rng: &mut Rng, g: &Geo, img: &Img, seq: &[u32], full_pass: bool, reboot_at: Option<usize>, oring: Option<String>, o: &mut Out| {
        q.push(format!("new dev {} {} {}", g.nslots, g.slot, g.block));
        q.push(format!("new odev {} {} {}", g.nslots, g.slot, g.block));
        if g.slot <= 32768 {
            q.extend(d5gen::preamble(rng, g));
        }
        if let Some(r) = oring {
            q.push(r);
        }
        q.extend(img.lines());
        q.push(format!("oimage {} {} {}", img.sz, img.n, hex(&img.bytes)));
        q.push(format!("start {} {}", img.sz, img.n));
        q.push(format!("ostart {} {}", img.sz, img.n));
        for (j, i) in seq.iter().enumerate() {
            if reboot_at == Some(j) {
                q.push("reboot".into());
                q.push("recover".into());
                q.push("oreboot".into());
                q.push("oapp".into());
                o.stat("clean-reboots");
            }
            let h = hex(&img.fragment(*i));
            q.push(format!("seg {} {}", i, h));
            q.push(format!("oseg {} {}", i, h));
        }
        if full_pass {
            for i in 1..=img.n as u32 {
                let h = hex(&img.fragment(i));
                q.push(format!("seg {} {}", i, h));
                q.push(format!("oseg {} {}", i, h));
            }
        }
        q.push("check".into());
        q.push("ocheck".into());
        q.push("dump".into());
        q.push("odump".into());
    };
    for it in 0..nscn {
        let mut g = d5gen::pick_geo(&mut rng, thorough);
        if !thorough {
            // quick tier: small devices (the Lean model copies the flash array on every program)
            let min_blocks = 17408 / g.block + 1;
            g.slot = g.slot.min((min_blocks + 6) * g.block).min(28672);
            g.slot -= g.slot % g.block;
            if g.slot <= 17408 {
                g.slot = min_blocks * g.block;
            }
        }
        let sz = d5gen::pick_size(&mut rng);
        let room = g.slot - 0x4400;
        let maxn = (room / sz).min(16384).max(1);
        let n = match rng.below(6) {
            0 => 1.min(maxn),
            1 => maxn.min(rng.range(2, 8) as usize),
            2 => maxn.min(rng.range(100, 200) as usize),
            3 => maxn.min(room / sz), // the image fills the slot
            _ => maxn.min(rng.range(2, if thorough { 200 } else { 90 }) as usize),
        }
        .min(if thorough { 400 } else { 200 });
        let img = Img::make(&mut rng, sz, n);
        let cap = (room / sz).min(16384);
        // loss patterns: none, single, several, more than parity can peel
        let nloss = match rng.below(6) {
            0 => 0,
            1 | 2 => 1.min(n),
            3 => rng.range(2, 4).min(n as u64) as usize,
            4 => rng.range(0, (n as u64).min(8)) as usize,
            _ => rng.range(0, n as u64 / 2 + 1) as usize,
        };
        let mut idx: Vec<usize> = (0..n).collect();
        rng.shuffle(&mut idx);
        let lost: Vec<usize> = idx[..nloss].to_vec();
        let ncoded = match rng.below(5) {
            0 => 0,
            1 => nloss,
            2 => nloss + rng.range(1, 8) as usize,
            _ => rng.range(0, (3 * n) as u64).min(40) as usize,
        }
        .min(cap);
        o.stat(match nloss { 0 => "loss-none", 1 => "loss-single", _ => "loss-multiple" });
        o.stat(&format!("nslots-{}", g.nslots));
        let seq = d5gen::delivery(&mut rng, n, &lost, ncoded, o);
        let full_pass = rng.chance(1, 2);
        let reboot_at = if rng.chance(1, 4) && !seq.is_empty() { Some(rng.below(seq.len() as u64) as usize) } else { None };
        // the original crate starts from a crafted consistent ring (any rotation / fill / numbering incl. the wrap-around)
        let oring = if rng.chance(2, 3) {
            let p = rng.below(g.nslots as u64) as usize;
            let k = rng.below(g.nslots as u64 + 1) as usize;
            let s0 = *rng.pick(&[0u32, 7, 0xFFFF_FFFE, 0xFFFF_FFFD, 0xFFFF_FFFB]);
            Some(ring_line(&make_ring(g.nslots, p, k, s0, 4, 18, &confirmed)))
        } else {
            None
        };
        if it < 2 {
            o.sample(format!("dev {}x{} block {} ; image {}x{} ; lost {:?} ; order {:?}", g.nslots, g.slot, g.block, sz, n, &lost[..lost.len().min(8)], &seq[..seq.len().min(16)]));
        }
        emit(&mut q, &mut rng, &g, &img, &seq, full_pass, reboot_at, oring, o);
    }
    // ---- directed: fragment size 2 on 64 KiB slots (parity count 24064 > 16384 in the pinned naive start_update)
    {
        let g = Geo { nslots: 4, slot: 65536, block: 4096 };
        let img = Img::make(&mut rng, 2, 20);
        let mut seq: Vec<u32> = (1..=20u32).filter(|i| *i != 3).collect();
        seq.extend(21..=28u32);
        emit(&mut q, &mut rng, &g, &img, &seq, false, None, None, o);
        // ... and a clean reboot of the active session
        let seq2: Vec<u32> = (1..=10u32).collect();
        emit(&mut q, &mut rng, &g, &img, &seq2, true, Some(6), None, o);
        o.stat("directed-parity-count>16384");
    }
    // ---- directed: duplicates of the last fragments of an image that fills the last slot of the device
    for (nslots, sz) in [(4usize, 48usize), (5, 96), (6, 255)] {
        let g = Geo { nslots, slot: 20480, block: 4096 };
        let n = 3072 / sz;
        let img = Img::make(&mut rng, sz, n);
        let mut seq: Vec<u32> = (1..=n as u32).collect();
        seq.push(n as u32);
        seq.push(n as u32 - 1);
        seq.push(1);
        // newest at slot N-2: the firmware goes to the last slot
        let ring = ring_line(&make_ring(nslots, 0, nslots - 1, 3, 4, 18, &confirmed));
        q.push(format!("new dev {} {} {}", g.nslots, g.slot, g.block));
        q.push(format!("new odev {} {} {}", g.nslots, g.slot, g.block));
        q.push(ring);
        q.extend(img.lines());
        q.push(format!("oimage {} {} {}", img.sz, img.n, hex(&img.bytes)));
        q.push(format!("start {} {}", img.sz, img.n));
        q.push(format!("ostart {} {}", img.sz, img.n));
        for i in &seq {
            let h = hex(&img.fragment(*i));
            q.push(format!("seg {} {}", i, h));
            q.push(format!("oseg {} {}", i, h));
        }
        q.push("check".into());
        q.push("ocheck".into());
        q.push("odump".into());
        o.stat("directed-duplicates-at-device-end");
    }
    q
}

/// naive back-end: power loss at every mutating-operation boundary of start / fragments (incl. repairs) / check,
/// then reboot, recovery, continuation and the final check (C19, "resumes as in C06")
pub fn gen_crash(seed: u64, thorough: bool, o: &mut Out) -> Vec<String> {
    let mut rng = Rng::new(seed ^ 0xC19);
    let mut q = vec![];
    let nscn = if thorough { 40 } else { 5 };
    for it in 0..nscn {
        // a script whose uninterrupted run needs repairs
        let nslots = *rng.pick(&[4usize, 5, 6]);
        let block = *rng.pick(&[1024usize, 4096]);
        let slot = ((17408 / block) + 1 + rng.range(0, 2) as usize) * block;
        let geo = Geo { nslots, slot, block };
        let sz = *rng.pick(&[1usize, 3, 4, 7, 17, 40]);
        let n = rng.range(4, 14).min(((slot - 0x4400) / sz) as u64) as usize;
        let img = Img::make(&mut rng, sz, n);
        let nloss = rng.range(1, 3).min(n as u64 - 1) as usize;
        let mut idx: Vec<usize> = (0..n).collect();
        rng.shuffle(&mut idx);
        let lost: Vec<usize> = idx[..nloss].to_vec();
        let ncoded = nloss + rng.range(1, 4) as usize;
        let seq = d5gen::delivery(&mut rng, n, &lost, ncoded, o);
        let mut ops = vec![format!("start {} {}", sz, n)];
        for i in &seq {
            ops.push(format!("seg {} {}", i, hex(&img.fragment(*i))));
        }
        for i in 1..=n as u32 {
            ops.push(format!("seg {} {}", i, hex(&img.fragment(i))));
        }
        ops.push("check".into());
        let pre = if it % 3 == 0 { d5gen::preamble(&mut rng, &geo) } else { vec![] };
        let s = d5gen::Script { geo, pre, img, ops };
        // reference run: number and class of the mutating operations of every step
        let mut lines = s.head();
        lines.extend(s.ops.clone());
        let ans = d5gen::reference(&lines);
        let base = s.head().len();
        let fwpar = |k: &str| -> usize { field(&ans[base], k).and_then(|v| v.parse().ok()).unwrap_or(99) };
        let (fw, par) = (fwpar("fw="), fwpar("par="));
        let mut points: Vec<(usize, usize, String)> = vec![];
        for (j, op) in s.ops.iter().enumerate() {
            let opsf = field(&ans[base + j], "ops=").unwrap_or("-");
            if opsf == "-" {
                continue;
            }
            let idx1: usize = if op.starts_with("seg") { op.split(' ').nth(1).unwrap().parse().unwrap() } else { 0 };
            for (k, opstr) in opsf.split(',').enumerate() {
                let body = &opstr[1..];
                let (sl, rest) = body.split_once('+').unwrap();
                let off: usize = rest.split(':').next().unwrap().parse().unwrap();
                let sl: usize = sl.parse().unwrap();
                let site = if op.starts_with("start") {
                    "start"
                } else if op == "check" {
                    "mark"
                } else if sl == par {
                    if off >= 0x4400 { "parity-data" } else { "parity-status" }
                } else if sl == fw {
                    let own = idx1 <= s.img.n && (off == 0x4400 + (idx1 - 1) * s.img.sz || off == 0x400 + idx1 - 1);
                    match (own, off >= 0x4400) {
                        (true, true) => "data",
                        (true, false) => "status",
                        (false, true) => "repair-data",
                        (false, false) => "repair-status",
                    }
                } else {
                    "other-slot"
                };
                points.push((j, k, site.to_string()));
            }
        }
        if !thorough && points.len() > 70 {
            let mut keep: Vec<(usize, usize, String)> = points.iter().cloned().filter(|p| p.2 != "start").collect();
            let mut st: Vec<(usize, usize, String)> = points.iter().cloned().filter(|p| p.2 == "start").collect();
            rng.shuffle(&mut st);
            st.truncate(12);
            // keep every repair point, thin out the plain fragment writes
            let mut rep: Vec<(usize, usize, String)> = keep.iter().cloned().filter(|p| p.2.starts_with("repair") || p.2 == "mark").collect();
            keep.retain(|p| !(p.2.starts_with("repair") || p.2 == "mark"));
            rng.shuffle(&mut keep);
            keep.truncate(40);
            rep.truncate(30);
            keep.extend(rep);
            keep.extend(st);
            points = keep;
        }
        for (j, k, site) in points {
            let resend = rng.chance(1, 2);
            q.extend(s.head());
            for op in &s.ops[..j] {
                q.push(op.clone());
            }
            q.push(format!("crash {}", k));
            q.push(s.ops[j].clone());
            q.push("reboot".into());
            q.push(format!("variant C19 crash-site={}", site));
            q.push("recover".into());
            if j == 0 {
                q.push(s.ops[0].clone());
                for op in &s.ops[1..] {
                    q.push(op.clone());
                }
            } else if s.ops[j] == "check" {
                q.extend(s.full_pass());
                q.push("check".into());
            } else {
                let from = if resend { j } else { j + 1 };
                for op in &s.ops[from..s.ops.len() - 1] {
                    q.push(op.clone());
                }
                q.extend(s.full_pass());
                q.push("check".into());
            }
            q.push("dump".into());
            o.stat(&format!("crash-site-{}", site));
        }
    }
    q
}

/// C20: every consistent ring state for N = 3..6 (rotation x fill x start values incl. the 2^32 wrap-around) with the
/// placement and application-status oracles; fragment indices swept over the accepted range with the in-slot oracle
pub fn gen_ring(seed: u64, thorough: bool, o: &mut Out) -> Vec<String> {
    let mut rng = Rng::new(seed ^ 0xC20);
    let mut q = vec![];
    let slot = 18432usize;
    let block = 6144usize;
    for n in 3..=6usize {
        q.push(format!("new odev {} {} {}", n, slot, block));
        for p in 0..n {
            for k in 0..=n {
                if k == 0 && p != 0 {
                    continue;
                }
                // oldest sequence numbers: small, and such that the run or the two new numbers cross 2^32-1
                let kk = k as u32;
                let mut starts: Vec<u32> = vec![0, 5, 0xFFFF_FFFE, 0xFFFF_FFFD, 0xFFFF_FFFEu32.wrapping_sub(kk.saturating_sub(1)), 0xFFFF_FFFEu32.wrapping_sub(kk), 0xFFFF_FFFEu32.wrapping_sub(kk + 1), 0xFFFF_FFFC];
                starts.sort();
                starts.dedup();
                if k == 0 {
                    starts = vec![0];
                }
                for s0 in &starts {
                    // (a) start on a ring of confirmed images / on a ring whose newest pair is in progress
                    for v in 0..2 {
                        let st = move |j: usize, k: usize| -> (char, char, char, char) {
                            if v == 1 && j + 2 >= k { (kind_at(j, k), 'p', 'p', 'u') } else { confirmed(j, k) }
                        };
                        let r = make_ring(n, p, k, *s0, 4, 18, &st);
                        q.push(ring_line(&r));
                        q.push("obl".into());
                        q.push("ostart 4 18".into());
                        q.push("odump".into());
                        o.stat("ring-states-start");
                        if k == 0 {
                            break;
                        }
                    }
                    // (b) application status on status variants of the run
                    let do_app = k == 0 || *s0 == 5 || *s0 == 0xFFFF_FFFEu32.wrapping_sub(kk.saturating_sub(1)) || (thorough && *s0 == 0);
                    if !do_app {
                        continue;
                    }
                    for v in 0..9 {
                        let st = move |j: usize, k: usize| -> (char, char, char, char) {
                            let newest = j + 1 == k;
                            let second = j + 2 == k;
                            let kd = kind_at(j, k);
                            match v {
                                0 => if newest || second { (kd, 'p', 'p', 'u') } else { confirmed(j, k) },
                                1 => if newest { (kd, 'a', 'p', 'u') } else if second { (kd, 'p', 'p', 'u') } else { confirmed(j, k) },
                                2 => if newest || second { (kd, 'c', 'p', 'u') } else { confirmed(j, k) },
                                3 => (kd, 'p', 'p', 'u'),
                                4 => if newest || second { (kd, 'p', 'p', 'u') } else if j == 0 { (kd, 'p', 'c', 'u') } else { (kd, 'c', 'p', 'u') },
                                5 => if newest || second { (kd, 'a', 'p', 'u') } else { (kd, 'p', 'p', 'u') },
                                6 => if newest || second { (kd, 'p', 'p', 'u') } else { (kd, 'c', 'c', 'u') },
                                7 => if newest { ('f', 'p', 'p', 'u') } else if second { ('p', 'p', 'p', 'u') } else { confirmed(j, k) },
                                _ => if newest || second { (kd, 'p', 'p', 'u') } else { (kd, 'c', 'c', 'x') },
                            }
                        };
                        let mut r = make_ring(n, p, k, *s0, 4, 18, &st);
                        if v == 6 && k >= 2 {
                            // mismatching fragment sizes in the newest pair
                            if let Some(h) = r[(p + k - 1) % n].as_mut() {
                                h.size = 8;
                            }
                        }
                        q.push(ring_line(&r));
                        q.push("obl".into());
                        q.push("oapp".into());
                        q.push("odump".into());
                        o.stat("ring-states-app-status");
                        if k == 0 {
                            break;
                        }
                    }
                }
            }
        }
    }
    // ---- power loss inside `start`, at every mutating-operation boundary, then the two boot-time status calls
    for n in [3usize, 4, 5] {
        for first in [true, false] {
            // 12 mutating operations: 5 erases + header, twice
            for k in 0..=12usize {
                q.push(format!("new odev {} 20480 4096", n));
                if first {
                    q.push("ostart 40 10".into());
                } else {
                    q.push(ring_line(&make_ring(n, 1, n - 1, 0xFFFF_FFFC, 40, 10, &confirmed)));
                }
                q.push(format!("ocrash {}", k));
                q.push("ostart 40 12".into());
                q.push("oreboot".into());
                q.push("obl".into());
                q.push("oapp".into());
                q.push("odump".into());
                q.push("oreboot".into());
                q.push("oapp".into());
                q.push("ostart 40 12".into());
                q.push("odump".into());
                o.stat("crash-in-start-points");
            }
        }
    }
    // ---- geometries a header cannot represent (the deprecated is_reasonably_sized only checks the product)
    for (sz, n) in [(0u32, 5u32), (300, 5), (4, 0), (1, 16385), (257, 1)] {
        q.push("new odev 4 65536 4096".into());
        q.push(ring_line(&make_ring(4, 1, 2, 7, 4, 18, &confirmed)));
        q.push(format!("ostart {} {}", sz, n));
        q.push("odump".into());
        q.push("oapp".into());
        q.push(format!("oseg 1 {}", hex(&vec![0u8; sz as usize])));
        q.push("odump".into());
        o.stat("unrepresentable-geometries");
    }
    // ---- an in-progress pair whose header fields are legal one by one but whose image does not fit the slot (a header
    // written for larger slots / corrupt flash): the application status must not resume it, and whatever it answers,
    // no accepted fragment may be programmed outside the session's slots
    for (sz, n) in [(256u32, 300u32), (255, 16384), (64, 300), (200, 20), (4, 769)] {
        for nslots in [3usize, 4, 6] {
            q.push(format!("new odev {} 20480 4096", nslots));
            let st = |j: usize, k: usize| -> (char, char, char, char) {
                if j + 2 >= k { (kind_at(j, k), 'p', 'p', 'u') } else { confirmed(j, k) }
            };
            q.push(ring_line(&make_ring(nslots, 1, nslots.min(3), 7, sz, n, &st)));
            q.push("obl".into());
            q.push("oapp".into());
            let room = (20480 - 0x4400) / sz as usize;
            for i in [1usize, room, room + 1, room + 2, (20480 / sz as usize) + 1, n as usize, n as usize + 1, n as usize + room + 1] {
                if i >= 1 {
                    q.push(format!("oseg {} {}", i, hex(&vec![0x5Au8; sz as usize])));
                }
            }
            q.push("odump".into());
            o.stat("resume-from-oversize-header");
        }
    }
    // ---- fragment-index sweep: (fragment size, slot size, data fragments, ring state placing the parity slot)
    let pairs: Vec<(usize, usize, usize, usize)> = vec![(40, 65536, 10, 0), (40, 65536, 10, 2), (256, 20480, 12, 0), (1, 20480, 100, 1), (7, 24576, 50, 0), (200, 65536, 200, 3), (3, 65536, 5000, 0)];
    for (pi, (sz, slot, n, rot)) in pairs.iter().enumerate() {
        let (sz, slot, n, rot) = (*sz, *slot, *n, *rot);
        let nslots = 4;
        q.push(format!("new odev {} {} 4096", nslots, slot));
        if rot > 0 {
            q.push(ring_line(&make_ring(nslots, 0, rot, 9, 4, 18, &confirmed)));
        }
        q.push(format!("ostart {} {}", sz, n));
        let cap = (slot - 0x4400) / sz;
        let lim = slot / sz;
        let mut idxs: Vec<u64> = vec![];
        if thorough && pi < 3 {
            idxs.extend(0..=(n as u64 + 16386));
        } else {
            let around = |v: &mut Vec<u64>, c: u64, w: u64| {
                for d in 0..=2 * w {
                    let x = c as i64 + d as i64 - w as i64;
                    if x >= 0 {
                        v.push(x as u64);
                    }
                }
            };
            around(&mut idxs, 1, 1);
            around(&mut idxs, n as u64, 2);
            around(&mut idxs, (n + cap) as u64, 6);
            around(&mut idxs, (n + lim) as u64, 6);
            around(&mut idxs, (n + 16384) as u64, 3);
            idxs.push(n as u64 + 1300);
            for _ in 0..(if thorough { 400 } else { 60 }) {
                idxs.push(rng.range(1, n as u64 + 16384));
            }
            for j in 0..40u64 {
                idxs.push(1 + j * (n as u64 + 16384) / 40);
            }
        }
        idxs.sort();
        idxs.dedup();
        for i in idxs {
            let mut r = Rng::new(i * 7919 + pi as u64);
            q.push(format!("owrite {} {}", i, hex(&r.bytes(sz))));
            o.stat("sweep-fragment-writes");
        }
        q.push("odump".into());
    }
    q
}
