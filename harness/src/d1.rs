//! D1: the reconstructor (`parity-reconstruct/src/lib.rs`) against instrumented in-memory stores.
//! Serves C02 (soundness), C03 (completion at full rank / refusal), C09 (storage contracts), C18 (faults at L0).
use crate::util::*;
use bitvec::array::BitArray;
use bitvec::view::BitViewSized;
use parity_reconstruct::*;
use std::cell::RefCell;
use std::rc::Rc;

const UB: usize = 64; // U = [u8; 64] -> 512 data blocks max
type U = [u8; UB];

#[derive(Default)]
struct Shared {
    calls: Vec<String>,
    ncalls: usize,
    fail_at: Option<usize>,
    data: Vec<Option<Vec<u8>>>,
    parity: Vec<Option<Vec<u8>>>,
    matrix: Vec<Option<Vec<u8>>>,
    contract: Vec<String>,
    bs: usize,
    cap: usize,
    last_pstore: Option<usize>,
}
impl Shared {
    fn tick(&mut self, c: String) -> Result<(), ()> {
        let i = self.ncalls;
        self.ncalls += 1;
        self.calls.push(c);
        if self.fail_at == Some(i) {
            self.fail_at = None;
            return Err(());
        }
        Ok(())
    }
    fn viol(&mut self, s: String) {
        if self.contract.len() < 20 {
            self.contract.push(s);
        }
    }
}

struct Par {
    rows: Rc<Vec<Vec<u8>>>, // rows for m >= n (index m - n), little-endian bit bytes
    n: usize,
}
impl ParityMatrix<U> for Par {
    fn row(&self, m: usize) -> BitArray<U> {
        let mut out = BitArray::<U>::ZERO;
        if m < self.n {
            out.set(m, true);
        } else {
            let r = &self.rows[(m - self.n) % self.rows.len().max(1)];
            out.as_raw_mut_slice()[..r.len()].copy_from_slice(r);
        }
        out
    }
}
struct MS(Rc<RefCell<Shared>>);
struct PS(Rc<RefCell<Shared>>);
struct DS(Rc<RefCell<Shared>>);

impl<V: BitViewSized<Store = u8>> MatrixStorage<V> for MS {
    type Error = ();
    async fn set_row(&mut self, m: usize, data: BitArray<V>) -> Result<(), ()> {
        let mut s = self.0.borrow_mut();
        let raw: Vec<u8> = data.as_raw_slice().to_vec();
        s.tick(format!("mS{}:{}", m, hex(&raw[..(m / 8 + 1).min(raw.len())])))?;
        if m >= s.cap {
            { let c = s.cap; s.viol(format!("set_row index {} >= capacity {}", m, c)); }
            return Ok(());
        }
        if !data[m] {
            s.viol(format!("set_row({}) without its own bit", m));
        }
        if data.iter().by_vals().enumerate().any(|(i, b)| b && i > m) {
            s.viol(format!("set_row({}) with a higher bit set", m));
        }
        if s.matrix[m].is_some() {
            s.viol(format!("set_row({}) called twice", m));
        }
        if s.last_pstore != Some(m) {
            s.viol(format!("set_row({}) not immediately preceded by parity store of the same index", m));
        }
        s.last_pstore = None;
        s.matrix[m] = Some(raw);
        Ok(())
    }
    async fn row(&mut self, m: usize) -> Result<BitArray<V>, ()> {
        let mut s = self.0.borrow_mut();
        s.tick(format!("mR{}", m))?;
        s.last_pstore = None;
        let mut out = BitArray::<V>::ZERO;
        if m >= s.cap {
            { let c = s.cap; s.viol(format!("row index {} >= capacity {}", m, c)); }
            return Ok(out);
        }
        match &s.matrix[m] {
            Some(r) => out.as_raw_mut_slice().copy_from_slice(r),
            None => s.viol(format!("row({}) read before set_row", m)),
        }
        Ok(out)
    }
    fn num_rows(&self) -> usize {
        self.0.borrow().cap
    }
}
impl ParityStorage for PS {
    type Error = ();
    async fn store(&mut self, m: usize, data: &[u8]) -> Result<(), ()> {
        let mut s = self.0.borrow_mut();
        s.tick(format!("pS{}:{}", m, hex(data)))?;
        if data.len() != s.bs {
            s.viol(format!("parity store buffer length {} != block size", data.len()));
        }
        if m >= s.cap {
            { let c = s.cap; s.viol(format!("parity store index {} >= capacity {}", m, c)); }
            return Ok(());
        }
        if s.parity[m].is_some() {
            s.viol(format!("parity store({}) called twice", m));
        }
        s.parity[m] = Some(data.to_vec());
        s.last_pstore = Some(m);
        Ok(())
    }
    async fn get(&mut self, m: usize, buf: &mut [u8]) -> Result<(), ()> {
        let mut s = self.0.borrow_mut();
        s.tick(format!("pG{}", m))?;
        s.last_pstore = None;
        if buf.len() != s.bs {
            s.viol(format!("parity get buffer length {} != block size", buf.len()));
        }
        if m >= s.cap {
            { let c = s.cap; s.viol(format!("parity get index {} >= capacity {}", m, c)); }
            return Ok(());
        }
        match &s.parity[m] {
            Some(d) => buf.copy_from_slice(d),
            None => {
                buf.fill(0);
                s.viol(format!("parity get({}) before store", m))
            }
        }
        Ok(())
    }
}
impl DataStorage for DS {
    type Error = ();
    async fn store(&mut self, m: usize, data: &[u8]) -> Result<(), ()> {
        let mut s = self.0.borrow_mut();
        s.tick(format!("dS{}:{}", m, hex(data)))?;
        s.last_pstore = None;
        if data.len() != s.bs {
            s.viol(format!("data store buffer length {} != block size", data.len()));
        }
        if m >= s.data.len() {
            s.viol(format!("data store index {} >= N", m));
            return Ok(());
        }
        if s.data[m].is_some() {
            s.viol(format!("data store({}) called twice", m));
        }
        s.data[m] = Some(data.to_vec());
        Ok(())
    }
    async fn get(&mut self, m: usize, buf: &mut [u8]) -> Result<(), ()> {
        let mut s = self.0.borrow_mut();
        s.tick(format!("dG{}", m))?;
        s.last_pstore = None;
        if buf.len() != s.bs {
            s.viol(format!("data get buffer length {} != block size", buf.len()));
        }
        if m >= s.data.len() {
            s.viol(format!("data get index {} >= N", m));
            return Ok(());
        }
        match &s.data[m] {
            Some(d) => buf.copy_from_slice(d),
            None => {
                buf.fill(0);
                s.viol(format!("data get({}) before store", m))
            }
        }
        Ok(())
    }
}

enum State {
    V16(ReconstructorData<U, [u8; 2]>),
    V256(ReconstructorData<U, [u8; 32]>),
}

/// independent GF(2) elimination over u64 words (rank oracle)
#[derive(Clone)]
pub struct Gf2 {
    rows: Vec<Vec<u64>>, // echelon rows, each with a distinct leading bit
    words: usize,
}
impl Gf2 {
    pub fn new(bits: usize) -> Self {
        Gf2 { rows: vec![], words: (bits + 63) / 64 + 1 }
    }
    fn lead(r: &[u64]) -> Option<usize> {
        for (i, w) in r.iter().enumerate().rev() {
            if *w != 0 {
                return Some(i * 64 + 63 - w.leading_zeros() as usize);
            }
        }
        None
    }
    pub fn add(&mut self, mut r: Vec<u64>) -> bool {
        r.resize(self.words, 0);
        loop {
            let Some(l) = Self::lead(&r) else { return false };
            if let Some(p) = self.rows.iter().find(|p| Self::lead(p) == Some(l)) {
                for (a, b) in r.iter_mut().zip(p.iter()) {
                    *a ^= *b;
                }
            } else {
                self.rows.push(r);
                return true;
            }
        }
    }
    pub fn rank(&self) -> usize {
        self.rows.len()
    }
}

pub struct Exec {
    st: Option<State>,
    sh: Rc<RefCell<Shared>>,
    rows: Rc<Vec<Vec<u8>>>,
    pending_rows: Vec<Vec<u8>>,
    n: usize,
    bs: usize,
    vb: usize,
    cap: usize,
    orig: Vec<Vec<u8>>,
    // oracle state
    received_data: Vec<bool>,
    stage2: bool,
    frozen_unknown: Vec<usize>,
    accepted: Gf2,
    all_received: Gf2,
    done_seen: bool,
    faulted: bool,
    finish_fault: bool,
    stage1_store_fault: bool,
}

fn bits_of(raw: &[u8], nbits: usize) -> Vec<bool> {
    (0..nbits).map(|i| raw.get(i / 8).map(|b| b >> (i % 8) & 1 == 1).unwrap_or(false)).collect()
}

impl Exec {
    pub fn new() -> Self {
        Exec { st: None, sh: Rc::new(RefCell::new(Shared::default())), rows: Rc::new(vec![]), pending_rows: vec![], n: 0, bs: 0, vb: 0, cap: 0,
            orig: vec![], received_data: vec![], stage2: false, frozen_unknown: vec![], accepted: Gf2::new(1), all_received: Gf2::new(1),
            done_seen: false, faulted: false, finish_fault: false, stage1_store_fault: false }
    }
    fn full_row(&self, idx: usize) -> Vec<bool> {
        if idx < self.n {
            (0..self.n).map(|i| i == idx).collect()
        } else {
            bits_of(&self.rows[(idx - self.n) % self.rows.len().max(1)], self.n)
        }
    }
    fn to_words(bits: &[bool]) -> Vec<u64> {
        let mut w = vec![0u64; bits.len() / 64 + 1];
        for (i, b) in bits.iter().enumerate() {
            if *b {
                w[i / 64] |= 1 << (i % 64);
            }
        }
        w
    }
    fn state_str(&self) -> String {
        let (l, done, used): (usize, Vec<u8>, Vec<u8>) = match self.st.as_ref().unwrap() {
            State::V16(d) => (d.l, d.done.as_raw_slice().to_vec(), d.used.as_raw_slice().to_vec()),
            State::V256(d) => (d.l, d.done.as_raw_slice().to_vec(), d.used.as_raw_slice().to_vec()),
        };
        let trim = |v: Vec<u8>| {
            let mut v = v;
            while v.last() == Some(&0) {
                v.pop();
            }
            hex(&v)
        };
        format!("l={} ; done={} ; used={}", l, trim(done), trim(used))
    }

    pub fn line(&mut self, line: &str, o: &mut Out) -> String {
        let t: Vec<&str> = line.split(' ').collect();
        match t[0] {
            "new" => {
                // new recon <n> <bs> <vbits> <numrows>
                self.n = t[2].parse().unwrap();
                self.bs = t[3].parse().unwrap();
                self.vb = t[4].parse().unwrap();
                self.cap = t[5].parse().unwrap();
                self.st = Some(if self.vb == 16 { State::V16(ReconstructorData::new(self.n, self.bs)) } else { State::V256(ReconstructorData::new(self.n, self.bs)) });
                let mut sh = Shared::default();
                sh.bs = self.bs;
                sh.cap = self.cap;
                sh.data = vec![None; self.n];
                sh.parity = vec![None; self.cap];
                sh.matrix = vec![None; self.cap];
                self.sh = Rc::new(RefCell::new(sh));
                self.pending_rows = vec![];
                self.rows = Rc::new(vec![]);
                self.orig = vec![];
                self.received_data = vec![false; self.n];
                self.stage2 = false;
                self.frozen_unknown = vec![];
                self.accepted = Gf2::new(self.n);
                self.all_received = Gf2::new(self.n);
                self.done_seen = false;
                self.faulted = false;
                self.finish_fault = false;
                self.stage1_store_fault = false;
                o.stat("scenarios");
                "ok".into()
            }
            "row" => {
                self.pending_rows.push(unhex(t[1]));
                self.rows = Rc::new(self.pending_rows.clone());
                "ok".into()
            }
            "orig" => {
                self.orig.push(unhex(t[1]));
                "ok".into()
            }
            "blk" => {
                let idx: usize = t[1].parse().unwrap();
                let data = unhex(t[2]);
                let fault: Option<usize> = t.get(3).map(|s| s[1..].parse().unwrap());
                let before_state = self.state_str();
                let before_calls = self.sh.borrow().ncalls;
                {
                    let mut sh = self.sh.borrow_mut();
                    sh.calls.clear();
                    sh.fail_at = fault.map(|k| before_calls + k);
                }
                let par = Par { rows: self.rows.clone(), n: self.n };
                let (ms, ps, ds) = (MS(self.sh.clone()), PS(self.sh.clone()), DS(self.sh.clone()));
                let r = guarded(|| match self.st.as_mut().unwrap() {
                    State::V16(d) => {
                        let mut rec: Reconstructor<_, _, _, _, 256, _, _> = d.hydrate(par, ms, ps, ds);
                        block_on(rec.handle_block(idx, &data))
                    }
                    State::V256(d) => {
                        let mut rec: Reconstructor<_, _, _, _, 256, _, _> = d.hydrate(par, ms, ps, ds);
                        block_on(rec.handle_block(idx, &data))
                    }
                });
                self.sh.borrow_mut().fail_at = None;
                let res = match &r {
                    Err(_) => "PANIC".to_string(),
                    Ok(Ok(BlockResult::NeedMore)) => "NeedMore".into(),
                    Ok(Ok(BlockResult::TooManyMissing)) => "TooManyMissing".into(),
                    Ok(Ok(BlockResult::Done(k))) => format!("Done({})", k),
                    Ok(Err(Error::DataStorageError(_))) => "Err(data)".into(),
                    Ok(Err(Error::ParityStorageError(_))) => "Err(parity)".into(),
                    Ok(Err(Error::MatrixStorageError(_))) => "Err(matrix)".into(),
                };
                let calls = self.sh.borrow().calls.clone();
                let after_state = self.state_str();
                self.oracle(idx, &data, &res, &calls, &before_state, &after_state, fault, o);
                o.stat(&format!("result-{}", res.split('(').next().unwrap()));
                let dst: Vec<String> = calls.iter().filter(|c| c.starts_with("dS")).cloned().collect();
                format!("res={} ; calls={} ; dst={} ; nc={} ; {}", res, if calls.is_empty() { "-".to_string() } else { calls.join(",") },
                    if dst.is_empty() { "-".to_string() } else { dst.join(",") }, calls.len(), after_state)
            }
            "end" => {
                // final store contents + contract verdict
                let sh = self.sh.borrow();
                let ds: Vec<String> = sh.data.iter().map(|d| d.as_ref().map(|v| hex(v)).unwrap_or("?".into())).collect();
                let viol = sh.contract.clone();
                drop(sh);
                if !self.faulted {
                    for v in &viol {
                        o.fail("C09", format!("storage contract: {}", v));
                    }
                } else if self.all_received_full() && !self.orig.is_empty() {
                    // C18 at L0: after fault + redelivery, a full-rank session must end with the exact data
                    let sh = self.sh.borrow();
                    let okdata = (0..self.n).all(|i| sh.data[i].as_deref() == Some(&self.orig[i][..]));
                    let key = if self.finish_fault { "fault-site=finish" } else if self.stage1_store_fault { "fault-site=stage1-data-store" } else { "fault-site=other" };
                    if !(okdata && self.done_seen) {
                        drop(sh);
                        o.fail_key("C18", key, format!("after a storage fault and redelivery the session did not end with the exact data (done_seen={}, data ok={})", self.done_seen, okdata));
                    }
                }
                format!("ds={}", ds.join(","))
            }
            _ => "bad-op".into(),
        }
    }

    fn all_received_full(&self) -> bool {
        self.all_received.rank() == self.n
    }

    #[allow(clippy::too_many_arguments)]
    fn oracle(&mut self, idx: usize, data: &[u8], res: &str, calls: &[String], before: &str, after: &str, fault: Option<usize>, o: &mut Out) {
        let _n = self.n;
        if res == "PANIC" {
            o.fail("C02", format!("handle_block({}) panicked", idx));
            return;
        }
        if self.faulted && !res.starts_with("Err") {
            // after a fault only bookkeeping: the verdict is given at `end` under C18
            let mut scratch = Out::new();
            self.oracle_inner(idx, data, res, calls, before, after, fault, &mut scratch);
            return;
        }
        self.oracle_inner(idx, data, res, calls, before, after, fault, o);
    }

    #[allow(clippy::too_many_arguments)]
    fn oracle_inner(&mut self, idx: usize, data: &[u8], res: &str, calls: &[String], before: &str, after: &str, fault: Option<usize>, o: &mut Out) {
        let n = self.n;
        if res.starts_with("Err") {
            self.faulted = true;
            // classify the failing site for C18's known-finding keys
            let last = calls.last().cloned().unwrap_or_default();
            let in_finish = {
                // finish starts after the last mS of this call, or when the call sequence begins with pG0,mR0 with complete state
                let has_ms = calls.iter().any(|c| c.starts_with("mS"));
                let after_ms = calls.iter().rposition(|c| c.starts_with("mS")).map(|p| p + 1 < calls.len()).unwrap_or(false);
                has_ms && after_ms
            };
            if in_finish {
                self.finish_fault = true;
            }
            if !self.stage2 && last.starts_with("dS") {
                self.stage1_store_fault = true;
            }
            if fault.is_none() {
                o.fail("C18", "storage error reported although no fault was injected".into());
            }
            return;
        }
        // every data-store call must carry the original block (C02)
        if !self.orig.is_empty() {
            for c in calls {
                if let Some(rest) = c.strip_prefix("dS") {
                    let (m, d) = rest.split_once(':').unwrap();
                    let m: usize = m.parse().unwrap();
                    if m >= n || hex(&self.orig[m]) != d {
                        o.fail("C02", format!("data store({}) writes {} but the original block is {}", m, d, self.orig.get(m).map(|v| hex(v)).unwrap_or_default()));
                    }
                }
            }
        }
        let _ = data;
        // refusal (C03)
        let unknown_now = self.received_data.iter().filter(|b| !**b).count();
        let expect_refuse = !self.done_seen && idx >= n && !self.stage2 && unknown_now > self.vb.min(self.cap);
        if (res == "TooManyMissing") != expect_refuse {
            o.fail("C03", format!("TooManyMissing mismatch: got {} with {} unknown, capacity {}", res, unknown_now, self.vb.min(self.cap)));
        }
        if res == "TooManyMissing" {
            if !calls.is_empty() || before != after {
                o.fail("C03", format!("a refused block changed state or touched storage: calls={:?} {} -> {}", calls, before, after));
            }
            return;
        }
        if self.done_seen {
            if !res.starts_with("Done") {
                o.fail("C03", "Done was reported earlier but a later call did not return Done".into());
            }
            if !calls.is_empty() {
                o.fail("C03", format!("storage calls after Done: {:?}", calls));
            }
            return;
        }
        // bookkeeping of what has been accepted
        let row = self.full_row(idx);
        self.all_received.add(Self::to_words(&row));
        if !self.stage2 && idx >= n {
            self.stage2 = true;
            self.frozen_unknown = (0..n).filter(|i| !self.received_data[*i]).collect();
            self.accepted = Gf2::new(self.frozen_unknown.len());
        }
        if self.stage2 {
            let red: Vec<bool> = self.frozen_unknown.iter().map(|i| row[*i]).collect();
            self.accepted.add(Self::to_words(&red));
        } else if idx < n {
            self.received_data[idx] = true;
        }
        let full = if self.stage2 { self.accepted.rank() == self.frozen_unknown.len() } else { self.received_data.iter().all(|b| *b) };
        let is_done = res.starts_with("Done");
        if is_done != full {
            o.fail("C03", format!("completion mismatch at block {}: result {} but accepted rank {} of {} unknown (stage2={})", idx, res, self.accepted.rank(), self.frozen_unknown.len(), self.stage2));
        }
        if is_done {
            self.done_seen = true;
            if self.all_received.rank() != n {
                o.fail("C03", "Done before the received blocks determine the data".into());
            }
            if res != format!("Done({})", n * self.bs) {
                o.fail("C02", format!("Done length {} != N x block size {}", res, n * self.bs));
            }
            if !self.orig.is_empty() {
                let sh = self.sh.borrow();
                for i in 0..n {
                    if sh.data[i].as_deref() != Some(&self.orig[i][..]) {
                        o.fail("C02", format!("at Done block {} holds {:?}, original {}", i, sh.data[i].as_ref().map(|v| hex(v)), hex(&self.orig[i])));
                        break;
                    }
                }
                if !self.faulted {
                    let stored_once = sh.contract.is_empty();
                    if !stored_once {
                        o.fail("C09", format!("contract violations by Done: {:?}", sh.contract));
                    }
                }
            }
        }
    }
}

// ---------------------------------------------------------------- generator

fn lorawan_row(k: u32, m: usize) -> Vec<u8> {
    let row = crate::rows::parity_row(k, m, false).unwrap_or_else(|| vec![false; m]);
    let mut v = vec![0u8; (m + 7) / 8];
    for (i, b) in row.iter().enumerate() {
        if *b {
            v[i / 8] |= 1 << (i % 8);
        }
    }
    v
}

fn xor_into(a: &mut [u8], b: &[u8]) {
    for (x, y) in a.iter_mut().zip(b) {
        *x ^= *y;
    }
}

pub struct Scn {
    pub n: usize,
    pub bs: usize,
    pub vb: usize,
    pub cap: usize,
    pub rows: Vec<Vec<u8>>,
    pub orig: Vec<Vec<u8>>,
}
impl Scn {
    pub fn block(&self, idx: usize) -> Vec<u8> {
        if idx < self.n {
            return self.orig[idx].clone();
        }
        let r = &self.rows[(idx - self.n) % self.rows.len()];
        let mut out = vec![0u8; self.bs];
        for i in 0..self.n {
            if r[i / 8] >> (i % 8) & 1 == 1 {
                xor_into(&mut out, &self.orig[i]);
            }
        }
        out
    }
    pub fn header(&self) -> Vec<String> {
        let mut q = vec![format!("new recon {} {} {} {}", self.n, self.bs, self.vb, self.cap)];
        for r in &self.rows {
            q.push(format!("row {}", hex(r)));
        }
        for b in &self.orig {
            q.push(format!("orig {}", hex(b)));
        }
        q
    }
}

pub fn gen_scn(rng: &mut Rng, thorough: bool, o: &mut Out) -> Scn {
    let n = match rng.below(10) {
        0 => 1,
        1 => 2,
        2..=5 => rng.range(3, 12) as usize,
        6..=8 => rng.range(13, 64) as usize,
        _ => rng.range(65, if thorough { 500 } else { 160 }) as usize,
    };
    let bs = *rng.pick(&[1usize, 1, 2, 4, 17, 40, 256]);
    let vb = if rng.chance(1, 3) { 16 } else { 256 };
    let cap = match rng.below(6) {
        0 => 0,
        1 => rng.range(1, 3) as usize,
        2 => vb,
        _ => rng.range(1, vb as u64) as usize,
    }
    .min(vb);
    let nrows = rng.range(1, (2 * n + 8) as u64) as usize;
    let kind = rng.below(5);
    o.stat(&format!("matrix-kind-{}", ["lorawan", "uniform", "sparse", "mixed-degenerate", "dense"][kind as usize]));
    let nbytes = (n + 7) / 8;
    let mask_tail = |v: &mut Vec<u8>| {
        if n % 8 != 0 {
            let l = v.len();
            v[l - 1] &= (1u8 << (n % 8)) - 1;
        }
    };
    let mut rows: Vec<Vec<u8>> = vec![];
    for k in 0..nrows {
        let mut r = match kind {
            0 => lorawan_row(k as u32 + 1, n),
            1 => rng.bytes(nbytes),
            2 => {
                let mut v = vec![0u8; nbytes];
                for _ in 0..rng.range(1, 3) {
                    let i = rng.below(n as u64) as usize;
                    v[i / 8] |= 1 << (i % 8);
                }
                v
            }
            3 => match rng.below(4) {
                0 => vec![0u8; nbytes],
                1 if !rows.is_empty() => rng.pick(&rows).clone(),
                2 if rows.len() >= 2 => {
                    let mut a = rng.pick(&rows).clone();
                    let b = rng.pick(&rows).clone();
                    xor_into(&mut a, &b);
                    a
                }
                _ => rng.bytes(nbytes),
            },
            _ => {
                let mut v = vec![0xFFu8; nbytes];
                let i = rng.below(n as u64) as usize;
                v[i / 8] ^= 1 << (i % 8);
                v
            }
        };
        mask_tail(&mut r);
        rows.push(r);
    }
    let mut orig: Vec<Vec<u8>> = (0..n).map(|_| rng.bytes(bs)).collect();
    // structured contents in a third of the scenarios: zero blocks, erased-looking (0xFF) blocks, repeated blocks,
    // blocks that begin with FF FF FF FF
    if rng.chance(1, 3) {
        let style = rng.below(5);
        o.stat(&format!("payload-{}", ["zero-blocks", "ff-blocks", "repeated-blocks", "ff-prefix", "mixed"][style as usize]));
        for _ in 0..rng.range(1, (n as u64 / 2).max(1)) {
            let i = rng.below(n as u64) as usize;
            let j = rng.below(n as u64) as usize;
            match if style == 4 { rng.below(4) } else { style } {
                0 => orig[i].fill(0),
                1 => orig[i].fill(0xFF),
                2 => orig[i] = orig[j].clone(),
                _ => {
                    let m = bs.min(4);
                    orig[i][..m].fill(0xFF);
                }
            }
        }
    } else {
        o.stat("payload-random");
    }
    Scn { n, bs, vb, cap, rows, orig }
}

/// a delivery sequence: (index, optional fault at the k-th storage call of that delivery)
pub fn gen_seq(rng: &mut Rng, s: &Scn, o: &mut Out) -> Vec<usize> {
    let n = s.n;
    let total_coded = s.rows.len();
    let style = rng.below(6);
    o.stat(&format!("order-{}", ["in-order-with-loss", "shuffled", "coded-first", "refusal-ladder", "duplicates", "late-data"][style as usize]));
    let nloss = match rng.below(4) {
        0 => 0,
        1 => rng.range(0, 2.min(n as u64)) as usize,
        2 => rng.range(0, (s.cap.min(s.vb) as u64 + 2).min(n as u64)) as usize,
        _ => rng.range(0, n as u64) as usize,
    };
    let mut idxs: Vec<usize> = (0..n).collect();
    rng.shuffle(&mut idxs);
    let lost: Vec<usize> = idxs[..nloss].to_vec();
    let mut data: Vec<usize> = (0..n).filter(|i| !lost.contains(i)).collect();
    let mut coded: Vec<usize> = (0..total_coded).map(|k| n + k).collect();
    let mut seq: Vec<usize> = vec![];
    match style {
        0 => {
            seq.extend(&data);
            seq.extend(&coded);
        }
        1 => {
            seq.extend(&data);
            seq.extend(&coded);
            rng.shuffle(&mut seq);
        }
        2 => {
            rng.shuffle(&mut coded);
            let k = rng.range(0, coded.len() as u64) as usize;
            seq.extend(&coded[..k]);
            rng.shuffle(&mut data);
            seq.extend(&data);
            seq.extend(&coded[k..]);
        }
        3 => {
            // more unknowns than capacity: parity blocks interleaved with data blocks that lower the unknown count one by one
            let mut ci = 0;
            for d in (0..n).collect::<Vec<_>>() {
                if ci < coded.len() && rng.chance(1, 2) {
                    seq.push(coded[ci]);
                    ci += 1;
                }
                if !lost.contains(&d) {
                    seq.push(d);
                }
            }
            seq.extend(&coded[ci..]);
        }
        4 => {
            seq.extend(&data);
            seq.extend(&coded);
            let extra = seq.len() / 2 + 1;
            for _ in 0..extra {
                let p = rng.below(seq.len() as u64) as usize;
                let v = seq[rng.below(seq.len() as u64) as usize];
                seq.insert(p, v);
            }
        }
        _ => {
            // parity processing begins, then the lost data blocks arrive anyway
            let k = data.len() / 2;
            seq.extend(&data[..k]);
            seq.extend(&coded[..coded.len() / 2]);
            seq.extend(&data[k..]);
            seq.extend(&lost);
            seq.extend(&coded[coded.len() / 2..]);
        }
    }
    // make sure every sequence ends with enough to finish in most cases: a full data pass
    if rng.chance(1, 3) {
        seq.extend(0..n);
    }
    seq
}

pub fn gen(seed: u64, thorough: bool, o: &mut Out) -> Vec<String> {
    let mut rng = Rng::new(seed ^ 0xD1);
    let mut q = vec![];
    // corpus: the crate's own unit-test sequences (N = 4, test matrix)
    {
        let rows: Vec<Vec<u8>> = (0..16u8).map(|m| vec![m & 0xF]).collect();
        let s = Scn { n: 4, bs: 1, vb: 256, cap: 3, rows, orig: vec![vec![1], vec![2], vec![3], vec![4]] };
        for seq in [vec![0usize, 2, 9, 10, 14], vec![0, 10, 14, 16, 19], vec![0, 14, 9, 2, 10, 10], vec![0, 1, 2, 3, 3, 9]] {
            q.extend(s.header());
            for i in seq {
                q.push(format!("blk {} {}", i, hex(&s.block(i))));
            }
            q.push("end".into());
        }
    }
    let nscn = if thorough { 4000 } else { 350 };
    for it in 0..nscn {
        let s = gen_scn(&mut rng, thorough, o);
        let seq = gen_seq(&mut rng, &s, o);
        q.extend(s.header());
        if it < 2 {
            o.sample(format!("new recon n={} bs={} vbits={} rows={} ; seq={:?}", s.n, s.bs, s.vb, s.cap, &seq[..seq.len().min(24)]));
        }
        for i in &seq {
            q.push(format!("blk {} {}", i, hex(&s.block(*i))));
        }
        q.push("end".into());
    }
    // capacity boundary: the unknown count exactly at / one above / one below the capacity, with the capacity
    // equal to the full bit width of V, one below it, or small; parity first, then the data
    for vb in [16usize, 256] {
        for cap in [vb, vb - 1, 3, 1] {
            for delta in [-1i64, 0, 1] {
                let unknown = (cap as i64 + delta).max(0) as usize;
                let n = (unknown + 3).max(4).min(500);
                let unknown = unknown.min(n);
                let rows: Vec<Vec<u8>> = (0..(2 * unknown + 4)).map(|_| {
                    let mut v = rng.bytes((n + 7) / 8);
                    if n % 8 != 0 { let l = v.len(); v[l - 1] &= (1u8 << (n % 8)) - 1; }
                    v
                }).collect();
                let s = Scn { n, bs: 2, vb, cap, rows, orig: (0..n).map(|_| rng.bytes(2)).collect() };
                q.extend(s.header());
                // the first `unknown` blocks are lost; data first, then the coded blocks, then the lost data
                for i in unknown..n {
                    q.push(format!("blk {} {}", i, hex(&s.block(i))));
                }
                for k in 0..s.rows.len() {
                    q.push(format!("blk {} {}", n + k, hex(&s.block(n + k))));
                }
                for i in 0..unknown {
                    q.push(format!("blk {} {}", i, hex(&s.block(i))));
                }
                q.push("end".into());
                o.stat("capacity-boundary-scenarios");
            }
        }
    }
    // exhaustive: every sequence of length <= L over a fixed 6-row matrix, N <= 3
    {
        let maxlen = if thorough { 6 } else { 4 };
        for n in 1..=3usize {
            let rows: Vec<Vec<u8>> = [0b111u8, 0b011, 0b101, 0b110, 0b000, 0b011].iter().map(|r| vec![r & ((1 << n) - 1)]).collect();
            let s = Scn { n, bs: 1, vb: 256, cap: 2.min(n), rows, orig: (0..n).map(|i| vec![(0x11 * (i + 1)) as u8]).collect() };
            let alphabet = n + 6;
            let mut count = 0u64;
            for len in 1..=maxlen {
                let total = (alphabet as u64).pow(len as u32);
                // quick tier: subsample long lengths
                let stride = if !thorough && total > 400 { total / 400 } else { 1 };
                let mut code = 0u64;
                while code < total {
                    let mut c = code;
                    q.extend(s.header());
                    for _ in 0..len {
                        let i = (c % alphabet as u64) as usize;
                        c /= alphabet as u64;
                        q.push(format!("blk {} {}", i, hex(&s.block(i))));
                    }
                    q.push("end".into());
                    count += 1;
                    code += stride;
                }
            }
            o.stat_n("small-enumeration-sequences", count);
        }
    }
    q
}

/// fault scenarios (C18 at L0): one transient failure at each storage-call index of a session, then redelivery
pub fn gen_faults(seed: u64, thorough: bool, o: &mut Out) -> Vec<String> {
    let mut rng = Rng::new(seed ^ 0xF1);
    let mut q = vec![];
    let nscn = if thorough { 150 } else { 25 };
    for _ in 0..nscn {
        let mut s = gen_scn(&mut rng, false, o);
        while s.n > 24 {
            s = gen_scn(&mut rng, false, o);
        }
        let seq = gen_seq(&mut rng, &s, o);
        // reference run to learn the number of storage calls per delivery
        let mut ex = Exec::new();
        let mut dummy = Out::new();
        for l in s.header() {
            ex.line(&l, &mut dummy);
        }
        let mut calls_per: Vec<usize> = vec![];
        for i in &seq {
            let a = ex.line(&format!("blk {} {}", i, hex(&s.block(*i))), &mut dummy);
            let c = a.split(" ; ").find(|p| p.starts_with("nc=")).unwrap();
            calls_per.push(c[3..].parse().unwrap());
        }
        let mut points: Vec<(usize, usize)> = vec![];
        for (p, c) in calls_per.iter().enumerate() {
            for k in 0..*c {
                points.push((p, k));
            }
        }
        if !thorough && points.len() > 40 {
            rng.shuffle(&mut points);
            points.truncate(40);
        }
        for (p, k) in points {
            q.extend(s.header());
            for (j, i) in seq.iter().enumerate() {
                let b = hex(&s.block(*i));
                if j == p {
                    q.push(format!("blk {} {} f{}", i, b, k));
                }
                q.push(format!("blk {} {}", i, b));
            }
            // one full pass of the data afterwards (as the property's C01 continuation allows)
            q.push("end".into());
            o.stat("fault-points");
        }
    }
    q
}
