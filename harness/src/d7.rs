//! D7: firmware validation (C14): `is_valid_firmware` / `crc_valid` (new crate), `validate_firmware_slot` /
//! `check_crc_from_index` (deprecated crate), `check_and_mark_done` at the end of a real session, crate `crc`.
//!
//! Every query line is self-contained (the model rebuilds the flash from it):
//!   crc <hex>
//!   valid  <slot_size> <nslots> <idx> <hdr hex> <data hex>          new crate, is_valid_firmware
//!   ovalid <slot_size> <nslots> <idx> <hdr hex> <data hex>          deprecated crate, validate_firmware_slot
//!   occrc  <slot_size> <nslots> <idx> <size|-> <n|-> <hdr> <data>   deprecated crate, check_crc_from_index
//!   flipall <slot_size> <nslots> <idx> <hdr hex> <data hex>         every single-bit flip of the data bytes
//!   checkmark <slot_size> <pre> <size> <n> <nfeed> <image hex> <corrupt> | <fw> <par> <hdr hex> <data hex>
//! The flash is `nslots * slot_size` bytes of 0xFF with `hdr` at `idx * slot_size` and `data` at
//! `idx * slot_size + 0x4400` (both truncated at the end of the device).
use crate::nor::{Nor, NorErr, Op, E};
use crate::util::*;

const BLK: usize = 4096;
const DOFF: usize = 0x4400;
const PFX: usize = 68;
const NSLOT: usize = 4;

// ---------------------------------------------------------------------------------------------------------------
// independent CRC-32/CKSUM implementations (the oracle must not share code with the crate under test)

/// textbook long division of the message followed by 32 zero bits, one bit at a time
pub fn crc_longdiv(d: &[u8]) -> u32 {
    let mut r: u64 = 0;
    let mut feed = |bit: u64| {
        r = (r << 1) | bit;
        if r & (1 << 32) != 0 {
            r ^= 0x1_04C1_1DB7;
        }
    };
    for b in d {
        for k in (0..8).rev() {
            feed(((*b >> k) & 1) as u64);
        }
    }
    for _ in 0..32 {
        feed(0);
    }
    !(r as u32)
}

fn table() -> &'static [u32; 256] {
    static T: std::sync::OnceLock<[u32; 256]> = std::sync::OnceLock::new();
    T.get_or_init(|| {
        let mut t = [0u32; 256];
        for i in 0..256u32 {
            let mut c = i << 24;
            for _ in 0..8 {
                c = if c & 0x8000_0000 != 0 { (c << 1) ^ 0x04C1_1DB7 } else { c << 1 };
            }
            t[i as usize] = c;
        }
        t
    })
}

/// table-driven, for long inputs
pub fn crc_table(d: &[u8]) -> u32 {
    let t = table();
    let mut c: u32 = 0;
    for b in d {
        c = (c << 8) ^ t[((c >> 24) as u8 ^ *b) as usize];
    }
    !c
}

// ---------------------------------------------------------------------------------------------------------------
// flash with a read log

pub struct LogFlash {
    pub nor: Nor,
    pub reads: Vec<(usize, usize)>,
}

macro_rules! impl_spi {
    ($krate:ident) => {
        impl $krate::spi_flash::SpiFlash for LogFlash {
            type Error = E;
            fn total_size(&self) -> usize {
                self.nor.mem.len()
            }
            fn block_size(&self) -> usize {
                self.nor.block
            }
            async fn erase_block(&mut self, a: usize) -> Result<(), $krate::spi_flash::SpiFlashError<E>> {
                self.nor.do_erase(a).map_err(|e| match e {
                    NorErr::Unaligned => $krate::spi_flash::SpiFlashError::UnalignedAccess,
                    NorErr::Oob => $krate::spi_flash::SpiFlashError::OutOfBounds,
                    NorErr::Custom(c) => $krate::spi_flash::SpiFlashError::Custom(c),
                })
            }
            async fn erase_all(&mut self) -> Result<(), $krate::spi_flash::SpiFlashError<E>> {
                for b in &mut self.nor.mem {
                    *b = 0xFF;
                }
                Ok(())
            }
            async fn read_to(&mut self, a: usize, buf: &mut [u8]) -> Result<(), $krate::spi_flash::SpiFlashError<E>> {
                self.reads.push((a, buf.len()));
                self.nor.do_read(a, buf).map_err(|e| match e {
                    NorErr::Unaligned => $krate::spi_flash::SpiFlashError::UnalignedAccess,
                    NorErr::Oob => $krate::spi_flash::SpiFlashError::OutOfBounds,
                    NorErr::Custom(c) => $krate::spi_flash::SpiFlashError::Custom(c),
                })
            }
            async fn write_from(&mut self, a: usize, buf: &[u8]) -> Result<(), $krate::spi_flash::SpiFlashError<E>> {
                self.nor.do_write(a, buf).map_err(|e| match e {
                    NorErr::Unaligned => $krate::spi_flash::SpiFlashError::UnalignedAccess,
                    NorErr::Oob => $krate::spi_flash::SpiFlashError::OutOfBounds,
                    NorErr::Custom(c) => $krate::spi_flash::SpiFlashError::Custom(c),
                })
            }
        }
    };
}
impl_spi!(flash_algo_new);
impl_spi!(original_flash_algo);

fn put(mem: &mut [u8], at: usize, d: &[u8]) {
    if at >= mem.len() {
        return;
    }
    let n = d.len().min(mem.len() - at);
    mem[at..at + n].copy_from_slice(&d[..n]);
}

fn build(slot: usize, nslots: usize, idx: usize, hdr: &[u8], data: &[u8]) -> LogFlash {
    let mut nor = Nor::new(BLK, slot * nslots);
    put(&mut nor.mem, idx * slot, hdr);
    put(&mut nor.mem, idx * slot + DOFF, data);
    LogFlash { nor, reads: vec![] }
}

fn fmt_reads(r: &[(usize, usize)]) -> String {
    if r.is_empty() {
        return "-".into();
    }
    if r.len() <= 6 {
        return r.iter().map(|(a, l)| format!("{}:{}", a, l)).collect::<Vec<_>>().join(",");
    }
    let mut h: u64 = 0xcbf29ce484222325;
    for (a, l) in r {
        h = (h ^ *a as u64).wrapping_mul(0x100000001b3);
        h = (h ^ *l as u64).wrapping_mul(0x100000001b3);
    }
    format!("{}#{:016x}", r.len(), h)
}

fn fmt_ops(log: &[Op]) -> String {
    if log.is_empty() {
        return "-".into();
    }
    log.iter()
        .map(|o| match o {
            Op::Erase(a) => format!("E{}", a),
            Op::Write(a, d) => format!("W{}:{}", a, hex(d)),
        })
        .collect::<Vec<_>>()
        .join(",")
}

// ---------------------------------------------------------------------------------------------------------------
// the property, evaluated independently on the raw flash image

fn word(m: &[u8], a: usize) -> u32 {
    u32::from_le_bytes([m[a], m[a + 1], m[a + 2], m[a + 3]])
}

struct Hdr {
    kind: u32,
    size: usize,
    n: usize,
    ext: u32,
    boot: u32,
}

/// seven little-endian words, each a legal value of its field (values pinned by C11)
fn parse_hdr(m: &[u8], base: usize) -> Option<Hdr> {
    let w: Vec<u32> = (0..7).map(|i| word(m, base + 4 * i)).collect();
    let legal = (w[0] == 0 || w[0] == 1)
        && w[1] != 0xFFFF_FFFF
        && (1..=256).contains(&w[2])
        && (1..=16384).contains(&w[3])
        && [0xFFFF_FFFF, 0xAAAA_AAAA, 0x4444_4444].contains(&w[4])
        && [0xFFFF_FFFF, 0x1111_1111].contains(&w[5])
        && [0xFFFF_FFFF, 0xABCD_1234, 0xCDEF_7890].contains(&w[6]);
    if !legal {
        return None;
    }
    Some(Hdr { kind: w[0], size: w[2] as usize, n: w[3] as usize, ext: w[4], boot: w[6] })
}

/// CRC test of the slot at `base`: Ok(true/false) or Err(()) when a needed byte is outside the device
fn crc_test(m: &[u8], base: usize, size: usize, n: usize) -> Result<bool, ()> {
    let d = base + DOFF;
    if d + PFX > m.len() {
        return Err(());
    }
    let end = n * size;
    let cov: &[u8] = if end > PFX {
        if d + end > m.len() {
            return Err(());
        }
        &m[d + PFX..d + end]
    } else {
        &[]
    };
    Ok(word(m, d) == crc_table(cov))
}

/// what C14 says `is_valid_firmware` must answer
fn expect_new(m: &[u8], base: usize) -> &'static str {
    if base + 28 > m.len() {
        return "Spi(OutOfBounds)";
    }
    let Some(h) = parse_hdr(m, base) else { return "UnexpectedMissingHeader" };
    if h.kind != 0 {
        return "CheckFailNotFirmware";
    }
    if h.ext != 0x4444_4444 {
        return "CheckFailNotDone";
    }
    match crc_test(m, base, h.size, h.n) {
        Err(()) => "Spi(OutOfBounds)",
        Ok(true) => "ok",
        Ok(false) => "Crc32Mismatch",
    }
}

/// what the deprecated crate's `validate_firmware_slot` must answer
fn expect_orig(m: &[u8], base: usize) -> &'static str {
    if base + 28 > m.len() {
        return "Spi(OutOfBounds)";
    }
    let Some(h) = parse_hdr(m, base) else { return "Spi(HardwareFailure)" };
    if h.kind != 0 || h.ext != 0x4444_4444 || h.boot == 0xCDEF_7890 {
        return "Spi(HardwareFailure)";
    }
    match crc_test(m, base, h.size, h.n) {
        Ok(true) => "ok",
        _ => "Spi(HardwareFailure)",
    }
}

fn run_new(f: &mut LogFlash, slot: usize, idx: usize) -> String {
    use flash_algo_new::manager::{ScratchRam, SlotManager};
    let mut s = ScratchRam::new();
    match guarded(|| {
        let m = SlotManager::<NSLOT>::new(slot);
        block_on(m.open(idx).is_valid_firmware(f, &mut s))
    }) {
        Err(_) => "PANIC".into(),
        Ok(Ok(())) => "ok".into(),
        Ok(Err(e)) => format!("{:?}", e),
    }
}

fn run_orig(f: &mut LogFlash, slot: usize, idx: usize) -> String {
    use original_flash_algo::manager::{ScratchRam, SlotManager};
    let mut s = ScratchRam::new();
    match guarded(|| {
        let m = SlotManager::<NSLOT>::new(slot);
        block_on(m.validate_firmware_slot(f, &mut s, idx))
    }) {
        Err(_) => "PANIC".into(),
        Ok(Ok(_)) => "ok".into(),
        Ok(Err(e)) => format!("{:?}", e),
    }
}

fn size_class(size: usize) -> &'static str {
    if size < PFX {
        if PFX % size == 0 { "size<68-divides" } else { "size<68-not-dividing" }
    } else if size == PFX {
        "size=68"
    } else {
        "size>68"
    }
}

fn len_class(total: usize) -> &'static str {
    if total < 4 { "n*size<4" } else if total == 4 { "n*size=4" } else if total < PFX { "4<n*size<68" } else if total == PFX { "n*size=68" } else { "n*size>68" }
}

// ---------------------------------------------------------------------------------------------------------------
// sessions

struct Session {
    flash: LogFlash,
    upd: Option<flash_algo_new::update::Updater>,
    fw: usize,
    par: usize,
}

fn feed_all(
    f: &mut LogFlash,
    s: &mut flash_algo_new::manager::ScratchRam,
    u: &mut flash_algo_new::update::Updater,
    size: usize,
    nfeed: usize,
    image: &[u8],
) -> bool {
    for i in 0..nfeed {
        if block_on(u.handle_segment(f, s, i as u32 + 1, &image[i * size..(i + 1) * size])).is_err() {
            return false;
        }
    }
    true
}

/// start on a blank 4-slot device, optionally after `pre` small completed sessions; feed fragments 1..=nfeed
fn run_session(slot: usize, pre: usize, size: usize, n: usize, nfeed: usize, image: &[u8]) -> Option<Session> {
    use flash_algo_new::manager::{ScratchRam, SlotManager};
    let mut f = LogFlash { nor: Nor::new(BLK, NSLOT * slot), reads: vec![] };
    let mut s = ScratchRam::new();
    let r = guarded(|| {
        let mut m = SlotManager::<NSLOT>::new(slot);
        for p in 0..pre {
            let mut img = vec![0x5Au8 ^ p as u8; 16 * 5];
            let c = crc_table(&img[PFX..]);
            img[..4].copy_from_slice(&c.to_le_bytes());
            let mut u = block_on(m.start_update(&mut f, &mut s, 16, 5)).ok()?;
            if !feed_all(&mut f, &mut s, &mut u, 16, 5, &img) {
                return None;
            }
            block_on(u.check_and_mark_done(&mut f, &mut s)).ok()?;
        }
        let mut u = block_on(m.start_update(&mut f, &mut s, size as u32, n as u32)).ok()?;
        if !feed_all(&mut f, &mut s, &mut u, size, nfeed, image) {
            return None;
        }
        Some(u)
    });
    let u = r.ok()??;
    // the session's slots: the two highest sequence numbers; parity is the newer one
    let mut seqs: Vec<(u32, usize)> = (0..NSLOT)
        .filter(|i| parse_hdr(&f.nor.mem, i * slot).is_some())
        .map(|i| (word(&f.nor.mem, i * slot + 4), i))
        .collect();
    seqs.sort();
    if seqs.len() < 2 {
        return None;
    }
    let (par, fw) = (seqs[seqs.len() - 1].1, seqs[seqs.len() - 2].1);
    if word(&f.nor.mem, par * slot) != 1 || word(&f.nor.mem, fw * slot) != 0 {
        return None;
    }
    Some(Session { flash: f, upd: Some(u), fw, par })
}

/// `-` | `d<off>:<bit>` (data region of the firmware slot) | `h<off>:<bit>` (its header)
fn apply_corrupt(mem: &mut [u8], fwbase: usize, c: &str) {
    if c == "-" {
        return;
    }
    let (region, rest) = c.split_at(1);
    let (off, bit) = rest.split_once(':').unwrap();
    let (off, bit): (usize, u32) = (off.parse().unwrap(), bit.parse().unwrap());
    let a = fwbase + if region == "d" { DOFF } else { 0 } + off;
    mem[a] ^= 1 << bit;
}

// ---------------------------------------------------------------------------------------------------------------
// generator

fn hdr_bytes(kind: u32, seq: u32, size: u32, n: u32, ext: u32, int: u32, boot: u32) -> Vec<u8> {
    [kind, seq, size, n, ext, int, boot].iter().flat_map(|w| w.to_le_bytes()).collect()
}

/// image of `total` bytes: CRC word, signature, payload; the CRC covers bytes 68.. (the part that exists);
/// `tail` = byte value of the flash beyond the image when the covered range extends past it
fn make_image(rng: &mut Rng, total: usize) -> Vec<u8> {
    let mut img = rng.bytes(total.max(PFX));
    let c = crc_table(if total > PFX { &img[PFX..total] } else { &[] });
    img[..4].copy_from_slice(&c.to_le_bytes());
    img
}

fn counts_for(size: usize, cap: usize, thorough: bool, rng: &mut Rng) -> Vec<usize> {
    let mut v: Vec<usize> = vec![1, 2, 4 / size, 4 / size + 1, (4 + size - 1) / size, PFX / size, PFX / size + 1, PFX / size + 2, (PFX + size - 1) / size];
    let lim = if thorough { cap } else { 1024.max(size) };
    v.push(rng.range(1, (lim / size).max(1) as u64) as usize);
    if thorough || size % 8 == 0 {
        v.push((cap / size).max(1));
    }
    v.retain(|n| *n >= 1 && n * size <= cap);
    v.sort();
    v.dedup();
    v
}

pub fn gen(seed: u64, thorough: bool, o: &mut Out) -> Vec<String> {
    let mut q: Vec<String> = vec![];
    let mut rng = Rng::new(seed ^ 0xD7);
    const SLOT: usize = 20480;
    let cap = SLOT - DOFF;

    // 1. crate `crc` against the model (and, in exec, against two independent implementations)
    q.push(format!("crc {}", hex(b"123456789")));
    q.push("crc -".into());
    for l in [1usize, 2, 3, 4, 5, 63, 64, 65, 255, 256, 257] {
        q.push(format!("crc {}", hex(&vec![0u8; l])));
        q.push(format!("crc {}", hex(&vec![0xFFu8; l])));
    }
    for _ in 0..(if thorough { 3000 } else { 300 }) {
        let lim = if rng.chance(1, 10) { 2000 } else { 80 };
        let l = rng.below(lim) as usize;
        q.push(format!("crc {}", hex(&rng.bytes(l))));
    }

    // 2. every fragment size, counts around the 4- and 68-byte boundaries: valid image, then one flipped bit
    for size in 1..=256usize {
        for n in counts_for(size, cap, thorough, &mut rng) {
            let total = n * size;
            let img = make_image(&mut rng, total);
            let idx = rng.below(NSLOT as u64) as usize;
            let nsl = rng.range(idx as u64 + 1, NSLOT as u64) as usize;
            let h = hdr_bytes(0, rng.below(1000) as u32, size as u32, n as u32, 0x4444_4444, *rng.pick(&[0xFFFF_FFFF, 0x1111_1111]), *rng.pick(&[0xFFFF_FFFF, 0xABCD_1234, 0xCDEF_7890]));
            let data = &img[..total.max(4).min(img.len())];
            q.push(format!("valid {} {} {} {} {}", SLOT, nsl, idx, hex(&h), hex(data)));
            q.push(format!("ovalid {} {} {} {} {}", SLOT, nsl, idx, hex(&h), hex(data)));
            o.stat(&format!("geometry-{}", size_class(size)));
            // one flipped bit: in the CRC word, in the covered bytes (if any), in the uncovered signature / tail
            // one flipped bit: in the CRC word; in the covered bytes (if any); in the uncovered signature
            let flips = if thorough { 6 } else { 2 };
            for k in 0..flips {
                let mut d = img.clone();
                let region = if k < 2 { k } else { rng.below(3) };
                let off = match region {
                    0 => rng.below(4) as usize,
                    1 if total > PFX => rng.range(PFX as u64, total as u64 - 1) as usize,
                    _ => rng.range(4, PFX as u64 - 1) as usize,
                };
                d[off] ^= 1 << rng.below(8);
                let w = if k < 2 || rng.chance(2, 3) { "valid" } else { "ovalid" };
                q.push(format!("{} {} {} {} {} {}", w, SLOT, nsl, idx, hex(&h), hex(&d[..total.max(PFX)])));
            }
        }
    }

    // 3. every single-bit position
    let fl: Vec<(usize, usize)> = if thorough {
        vec![(1, 90), (3, 30), (4, 17), (17, 4), (34, 3), (45, 5), (67, 2), (68, 1), (68, 2), (69, 1), (100, 3), (128, 16), (255, 8), (256, 8), (7, 292), (1, 2048)]
    } else {
        vec![(1, 80), (17, 5), (34, 3), (45, 5), (68, 2), (69, 1), (256, 1), (3, 20)]
    };
    for (size, n) in fl {
        let total = size * n;
        let img = make_image(&mut rng, total);
        let h = hdr_bytes(0, 3, size as u32, n as u32, 0x4444_4444, 0xFFFF_FFFF, 0xFFFF_FFFF);
        // a few bytes past the covered range are carried too: flips there must not matter
        let mut d = img[..total.max(PFX)].to_vec();
        d.extend(rng.bytes(3));
        q.push(format!("flipall {} 1 0 {} {}", SLOT, hex(&h), hex(&d)));
    }

    // 4. header gate: wrong kind, wrong status, unparseable
    for it in 0..(if thorough { 4000 } else { 400 }) {
        let size = *rng.pick(&[1u32, 4, 17, 45, 68, 100, 256]);
        let n = rng.range(1, 6) as u32;
        let total = (size * n) as usize;
        let img = make_image(&mut rng, total);
        let mut w = [0u32, rng.below(50) as u32, size, n, 0x4444_4444, 0xFFFF_FFFF, 0xFFFF_FFFF];
        let class = it % 8;
        match class {
            0 => w[0] = 1,
            1 => w[4] = *rng.pick(&[0xFFFF_FFFF, 0xAAAA_AAAA]),
            2 => w[0] = *rng.pick(&[2, 0xFFFF_FFFF, 0x100]),
            3 => w[4] = *rng.pick(&[0x4444_4440, 0x0444_4444, 0, 0x4444_4445]),
            4 => w[rng.range(2, 3) as usize] = *rng.pick(&[0, 257, 16385, 0xFFFF_FFFF, 0x1_0000]),
            5 => w[1] = 0xFFFF_FFFF,
            6 => { w[5] = *rng.pick(&[0xFFFF_FFFF, 0x1111_1111, 0x1111_1110]); w[6] = *rng.pick(&[0xFFFF_FFFF, 0xABCD_1234, 0xCDEF_7890, 0xCDEF_7891]); }
            _ => { let i = rng.below(7) as usize; w[i] ^= 1 << rng.below(32); }
        }
        o.stat(&format!("header-class-{}", ["parity-kind", "status-not-complete", "illegal-kind", "illegal-status", "illegal-geometry", "invalid-seq", "int/boot-variants", "one-bit-flip"][class]));
        let h: Vec<u8> = w.iter().flat_map(|x| x.to_le_bytes()).collect();
        let idx = rng.below(NSLOT as u64) as usize;
        q.push(format!("valid {} {} {} {} {}", SLOT, NSLOT, idx, hex(&h), hex(&img[..total.max(4)])));
        q.push(format!("ovalid {} {} {} {} {}", SLOT, NSLOT, idx, hex(&h), hex(&img[..total.max(4)])));
    }

    // 5. geometry beyond the slot / the device (crafted or corrupted headers): reads run into the next slot or
    //    off the end; the header or prefix itself outside the device
    for it in 0..(if thorough { 600 } else { 120 }) {
        let size = rng.range(1, 256) as usize;
        let nsl = rng.range(1, NSLOT as u64) as usize;
        let idx = if it % 3 == 0 { nsl - 1 } else { rng.below(nsl as u64) as usize };
        let room = (nsl - idx) * SLOT - DOFF;
        let n = match it % 4 {
            0 => room / size,
            1 => room / size + 1,
            2 => (cap / size + 1).min(16384),
            _ => rng.range(1, 16384) as usize,
        }
        .clamp(1, 16384);
        let total = n * size;
        // image spans the whole covered range as far as the device goes, CRC computed over what the device holds
        let have = total.min(room).max(PFX);
        let mut img = rng.bytes(PFX);
        img.extend(std::iter::repeat(0xFFu8).take(have - PFX));
        let tail_random = rng.below(200) as usize;
        for b in img.iter_mut().skip(PFX).take(tail_random) {
            *b = rng.next() as u8;
        }
        let c = crc_table(if total > PFX && total <= room { &img[PFX..total] } else { &[] });
        img[..4].copy_from_slice(&c.to_le_bytes());
        let h = hdr_bytes(0, 9, size as u32, n as u32, 0x4444_4444, 0xFFFF_FFFF, 0xFFFF_FFFF);
        let keep = (PFX + tail_random).min(img.len());
        o.stat(if total > room { "geometry-beyond-device" } else if total > cap { "geometry-beyond-slot" } else { "geometry-inside-slot" });
        q.push(format!("valid {} {} {} {} {}", SLOT, nsl, idx, hex(&h), hex(&img[..keep])));
        q.push(format!("ovalid {} {} {} {} {}", SLOT, nsl, idx, hex(&h), hex(&img[..keep])));
    }
    // slot index beyond the device: the header read itself fails
    for (nsl, idx) in [(1usize, 1usize), (1, 3), (2, 2), (3, 3)] {
        let h = hdr_bytes(0, 9, 16, 5, 0x4444_4444, 0xFFFF_FFFF, 0xFFFF_FFFF);
        q.push(format!("valid {} {} {} {} -", SLOT, nsl, idx, hex(&h)));
        q.push(format!("ovalid {} {} {} {} -", SLOT, nsl, idx, hex(&h)));
    }
    // slot size just above the minimum: the 68-byte prefix of the last slot does not fit
    for slot in [17409usize, 17410, 17408 + 67, 17408 + 68, 17408 + 69] {
        let h = hdr_bytes(0, 9, 1, 1, 0x4444_4444, 0xFFFF_FFFF, 0xFFFF_FFFF);
        let mut d = vec![0xFFu8; 4];
        d[..4].copy_from_slice(&crc_table(&[]).to_le_bytes());
        for idx in [0usize, 1] {
            q.push(format!("valid {} 2 {} {} {}", slot, idx, hex(&h), hex(&d)));
            q.push(format!("ovalid {} 2 {} {} {}", slot, idx, hex(&h), hex(&d)));
        }
    }
    // the largest geometry the codec admits (4 MiB: one line in the quick tier)
    let bigs: &[(usize, usize, bool)] = if thorough {
        &[(256, 16384, true), (1, 16384, true), (255, 16384, false), (64, 16384, true)]
    } else {
        &[(256, 16384, false), (1, 16384, true), (16, 16384, true)]
    };
    for &(size, n, both) in bigs {
        let total = size * n;
        let slot = ((total + DOFF) / BLK + 1) * BLK;
        let mut img = rng.bytes(PFX + 100);
        let mut all = img.clone();
        all.extend(std::iter::repeat(0xFFu8).take(total.saturating_sub(all.len())));
        let c = crc_table(&all[PFX..total]);
        img[..4].copy_from_slice(&c.to_le_bytes());
        let h = hdr_bytes(0, 9, size as u32, n as u32, 0x4444_4444, 0xFFFF_FFFF, 0xFFFF_FFFF);
        q.push(format!("valid {} 1 0 {} {}", slot, hex(&h), hex(&img)));
        if both {
            q.push(format!("ovalid {} 1 0 {} {}", slot, hex(&h), hex(&img)));
            img[PFX + 50] ^= 0x10;
            q.push(format!("valid {} 1 0 {} {}", slot, hex(&h), hex(&img)));
        }
        o.stat("geometry-max-count");
    }

    // 6. deprecated crate: check_crc_from_index with caller-supplied geometry
    for _ in 0..(if thorough { 400 } else { 60 }) {
        let size = *rng.pick(&[1usize, 5, 34, 68, 70, 256]);
        let n = rng.range(1, 8) as usize;
        let total = size * n;
        let img = make_image(&mut rng, total);
        let h = hdr_bytes(rng.below(2) as u32, 9, size as u32, n as u32, *rng.pick(&[0x4444_4444, 0xFFFF_FFFF]), 0xFFFF_FFFF, 0xFFFF_FFFF);
        let so = match rng.below(4) { 0 => "-".to_string(), 1 => format!("{}", size + 1), _ => format!("{}", size) };
        let no = match rng.below(4) { 0 => "-".to_string(), 1 => format!("{}", n + 1), _ => format!("{}", n) };
        q.push(format!("occrc {} 2 {} {} {} {} {}", SLOT, rng.below(2), so, no, hex(&h), hex(&img[..total.max(4)])));
    }

    // 7. check_and_mark_done at the end of a real session
    let sizes: &[usize] = if thorough {
        &[1, 2, 3, 4, 5, 7, 16, 17, 33, 34, 35, 45, 67, 68, 69, 70, 100, 135, 136, 137, 200, 255, 256]
    } else {
        &[1, 3, 4, 17, 34, 45, 67, 68, 69, 136, 255, 256]
    };
    for &size in sizes {
        let mut ns = vec![1usize, (PFX + size - 1) / size, PFX / size + 1, PFX / size + 3];
        if PFX / size >= 1 {
            ns.push(PFX / size);
        }
        ns.push(rng.range(1, (cap / size).min(if size < 4 { 300 } else { 120 }) as u64) as usize);
        ns.retain(|n| *n >= 1 && n * size <= cap);
        ns.sort();
        ns.dedup();
        for n in ns {
            let total = n * size;
            let img = make_image(&mut rng, total);
            let image = &img[..total];
            // image shorter than the CRC word / prefix: the stored word is completed by erased flash
            let mut variants: Vec<(usize, String)> = vec![(n, "-".into())];
            variants.push((n, format!("d{}:{}", rng.below(4), rng.below(8))));
            if total > PFX {
                variants.push((n, format!("d{}:{}", rng.range(PFX as u64, total as u64 - 1), rng.below(8))));
            }
            variants.push((n, format!("d{}:{}", rng.range(4, PFX as u64 - 1), rng.below(8))));
            variants.push((n, format!("h{}:{}", rng.range(0, 15), rng.below(8))));
            if n > 1 {
                variants.push((rng.below(n as u64) as usize, "-".into()));
            }
            for (nfeed, corrupt) in variants {
                let pre = if rng.chance(1, 3) { rng.range(1, 2) as usize } else { 0 };
                let Some(s) = run_session(SLOT, pre, size, n, nfeed, image) else {
                    o.stat("session-not-started");
                    continue;
                };
                let fwb = s.fw * SLOT;
                let hdr = s.flash.nor.mem[fwb..fwb + 28].to_vec();
                let data = s.flash.nor.mem[fwb + DOFF..fwb + DOFF + total.max(4)].to_vec();
                q.push(format!("checkmark {} {} {} {} {} {} {} | {} {} {} {}", SLOT, pre, size, n, nfeed, hex(image), corrupt, s.fw, s.par, hex(&hdr), hex(&data)));
            }
        }
    }
    q
}

// ---------------------------------------------------------------------------------------------------------------
// executor

pub fn exec(line: &str, o: &mut Out) -> String {
    let t: Vec<&str> = line.split(' ').collect();
    match t[0] {
        "crc" => {
            let d = unhex(t[1]);
            let c = crc_cksum(&d);
            let (a, b) = (crc_longdiv(&d), crc_table(&d));
            if a != c || b != c {
                o.fail("C14", format!("crate crc CRC_32_CKSUM({}) = {:08x}, independent long division {:08x}, table {:08x}", t[1], c, a, b));
            }
            if d == b"123456789" && c != 0x765E_7680 {
                o.fail("C14", format!("check value is {:08x}", c));
            }
            o.stat("crc-strings");
            format!("{:08x}", c)
        }
        "valid" | "ovalid" => {
            let (slot, nsl, idx): (usize, usize, usize) = (t[1].parse().unwrap(), t[2].parse().unwrap(), t[3].parse().unwrap());
            let (h, d) = (unhex(t[4]), unhex(t[5]));
            let mut f = build(slot, nsl, idx, &h, &d);
            let before = f.nor.mem.clone();
            f.nor.arm();
            let new = t[0] == "valid";
            let r = if new { run_new(&mut f, slot, idx) } else { run_orig(&mut f, slot, idx) };
            let want = if new { expect_new(&before, idx * slot) } else { expect_orig(&before, idx * slot) };
            if r != want {
                o.fail_key("C14", if new { "is_valid_firmware" } else { "validate_firmware_slot" },
                    format!("{} answers {} where the property requires {} (slot_size {} slots {} idx {} header {} data {}…)", t[0], r, want, slot, nsl, idx, t[4], &t[5][..t[5].len().min(160)]));
            }
            if !f.nor.log.is_empty() || f.nor.mem != before {
                o.fail_key("C14", "validation-mutates", format!("{} modified the flash: {}", t[0], fmt_ops(&f.nor.log)));
            }
            o.stat(&format!("{}-verdict-{}", t[0], r));
            if idx * slot + 28 <= before.len() {
                if let Some(hd) = parse_hdr(&before, idx * slot) {
                    if r == "ok" {
                        o.stat(&format!("ok-{}", len_class(hd.size * hd.n)));
                    }
                    if r == "Crc32Mismatch" {
                        o.stat(&format!("mismatch-{}", len_class(hd.size * hd.n)));
                    }
                }
            }
            format!("{} reads={} ops={}", r, fmt_reads(&f.reads), fmt_ops(&f.nor.log))
        }
        "occrc" => {
            use original_flash_algo::manager::{check_crc_from_index, ScratchRam};
            let (slot, nsl, idx): (usize, usize, usize) = (t[1].parse().unwrap(), t[2].parse().unwrap(), t[3].parse().unwrap());
            let so: Option<usize> = t[4].parse().ok();
            let no: Option<usize> = t[5].parse().ok();
            let (h, d) = (unhex(t[6]), unhex(t[7]));
            let mut f = build(slot, nsl, idx, &h, &d);
            f.nor.arm();
            let mut s = ScratchRam::new();
            let r = match guarded(|| block_on(check_crc_from_index(&mut f, &mut s, so, no, idx * slot))) {
                Err(_) => "PANIC".to_string(),
                Ok(Ok(())) => "ok".into(),
                Ok(Err(e)) => format!("{:?}", e),
            };
            // property: ok iff header parses, supplied geometry equals the header's, CRC test passes
            let m = &f.nor.mem;
            let want_ok = match parse_hdr(m, idx * slot) {
                None => false,
                Some(hd) => so.map(|x| x == hd.size).unwrap_or(true) && no.map(|x| x == hd.n).unwrap_or(true) && crc_test(m, idx * slot, hd.size, hd.n) == Ok(true),
            };
            if (r == "ok") != want_ok {
                o.fail_key("C14", "check_crc_from_index", format!("check_crc_from_index answers {} where ok={} is required: {}", r, want_ok, line));
            }
            if !f.nor.log.is_empty() {
                o.fail_key("C14", "validation-mutates", format!("check_crc_from_index modified the flash: {}", fmt_ops(&f.nor.log)));
            }
            o.stat(&format!("occrc-verdict-{}", r));
            format!("{} reads={} ops={}", r, fmt_reads(&f.reads), fmt_ops(&f.nor.log))
        }
        "flipall" => {
            let (slot, nsl, idx): (usize, usize, usize) = (t[1].parse().unwrap(), t[2].parse().unwrap(), t[3].parse().unwrap());
            let (h, d) = (unhex(t[4]), unhex(t[5]));
            let mut f = build(slot, nsl, idx, &h, &d);
            let base = idx * slot;
            let hd = parse_hdr(&f.nor.mem, base).expect("flipall needs a legal header");
            let total = hd.size * hd.n;
            let r0 = run_new(&mut f, slot, idx);
            let r0o = run_orig(&mut f, slot, idx);
            if r0 != "ok" || r0o != "ok" {
                o.fail("C14", format!("flipall base image does not validate: {} / {}", r0, r0o));
            }
            // region -> (mismatches, total)
            let mut cnt = [[0u64; 2]; 4];
            let mut other = 0u64;
            for off in 0..d.len() {
                let region = if off < 4 { 0 } else if off < PFX { 1 } else if off < total { 2 } else { 3 };
                for bit in 0..8 {
                    f.nor.mem[base + DOFF + off] ^= 1 << bit;
                    f.reads.clear();
                    let r = run_new(&mut f, slot, idx);
                    let ro = run_orig(&mut f, slot, idx);
                    f.nor.mem[base + DOFF + off] ^= 1 << bit;
                    cnt[region][1] += 1;
                    let must_fail = region == 0 || region == 2;
                    if r == "Crc32Mismatch" {
                        cnt[region][0] += 1;
                    } else if r != "ok" {
                        other += 1;
                    }
                    let good = if must_fail { r == "Crc32Mismatch" && ro == "Spi(HardwareFailure)" } else { r == "ok" && ro == "ok" };
                    if !good {
                        o.fail_key("C14", "single-bit", format!("size {} n {}: flipping bit {} of data-region byte {} gives {} / {} ({} expected)", hd.size, hd.n, bit, off, r, ro, if must_fail { "failure" } else { "ok" }));
                    }
                }
            }
            o.stat_n("single-bit-flips-crc-word", cnt[0][1]);
            o.stat_n("single-bit-flips-signature", cnt[1][1]);
            o.stat_n("single-bit-flips-covered", cnt[2][1]);
            o.stat_n("single-bit-flips-beyond", cnt[3][1]);
            format!("crc={}/{} sig={}/{} cov={}/{} tail={}/{} other={}", cnt[0][0], cnt[0][1], cnt[1][0], cnt[1][1], cnt[2][0], cnt[2][1], cnt[3][0], cnt[3][1], other)
        }
        "checkmark" => {
            let (slot, pre, size, n, nfeed): (usize, usize, usize, usize, usize) =
                (t[1].parse().unwrap(), t[2].parse().unwrap(), t[3].parse().unwrap(), t[4].parse().unwrap(), t[5].parse().unwrap());
            let image = unhex(t[6]);
            let corrupt = t[7];
            let (fw, par): (usize, usize) = (t[9].parse().unwrap(), t[10].parse().unwrap());
            let Some(mut s) = run_session(slot, pre, size, n, nfeed, &image) else { return "HARNESS-no-session".into() };
            let fwb = s.fw * slot;
            let total = n * size;
            if s.fw != fw || s.par != par || hex(&s.flash.nor.mem[fwb..fwb + 28]) != t[11] || hex(&s.flash.nor.mem[fwb + DOFF..fwb + DOFF + total.max(4)]) != t[12] {
                return format!("HARNESS-session-differs-from-recorded-state fw={} par={} hdr={} data={}", s.fw, s.par, hex(&s.flash.nor.mem[fwb..fwb + 28]), hex(&s.flash.nor.mem[fwb + DOFF..fwb + DOFF + total.max(4)]));
            }
            let u = s.upd.take().unwrap();
            let complete = u.is_complete();
            if complete != (nfeed >= n) {
                o.fail("C14", format!("session fed {} of {} fragments reports complete={}", nfeed, n, complete));
            }
            apply_corrupt(&mut s.flash.nor.mem, fwb, corrupt);
            let before = s.flash.nor.mem.clone();
            s.flash.nor.arm();
            s.flash.reads.clear();
            let mut sc = flash_algo_new::manager::ScratchRam::new();
            let f = &mut s.flash;
            let r = match guarded(|| block_on(u.check_and_mark_done(f, &mut sc))) {
                Err(_) => "PANIC".to_string(),
                Ok(Ok(i)) => {
                    if i != fw {
                        o.fail("C14", format!("check_and_mark_done returns slot {} for firmware slot {}", i, fw));
                    }
                    "ok".into()
                }
                Ok(Err(e)) => format!("{:?}", e),
            };
            // property oracle: same test as validation (minus kind/status), gate before any program
            let want = if !complete {
                "CheckFailNotDone"
            } else {
                match parse_hdr(&before, fwb) {
                    None => "UnexpectedMissingHeader",
                    Some(hd) => match crc_test(&before, fwb, hd.size, hd.n) {
                        Err(()) => "Spi(OutOfBounds)",
                        Ok(true) => "ok",
                        Ok(false) => "Crc32Mismatch",
                    },
                }
            };
            if r != want {
                o.fail_key("C14", "check_and_mark_done", format!("check_and_mark_done answers {} where the property requires {}: size {} n {} fed {} corrupt {}", r, want, size, n, nfeed, corrupt));
            }
            let word44 = vec![0x44u8; 4];
            let two = vec![Op::Write(fwb + 16, word44.clone()), Op::Write(par * slot + 16, word44)];
            if r == "ok" {
                if s.flash.nor.log != two {
                    o.fail_key("C14", "check_and_mark_done", format!("passing check performs {} instead of exactly the two status programs", fmt_ops(&s.flash.nor.log)));
                }
            } else if !s.flash.nor.log.is_empty() || s.flash.nor.mem != before {
                o.fail_key("C14", "failing-check-mutates", format!("failing check ({}) modified the flash: {}", r, fmt_ops(&s.flash.nor.log)));
            }
            o.stat(&format!("checkmark-verdict-{}", r));
            o.stat(&format!("checkmark-{}", size_class(size)));
            o.stat(&format!("checkmark-slots-fw{}-par{}", fw, par));
            format!("{} reads={} ops={}", r, fmt_reads(&s.flash.reads), fmt_ops(&s.flash.nor.log))
        }
        _ => "bad-op".into(),
    }
}
