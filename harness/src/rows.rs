//! Independent transcription of the TS004 `matrix_line` row generator (and of the `force-full-r` variant of
//! flash-algo-new), used by the scenario generators to build coded fragments WITHOUT calling the library's own
//! generator (a change to the library must not be able to crash or mislead the generators).
//! u32 arithmetic is wrapping (what release builds compute).

pub fn prbs23(x: u32) -> u32 {
    let b0 = x & 1;
    let b1 = (x >> 5) & 1;
    (x >> 1).wrapping_add((b0 ^ b1) << 22)
}

/// row of coded fragment `k` (1-based) over `m` data fragments; `None` if the draw loop does not terminate
/// within a generous bound (e.g. force-full-r with PRBS seed 0)
pub fn parity_row(k: u32, m: usize, ffr: bool) -> Option<Vec<bool>> {
    let mut row = vec![false; m];
    if m == 0 {
        return Some(row);
    }
    let jig = if m.is_power_of_two() { 1 } else { 0 };
    let mut x: u32 = 1u32.wrapping_add(1001u32.wrapping_mul(k));
    let mut nb = 0usize;
    let mut guard = 0usize;
    while nb < m / 2 {
        let mut r = 1usize << 16;
        while r >= m {
            x = prbs23(x);
            r = (x as usize) % (m + jig);
            guard += 1;
            if guard > 64 * (m + 64) + 4096 {
                return None;
            }
        }
        if !ffr || !row[r] {
            row[r] = true;
            nb += 1;
        }
        guard += 1;
        if guard > 64 * (m + 64) + 4096 {
            return None;
        }
    }
    Some(row)
}

/// number of PRBS draws the force-full-r generator needs for row `k` over `m` fragments (None: does not terminate)
pub fn ffr_draws(k: u32, m: usize) -> Option<usize> {
    if m < 2 {
        return Some(0);
    }
    let jig = if m.is_power_of_two() { 1 } else { 0 };
    let mut row = vec![false; m];
    let mut x: u32 = 1u32.wrapping_add(1001u32.wrapping_mul(k));
    let (mut nb, mut draws) = (0usize, 0usize);
    while nb < m / 2 {
        x = prbs23(x);
        draws += 1;
        if draws > 64 * (m + 64) + 4096 {
            return None;
        }
        let r = (x as usize) % (m + jig);
        if r < m && !row[r] {
            row[r] = true;
            nb += 1;
        }
    }
    Some(draws)
}

pub fn ffr() -> bool {
    cfg!(feature = "ffr")
}
