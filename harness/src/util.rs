//! Small helpers shared by every suite: executor, PRNG, hex, panic capture.
use std::future::Future;
use std::pin::pin;
use std::sync::atomic::{AtomicU64, Ordering};
use std::sync::Mutex;
use std::task::{Context, Poll, RawWaker, RawWakerVTable, Waker};

/// progress counter and the lines of the scenario being executed, for the hang watchdog (`main::watchdog`)
pub static PROGRESS: AtomicU64 = AtomicU64::new(0);
pub static CURRENT: Mutex<Vec<String>> = Mutex::new(Vec::new());
/// true while scenarios are being generated (generators that execute lines tick themselves then)
pub static GENERATING: std::sync::atomic::AtomicBool = std::sync::atomic::AtomicBool::new(true);

/// tick from inside an executor, only while generating (the suite loop ticks during execution)
pub fn tick_gen(line: &str) {
    if GENERATING.load(Ordering::Relaxed) {
        tick(line);
    }
}

/// called before every scenario line is executed (by the suite loop and by generators that execute lines)
pub fn tick(line: &str) {
    PROGRESS.fetch_add(1, Ordering::Relaxed);
    if let Ok(mut c) = CURRENT.lock() {
        if line.starts_with("new ") || c.len() > 20000 {
            c.clear();
        }
        c.push(line.to_string());
    }
}

/// All futures of the library are immediately ready; a no-op waker suffices.
pub fn block_on<F: Future>(f: F) -> F::Output {
    fn noop_raw() -> RawWaker {
        fn no(_: *const ()) {}
        fn cl(_: *const ()) -> RawWaker {
            noop_raw()
        }
        static VT: RawWakerVTable = RawWakerVTable::new(cl, no, no, no);
        RawWaker::new(std::ptr::null(), &VT)
    }
    let w = unsafe { Waker::from_raw(noop_raw()) };
    let mut cx = Context::from_waker(&w);
    let mut f = pin!(f);
    let mut spins = 0u32;
    loop {
        if let Poll::Ready(v) = f.as_mut().poll(&mut cx) {
            return v;
        }
        spins += 1;
        assert!(spins < 1_000_000, "future never became ready");
    }
}

/// SplitMix64: every random choice of a run derives from one state seeded by VERIF_SEED.
#[derive(Clone)]
pub struct Rng(pub u64);
impl Rng {
    pub fn new(seed: u64) -> Self {
        Rng(seed.wrapping_mul(0x9E3779B97F4A7C15).wrapping_add(0x1234_5678_9ABC_DEF1))
    }
    pub fn next(&mut self) -> u64 {
        self.0 = self.0.wrapping_add(0x9E3779B97F4A7C15);
        let mut z = self.0;
        z = (z ^ (z >> 30)).wrapping_mul(0xBF58476D1CE4E5B9);
        z = (z ^ (z >> 27)).wrapping_mul(0x94D049BB133111EB);
        z ^ (z >> 31)
    }
    /// uniform in 0..n (n > 0)
    pub fn below(&mut self, n: u64) -> u64 {
        self.next() % n
    }
    pub fn range(&mut self, lo: u64, hi_incl: u64) -> u64 {
        lo + self.below(hi_incl - lo + 1)
    }
    pub fn chance(&mut self, num: u64, den: u64) -> bool {
        self.below(den) < num
    }
    pub fn pick<'a, T>(&mut self, xs: &'a [T]) -> &'a T {
        &xs[self.below(xs.len() as u64) as usize]
    }
    pub fn bytes(&mut self, n: usize) -> Vec<u8> {
        (0..n).map(|_| self.next() as u8).collect()
    }
    pub fn shuffle<T>(&mut self, xs: &mut [T]) {
        for i in (1..xs.len()).rev() {
            let j = self.below(i as u64 + 1) as usize;
            xs.swap(i, j);
        }
    }
    pub fn fork(&mut self) -> Rng {
        Rng::new(self.next())
    }
}

pub fn hex(b: &[u8]) -> String {
    let mut s = String::with_capacity(b.len() * 2);
    for x in b {
        s.push_str(&format!("{:02x}", x));
    }
    if s.is_empty() {
        s.push('-');
    }
    s
}

pub fn unhex(s: &str) -> Vec<u8> {
    if s == "-" {
        return vec![];
    }
    (0..s.len() / 2).map(|i| u8::from_str_radix(&s[2 * i..2 * i + 2], 16).unwrap()).collect()
}

/// FNV-1a 64 digest of a byte string: used to compare large flash regions in one token.
pub fn fnv(b: &[u8]) -> u64 {
    let mut h: u64 = 0xcbf29ce484222325;
    for x in b {
        h ^= *x as u64;
        h = h.wrapping_mul(0x100000001b3);
    }
    h
}

/// Run `f`, mapping a panic to `Err(message)`.
pub fn guarded<T>(f: impl FnOnce() -> T) -> Result<T, String> {
    std::panic::catch_unwind(std::panic::AssertUnwindSafe(f)).map_err(|e| {
        if let Some(s) = e.downcast_ref::<String>() {
            s.clone()
        } else if let Some(s) = e.downcast_ref::<&str>() {
            s.to_string()
        } else {
            "panic".to_string()
        }
    })
}

pub fn crc_cksum(d: &[u8]) -> u32 {
    crc::Crc::<u32>::new(&crc::CRC_32_CKSUM).checksum(d)
}

/// Output channels of one suite run.
pub struct Out {
    pub scen: Vec<String>,
    pub ans: Vec<String>,
    /// property-oracle failures on the implementation: (property, site-class key, description, scenario index)
    pub oracle_fail: Vec<(String, String, String, usize)>,
    /// distribution counters reported in the evidence
    pub stats: std::collections::BTreeMap<String, u64>,
    pub samples: Vec<String>,
}
impl Out {
    pub fn new() -> Self {
        Out { scen: vec![], ans: vec![], oracle_fail: vec![], stats: Default::default(), samples: vec![] }
    }
    /// record one query line and the implementation's answer
    pub fn qa(&mut self, q: String, a: String) {
        self.scen.push(q);
        self.ans.push(a);
    }
    pub fn stat(&mut self, k: &str) {
        *self.stats.entry(k.to_string()).or_insert(0) += 1;
    }
    pub fn stat_n(&mut self, k: &str, n: u64) {
        *self.stats.entry(k.to_string()).or_insert(0) += n;
    }
    pub fn fail(&mut self, prop: &str, what: String) {
        self.fail_key(prop, "-", what);
    }
    /// `key` names the failing site class (matched against known_findings.json)
    pub fn fail_key(&mut self, prop: &str, key: &str, what: String) {
        let at = self.scen.len();
        if self.oracle_fail.len() < 200 {
            self.oracle_fail.push((prop.to_string(), key.to_string(), what, at));
        }
    }
    pub fn sample(&mut self, s: String) {
        if self.samples.len() < 6 {
            self.samples.push(s);
        }
    }
    pub fn write(&self, dir: &str) {
        std::fs::create_dir_all(dir).unwrap();
        std::fs::write(format!("{dir}/scen.txt"), self.scen.join("\n") + "\n").unwrap();
        std::fs::write(format!("{dir}/impl.txt"), self.ans.join("\n") + "\n").unwrap();
        let mut o = String::new();
        for (p, k, w, at) in &self.oracle_fail {
            o.push_str(&format!("{}\t{}\t{}\t{}\n", p, at, k, w.replace('\n', " ").replace('\t', " ")));
        }
        std::fs::write(format!("{dir}/oracle.txt"), o).unwrap();
        let mut s = String::new();
        for (k, v) in &self.stats {
            s.push_str(&format!("{}\t{}\n", k, v));
        }
        std::fs::write(format!("{dir}/stats.txt"), s).unwrap();
        std::fs::write(format!("{dir}/samples.txt"), self.samples.join("\n") + "\n").unwrap();
    }
}
