//! Prints the numeric constants the compiled library actually uses; the runner turns them into
//! `Fuota/Generated/Consts.lean`, so every theorem that depends on a constant is re-checked against the code.
use flash_algo_new::layout as L;
use flash_algo_new::layout::FlashRepr;
use original_flash_algo::protocol as P;
use original_flash_algo::protocol::FlashRepr as PFlashRepr;

pub fn run() {
    let mut v: Vec<(&str, u64)> = vec![];
    macro_rules! c {
        ($n:expr, $e:expr) => {
            v.push(($n, $e as u64));
        };
    }
    c!("KIND_FIRMWARE", L::Kind::FIRMWARE);
    c!("KIND_PARITY", L::Kind::PARITY);
    c!("EXT_IN_PROGRESS", L::WriteExtStatus::IN_PROGRESS);
    c!("EXT_ABORTED", L::WriteExtStatus::ABORTED);
    c!("EXT_COMPLETE", L::WriteExtStatus::COMPLETE);
    c!("INT_IN_PROGRESS", L::WriteIntStatus::IN_PROGRESS);
    c!("INT_COMPLETE", L::WriteIntStatus::COMPLETE);
    c!("BOOT_UNTESTED", L::BootOutcome::UNTESTED);
    c!("BOOT_SUCCESSFUL", L::BootOutcome::SUCCESSFUL);
    c!("BOOT_UNSUCCESSFUL", L::BootOutcome::UNSUCCESSFUL);
    c!("KIND_OFFSET", L::SlotHeader::KIND_OFFSET);
    c!("SEQ_OFFSET", L::SlotHeader::SEQUENCE_NUMBER_OFFSET);
    c!("SEGSIZE_OFFSET", L::SlotHeader::SEGMENT_SIZE_OFFSET);
    c!("NSEG_OFFSET", L::SlotHeader::NUMBER_OF_SEGMENTS_OFFSET);
    c!("EXT_OFFSET", L::SlotHeader::WRITE_EXT_STATUS_OFFSET);
    c!("INT_OFFSET", L::SlotHeader::WRITE_INT_STATUS_OFFSET);
    c!("BOOT_OFFSET", L::SlotHeader::BOOT_OUTCOME_OFFSET);
    c!("SLOT_HEADER_SIZE", <L::SlotHeader as FlashRepr>::SIZE);
    c!("HEADER_SIZE", L::HEADER_SIZE);
    c!("WRITTEN_OFFSET", L::WRITTEN_OFFSET);
    c!("DATA_REGION_OFFSET", L::DATA_REGION_OFFSET);
    c!("DATA_PAYLOAD_OFFSET", L::DATA_PAYLOAD_OFFSET);
    c!("CRC_SIZE", <L::Crc32 as FlashRepr>::SIZE);
    c!("SIG_SIZE", <L::Signature as FlashRepr>::SIZE);
    c!("MAX_SEGMENTS", L::segment_status_table::MAX_SEGMENTS);
    c!("MAX_SEGMENT_SIZE", L::segment_status_table::MAX_SEGMENT_SIZE);
    c!("DATA_WRITTEN", L::segment_status_table::DATA_WRITTEN);
    c!("DATA_NOT_WRITTEN", L::segment_status_table::DATA_NOT_WRITTEN);
    // the reserved sequence number is a private constant: observed through the codec
    let inv = if L::SequenceNumber::take_from_bytes(&[0xFF; 4]).is_none() { 0xFFFF_FFFFu64 } else { 1u64 << 32 };
    c!("SEQ_INVALID", inv);
    // deprecated crate (same codec, own copy of the constants)
    c!("O_KIND_FIRMWARE", P::Kind::FIRMWARE);
    c!("O_KIND_PARITY", P::Kind::PARITY);
    c!("O_EXT_IN_PROGRESS", P::WriteExtStatus::IN_PROGRESS);
    c!("O_EXT_ABORTED", P::WriteExtStatus::ABORTED);
    c!("O_EXT_COMPLETE", P::WriteExtStatus::COMPLETE);
    c!("O_INT_IN_PROGRESS", P::WriteIntStatus::IN_PROGRESS);
    c!("O_INT_COMPLETE", P::WriteIntStatus::COMPLETE);
    c!("O_BOOT_UNTESTED", P::BootOutcome::UNTESTED);
    c!("O_BOOT_SUCCESSFUL", P::BootOutcome::SUCCESSFUL);
    c!("O_BOOT_UNSUCCESSFUL", P::BootOutcome::UNSUCCESSFUL);
    c!("O_KIND_OFFSET", P::SlotHeader::KIND_OFFSET);
    c!("O_SEQ_OFFSET", P::SlotHeader::SEQUENCE_NUMBER_OFFSET);
    c!("O_SEGSIZE_OFFSET", P::SlotHeader::SEGMENT_SIZE_OFFSET);
    c!("O_NSEG_OFFSET", P::SlotHeader::NUMBER_OF_SEGMENTS_OFFSET);
    c!("O_EXT_OFFSET", P::SlotHeader::WRITE_EXT_STATUS_OFFSET);
    c!("O_INT_OFFSET", P::SlotHeader::WRITE_INT_STATUS_OFFSET);
    c!("O_BOOT_OFFSET", P::SlotHeader::BOOT_OUTCOME_OFFSET);
    c!("O_SLOT_HEADER_SIZE", <P::SlotHeader as PFlashRepr>::SIZE);
    c!("O_HEADER_SIZE", original_flash_algo::manager::HEADER_SIZE);
    c!("O_WRITTEN_OFFSET", original_flash_algo::manager::WRITTEN_OFFSET);
    c!("O_DATA_REGION_OFFSET", original_flash_algo::manager::DATA_REGION_OFFSET);
    c!("O_DATA_PAYLOAD_OFFSET", original_flash_algo::manager::DATA_PAYLOAD_OFFSET);
    c!("O_MAX_SEGMENTS", P::segment_status_table::MAX_SEGMENTS);
    c!("O_MAX_SEGMENT_SIZE", P::segment_status_table::MAX_SEGMENT_SIZE);
    c!("O_DATA_WRITTEN", P::segment_status_table::DATA_WRITTEN);
    c!("O_DATA_NOT_WRITTEN", P::segment_status_table::DATA_NOT_WRITTEN);
    c!("O_WRITTEN_SIZE", original_flash_algo::manager::WRITTEN_SIZE);
    let oinv = if P::SequenceNumber::take_from_bytes(&[0xFF; 4]).is_none() { 0xFFFF_FFFFu64 } else { 1u64 << 32 };
    c!("O_SEQ_INVALID", oinv);
    for (n, x) in v {
        println!("{} {}", n, x);
    }
}
