#!/bin/bash
# Builds the framework offline from files on disk: harness (all feature configurations) + Lean project + driver.
set -e
cd "$(dirname "$0")"
export CARGO_NET_OFFLINE=true
mkdir -p work evidence replays
( cd harness
  cargo build --release --target-dir target/matrix --features matrix &
  cargo build --release --target-dir target/matrix-ffr --features matrix,ffr &
  cargo build --release --target-dir target/naive --no-default-features &
  cargo build --release --target-dir target/naive-ffr --no-default-features --features ffr &
  cargo build --profile checked --target-dir target/checked --features matrix &
  wait )
python3 tools/gen_consts.py harness/target/matrix/release/fh lean/Fuota/Generated/Consts.lean
( cd lean && lake build Fuota driver )
echo setup done
