import Fuota.Generated.Consts
import Fuota.Model.Hex
import Fuota.Model.Layout
import Fuota.Props.C11
import Fuota.Model.Recon
import Fuota.Model.Nor
