import Fuota.Drv.D3
import Fuota.Drv.D1
import Fuota.Drv.D2
import Fuota.Drv.D4
import Fuota.Drv.D7
import Fuota.Drv.D6c
import Fuota.Drv.D8
import Fuota.Drv.D5
/-! Line-protocol driver: one query per input line, one canonical answer per output line.
    Imports the model files only (no Mathlib), so it links as a native executable.
    Each suite's handlers live in `Fuota/Drv/<suite>.lean`; the first one that recognises a line answers it. -/
namespace Drv

structure St where
  d1 : D1.S := {}
  d5 : D5.S := {}
  d4 : D4.S := {}
  d8 : D8.S := {}
  /-- `--naive`: the session lines of D5 are answered by the naive back-end model (`D8.stepNaive`) -/
  naive : Bool := false

def step (st : St) (line : String) : St × String :=
  let toks := line.trimAscii.toString.splitOn " "
  if line.startsWith "!" then (st, "-") else
  match D3.step toks with
  | some o => (st, o)
  | none =>
  match D2.step toks with
  | some o => (st, o)
  | none =>
  match D7.step toks with
  | some o => (st, o)
  | none =>
  match D6c.step toks with
  | some o => (st, o)
  | none =>
  match D1.step st.d1 toks with
  | some (s, o) => ({ st with d1 := s }, o)
  | none =>
  match D4.step st.d4 toks with
  | some (s, o) => ({ st with d4 := s }, o)
  | none =>
  match D8.stepOrig st.d8 toks with
  | some (s, o) => ({ st with d8 := s }, o)
  | none =>
  if st.naive then
    match D8.stepNaive st.d8 toks with
    | some (s, o) => ({ st with d8 := s }, o)
    | none => (st, "bad-op")
  else
  match D5.step st.d5 toks with
  | some (s, o) => ({ st with d5 := s }, o)
  | none => (st, "bad-op")

partial def loop (h : IO.FS.Stream) (out : IO.FS.Stream) (st : St) : IO Unit := do
  let line ← h.getLine
  if line.isEmpty then return ()
  let (st', o) := step st line
  out.putStrLn o
  loop h out st'

end Drv

def main (args : List String) : IO Unit := do
  let stdin ← IO.getStdin
  let stdout ← IO.getStdout
  let pinned := args.contains "--recon-bit-first"
  Drv.loop stdin stdout { d1 := { variant := { bitBeforeStore := pinned } }, d5 := { ffr := args.contains "--ffr" },
                           d8 := { ffr := args.contains "--ffr" }, naive := args.contains "--naive" }
