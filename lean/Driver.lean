import Fuota.Model.Hex
import Fuota.Model.Layout
import Fuota.Model.Recon
/-! Line-protocol driver: one query per input line, one canonical answer per output line.
    Imports the model files only (no Mathlib), so it links as a native executable. -/
open Fuota Fuota.Hex Fuota.Layout

namespace Drv

def codecOf (s : String) : Codec := if s = "orig" then Codec.orig else Codec.new

def kindIdx : Kind → Nat | .firmware => 0 | .parity => 1
def extIdx : Ext → Nat | .inProgress => 0 | .aborted => 1 | .complete => 2
def intIdx : IntSt → Nat | .inProgress => 0 | .complete => 1
def bootIdx : Boot → Nat | .untested => 0 | .successful => 1 | .unsuccessful => 2

def optNat : Option Nat → String | none => "none" | some v => toString v

def fld (c : Codec) (f : String) (w : Nat) : String :=
  match f with
  | "kind" => optNat ((parseKind c w).map kindIdx)
  | "seq" => optNat (parseSeq c w)
  | "size" => optNat (parseSize c w)
  | "nseg" => optNat (parseNseg c w)
  | "ext" => optNat ((parseExt c w).map extIdx)
  | "int" => optNat ((parseInt c w).map intIdx)
  | "boot" => optNat ((parseBoot c w).map bootIdx)
  | _ => "bad-op"

def enc (c : Codec) (f : String) (i : Nat) : String :=
  match f, i with
  | "kind", 0 => toString (encKind c .firmware) | "kind", 1 => toString (encKind c .parity)
  | "ext", 0 => toString (encExt c .inProgress) | "ext", 1 => toString (encExt c .aborted)
  | "ext", 2 => toString (encExt c .complete)
  | "int", 0 => toString (encInt c .inProgress) | "int", 1 => toString (encInt c .complete)
  | "boot", 0 => toString (encBoot c .untested) | "boot", 1 => toString (encBoot c .successful)
  | "boot", 2 => toString (encBoot c .unsuccessful)
  | _, _ => "bad-op"

def hdr (c : Codec) (bs : List Nat) : String :=
  match parseHeader c bs with
  | none => "none"
  | some (h, rest) =>
    s!"some k={kindIdx h.kind} seq={h.seq} sz={h.size} n={h.n} e={extIdx h.ext} i={intIdx h.ist} b={bootIdx h.boot} rest={rest.length} enc={toHex (encodeHeader c h)} encrest=Some(0)"

def ts (c : Codec) (bs : List Nat) : String :=
  match parseHeader c bs with
  | none => "none"
  | some (h, _) => (totalStatus h).name

/-- observable classification of a header in slot 0 (see harness `new_classify`) -/
def cls (bs : List Nat) : String :=
  let c := Codec.new
  let seq := match takeU32 (bs.drop 4) with | some (w, _) => w | none => 0
  let ph := parseHeader c bs
  let bl := match ph with
    | some (h, _) =>
      if h.kind = Kind.firmware then
        match totalStatus h with
        | .bootloadWriteInProgress => "copy0"
        | .firstBootPendingAck => "unack0"
        | _ => "idle"
      else "idle"
    | none => "idle"
  let fb := match ph with
    | some (h, _) => if totalStatus h = TotalStatus.confirmedImage then "some" else "none"
    | none => "none"
  let rem :=
    if seq ≤ 0xFFFFFFF0 then
      match ph with
      | none => "sess:keep"
      | some (h, _) =>
        match totalStatus h with
        | .appWriteInProgress => s!"sess:w{Consts.EXT_OFFSET}:{toHex (writeU32 (encExt c .aborted))}"
        | .bootloadWriteInProgress | .invalidNeedsErase => "sess:erase"
        | _ => "sess:keep"
    else "skip"
  s!"bl={bl} fb={fb} rem={rem}"

def mark (name : String) : String :=
  let c := Codec.new
  let w (off v : Nat) := s!"true W{off}:{toHex (writeU32 v)}"
  match name with
  | "aborted" => w Consts.EXT_OFFSET (encExt c .aborted)
  | "complete" => w Consts.EXT_OFFSET (encExt c .complete)
  | "int" => w Consts.INT_OFFSET (encInt c .complete)
  | "ok" => w Consts.BOOT_OFFSET (encBoot c .successful)
  | "bad" => w Consts.BOOT_OFFSET (encBoot c .unsuccessful)
  | _ => "bad-op"

/-! ### D1: reconstructor -/
def bytesToNat : List Nat → Nat
  | [] => 0
  | b :: bs => b + 256 * bytesToNat bs

def natToBytes (v : Nat) : Nat → List Nat
  | 0 => []
  | k + 1 => v % 256 :: natToBytes (v / 256) k

partial def natToBytesTrim (v : Nat) : List Nat := if v = 0 then [] else v % 256 :: natToBytesTrim (v / 256)

structure ReconSt where
  s : Recon.St := { n := 0, bs := 0 }
  rows : Array Nat := #[]
  vbits : Nat := 0
  numRows : Nat := 0

def ReconSt.P (r : ReconSt) (m : Nat) : Nat :=
  if m < r.s.n then 2 ^ m else if r.rows.size = 0 then 0 else r.rows[(m - r.s.n) % r.rows.size]!

def callStr (bs : Nat) : Recon.Call → String
  | .dStore m d => s!"dS{m}:{toHex (natToBytes d bs)}"
  | .dGet m => s!"dG{m}"
  | .pStore m d => s!"pS{m}:{toHex (natToBytes d bs)}"
  | .pGet m => s!"pG{m}"
  | .mSet m r => s!"mS{m}:{toHex (natToBytes r (m / 8 + 1))}"
  | .mRow m => s!"mR{m}"

def resStr : Recon.Res → String
  | .needMore => "NeedMore" | .tooMany => "TooManyMissing" | .done k => s!"Done({k})"
  | .err .data => "Err(data)" | .err .parity => "Err(parity)" | .err .matrix => "Err(matrix)" | .panic => "PANIC"

def reconBlk (V : Recon.Variant) (r : ReconSt) (idx : Nat) (bytes : List Nat) (fault : Option Nat) : ReconSt × String :=
  let c0 := r.s.calls
  let F : Nat → Bool := match fault with | none => Recon.noFault | some k => fun c => c == c0 + k
  let (s1, res) := Recon.handleBlock V F r.P r.vbits r.numRows r.s idx (bytesToNat bytes) bytes.length
  let newCalls := (s1.log.take (s1.calls - c0)).reverse
  let cs := if newCalls.isEmpty then "-" else ",".intercalate (newCalls.map (callStr s1.bs))
  ({ r with s := s1 },
   s!"res={resStr res} ; calls={cs} ; l={s1.l} ; done={toHex (natToBytesTrim s1.done)} ; used={toHex (natToBytesTrim s1.used)}")

def reconEnd (r : ReconSt) : String :=
  let ds := (List.range r.s.n).map fun i =>
    match r.s.ds.lookup i with
    | some v => toHex (natToBytes v r.s.bs)
    | none => "?"
  "ds=" ++ ",".intercalate ds

/-- driver state (grows with the stateful suites) -/
structure St where
  variant : Recon.Variant := { bitBeforeStore := true }
  recon : ReconSt := {}

def step (st : St) (line : String) : St × String :=
  match line.trimAscii.toString.splitOn " " with
  | ["fld", c, f, w] => (st, match w.toNat? with | some w => fld (codecOf c) f w | none => "bad-op")
  | ["enc", c, f, i] => (st, match i.toNat? with | some i => enc (codecOf c) f i | none => "bad-op")
  | ["hdr", c, h] => (st, hdr (codecOf c) (fromHex h))
  | ["ts", c, h] => (st, ts (codecOf c) (fromHex h))
  | ["cls", _, h] => (st, cls (fromHex h))
  | ["mark", n] => (st, mark n)
  | ["new", "recon", n, bs, vb, cap] =>
    ({ st with recon := { s := { n := n.toNat!, bs := bs.toNat! }, vbits := vb.toNat!, numRows := cap.toNat! } }, "ok")
  | ["row", h] => ({ st with recon := { st.recon with rows := st.recon.rows.push (bytesToNat (fromHex h)) } }, "ok")
  | ["orig", _] => (st, "ok")
  | ["blk", i, h] => let (r, o) := reconBlk st.variant st.recon i.toNat! (fromHex h) none; ({ st with recon := r }, o)
  | ["blk", i, h, f] =>
    let (r, o) := reconBlk st.variant st.recon i.toNat! (fromHex h) ((f.drop 1).toNat?); ({ st with recon := r }, o)
  | ["end"] => (st, reconEnd st.recon)
  | _ => (st, if line.startsWith "!" then "-" else "bad-op")

partial def loop (h : IO.FS.Stream) (out : IO.FS.Stream) (st : St) : IO Unit := do
  let line ← h.getLine
  if line.isEmpty then return ()
  let (st', o) := step st line
  out.putStrLn o
  loop h out st'

end Drv

def main (args : List String) : IO Unit := do
  let stdin ← IO.getStdin
  let stdout ← IO.getStdout
  let fixed := args.contains "--recon-store-first"
  Drv.loop stdin stdout { variant := { bitBeforeStore := !fixed } }
