/-!
# CRC-32/CKSUM as a bitwise register machine

Parameters (catalogue entry CRC-32/CKSUM): width 32, poly `0x04C11DB7`, init `0`, no input / output reflection,
xorout `0xFFFFFFFF`, check value `0x765E7680` for `"123456789"`. This is what
`crc::Crc::<u32>::new(&CRC_32_CKSUM)` computes; note that the crate's digest does **not** append the message length
(POSIX `cksum` does), and neither does this model.

The register is a `Nat < 2^32`; bytes are `Nat` (reduced mod 256 when they enter the register). The digest API of the
crate (`digest()`, `update(bytes)`, `finalize()`) is mirrored by `crcInit`, `crcUpdate`, `crcFinalize`, so that the
segment loop of `crc_valid` can be modelled as successive updates.
-/
namespace Fuota.Crc

def poly : Nat := 0x04C11DB7
def crcInit : Nat := 0
def xorOut : Nat := 0xFFFFFFFF

/-- one shift of the register (MSB first): shift left, drop bit 32, subtract the polynomial if bit 31 was set -/
def shift1 (r : Nat) : Nat :=
  if r.testBit 31 then ((r * 2) % 2 ^ 32) ^^^ poly else (r * 2) % 2 ^ 32

/-- `k` shifts -/
def shiftN : Nat → Nat → Nat
  | 0, r => r
  | k + 1, r => shiftN k (shift1 r)

/-- feed one byte: xor it into the top byte of the register, then eight shifts -/
def crcStepByte (r b : Nat) : Nat := shiftN 8 (r ^^^ ((b % 256) * 2 ^ 24))

/-- `Digest::update` -/
def crcUpdate (r : Nat) : List Nat → Nat
  | [] => r
  | b :: bs => crcUpdate (crcStepByte r b) bs

/-- `Digest::finalize` -/
def crcFinalize (r : Nat) : Nat := r ^^^ xorOut

/-- the register after the whole message, before the final xor -/
def crcRaw (bs : List Nat) : Nat := crcUpdate crcInit bs

/-- `Crc::checksum` -/
def crcBytes (bs : List Nat) : Nat := crcFinalize (crcRaw bs)

end Fuota.Crc
