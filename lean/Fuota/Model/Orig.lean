import Fuota.Model.Fs
import Fuota.Model.Updater
import Fuota.Model.Lfdbt
import Fuota.Model.Naive
/-!
# L2 model: the deprecated V1 manager (`original-flash-algo/src/manager.rs`, `src/ring.rs`)

`protocol.rs` is the same codec as `layout.rs` (`Fuota.Layout` with `Codec.orig`, tied by suite D3); the crate has
its own copies of the layout constants (`Consts.O_*`), of `fill_bitcache` and of the repair scan (`Fuota.V1`, the
same text as `naive.rs`).  What differs from `flash-algo-new` and is modelled here: ring ordering
(`get_ordered_headers`, `get_two_newest`, `get_next_seq_no`, `next_seq`), `start`, `bl_boot_status`,
`app_boot_status`, `ActiveStatus::{write_segment, repair_step, check_and_mark_done}`, `validate_firmware_slot`.

The code is transcribed AS IT IS.  The one questionable spot of `write_segment_internal` is a parameter of the model
(`Cfg.rangeCheckWithOffset`): the pinned `data_in_range` ignores `DATA_REGION_OFFSET`.
-/
namespace Fuota.Orig
open Fuota.Nor Fuota.Layout Fuota.Fs Fuota.V1

structure Cfg where
  /-- feature `force-full-r` -/
  ffr : Bool := false
  /-- `false` = the pinned code: `data_in_range = (idx0 + 1) * segment_size <= slot_size`.
      `true` = `DATA_REGION_OFFSET + (idx0 + 1) * segment_size <= slot_size`. -/
  rangeCheckWithOffset : Bool := false
  deriving Repr

def C : Codec := Codec.orig
def HEADER_SIZE := Consts.O_HEADER_SIZE
def WRITTEN_OFFSET := Consts.O_WRITTEN_OFFSET
def WRITTEN_SIZE := Consts.O_WRITTEN_SIZE
def DATA_REGION_OFFSET := Consts.O_DATA_REGION_OFFSET
def DATA_PAYLOAD_OFFSET := Consts.O_DATA_PAYLOAD_OFFSET
def MAX_SEGMENTS := Consts.O_MAX_SEGMENTS
def MAX_SEGMENT_SIZE := Consts.O_MAX_SEGMENT_SIZE
/-- `ScratchRam::PARITY_TEMP_LEN` -/
def PARITY_TEMP_LEN : Nat := 128

/-! ## ring ordering (`ring.rs`), pure -/

/-- `IndexedHeader` -/
structure IH where
  idx : Nat
  hdr : Option Header
  deriving Repr, DecidableEq

/-- `next_seq`: `cur.wrapping_add(1)`, `u32::MAX` replaced by 0 -/
def nextSeq (cur : Nat) : Nat := if (cur + 1) % 2 ^ 32 = 2 ^ 32 - 1 then 0 else (cur + 1) % 2 ^ 32

/-- the discontinuity test of `get_ordered_headers` on (left, right) sequence numbers -/
def disc (a b : Option Nat) : Bool :=
  match a, b with
  | some _, none => true
  | some s1, some s2 => s2 != nextSeq s1
  | _, _ => false

/-- `last.iter().chain(first).zip(headers.iter())`: (left, right) pairs, the wrap-around pair first -/
def ringPairs {α : Type} (hs : List α) : List (α × α) :=
  (hs.drop (hs.length - 1) ++ hs.take (hs.length - 1)).zip hs

/-- `ring.find_map(..)` on the sequence numbers: index of the first discontinuity -/
def findOldestSeq (ss : List (Option Nat)) : Option Nat :=
  (ringPairs ss).findIdx? fun p => disc p.1 p.2

def seqOf (ih : IH) : Option Nat := ih.hdr.map (·.seq)

def findOldest (hs : List IH) : Option Nat := findOldestSeq (hs.map seqOf)

/-- `rotate_left(slice, n)`: `n` single left rotations (nothing for `len <= 1`) -/
def rotateLeft {α : Type} (l : List α) (n : Nat) : List α :=
  if l.length ≤ 1 then l else l.drop (n % l.length) ++ l.take (n % l.length)

/-- the tail of `get_ordered_headers`: `none` = `assert!(all_none)` fails -/
def orderHeaders (hs : List IH) : Option (List IH) :=
  match findOldest hs with
  | some i => some (rotateLeft hs i)
  | none => if hs.all (fun ih => ih.hdr.isNone) then some hs else none

/-- `get_two_newest`: `(older, newer)` -/
def getTwoNewest (sli : List IH) : Option (IH × IH) :=
  match sli.reverse.dropWhile (fun ih => ih.hdr.isNone) with
  | newer :: older :: _ => if older.hdr.isSome then some (older, newer) else none
  | _ => none

/-- `get_next_seq_no` -/
def getNextSeqNo (sli : List IH) : Nat :=
  (sli.reverse.findSome? fun ih => ih.hdr.map (fun h => nextSeq h.seq)).getD 0

/-- what one iteration of `start` decides from the ordered headers: (slot index, sequence number);
    `none` = `hdrs[0]` out of range (N = 0) -/
def planOne (ordered : List IH) : Option (Nat × Nat) :=
  match ordered with
  | [] => none
  | h :: _ => some (h.idx, getNextSeqNo ordered)

/-! ## flash access -/

def readHeaderAt (a : Nat) : M (Option Header) := do
  let bs ← readTo a Consts.O_SLOT_HEADER_SIZE
  pure ((parseHeader C bs).map (·.1))

def readHeadersFrom (slotSize : Nat) : List Nat → M (List IH)
  | [] => pure []
  | i :: is => do
    let h ← readHeaderAt (i * slotSize)
    let rest ← readHeadersFrom slotSize is
    pure ({ idx := i, hdr := h } :: rest)

/-- `get_ordered_headers` -/
def getOrderedHeaders (n slotSize : Nat) : M (List IH) := do
  let hs ← readHeadersFrom slotSize (List.range n)
  if n = 0 then throw .panic
  match orderHeaders hs with
  | some o => pure o
  | none => throw .panic

/-- `max_data_size` -/
def maxDataSize (slotSize : Nat) : Nat := slotSize - HEADER_SIZE - MAX_SEGMENTS

/-- `is_reasonably_sized` (with the per-field checks of the repair) -/
def reasonablySized (slotSize segsz nseg : Nat) : Except MErr Unit :=
  if segsz = 0 ∨ segsz > MAX_SEGMENT_SIZE then .error .segmentsTooLarge
  else if nseg = 0 ∨ nseg > MAX_SEGMENTS then .error .tooManySegments
  else if maxDataSize slotSize ≥ 2 ^ 32 then .error .segmentsTooLarge
  else if segsz * nseg ≥ 2 ^ 32 then .error .segmentsTooLarge
  else if segsz * nseg > maxDataSize slotSize then .error .segmentsTooLarge
  else .ok ()

/-- `erase_slot` -/
def eraseSlot (slotSize idx : Nat) : M Unit := do
  let d ← get
  let bsz := d.flash.block
  if bsz = 0 then throw .panic
  if slotSize % bsz != 0 then throw .panic
  eraseFrom (idx * slotSize) bsz (slotSize / bsz)

/-- `ActiveStatus` -/
structure Act where
  slotSize : Nat
  segSize : Nat
  fwIdx : Nat
  totalFw : Nat
  remFw : Nat
  parIdx : Nat
  totalPar : Nat
  remPar : Nat
  deriving Repr, DecidableEq

/-- one iteration of the `todo_list` loop of `start` -/
def startOne (nslots slotSize : Nat) (kind : Kind) (segsz segments : Nat) : M Nat := do
  let hs ← getOrderedHeaders nslots slotSize
  match planOne hs with
  | none => throw .panic
  | some (slotIdx, next) =>
    eraseSlot slotSize slotIdx
    let hdr : Header := { kind := kind, seq := next, size := segsz, n := segments,
                          ext := .inProgress, ist := .inProgress, boot := .untested }
    writeFrom (slotIdx * slotSize) (encodeHeader C hdr)
    pure slotIdx

/-- `SlotManager::start` -/
def start (nslots slotSize segsz nseg : Nat) : M Act := do
  match reasonablySized slotSize segsz nseg with
  | .error e => throw e
  | .ok () => pure ()
  let fw ← startOne nslots slotSize .firmware segsz nseg
  let par ← startOne nslots slotSize .parity segsz MAX_SEGMENTS
  pure { slotSize := slotSize, segSize := segsz, fwIdx := fw, totalFw := nseg, remFw := nseg,
         parIdx := par, totalPar := MAX_SEGMENTS, remPar := MAX_SEGMENTS }

/-- `bl_boot_status`: `inl idx` = IncompleteInternal, `inr idx` = FailedLoad -/
def blBootStatus (nslots slotSize : Nat) : M (Option (Sum Nat Nat)) := do
  let hs ← getOrderedHeaders nslots slotSize
  match getTwoNewest hs with
  | none => pure none
  | some (fw, pa) =>
    match fw.hdr, pa.hdr with
    | some f, some p =>
      if !(f.kind = Kind.firmware ∧ p.kind = Kind.parity) then pure none else
      match totalStatus f with
      | .bootloadWriteInProgress => pure (some (.inl fw.idx))
      | .firstBootPendingAck => pure (some (.inr fw.idx))
      | _ => pure none
    | _, _ => pure none

def writeWordAt (slotSize idx off w : Nat) : M Unit := writeFrom (idx * slotSize + off) (writeU32 w)
def writeExtAborted (slotSize idx : Nat) : M Unit := writeWordAt slotSize idx Consts.O_EXT_OFFSET (encExt C .aborted)
def writeExtComplete (slotSize idx : Nat) : M Unit := writeWordAt slotSize idx Consts.O_EXT_OFFSET (encExt C .complete)
def writeIntComplete (slotSize idx : Nat) : M Unit := writeWordAt slotSize idx Consts.O_INT_OFFSET (encInt C .complete)
def writeBootOk (slotSize idx : Nat) : M Unit := writeWordAt slotSize idx Consts.O_BOOT_OFFSET (encBoot C .successful)
def writeBootBad (slotSize idx : Nat) : M Unit := writeWordAt slotSize idx Consts.O_BOOT_OFFSET (encBoot C .unsuccessful)

/-- the slots `cancel_all_ext_pending` marks aborted, in order -/
def cancelActs (hs : List IH) : List Nat :=
  hs.filterMap fun ih => match ih.hdr with
    | some h => if h.ext = Ext.inProgress then some ih.idx else none
    | none => none

def abortAll (slotSize : Nat) : List Nat → M Unit
  | [] => pure ()
  | i :: is => do
    writeExtAborted slotSize i
    abortAll slotSize is

/-- `cancel_all_ext_pending` -/
def cancelAll (slotSize : Nat) (hs : List IH) : M Unit := abortAll slotSize (cancelActs hs)

/-- `cancel_all_ext_pending_from_scratch` -/
def cancelAllFromScratch (nslots slotSize : Nat) : M Unit := do
  let hs ← getOrderedHeaders nslots slotSize
  cancelAll slotSize hs

/-- `BitCache::fill_from` (the crate's own copy) -/
def fillFrom (mask start : Nat) : List Nat → Except SpiErr Nat
  | [] => .ok mask
  | b :: bs =>
    if b = Consts.O_DATA_WRITTEN then fillFrom (mask ||| 2 ^ start) (start + 1) bs
    else if b = Consts.O_DATA_NOT_WRITTEN then
      -- `self.set(idx, false)`: clear bit `start`
      fillFrom (if mask.testBit start then mask - 2 ^ start else mask) (start + 1) bs
    else .error .hw

/-- `fill_bitcache` (the crate's own copy) -/
def fillBitcache (startAddr stride : Nat) : Nat → Nat → Nat → Nat → M Nat
  | 0, _, _, mask => pure mask
  | fuel + 1, addr, remain, mask =>
    if remain = 0 then pure mask else do
      let st := min remain stride
      let buf ← readTo addr st
      if (addr - startAddr) + st > MAX_SEGMENTS then throw (.spi .logic)
      match fillFrom mask (addr - startAddr) buf with
      | .error e => throw (.spi e)
      | .ok m => fillBitcache startAddr stride fuel (addr + st) (remain - st) m

def loadStatus (slotSize idx len : Nat) : M Nat :=
  let start := idx * slotSize + WRITTEN_OFFSET
  fillBitcache start PARITY_TEMP_LEN (len + 1) start len 0

/-- what the remediation loop of `app_boot_status` does to one slot -/
inductive Rem | abort | erase
  deriving DecidableEq, Repr

/-- the remediation loop of `app_boot_status` over the ordered headers, as a list of (slot, action) -/
def remediateActs (fIdx pIdx : Nat) (hs : List IH) : List (Nat × Rem) :=
  hs.filterMap fun ih =>
    if ih.idx = fIdx ∨ ih.idx = pIdx then none else
    match ih.hdr with
    | none => none
    | some h =>
      match totalStatus h with
      | .appWriteInProgress => some (ih.idx, .abort)
      | .bootloadWriteInProgress | .invalidNeedsErase => some (ih.idx, .erase)
      | _ => none

def runRem (slotSize : Nat) : List (Nat × Rem) → M Unit
  | [] => pure ()
  | (i, .abort) :: rest => do
    writeExtAborted slotSize i
    runRem slotSize rest
  | (i, .erase) :: rest => do
    eraseSlot slotSize i
    runRem slotSize rest

def remediate (slotSize fIdx pIdx : Nat) (hs : List IH) : M Unit := runRem slotSize (remediateActs fIdx pIdx hs)

/-- the pure decision of `app_boot_status` on the ordered headers: the (firmware, parity) pair to resume -/
def appPair (hs : List IH) : Option (IH × Header × IH × Header) :=
  match getTwoNewest hs with
  | none => none
  | some (older, newer) =>
    match older.hdr, newer.hdr with
    | some f, some p =>
      if totalStatus f = .appWriteInProgress ∧ f.kind = Kind.firmware ∧
         totalStatus p = .appWriteInProgress ∧ p.kind = Kind.parity ∧ f.size = p.size
      then some (older, f, newer, p) else none
    | _, _ => none

/-- `app_boot_status`: `none` = Idle -/
def appBootStatus (nslots slotSize : Nat) : M (Option Act) := do
  let hs ← getOrderedHeaders nslots slotSize
  match getTwoNewest hs with
  | none => cancelAll slotSize hs; pure none
  | some (older, newer) =>
    match older.hdr, newer.hdr with
    | some f, some _ =>
      -- since the repair an implausible firmware header makes the pair not resumable (`fw_reasonable`)
      match (match reasonablySized slotSize f.size f.n with | .error _ => none | .ok () => appPair hs) with
      | none => cancelAll slotSize hs; pure none
      | some (fo, f, po, p) =>
        remediate slotSize fo.idx po.idx hs
        let fwMask ← tryCatch (some <$> loadStatus slotSize fo.idx f.n) (fun _ => pure none)
        match fwMask with
        | none => cancelAll slotSize hs; pure none
        | some fwMask =>
          let parMask ← tryCatch (some <$> loadStatus slotSize po.idx p.n) (fun _ => pure none)
          match parMask with
          | none => cancelAll slotSize hs; pure none
          | some parMask =>
            pure (some { slotSize := slotSize, segSize := f.size, fwIdx := fo.idx, parIdx := po.idx,
                         totalFw := f.n, remFw := f.n - countBits fwMask f.n,
                         totalPar := p.n, remPar := p.n - countBits parMask p.n })
    | _, _ => cancelAll slotSize hs; pure none

/-! ## `ActiveStatus` -/

/-- where an accepted fragment write goes -/
structure WPlan where
  slotIdx : Nat
  idx0 : Nat
  writtenAddr : Nat
  dataStart : Nat
  deriving Repr, DecidableEq

/-- the index decoding and range check at the head of `write_segment_internal` (`len` = `bytes.len()`) -/
def planWrite (cfg : Cfg) (a : Act) (idx1 len : Nat) : Except MErr WPlan :=
  if idx1 = 0 then .error (.spi .oob) else
  let isFw : Bool := decide (idx1 ≤ a.totalFw)
  if !isFw && !decide (idx1 ≤ (a.totalFw + a.totalPar) % 2 ^ 32) then .error (.spi .oob) else
  let slotIdx := if isFw then a.fwIdx else a.parIdx
  let idx0 := if isFw then idx1 - 1 else idx1 - 1 - a.totalFw
  let writtenInRange : Bool := decide (idx0 < WRITTEN_SIZE)
  let dataInRange : Bool :=
    if cfg.rangeCheckWithOffset then decide (DATA_REGION_OFFSET + (idx0 + 1) * a.segSize ≤ a.slotSize)
    else decide ((idx0 + 1) * a.segSize ≤ a.slotSize)
  if a.segSize ≠ len then .error .panic else
  if !(writtenInRange && dataInRange) then .error (.spi .oob) else
  let slotStart := slotIdx * a.slotSize
  .ok { slotIdx := slotIdx, idx0 := idx0, writtenAddr := slotStart + WRITTEN_OFFSET + idx0,
        dataStart := slotStart + DATA_REGION_OFFSET + idx0 * a.segSize }

abbrev MA := ExceptT MErr (StateM (Act × Dev))

def liftM {α : Type} (x : M α) : MA α := ExceptT.mk fun (s : Act × Dev) =>
  let (r, d') := x.run s.2
  (r, (s.1, d'))
def getA : MA Act := ExceptT.mk fun s => (.ok s.1, s)
def setA (a : Act) : MA Unit := ExceptT.mk fun s => (.ok (), (a, s.2))

/-- the two programs of an accepted, new fragment -/
def commitWrite (p : WPlan) (bytes : List Nat) : M Unit := do
  writeFrom p.dataStart bytes
  writeFrom p.writtenAddr [Consts.O_DATA_WRITTEN]

/-- `write_segment_internal`; `scratchLen` = length of `read_scratch` -/
def writeSegmentInternal (cfg : Cfg) (scratchLen idx1 : Nat) (bytes : List Nat) : MA WOutcome := do
  let a ← getA
  match planWrite cfg a idx1 bytes.length with
  | .error e => throw e
  | .ok p =>
    let st ← liftM (readTo p.writtenAddr 1)
    let st := st.getD 0 0xFF
    if st = Consts.O_DATA_WRITTEN then
      -- since the repair only the segment itself is read (`&mut read_scratch[..bytes.len()]`)
      if bytes.length > scratchLen then throw .panic
      let got ← liftM (readTo p.dataStart bytes.length)
      if got.take bytes.length = bytes then return .consumed else throw .panic
    if st ≠ Consts.O_DATA_NOT_WRITTEN then throw .panic
    liftM (commitWrite p bytes)
    let a := if p.slotIdx = a.fwIdx then { a with remFw := decU32 a.remFw } else { a with remPar := decU32 a.remPar }
    setA a
    pure (classify a.remFw a.remPar a.totalPar)

/-- `ActiveStatus::write_segment` -/
def writeSegment (cfg : Cfg) (idx1 : Nat) (bytes : List Nat) : MA WOutcome :=
  writeSegmentInternal cfg MAX_SEGMENT_SIZE idx1 bytes

def xorLoop (base seg row fwi : Nat) : List Nat → List Nat → M (List Nat)
  | [], acc => pure acc
  | i :: is, acc =>
    if i = fwi ∨ !row.testBit i then xorLoop base seg row fwi is acc
    else do
      let t ← readTo (base + i * seg) seg
      xorLoop base seg row fwi is (xorBytes acc t)

/-- `ActiveStatus::repair_step` up to (not including) the final write: the missing fragment index and the recovered
    bytes -/
def repairCompute (cfg : Cfg) : MA (Option (Nat × List Nat)) := do
  let a ← getA
  if a.remFw = 0 then return none
  if a.remPar = a.totalPar then return none
  if a.segSize > MAX_SEGMENT_SIZE then throw .panic
  let recvFw ← liftM (loadStatus a.slotSize a.fwIdx a.totalFw)
  let recvPar ← liftM (loadStatus a.slotSize a.parIdx a.totalPar)
  let rowOf := fun p => Lfdbt.getParityMatrixRowOrig cfg.ffr ((p + 1) % 2 ^ 32) a.totalFw
  match pickRepair rowOf recvFw recvPar a.totalFw (List.range a.totalPar) with
  | .error () => throw .panic
  | .ok none => return none
  | .ok (some (p, fwi, row)) =>
    let init ← liftM (readTo (a.parIdx * a.slotSize + DATA_REGION_OFFSET + p * a.segSize) a.segSize)
    let out ← liftM (xorLoop (a.fwIdx * a.slotSize + DATA_REGION_OFFSET) a.segSize row fwi (List.range a.totalFw) init)
    return some (fwi, out)

/-- `ActiveStatus::repair_step`: the recovered fragment goes through the normal write path -/
def repairStep (cfg : Cfg) : MA (Option Nat) := do
  match ← repairCompute cfg with
  | none => return none
  | some (fwi, out) =>
    let a ← getA
    let _ ← writeSegmentInternal cfg a.segSize ((fwi + 1) % 2 ^ 32) out
    return some fwi

/-- the caller's loop `while repair_step()?.is_some() {}` (what `naive.rs::handle_segment` inlines);
    returns the repaired fragment indices, newest first -/
def repairLoop (cfg : Cfg) : Nat → List Nat → MA (List Nat)
  | 0, acc => pure acc
  | fuel + 1, acc => do
    match ← repairStep cfg with
    | none => pure acc
    | some i => repairLoop cfg fuel (i :: acc)

/-- `write_segment` followed by the repair loop the way `flash-algo-new`'s `handle_segment` composes them:
    (raw outcome, repaired indices, complete) -/
def handleSegment (cfg : Cfg) (idx1 : Nat) (bytes : List Nat) : MA (WOutcome × List Nat × Bool) := do
  match ← writeSegment cfg idx1 bytes with
  | .consumed => pure (.consumed, [], false)
  | .complete => pure (.complete, [], true)
  | .maybeParity =>
    let a ← getA
    let rep ← repairLoop cfg (a.remFw + 1) []
    let a ← getA
    pure (.maybeParity, rep.reverse, a.remFw == 0)

/-- `check_crc_from_index` -/
def checkCrcFromIndex (segSizeOpt segsOpt : Option Nat) (slotStart : Nat) : M Unit := do
  match ← readHeaderAt slotStart with
  | none => throw .missingHeader
  | some hdr =>
    let pre ← readTo (slotStart + DATA_REGION_OFFSET) (Consts.CRC_SIZE + Consts.SIG_SIZE)
    let expected := Nor.le32 pre
    let segments ← match segsOpt with
      | some s => if s % 2 ^ 32 = hdr.n then pure s else throw MErr.countMismatch
      | none => pure hdr.n
    let segSize ← match segSizeOpt with
      | some s => if s % 2 ^ 32 = hdr.size then pure s else throw MErr.sizeMismatch
      | none => pure hdr.size
    if segments > MAX_SEGMENTS then throw .tooManySegments
    if segSize > MAX_SEGMENT_SIZE then throw .segmentsTooLarge
    let crc ← Updater.crcLoop (slotStart + DATA_REGION_OFFSET) segSize (List.range segments)
                (some (Consts.CRC_SIZE + Consts.SIG_SIZE)) 0
    if expected = Updater.crcFinal crc then pure () else throw .crcMismatch

/-- `ActiveStatus::check_and_mark_done` -/
def checkAndMarkDone (a : Act) : M Nat := do
  if a.remFw ≠ 0 then throw .checkNotDone
  checkCrcFromIndex (some a.segSize) (some a.totalFw) (a.fwIdx * a.slotSize)
  writeExtComplete a.slotSize a.fwIdx
  writeExtComplete a.slotSize a.parIdx
  pure a.fwIdx

/-- `validate_firmware_slot`: `(data_start, data_len)` -/
def validateFirmwareSlot (slotSize idx : Nat) : M (Nat × Nat) := do
  let start := idx * slotSize
  match ← readHeaderAt start with
  | none => throw (.spi .hw)
  | some h =>
    let good := h.kind = Kind.firmware ∧ h.ext = Ext.complete ∧ h.boot ≠ Boot.unsuccessful
    if !good then throw (.spi .hw)
    let r ← tryCatch (some <$> checkCrcFromIndex (some h.size) (some h.n) start) (fun _ => pure none)
    match r with
    | none => throw (.spi .hw)
    | some () => pure (start + DATA_PAYLOAD_OFFSET, h.size * h.n)

def Act.received (a : Act) : Nat := if a.totalFw > a.remFw then a.totalFw - a.remFw else 0

end Fuota.Orig
