import Fuota.Model.Fs
import Fuota.Model.Recon
import Fuota.Model.Lfdbt
/-!
# L2 model: the matrix updater (`flash-algo-new/src/update.rs`, `update/matrix.rs`, `manager/firmware.rs`)
with the reconstructor of `parity-reconstruct/src/lib.rs` running on the flash-backed stores.

Blocks are byte lists here (the L0 model `Fuota.Recon` uses numbers); bit arrays are `Nat` masks.
-/
namespace Fuota.Updater
open Fuota.Nor Fuota.Layout Fuota.Fs

/-! ## parity rows: `Fuota.Lfdbt` (the generator C10's theorems are about) -/

/-- `UpdaterMatrix::row` -/
def updaterRow (ffr : Bool) (n m : Nat) : Option Nat := Lfdbt.updaterRow ffr n m

/-! ## CRC-32/CKSUM (bitwise; init 0, poly 0x04C11DB7, xorout 0xFFFFFFFF, no reflection) -/
def crcBit (crc : Nat) : Nat :=
  if crc / 2147483648 % 2 = 1 then ((crc * 2) % 4294967296) ^^^ 0x04C11DB7 else (crc * 2) % 4294967296
def crcByte (crc b : Nat) : Nat :=
  let c := crc ^^^ (b * 16777216)
  crcBit (crcBit (crcBit (crcBit (crcBit (crcBit (crcBit (crcBit c)))))))
def crcUpdate (crc : Nat) (bs : List Nat) : Nat := bs.foldl crcByte crc
def crcFinal (crc : Nat) : Nat := crc ^^^ 0xFFFFFFFF

/-! ## firmware validation (`firmware.rs`) -/

/-- the segment loop of `crc_valid`: `skip` = `skip_remain` -/
def crcLoop (base segSize : Nat) : List Nat → Option Nat → Nat → M Nat
  | [], _, crc => pure crc
  | idx :: rest, skip, crc =>
    match skip with
    | some k =>
      if k ≥ segSize then crcLoop base segSize rest (some (k - segSize)) crc
      else do
        let buf ← readTo (base + idx * segSize) segSize
        crcLoop base segSize rest none (crcUpdate crc (buf.drop k))
    | none => do
      let buf ← readTo (base + idx * segSize) segSize
      crcLoop base segSize rest none (crcUpdate crc buf)

/-- `Slot::crc_valid` -/
def crcValid (s : Slot) (h : Header) : M Unit := do
  if h.n > MAX_SEGMENTS then throw .tooManySegments
  if h.size > MAX_SEGMENT_SIZE then throw .segmentsTooLarge
  let base := s.idx * s.size + DATA_REGION_OFFSET
  let pre ← readTo base (Consts.CRC_SIZE + Consts.SIG_SIZE)
  let expected := Nor.le32 pre
  let crc ← crcLoop base h.size (List.range h.n) (some (Consts.CRC_SIZE + Consts.SIG_SIZE)) 0
  if expected = crcFinal crc then pure () else throw .crcMismatch

/-- `Slot::is_valid_firmware` -/
def isValidFirmware (s : Slot) : M Unit := do
  match ← loadHeaderAt (s.idx * s.size) with
  | none => throw .missingHeader
  | some h =>
    if h.kind ≠ Kind.firmware then throw .checkNotFirmware
    if h.ext ≠ Ext.complete then throw .checkNotDone
    crcValid s h

/-! ## the updater -/

/-- `matrix_row_offset` -/
def rowOff (i : Nat) : Nat := (i / 8) * (i / 8 + 1) * 4 + (i % 8) * (i / 8 + 1)

structure Upd where
  fw : Slot
  par : Slot
  n : Nat
  l : Nat := 0
  bs : Nat
  done : Nat := 0
  used : Nat := 0
  maxL : Nat
  matrixOffset : Nat
  complete : Bool := false
  deriving Repr

def VBITS : Nat := 2048

def xorBytes : List Nat → List Nat → List Nat
  | a :: as, b :: bs => (a ^^^ b) :: xorBytes as bs
  | as, [] => as
  | [], _ => []

def bytesToNat : List Nat → Nat
  | [] => 0
  | b :: bs => b + 256 * bytesToNat bs

def natToBytes (v : Nat) : Nat → List Nat
  | 0 => []
  | k + 1 => v % 256 :: natToBytes (v / 256) k

/-- flip bit `m` of a byte list viewed as an `Lsb0` bit array -/
def flipBit (bs : List Nat) (m : Nat) : List Nat :=
  bs.zipIdx.map fun (b, i) => if i = m / 8 then b ^^^ 2 ^ (m % 8) else b

/-- `UpdaterMatrixStorage::set_row` -/
def mSetRow (u : Upd) (m row : Nat) : M Unit := do
  if ¬ m < u.maxL then throw .panic
  let size := m / 8 + 1
  if size > 256 then throw .panic
  let raw := natToBytes (row % 2 ^ (8 * size)) size
  u.par.writeRaw (u.matrixOffset + rowOff m) (flipBit raw m)

/-- `UpdaterMatrixStorage::row` -/
def mRow (u : Upd) (m : Nat) : M Nat := do
  if ¬ m < u.maxL then throw .panic
  let size := m / 8 + 1
  if size > 256 then throw .panic
  let raw ← u.par.readRaw (u.matrixOffset + rowOff m) size
  pure (bytesToNat (flipBit raw m))

def pStore (u : Upd) (m : Nat) (d : List Nat) : M Unit := do
  if ¬ m < u.maxL then throw .panic
  u.par.writeRaw (m * d.length) d

def pGet (u : Upd) (m len : Nat) : M (List Nat) := do
  if ¬ m < u.maxL then throw .panic
  u.par.readRaw (m * len) len

/-- `is_complete` of the reconstructor -/
def rcComplete (u : Upd) : Bool :=
  (u.l == 0 && (List.range u.n).all (fun i => u.done.testBit i)) ||
  (u.l != 0 && (List.range u.l).all (fun i => u.used.testBit i))

def strip (u : Upd) (row : Nat) : List Nat → List Nat → M (List Nat)
  | [], d => pure d
  | i :: is, d =>
    if row.testBit i && u.done.testBit i then do
      let t ← u.fw.readSegment i u.bs
      strip u row is (xorBytes d t)
    else strip u row is d

/-- elimination loop: returns the updated `used` mask -/
def elim (u : Upd) : Nat → Nat → List Nat → M Nat
  | 0, _, _ => pure u.used
  | wh + 1, row, data =>
    if row.testBit wh && u.used.testBit wh then do
      let t ← pGet u wh data.length
      let r ← mRow u wh
      elim u wh (row ^^^ r) (xorBytes data t)
    else if row.testBit wh then do
      pStore u wh data
      mSetRow u wh row
      pure (u.used ||| 2 ^ wh)
    else elim u wh row data

def finishInner (u : Upd) (U : List Nat) (r : Nat) : List Nat → List Nat → M (List Nat)
  | [], out => pure out
  | j :: js, out =>
    if r.testBit j then
      match U[j]? with
      | none => throw .panic
      | some f => do
        let t ← u.fw.readSegment f u.bs
        finishInner u U r js (xorBytes out t)
    else finishInner u U r js out

def finishOuter (U : List Nat) : List Nat → Upd → M Upd
  | [], u => pure u
  | i :: is, u => do
    let out ← pGet u i u.bs
    let r ← mRow u i
    let out ← finishInner u U r (List.range i) out
    match U[i]? with
    | none => throw .panic
    | some f =>
      let fw ← u.fw.writeSegment f out
      finishOuter U is { u with fw := fw }

inductive Outcome | consumed | complete deriving DecidableEq, Repr

/-- computations that also carry the in-memory updater: its mutations survive a failing flash call,
    as they do behind the `&mut self` of the Rust code -/
abbrev MU := ExceptT MErr (StateM (Upd × Dev))

def liftM {α : Type} (x : M α) : MU α := ExceptT.mk fun (s : Upd × Dev) =>
  let (r, d') := x.run s.2
  (r, (s.1, d'))

def getU : MU Upd := ExceptT.mk fun s => (.ok s.1, s)
def setU (u : Upd) : MU Unit := ExceptT.mk fun s => (.ok (), (u, s.2))

/-- `Reconstructor::handle_block` on the flash-backed stores; block result:
    `none` = TooManyMissing, `some false` = NeedMore, `some true` = Done. -/
def handleBlock (ffr : Bool) (index : Nat) (data : List Nat) : MU (Option Bool) := do
  let u ← getU
  if data.length ≠ u.bs then throw .panic
  if rcComplete u then return some true
  let l0 := (Recon.unknowns u.done u.n).length
  if u.n ≤ index ∧ u.l = 0 ∧ (VBITS < l0 ∨ u.maxL < l0) then return none
  let u := if u.n ≤ index ∧ u.l = 0 then { u with l := l0 } else u
  setU u
  if u.l = 0 then
    if u.done.testBit index then return some (rcComplete u)
    let fw ← liftM (u.fw.writeSegment index data)
    let u := { u with fw := fw, done := u.done ||| 2 ^ index }
    setU u
    return some (rcComplete u)
  else
    let row ← match updaterRow ffr u.n index with
      | none => throw MErr.panic
      | some r => pure r
    let d ← liftM (strip u row (List.range u.n) data)
    let used ← liftM (elim u u.l (Recon.project u.done u.n row) d)
    let u := { u with used := used }
    setU u
    if rcComplete u then
      let u' ← liftM (finishOuter (Recon.unknowns u.done u.n) (List.range u.l) u)
      setU u'
      return some true
    else return some false

/-- `Updater::handle_segment` -/
def handleSegment (ffr : Bool) (idx1 : Nat) (bytes : List Nat) : MU Outcome := do
  if idx1 = 0 then throw (.spi .oob)
  match ← handleBlock ffr (idx1 - 1) bytes with
  | some true =>
    let u ← getU
    setU { u with complete := true }
    pure .complete
  | _ => pure .consumed

/-- received counter (`received_firmware_segments`, clamped since the repair) -/
def popcount (m : Nat) : Nat → Nat
  | 0 => 0
  | k + 1 => popcount m k + (if m.testBit k then 1 else 0)

def Upd.received (u : Upd) : Nat := min (popcount u.done MAX_SEGMENTS + popcount u.used VBITS) u.n

/-- `is_reasonably_sized` -/
def reasonablySized (slotSize segsz nseg : Nat) : Except MErr Unit :=
  if segsz = 0 ∨ segsz > MAX_SEGMENT_SIZE then .error .segmentsTooLarge
  else if nseg = 0 ∨ nseg > MAX_SEGMENTS then .error .tooManySegments
  else if satMulU32 segsz nseg > slotSize - DATA_REGION_OFFSET then .error .tooManySegments
  else .ok ()

/-- the binary search of `start_update` (11 halvings of [0, 2048)) -/
def capacitySearch (room segsz : Nat) : Nat → Nat → Nat → Nat
  | 0, low, _ => low
  | fuel + 1, low, high =>
    if high - low > 1 then
      let mid := (high + low) / 2
      if rowOff mid + mid * segsz > room then capacitySearch room segsz fuel low mid
      else capacitySearch room segsz fuel mid high
    else low

def capacity (slotSize segsz : Nat) : Nat := capacitySearch (slotSize - DATA_REGION_OFFSET) segsz 12 0 2048

/-- `start_update` -/
def startUpdate (nslots slotSize segsz nseg : Nat) : M Upd := do
  match reasonablySized slotSize segsz nseg with
  | .error e => throw e
  | .ok () => pure ()
  let maxL := capacity slotSize segsz
  let (fw, par) ← allocSlotpair nslots slotSize
  fw.setKind .firmware
  let fw ← fw.setLayout nseg segsz
  par.setKind .parity
  let par ← par.setLayout maxL segsz
  pure { fw := fw, par := par, n := nseg, bs := segsz, maxL := maxL, matrixOffset := maxL * segsz }

/-- `check_and_mark_done` -/
def checkAndMarkDone (u : Upd) : M Nat := do
  if !u.complete then throw .checkNotDone
  match ← loadHeaderAt (u.fw.idx * u.fw.size) with
  | none => throw .missingHeader
  | some h =>
    crcValid u.fw h
    u.fw.markExtComplete
    u.par.markExtComplete
    pure u.fw.idx

/-- the two newest headers, as `try_recover_inner` selects them -/
def twoNewest (ih : List (Nat × Header)) : Option (Nat × Header) × Option (Nat × Header) :=
  ih.foldl (fun (acc : Option (Nat × Header) × Option (Nat × Header)) p =>
    match acc.1 with
    | none => (some p, acc.2)
    | some nw =>
      if nw.2.seq < p.2.seq then (some p, some nw)
      else match acc.2 with
        | none => (acc.1, some p)
        | some sn => if sn.2.seq < p.2.seq then (acc.1, some p) else acc) (none, none)

/-- remediation, first pass: abort every other slot that reads as in progress -/
def remediateAbort (slotSize : Nat) (skipA skipB : Nat) : List (Nat × Header) → M Unit
  | [] => pure ()
  | (i, h) :: rest => do
    if i = skipA ∨ i = skipB then remediateAbort slotSize skipA skipB rest else
    let s : Slot := { idx := i, size := slotSize }
    match totalStatus h with
    | .appWriteInProgress => s.markExtAborted
    | _ => pure ()
    remediateAbort slotSize skipA skipB rest

/-- remediation, second pass: erase every other slot with an interrupted bootloader copy or an invalid status -/
def remediateErase (slotSize : Nat) (skipA skipB : Nat) : List (Nat × Header) → M Unit
  | [] => pure ()
  | (i, h) :: rest => do
    if i = skipA ∨ i = skipB then remediateErase slotSize skipA skipB rest else
    let s : Slot := { idx := i, size := slotSize }
    match totalStatus h with
    | .bootloadWriteInProgress | .invalidNeedsErase => s.clear
    | _ => pure ()
    remediateErase slotSize skipA skipB rest

/-- the remediation of `try_recover_inner` (two passes since the repair: aborts before erases) -/
def remediate (slotSize : Nat) (skipA skipB : Nat) (ih : List (Nat × Header)) : M Unit := do
  remediateAbort slotSize skipA skipB ih
  remediateErase slotSize skipA skipB ih

def loadUsed (par : Slot) (matrixOffset : Nat) : List Nat → Nat → M Nat
  | [], used => pure used
  | i :: is, used => do
    let b ← par.readRaw (matrixOffset + rowOff i + i / 8) 1
    loadUsed par matrixOffset is (if b.getD 0 0xFF ≠ 0xFF then used ||| 2 ^ i else used)

/-- `try_recover_inner` -/
def tryRecoverInner (nslots slotSize : Nat) : M (Option Upd) := do
  let hs ← loadHeaders nslots slotSize
  let ih := indexed hs
  match twoNewest ih with
  | (some nw, some sn) =>
    if totalStatus nw.2 ≠ TotalStatus.appWriteInProgress then return none
    if nw.2.kind ≠ Kind.parity then return none
    if totalStatus sn.2 ≠ TotalStatus.appWriteInProgress then return none
    if sn.2.kind ≠ Kind.firmware then return none
    if nw.2.size ≠ sn.2.size then return none
    if nw.2.n > VBITS then return none
    match reasonablySized slotSize sn.2.size sn.2.n with
    | .error _ => return none
    | .ok () => pure ()
    remediate slotSize nw.1 sn.1 ih
    let fw : Slot := { idx := sn.1, size := slotSize }
    let par : Slot := { idx := nw.1, size := slotSize }
    let n := sn.2.n
    let bs := sn.2.size
    let maxL := nw.2.n
    let matrixOffset := maxL * bs
    let done ← fw.loadStatusArray MAX_SEGMENT_SIZE
    let used ← loadUsed par matrixOffset (List.range maxL) 0
    let cnt := popcount done MAX_SEGMENTS
    if used ≠ 0 ∧ n < cnt then throw .panic
    let l := if used ≠ 0 then n - cnt else 0
    if l > maxL then return none
    return some { fw := fw, par := par, n := n, l := l, bs := bs, done := done, used := used, maxL := maxL,
                  matrixOffset := matrixOffset, complete := cnt == n }
  | _ => return none

def cancelFrom (slotSize : Nat) : List (Nat × Header) → M Unit
  | [] => pure ()
  | (i, h) :: rest => do
    if h.ext = Ext.inProgress then
      let s : Slot := { idx := i, size := slotSize }
      s.markExtAborted
    cancelFrom slotSize rest

/-- `cancel_all_ext_pending` -/
def cancelAll (nslots slotSize : Nat) : M Unit := do
  let hs ← loadHeaders nslots slotSize
  cancelFrom slotSize (indexed hs)

/-- `try_recover` -/
def tryRecover (nslots slotSize : Nat) : M (Option Upd) := do
  let r ← tryRecoverInner nslots slotSize
  if r.isNone then cancelAll nslots slotSize
  pure r

def blBootStatus (nslots slotSize : Nat) : M (Option (Sum Nat Nat)) := do
  let hs ← loadHeaders nslots slotSize
  pure (blStatus hs)

def fallbackFirmware (nslots slotSize : Nat) : M (Option Nat) := do
  let hs ← loadHeaders nslots slotSize
  pure (fallbackSlot hs)

end Fuota.Updater
