import Fuota.Generated.Consts
/-!
# Model of the slot-header codec (`flash-algo-new/src/manager/layout.rs`, `original-flash-algo/src/protocol.rs`)

Bytes and words are `Nat`; a byte string is a `List Nat`. The codec is parametric in the table of
code values (`Codec`), instantiated from the *generated* constants for both crates.
-/
namespace Fuota.Layout

structure Codec where
  kindFirmware : Nat
  kindParity : Nat
  extInProgress : Nat
  extAborted : Nat
  extComplete : Nat
  intInProgress : Nat
  intComplete : Nat
  bootUntested : Nat
  bootSuccessful : Nat
  bootUnsuccessful : Nat
  seqInvalid : Nat
  maxSegments : Nat
  maxSegmentSize : Nat
  deriving DecidableEq, Repr

/-- the new crate's codec, from the generated constants -/
def Codec.new : Codec :=
  { kindFirmware := Consts.KIND_FIRMWARE, kindParity := Consts.KIND_PARITY,
    extInProgress := Consts.EXT_IN_PROGRESS, extAborted := Consts.EXT_ABORTED, extComplete := Consts.EXT_COMPLETE,
    intInProgress := Consts.INT_IN_PROGRESS, intComplete := Consts.INT_COMPLETE,
    bootUntested := Consts.BOOT_UNTESTED, bootSuccessful := Consts.BOOT_SUCCESSFUL,
    bootUnsuccessful := Consts.BOOT_UNSUCCESSFUL, seqInvalid := Consts.SEQ_INVALID,
    maxSegments := Consts.MAX_SEGMENTS, maxSegmentSize := Consts.MAX_SEGMENT_SIZE }

/-- the deprecated crate's codec -/
def Codec.orig : Codec :=
  { kindFirmware := Consts.O_KIND_FIRMWARE, kindParity := Consts.O_KIND_PARITY,
    extInProgress := Consts.O_EXT_IN_PROGRESS, extAborted := Consts.O_EXT_ABORTED, extComplete := Consts.O_EXT_COMPLETE,
    intInProgress := Consts.O_INT_IN_PROGRESS, intComplete := Consts.O_INT_COMPLETE,
    bootUntested := Consts.O_BOOT_UNTESTED, bootSuccessful := Consts.O_BOOT_SUCCESSFUL,
    bootUnsuccessful := Consts.O_BOOT_UNSUCCESSFUL, seqInvalid := Consts.O_SEQ_INVALID,
    maxSegments := Consts.O_MAX_SEGMENTS, maxSegmentSize := Consts.O_MAX_SEGMENT_SIZE }

/-- the values deployed bootloaders read (property C11 pins them) -/
def Codec.pinned : Codec :=
  { kindFirmware := 0, kindParity := 1,
    extInProgress := 0xFFFFFFFF, extAborted := 0xAAAAAAAA, extComplete := 0x44444444,
    intInProgress := 0xFFFFFFFF, intComplete := 0x11111111,
    bootUntested := 0xFFFFFFFF, bootSuccessful := 0xABCD1234, bootUnsuccessful := 0xCDEF7890,
    seqInvalid := 0xFFFFFFFF, maxSegments := 16384, maxSegmentSize := 256 }

inductive Kind | firmware | parity deriving DecidableEq, Repr
inductive Ext | inProgress | aborted | complete deriving DecidableEq, Repr
inductive IntSt | inProgress | complete deriving DecidableEq, Repr
inductive Boot | untested | successful | unsuccessful deriving DecidableEq, Repr

structure Header where
  kind : Kind
  seq : Nat
  size : Nat
  n : Nat
  ext : Ext
  ist : IntSt
  boot : Boot
  deriving DecidableEq, Repr

def le32 (b0 b1 b2 b3 : Nat) : Nat := b0 + 256 * b1 + 65536 * b2 + 16777216 * b3

/-- `try_take_u32` -/
def takeU32 : List Nat → Option (Nat × List Nat)
  | b0 :: b1 :: b2 :: b3 :: rest => some (le32 b0 b1 b2 b3, rest)
  | _ => none

/-- `u32::to_le_bytes` -/
def writeU32 (v : Nat) : List Nat := [v % 256, v / 256 % 256, v / 65536 % 256, v / 16777216 % 256]

def parseKind (c : Codec) (w : Nat) : Option Kind :=
  if w = c.kindFirmware then some .firmware else if w = c.kindParity then some .parity else none
def parseSeq (c : Codec) (w : Nat) : Option Nat := if w = c.seqInvalid then none else some w
def parseSize (c : Codec) (w : Nat) : Option Nat := if 0 < w ∧ w ≤ c.maxSegmentSize then some w else none
def parseNseg (c : Codec) (w : Nat) : Option Nat := if 0 < w ∧ w ≤ c.maxSegments then some w else none
def parseExt (c : Codec) (w : Nat) : Option Ext :=
  if w = c.extInProgress then some .inProgress else if w = c.extAborted then some .aborted
  else if w = c.extComplete then some .complete else none
def parseInt (c : Codec) (w : Nat) : Option IntSt :=
  if w = c.intInProgress then some .inProgress else if w = c.intComplete then some .complete else none
def parseBoot (c : Codec) (w : Nat) : Option Boot :=
  if w = c.bootUntested then some .untested else if w = c.bootSuccessful then some .successful
  else if w = c.bootUnsuccessful then some .unsuccessful else none

def encKind (c : Codec) : Kind → Nat | .firmware => c.kindFirmware | .parity => c.kindParity
def encExt (c : Codec) : Ext → Nat
  | .inProgress => c.extInProgress | .aborted => c.extAborted | .complete => c.extComplete
def encInt (c : Codec) : IntSt → Nat | .inProgress => c.intInProgress | .complete => c.intComplete
def encBoot (c : Codec) : Boot → Nat
  | .untested => c.bootUntested | .successful => c.bootSuccessful | .unsuccessful => c.bootUnsuccessful

/-- `SlotHeader::take_from_bytes`: the seven fields in order, the first failure aborts -/
def parseHeader (c : Codec) (bs : List Nat) : Option (Header × List Nat) := do
  let (w0, r0) ← takeU32 bs
  let kind ← parseKind c w0
  let (w1, r1) ← takeU32 r0
  let seq ← parseSeq c w1
  let (w2, r2) ← takeU32 r1
  let size ← parseSize c w2
  let (w3, r3) ← takeU32 r2
  let n ← parseNseg c w3
  let (w4, r4) ← takeU32 r3
  let ext ← parseExt c w4
  let (w5, r5) ← takeU32 r4
  let ist ← parseInt c w5
  let (w6, r6) ← takeU32 r5
  let boot ← parseBoot c w6
  pure ({ kind, seq, size, n, ext, ist, boot }, r6)

/-- the seven little-endian words at the start of a byte string -/
def words7 (bs : List Nat) : Option ((Nat × Nat × Nat × Nat × Nat × Nat × Nat) × List Nat) := do
  let (w0, r0) ← takeU32 bs
  let (w1, r1) ← takeU32 r0
  let (w2, r2) ← takeU32 r1
  let (w3, r3) ← takeU32 r2
  let (w4, r4) ← takeU32 r3
  let (w5, r5) ← takeU32 r4
  let (w6, r6) ← takeU32 r5
  pure ((w0, w1, w2, w3, w4, w5, w6), r6)

/-- `SlotHeader::write_to_bytes` (28 bytes) -/
def encodeHeader (c : Codec) (h : Header) : List Nat :=
  writeU32 (encKind c h.kind) ++ writeU32 h.seq ++ writeU32 h.size ++ writeU32 h.n ++
  writeU32 (encExt c h.ext) ++ writeU32 (encInt c h.ist) ++ writeU32 (encBoot c h.boot)

inductive TotalStatus
  | blankSlot | appWriteInProgress | appWriteAborted | bootloadWriteInProgress
  | firstBootPendingAck | confirmedImage | rejectedImage | invalidNeedsErase
  deriving DecidableEq, Repr

/-- `total_status` -/
def totalStatus (h : Header) : TotalStatus :=
  let valid := h.seq != 0xFFFFFFFF
  match valid, h.ext, h.ist, h.boot with
  | false, .inProgress, .inProgress, .untested => .blankSlot
  | true, .inProgress, .inProgress, .untested => .appWriteInProgress
  | true, .aborted, .inProgress, .untested => .appWriteAborted
  | true, .complete, .inProgress, .untested => .bootloadWriteInProgress
  | true, .complete, .complete, .untested => .firstBootPendingAck
  | true, .complete, .complete, .successful => .confirmedImage
  | true, .complete, .complete, .unsuccessful => .rejectedImage
  | _, _, _, _ => .invalidNeedsErase

def TotalStatus.name : TotalStatus → String
  | .blankSlot => "BlankSlot" | .appWriteInProgress => "AppWriteInProgress"
  | .appWriteAborted => "AppWriteAborted" | .bootloadWriteInProgress => "BootloadWriteInProgress"
  | .firstBootPendingAck => "FirstBootPendingAck" | .confirmedImage => "ConfirmedImage"
  | .rejectedImage => "RejectedImage" | .invalidNeedsErase => "InvalidNeedsErase"

/-- `SequenceNumber::next` (new crate): skips the reserved value; `u32` addition cannot overflow here
    because a parsed sequence number is never `0xFFFFFFFF`. -/
def seqNext (s : Nat) : Nat := if s + 1 = 0xFFFFFFFF then 0 else s + 1

/-- explicit legality predicate on the seven little-endian words of a header -/
def LegalWords (c : Codec) (w0 w1 w2 w3 w4 w5 w6 : Nat) : Prop :=
  (w0 = c.kindFirmware ∨ w0 = c.kindParity) ∧ w1 ≠ c.seqInvalid ∧
  (0 < w2 ∧ w2 ≤ c.maxSegmentSize) ∧ (0 < w3 ∧ w3 ≤ c.maxSegments) ∧
  (w4 = c.extInProgress ∨ w4 = c.extAborted ∨ w4 = c.extComplete) ∧
  (w5 = c.intInProgress ∨ w5 = c.intComplete) ∧
  (w6 = c.bootUntested ∨ w6 = c.bootSuccessful ∨ w6 = c.bootUnsuccessful)

/-- a header the codec can represent -/
def Header.WF (c : Codec) (h : Header) : Prop :=
  h.seq < 2 ^ 32 ∧ h.seq ≠ c.seqInvalid ∧ 0 < h.size ∧ h.size ≤ c.maxSegmentSize ∧ 0 < h.n ∧ h.n ≤ c.maxSegments

instance (c : Codec) (h : Header) : Decidable (h.WF c) := by unfold Header.WF; infer_instance

end Fuota.Layout
