/-! Text helpers of the line protocol (no proofs depend on this file). -/
namespace Fuota.Hex

def hexDigit (n : Nat) : Char := if n < 10 then Char.ofNat (48 + n) else Char.ofNat (87 + n)

def byteHex (b : Nat) : String := String.ofList [hexDigit (b / 16 % 16), hexDigit (b % 16)]

/-- lower-case hex of a byte list; the empty list is written `-` -/
def toHex (bs : List Nat) : String :=
  if bs.isEmpty then "-" else String.join (bs.map byteHex)

def digitVal (c : Char) : Nat :=
  let n := c.toNat
  if 48 ≤ n ∧ n ≤ 57 then n - 48 else if 97 ≤ n ∧ n ≤ 102 then n - 87 else if 65 ≤ n ∧ n ≤ 70 then n - 55 else 0

def fromHexAux : List Char → List Nat
  | a :: b :: rest => (digitVal a * 16 + digitVal b) :: fromHexAux rest
  | _ => []

def fromHex (s : String) : List Nat := if s = "-" then [] else fromHexAux s.toList

/-- FNV-1a 64 digest (same function as the harness); machine words, this is only a digest for comparing outputs -/
def fnv (bs : List Nat) : Nat :=
  (bs.foldl (fun (h : UInt64) b => (h ^^^ b.toUInt64) * 0x100000001b3) 0xcbf29ce484222325).toNat

/-- FNV-1a 64 over `mem[a .. a+len)` without building a list -/
def fnvArray (mem : Array Nat) (a len : Nat) : Nat :=
  let rec go (i : Nat) (fuel : Nat) (h : UInt64) : UInt64 :=
    match fuel with
    | 0 => h
    | f + 1 => go (i + 1) f ((h ^^^ (mem.getD i 0xFF).toUInt64) * 0x100000001b3)
  (go a len 0xcbf29ce484222325).toNat

end Fuota.Hex
