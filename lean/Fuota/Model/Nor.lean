/-!
# NOR flash model

A device is an array of bytes (`Nat < 256`) and an erase-block size. Programming is bitwise AND, erasing sets a
whole block to `0xFF`, reads return what is stored. Out-of-range accesses are errors (as in the harness' simulator).
Every mutating operation is also recorded as an `Op`, so that crash semantics can be *defined* on operation logs:
"power lost before mutating op k" = apply the first k ops; a torn program = `tear`.
-/
namespace Fuota.Nor

structure Flash where
  mem : Array Nat
  block : Nat
  deriving Repr

inductive Op
  | erase (addr : Nat)
  | program (addr : Nat) (bytes : List Nat)
  deriving DecidableEq, Repr

def Flash.size (f : Flash) : Nat := f.mem.size

def Flash.blank (block total : Nat) : Flash := { mem := Array.replicate total 0xFF, block := block }

/-- byte at address `a` (0xFF outside the device; callers check bounds first) -/
def Flash.byte (f : Flash) (a : Nat) : Nat := f.mem.getD a 0xFF

def Flash.read (f : Flash) (a len : Nat) : List Nat := (List.range len).map (fun i => f.byte (a + i))

/-- `read_to`: `none` = OutOfBounds -/
def Flash.readChecked (f : Flash) (a len : Nat) : Option (List Nat) :=
  if a + len ≤ f.size then some (f.read a len) else none

def programBytes (mem : Array Nat) (a : Nat) : List Nat → Array Nat
  | [] => mem
  | b :: bs => programBytes (mem.setIfInBounds a (mem.getD a 0xFF &&& b)) (a + 1) bs

def fillFF (mem : Array Nat) (a : Nat) : Nat → Array Nat
  | 0 => mem
  | k + 1 => fillFF (mem.setIfInBounds a 0xFF) (a + 1) k

/-- effect of one mutating operation (total; bounds are checked by the callers that issue it) -/
def Flash.apply (f : Flash) : Op → Flash
  | .erase a => { f with mem := fillFF f.mem a f.block }
  | .program a bs => { f with mem := programBytes f.mem a bs }

def Flash.applyAll (f : Flash) (ops : List Op) : Flash := ops.foldl Flash.apply f

/-- `write_from` legality: inside the device -/
def Flash.canProgram (f : Flash) (a len : Nat) : Bool := a + len ≤ f.size

/-- `erase_block` legality: aligned and inside the device -/
def Flash.canErase (f : Flash) (a : Nat) : Bool := a % f.block == 0 && a + f.block ≤ f.size

/-- torn program: bytes `< p` fully programmed, byte `p` programmed with `b ||| keep` (the bits of `keep` are
    not yet cleared), later bytes untouched -/
def tear (p keep : Nat) : Op → Op
  | .erase a => .erase a
  | .program a bs => .program a ((bs.take p) ++ (match bs[p]? with | some b => [b ||| keep] | none => []))

/-- does programming `bs` at `a` need a 0 → 1 transition somewhere? -/
def Flash.needsSet (f : Flash) (a : Nat) (bs : List Nat) : Bool :=
  (List.range bs.length).any (fun i => (f.byte (a + i) &&& bs.getD i 0) != bs.getD i 0)

def le32 (bs : List Nat) : Nat :=
  bs.getD 0 0 + 256 * bs.getD 1 0 + 65536 * bs.getD 2 0 + 16777216 * bs.getD 3 0

end Fuota.Nor
