import Fuota.Model.Fs
import Fuota.Model.Updater
import Fuota.Model.Lfdbt
/-!
# L2 model: the single-erasure ("V1") updater of `flash-algo-new` built without `matrixreconstructor`
(`flash-algo-new/src/update/naive.rs`, with the accessors of `manager/fs.rs` and the shared `update.rs`).

The first part (`Fuota.V1`) is the pure core that `naive.rs::repair_step` and
`original-flash-algo/src/manager.rs::repair_step` share textually: the scan of the received coded fragments for
one that covers exactly one missing data fragment.  Both models call it, and the theorems of C19 are about it.

The code is transcribed AS IT IS.  The one questionable spot of `start_update` is a parameter of the model
(`Cfg.clampParity`): the pinned code does not clamp the parity-fragment count to `MAX_SEGMENTS`.
-/
namespace Fuota.V1

/-- LAYER 2 of `repair_step`: scan the data-fragment indices of `is`; `m` = the one missing covered fragment seen so
    far.  Result: `none` = a second one was found (`continue 'parity`), `some m` = scan finished. -/
def scanMissing (row recv : Nat) : List Nat → Option Nat → Option (Option Nat)
  | [], m => some m
  | i :: is, m =>
    if row.testBit i && !recv.testBit i then
      match m with
      | none => scanMissing row recv is (some i)
      | some _ => none
    else scanMissing row recv is m

/-- the single missing fragment a received coded fragment with coefficient row `row` can repair (`planLen` =
    length of the zipped iterator `mask.take(total).zip(received)`) -/
def exactlyOne (row recv planLen : Nat) : Option Nat :=
  match scanMissing row recv (List.range planLen) none with
  | some (some i) => some i
  | _ => none

/-- LAYER 1 of `repair_step`: the first received coded fragment (0-based `parity_i`, in index order) whose row covers
    exactly one missing data fragment.  `rowOf parity_i` = `get_parity_matrix_row(parity_i + 1, total, …)`;
    `none` from `rowOf` is a failed `assert!` of the generator (a panic).
    Result: `(parity_i, fwi, row)`. -/
def pickRepair (rowOf : Nat → Option Nat) (recvFw recvPar planLen : Nat) :
    List Nat → Except Unit (Option (Nat × Nat × Nat))
  | [] => .ok none
  | p :: ps =>
    if recvPar.testBit p then
      match rowOf p with
      | none => .error ()
      | some row =>
        match exactlyOne row recvFw planLen with
        | some fwi => .ok (some (p, fwi, row))
        | none => pickRepair rowOf recvFw recvPar planLen ps
    else pickRepair rowOf recvFw recvPar planLen ps

/-- `a[i] ^= b[i]` over the zipped buffers -/
def xorBytes : List Nat → List Nat → List Nat
  | a :: as, b :: bs => (a ^^^ b) :: xorBytes as bs
  | as, [] => as
  | [], _ => []

/-- outcome classification at the end of `write_segment_internal` (both crates) -/
inductive WOutcome | consumed | maybeParity | complete
  deriving DecidableEq, Repr

def classify (remFw remPar totalPar : Nat) : WOutcome :=
  if remFw = 0 then .complete else if remPar = totalPar then .consumed else .maybeParity

/-- `x -= 1` on a `u32` in a release build -/
def decU32 (x : Nat) : Nat := (x + 2 ^ 32 - 1) % 2 ^ 32

/-- number of set bits among the first `k` -/
def countBits (m : Nat) : Nat → Nat
  | 0 => 0
  | k + 1 => countBits m k + (if m.testBit k then 1 else 0)

end Fuota.V1

namespace Fuota.Naive
open Fuota.Nor Fuota.Layout Fuota.Fs Fuota.V1

structure Cfg where
  /-- feature `force-full-r` -/
  ffr : Bool := false
  /-- `false` = the pinned code: `parity_segments = (slot_size - DATA_REGION_OFFSET) / segment_size`, unclamped.
      `true` = clamped to `MAX_SEGMENTS` (the header field cannot represent more). -/
  clampParity : Bool := false
  deriving Repr

/-- `ScratchRam::PARITY_TEMP_LEN` -/
def PARITY_TEMP_LEN : Nat := 128

structure Upd where
  fw : Slot
  totalFw : Nat
  remFw : Nat
  par : Slot
  totalPar : Nat
  remPar : Nat
  deriving Repr

inductive Outcome | consumed | complete deriving DecidableEq, Repr

/-- computations that also carry the in-memory updater (`&mut self`) -/
abbrev MU := ExceptT MErr (StateM (Upd × Dev))

def liftM {α : Type} (x : M α) : MU α := ExceptT.mk fun (s : Upd × Dev) =>
  let (r, d') := x.run s.2
  (r, (s.1, d'))

def getU : MU Upd := ExceptT.mk fun s => (.ok s.1, s)
def setU (u : Upd) : MU Unit := ExceptT.mk fun s => (.ok (), (u, s.2))

/-- `Slot::segment_status` (only compiled without `matrixreconstructor`) -/
def segmentStatus (s : Slot) (idx : Nat) : M Nat := do
  if idx > MAX_SEGMENTS then throw (.spi .oob)
  let off := WRITTEN_OFFSET + idx
  if off > s.size then throw (.spi .oob)
  let bs ← readTo (s.idx * s.size + off) 1
  pure (bs.getD 0 0xFF)

/-- `Slot::load_status_array`: the `received` mask and the length of the returned iterator (the segment count
    the *header on flash* announces, 0 when that field does not parse) -/
def loadStatus (s : Slot) : M (Nat × Nat) := do
  let n ← s.numSegments
  let start := s.idx * s.size + WRITTEN_OFFSET
  let mask ← fillBitcache start PARITY_TEMP_LEN (n + 1) start n 0
  pure (mask, n)

/-- `write_segment_internal`; `scratchLen` = length of `read_scratch` (256 from `handle_segment`, the segment size
    from `repair_step`).

    Modelling limit (outside C19's quantifier): when a duplicate is *longer* than the bytes `read_segment` returned,
    the Rust comparison also looks at stale scratch bytes; the model treats that as the panic of `assert_eq!`. -/
def writeSegmentInternal (scratchLen idx1 : Nat) (bytes : List Nat) : MU WOutcome := do
  let u ← getU
  if idx1 = 0 then throw (.spi .oob)
  let isFw : Bool := decide (idx1 ≤ u.totalFw)
  if !isFw && !decide (idx1 ≤ (u.totalFw + u.totalPar) % 2 ^ 32) then throw (.spi .oob)
  let slot := if isFw then u.fw else u.par
  let idx0 := if isFw then idx1 - 1 else idx1 - 1 - u.totalFw
  let st ← liftM (segmentStatus slot idx0)
  if st = Consts.DATA_WRITTEN then
    let got ← liftM (slot.readSegment idx0 scratchLen)
    if bytes.length > scratchLen then throw .panic
    if got.length < bytes.length then throw .panic
    if got.take bytes.length = bytes then return .consumed else throw .panic
  if st ≠ Consts.DATA_NOT_WRITTEN then throw .panic
  let slot' ← liftM (slot.writeSegment idx0 bytes)
  let u := if isFw then { u with fw := slot', remFw := decU32 u.remFw }
           else { u with par := slot', remPar := decU32 u.remPar }
  setU u
  pure (classify u.remFw u.remPar u.totalPar)

/-- the XOR loop of `repair_step`: every relevant data fragment except the missing one is read and folded in -/
def xorLoop (fw : Slot) (row fwi seg : Nat) : List Nat → List Nat → M (List Nat)
  | [], acc => pure acc
  | i :: is, acc =>
    if i = fwi ∨ !row.testBit i then xorLoop fw row fwi seg is acc
    else do
      let t ← fw.readSegment i seg
      xorLoop fw row fwi seg is (xorBytes acc t)

/-- `Updater::repair_step` up to (not including) the final write: the missing fragment index, the segment size and
    the recovered bytes -/
def repairCompute (cfg : Cfg) : MU (Option (Nat × Nat × List Nat)) := do
  let u ← getU
  if u.remFw = 0 then return none
  if u.remPar = u.totalPar then return none
  let seg ← liftM u.fw.segmentSize
  if seg > MAX_SEGMENT_SIZE then throw .panic
  let (recvFw, lenFw) ← liftM (loadStatus u.fw)
  let (recvPar, lenPar) ← liftM (loadStatus u.par)
  let rowOf := fun p => Lfdbt.getParityMatrixRow cfg.ffr ((p + 1) % 2 ^ 32) u.totalFw
  match pickRepair rowOf recvFw recvPar (min u.totalFw lenFw) (List.range lenPar) with
  | .error () => throw .panic
  | .ok none => return none
  | .ok (some (p, fwi, row)) =>
    let init ← liftM (u.par.readSegment p seg)
    let out ← liftM (xorLoop u.fw row fwi seg (List.range u.totalFw) init)
    return some (fwi, seg, out)

/-- `Updater::repair_step`: the recovered fragment goes through the normal write path -/
def repairStep (cfg : Cfg) : MU (Option Nat) := do
  match ← repairCompute cfg with
  | none => return none
  | some (fwi, seg, out) =>
    let _ ← writeSegmentInternal seg ((fwi + 1) % 2 ^ 32) out
    return some fwi

/-- `while self.repair_step(..)?.is_some() {}`; every successful step consumes one missing fragment -/
def repairLoop (cfg : Cfg) : Nat → MU Unit
  | 0 => pure ()
  | fuel + 1 => do
    match ← repairStep cfg with
    | none => pure ()
    | some _ => repairLoop cfg fuel

/-- `Updater::handle_segment` -/
def handleSegment (cfg : Cfg) (idx1 : Nat) (bytes : List Nat) : MU Outcome := do
  match ← writeSegmentInternal MAX_SEGMENT_SIZE idx1 bytes with
  | .consumed => pure .consumed
  | .complete => pure .complete
  | .maybeParity =>
    let u ← getU
    repairLoop cfg (u.remFw + 1)
    let u ← getU
    pure (if u.remFw = 0 then .complete else .consumed)

/-- `check_and_mark_done` -/
def checkAndMarkDone (u : Upd) : M Nat := do
  if u.remFw ≠ 0 then throw .checkNotDone
  match ← loadHeaderAt (u.fw.idx * u.fw.size) with
  | none => throw .missingHeader
  | some h =>
    Updater.crcValid u.fw h
    u.fw.markExtComplete
    u.par.markExtComplete
    pure u.fw.idx

def Upd.received (u : Upd) : Nat := if u.totalFw > u.remFw then u.totalFw - u.remFw else 0
def Upd.complete (u : Upd) : Bool := u.remFw == 0

/-- the parity-fragment count `start_update` announces -/
def parityCount (cfg : Cfg) (slotSize segsz : Nat) : Nat :=
  let raw := ((slotSize - DATA_REGION_OFFSET) % 2 ^ 32) / segsz
  if cfg.clampParity then min raw MAX_SEGMENTS else raw

/-- `SlotManager::start_update` (naive) -/
def startUpdate (cfg : Cfg) (nslots slotSize segsz nseg : Nat) : M Upd := do
  match Updater.reasonablySized slotSize segsz nseg with
  | .error e => throw e
  | .ok () => pure ()
  let paritySegments := parityCount cfg slotSize segsz
  let (fw, par) ← allocSlotpair nslots slotSize
  fw.setKind .firmware
  let fw ← fw.setLayout nseg segsz
  par.setKind .parity
  let par ← par.setLayout paritySegments segsz
  pure { fw := fw, totalFw := nseg, remFw := nseg, par := par, totalPar := paritySegments, remPar := paritySegments }

/-- `try_recover_inner` (naive) -/
def tryRecoverInner (nslots slotSize : Nat) : M (Option Upd) := do
  let hs ← loadHeaders nslots slotSize
  let ih := indexed hs
  match Updater.twoNewest ih with
  | (some nw, some sn) =>
    if totalStatus nw.2 ≠ TotalStatus.appWriteInProgress then return none
    if nw.2.kind ≠ Kind.parity then return none
    if totalStatus sn.2 ≠ TotalStatus.appWriteInProgress then return none
    if sn.2.kind ≠ Kind.firmware then return none
    if nw.2.size ≠ sn.2.size then return none
    match Updater.reasonablySized slotSize sn.2.size sn.2.n with
    | .error _ => return none
    | .ok () => pure ()
    Updater.remediate slotSize nw.1 sn.1 ih
    let fw : Slot := { idx := sn.1, size := slotSize }
    let par : Slot := { idx := nw.1, size := slotSize }
    let (fwMask, fwLen) ← loadStatus fw
    let fwDone := countBits fwMask fwLen
    let (parMask, parLen) ← loadStatus par
    let parDone := countBits parMask parLen
    return some { fw := fw, totalFw := sn.2.n, remFw := sn.2.n - fwDone,
                  par := par, totalPar := nw.2.n, remPar := nw.2.n - parDone }
  | _ => return none

/-- `try_recover` (shared `update.rs`) -/
def tryRecover (nslots slotSize : Nat) : M (Option Upd) := do
  let r ← tryRecoverInner nslots slotSize
  if r.isNone then Updater.cancelAll nslots slotSize
  pure r

end Fuota.Naive
