/-!
# L0 model of the parity reconstructor (`parity-reconstruct/src/lib.rs`)

* GF(2) rows and bit arrays are `Nat` bit masks; a data block is a `Nat` (little-endian bytes) under `^^^`.
* The three storages are abstract write logs (association lists, newest first) with a call log; a fault oracle
  `F : Nat → Bool` (indexed by the number of storage calls made so far) makes a call fail *without effect*.
* Every loop is structural recursion; every place where the Rust code can panic is the outcome `Out.panic`.
-/
namespace Fuota.Recon

abbrev Store := List (Nat × Nat)

def get (s : Store) (k : Nat) : Nat :=
  match s.lookup k with
  | some v => v
  | none => 0

inductive Call
  | dStore (m d : Nat) | dGet (m : Nat)
  | pStore (m d : Nat) | pGet (m : Nat)
  | mSet (m r : Nat) | mRow (m : Nat)
  deriving DecidableEq, Repr

inductive Err | data | parity | matrix deriving DecidableEq, Repr

inductive Out | ok | err (e : Err) | panic deriving DecidableEq, Repr

inductive Res
  | needMore | tooMany | done (bytes : Nat) | err (e : Err) | panic
  deriving DecidableEq, Repr

/-- which of the two orders `handle_data_block` uses (pinned tree: bit first; repaired: store first) -/
structure Variant where
  bitBeforeStore : Bool
  deriving DecidableEq, Repr

structure St where
  n : Nat
  bs : Nat
  l : Nat := 0
  done : Nat := 0
  used : Nat := 0
  ds : Store := []
  ps : Store := []
  ms : Store := []
  /-- storage calls attempted so far, newest first -/
  log : List Call := []
  calls : Nat := 0
  deriving Repr

/-- one storage call: logged, and failing (with no effect) when the oracle says so -/
def call (F : Nat → Bool) (s : St) (c : Call) : St × Bool :=
  ({ s with log := c :: s.log, calls := s.calls + 1 }, !F s.calls)

def noFault : Nat → Bool := fun _ => false

/-- indices `< n` whose data block is not yet present, ascending -/
def unknowns (done n : Nat) : List Nat := (List.range n).filter (fun i => !done.testBit i)

/-- little-endian packing of a bit list -/
def packBits : List Bool → Nat
  | [] => 0
  | b :: bs => (if b then 1 else 0) + 2 * packBits bs

/-- "Construct reduced matrix row": the row restricted to the unknown columns, re-indexed by rank -/
def project (done n row : Nat) : Nat := packBits ((unknowns done n).map row.testBit)

/-- `is_complete` -/
def isComplete (s : St) : Bool :=
  (s.l == 0 && (List.range s.n).all (fun i => s.done.testBit i)) ||
  (s.l != 0 && (List.range s.l).all (fun i => s.used.testBit i))

/-- "remove parity from already received datablocks" over the index list `is` -/
def strip (F : Nat → Bool) (row : Nat) : List Nat → St → Nat → St × Nat × Out
  | [], s, d => (s, d, .ok)
  | i :: is, s, d =>
    if row.testBit i && s.done.testBit i then
      let (s1, ok) := call F s (.dGet i)
      if ok then strip F row is s1 (d ^^^ get s1.ds i) else (s1, d, .err .data)
    else strip F row is s d

/-- "Reduce further to upper triangular form, and store": `wh` heads remain (`working_head = wh - 1`) -/
def elim (F : Nat → Bool) : Nat → St → Nat → Nat → St × Out
  | 0, s, _, _ => (s, .ok)
  | wh + 1, s, row, data =>
    if row.testBit wh && s.used.testBit wh then
      let (s1, ok1) := call F s (.pGet wh)
      if !ok1 then (s1, .err .parity) else
      let (s2, ok2) := call F s1 (.mRow wh)
      if !ok2 then (s2, .err .matrix) else
      elim F wh s2 (row ^^^ get s2.ms wh) (data ^^^ get s2.ps wh)
    else if row.testBit wh then
      let (s1, ok1) := call F s (.pStore wh data)
      if !ok1 then (s1, .err .parity) else
      let s1 := { s1 with ps := (wh, data) :: s1.ps }
      let (s2, ok2) := call F s1 (.mSet wh row)
      if !ok2 then (s2, .err .matrix) else
      ({ s2 with ms := (wh, row) :: s2.ms, used := s2.used ||| 2 ^ wh }, .ok)
    else elim F wh s row data

/-- `handle_parity_block` (after the length assertion) -/
def handleParity (F : Nat → Bool) (s : St) (row data : Nat) : St × Out :=
  let (s1, d1, o1) := strip F row (List.range s.n) s data
  match o1 with
  | .ok => elim F s1.l s1 (project s1.done s1.n row) d1
  | o => (s1, o)

/-- inner loop of `finish`: xor the already reconstructed blocks selected by the row, `j` ascending over `js` -/
def finishInner (F : Nat → Bool) (U : List Nat) (r : Nat) : List Nat → St → Nat → St × Nat × Out
  | [], s, out => (s, out, .ok)
  | j :: js, s, out =>
    if r.testBit j then
      match U[j]? with
      | none => (s, out, .panic)
      | some f =>
        let (s1, ok) := call F s (.dGet f)
        if ok then finishInner F U r js s1 (out ^^^ get s1.ds f) else (s1, out, .err .data)
    else finishInner F U r js s out

/-- `finish` over the reduced indices `is` (= `0 .. l`), `U` = unknown indices w.r.t. the frozen `done` -/
def finishOuter (F : Nat → Bool) (U : List Nat) : List Nat → St → St × Out
  | [], s => (s, .ok)
  | i :: is, s =>
    let (s1, ok1) := call F s (.pGet i)
    if !ok1 then (s1, .err .parity) else
    let (s2, ok2) := call F s1 (.mRow i)
    if !ok2 then (s2, .err .matrix) else
    let (s3, out, o3) := finishInner F U (get s2.ms i) (List.range i) s2 (get s2.ps i)
    match o3 with
    | .ok =>
      match U[i]? with
      | none => (s3, .panic)
      | some f =>
        let (s4, ok4) := call F s3 (.dStore f out)
        if !ok4 then (s4, .err .data) else
        finishOuter F U is { s4 with ds := (f, out) :: s4.ds }
    | o => (s3, o)

def finish (F : Nat → Bool) (s : St) : St × Out :=
  finishOuter F (unknowns s.done s.n) (List.range s.l) s

def resOfOut : Out → Res
  | .ok => .needMore
  | .err e => .err e
  | .panic => .panic

/-- `handle_block`. `P` = parity matrix, `vbits` = bits of `BitArray<V>`, `numRows` = `matrix.num_rows()`,
    `dlen` = length of the supplied buffer. -/
def handleBlock (V : Variant) (F : Nat → Bool) (P : Nat → Nat) (vbits numRows : Nat)
    (s : St) (index data dlen : Nat) : St × Res :=
  if dlen ≠ s.bs then (s, .panic) else
  if isComplete s then (s, .done (s.n * s.bs)) else
  let l0 := (unknowns s.done s.n).length
  if s.n ≤ index ∧ s.l = 0 ∧ (vbits < l0 ∨ numRows < l0) then (s, .tooMany) else
  let s := if s.n ≤ index ∧ s.l = 0 then { s with l := l0 } else s
  if s.l = 0 then
    -- stage 1: `handle_data_block`
    if s.done.testBit index then (s, if isComplete s then .done (s.n * s.bs) else .needMore) else
    if V.bitBeforeStore then
      let s := { s with done := s.done ||| 2 ^ index }
      let (s1, ok) := call F s (.dStore index data)
      if !ok then (s1, .err .data) else
      let s2 := { s1 with ds := (index, data) :: s1.ds }
      (s2, if isComplete s2 then .done (s2.n * s2.bs) else .needMore)
    else
      let (s1, ok) := call F s (.dStore index data)
      if !ok then (s1, .err .data) else
      let s2 := { s1 with ds := (index, data) :: s1.ds, done := s1.done ||| 2 ^ index }
      (s2, if isComplete s2 then .done (s2.n * s2.bs) else .needMore)
  else
    -- stage 2: `handle_parity_block`, then `finish` when complete
    let (s1, o1) := handleParity F s (P index) data
    match o1 with
    | .ok =>
      if isComplete s1 then
        let (s2, o2) := finish F s1
        match o2 with
        | .ok => (s2, .done (s2.n * s2.bs))
        | o => (s2, resOfOut o)
      else (s1, .needMore)
    | o => (s1, resOfOut o)

/-- run a whole delivery sequence (fault-free unless `F` says otherwise) -/
def runBlocks (V : Variant) (F : Nat → Bool) (P : Nat → Nat) (vbits numRows : Nat) (blk : Nat → Nat) :
    St → List Nat → St × List Res
  | s, [] => (s, [])
  | s, i :: is =>
    let (s1, r) := handleBlock V F P vbits numRows s i (blk i) s.bs
    let (s2, rs) := runBlocks V F P vbits numRows blk s1 is
    (s2, r :: rs)

end Fuota.Recon
