import Fuota.Model.Layout
import Fuota.Model.Nor
import Fuota.Model.Crc
/-!
# Model of firmware validation

* `flash-algo-new/src/manager/firmware.rs`: `Slot::crc_valid`, `Slot::is_valid_firmware`
* `flash-algo-new/src/update/matrix.rs`: `Updater::check_and_mark_done`
* `original-flash-algo/src/manager.rs`: `check_crc_from_index`, `SlotManager::validate_firmware_slot`

Every function returns its verdict together with the list of reads `(addr, len)` it issued, **most recent first**
(a failing read is the head; `ReadLog.chrono` gives the chronological order) and, for `checkAndMarkDone`, the list
of mutating operations in the order they are performed.  The scratch RAM is not modelled as
state: every read overwrites the part of the scratch buffer that is looked at afterwards.
-/
namespace Fuota.Firmware
open Fuota.Layout Fuota.Nor Fuota.Crc

/-- `Result<(), ManagerError<_>>` of the validation routines -/
inductive Res
  | ok
  | crc32Mismatch
  | tooManySegments
  | segmentsTooLarge
  /-- `ManagerError::Spi(SpiFlashError::OutOfBounds)`: a read or program left the device -/
  | spiOutOfBounds
  | fatal
  | unexpectedMissingHeader
  | checkFailNotFirmware
  | checkFailNotDone
  /-- deprecated crate only: `validate_firmware_slot` maps every failure to `Spi(HardwareFailure)` -/
  | spiHardwareFailure
  | segmentCountMismatch
  | segmentSizeMismatch
  deriving DecidableEq, Repr

def Res.name : Res → String
  | .ok => "ok" | .crc32Mismatch => "Crc32Mismatch" | .tooManySegments => "TooManySegments"
  | .segmentsTooLarge => "SegmentsTooLarge" | .spiOutOfBounds => "Spi(OutOfBounds)" | .fatal => "Fatal"
  | .unexpectedMissingHeader => "UnexpectedMissingHeader" | .checkFailNotFirmware => "CheckFailNotFirmware"
  | .checkFailNotDone => "CheckFailNotDone" | .spiHardwareFailure => "Spi(HardwareFailure)"
  | .segmentCountMismatch => "SegmentCountMismatch" | .segmentSizeMismatch => "SegmentSizeMismatch"

/-- reads `(addr, len)`, most recent first -/
abbrev ReadLog := List (Nat × Nat)

def ReadLog.chrono (l : ReadLog) : List (Nat × Nat) := l.reverse

def dataOff : Nat := Consts.DATA_REGION_OFFSET
/-- `Crc32::SIZE + Signature::SIZE` -/
def prefixLen : Nat := Consts.CRC_SIZE + Consts.SIG_SIZE

/-- The body of `for idx in 0..segments`, as a recursion on the number of remaining iterations.
    `dbase` = address of the data region, `skip` = `skip_remain`, `reg` = state of the digest.
    Result: the digest state after the last segment, `none` if a read left the device. -/
def segLoop (f : Flash) (dbase size : Nat) :
    (remaining idx : Nat) → (skip : Option Nat) → (reg : Nat) → (log : ReadLog) → Option Nat × ReadLog
  | 0, _, _, reg, log => (some reg, log)
  | k + 1, idx, skip, reg, log =>
    match skip with
    | some n =>
      if n ≥ size then
        -- `Some(n) if n >= segment_size`: skip the whole segment without reading it
        segLoop f dbase size k (idx + 1) (some (n - size)) reg log
      else
        -- `Some(n) => n`
        let a := dbase + idx * size
        match f.readChecked a size with
        | none => (none, (a, size) :: log)
        | some buf => segLoop f dbase size k (idx + 1) none (crcUpdate reg (buf.drop n)) ((a, size) :: log)
    | none =>
      -- `None => 0`
      let a := dbase + idx * size
      match f.readChecked a size with
      | none => (none, (a, size) :: log)
      | some buf => segLoop f dbase size k (idx + 1) none (crcUpdate reg (buf.drop 0)) ((a, size) :: log)

/-- `Slot::crc_valid` for the slot starting at `base = idx * slot_size` -/
def crcValid (f : Flash) (base : Nat) (hd : Header) (log : ReadLog := []) : Res × ReadLog :=
  if hd.n > Consts.MAX_SEGMENTS then (.tooManySegments, log)
  else if hd.size > Consts.MAX_SEGMENT_SIZE then (.segmentsTooLarge, log)
  else
    let dbase := base + dataOff
    let log := (dbase, prefixLen) :: log
    match f.readChecked dbase prefixLen with
    | none => (.spiOutOfBounds, log)
    | some pre =>
      match takeU32 pre with
      | none => (.fatal, log)
      | some (expected, later) =>
        if later.length < Consts.SIG_SIZE then (.fatal, log)
        else
          match segLoop f dbase hd.size hd.n 0 (some prefixLen) crcInit log with
          | (none, log) => (.spiOutOfBounds, log)
          | (some reg, log) =>
            if expected = crcFinalize reg then (.ok, log) else (.crc32Mismatch, log)

/-- `Slot::load_header`: outer `none` = the read left the device, inner `none` = the bytes do not parse -/
def loadHeader (f : Flash) (base : Nat) : Option (Option Header) :=
  match f.readChecked base Consts.SLOT_HEADER_SIZE with
  | none => none
  | some bs => some ((parseHeader Codec.new bs).map (·.1))

/-- `Slot::is_valid_firmware` of `SlotManager::new(slotSize).open(idx)` -/
def isValidFirmware (f : Flash) (slotSize idx : Nat) : Res × ReadLog :=
  let base := idx * slotSize
  let log := [(base, Consts.SLOT_HEADER_SIZE)]
  match loadHeader f base with
  | none => (.spiOutOfBounds, log)
  | some none => (.unexpectedMissingHeader, log)
  | some (some hd) =>
    if hd.kind ≠ Kind.firmware then (.checkFailNotFirmware, log)
    else if hd.ext ≠ Ext.complete then (.checkFailNotDone, log)
    else crcValid f base hd log

/-- outcome of `check_and_mark_done`: verdict, reads, mutating operations in order -/
structure MarkOut where
  res : Res
  reads : ReadLog
  ops : List Op
  deriving Repr

/-- the word `mark_ext_status_complete` programs -/
def completeWord : List Nat := writeU32 (encExt Codec.new .complete)

/-- `Updater::check_and_mark_done` (matrix back-end): `complete` is the session's completion flag, `fwBase` /
    `parBase` the start addresses of its firmware and parity slots. -/
def checkAndMarkDone (f : Flash) (complete : Bool) (fwBase parBase : Nat) : MarkOut :=
  if !complete then { res := .checkFailNotDone, reads := [], ops := [] }
  else
    let log := [(fwBase, Consts.SLOT_HEADER_SIZE)]
    match loadHeader f fwBase with
    | none => { res := .spiOutOfBounds, reads := log, ops := [] }
    | some none => { res := .unexpectedMissingHeader, reads := log, ops := [] }
    | some (some hd) =>
      match crcValid f fwBase hd log with
      | (.ok, log) =>
        let a1 := fwBase + Consts.EXT_OFFSET
        let a2 := parBase + Consts.EXT_OFFSET
        if !f.canProgram a1 completeWord.length then { res := .spiOutOfBounds, reads := log, ops := [] }
        else
          let op1 := Op.program a1 completeWord
          if !(f.apply op1).canProgram a2 completeWord.length then { res := .spiOutOfBounds, reads := log, ops := [op1] }
          else { res := .ok, reads := log, ops := [op1, Op.program a2 completeWord] }
      | (e, log) => { res := e, reads := log, ops := [] }

/-! ## deprecated crate -/

/-- `read_header_from_slot` with the deprecated crate's codec -/
def loadHeaderOrig (f : Flash) (base : Nat) : Option (Option Header) :=
  match f.readChecked base Consts.O_SLOT_HEADER_SIZE with
  | none => none
  | some bs => some ((parseHeader Codec.orig bs).map (·.1))

/-- `check_crc_from_index(flash, scratch, Some(size), Some(n), slot_start)`.
    Differences from `crc_valid`: the header is read again inside the routine (so the routine can also fail with
    `UnexpectedMissingHeader`), the 68-byte prefix is read *before* the limits are checked and into a stack buffer,
    and the caller-supplied geometry is compared with the header's (`SegmentCountMismatch`, `SegmentSizeMismatch`).
    The segment loop is textually identical. -/
def checkCrcFromIndex (f : Flash) (sizeOpt nOpt : Option Nat) (base : Nat) (log : ReadLog := []) : Res × ReadLog :=
  let log := (base, Consts.O_SLOT_HEADER_SIZE) :: log
  match loadHeaderOrig f base with
  | none => (.spiOutOfBounds, log)
  | some none => (.unexpectedMissingHeader, log)
  | some (some hd) =>
    let dbase := base + Consts.O_DATA_REGION_OFFSET
    let log := (dbase, prefixLen) :: log
    match f.readChecked dbase prefixLen with
    | none => (.spiOutOfBounds, log)
    | some pre =>
      match takeU32 pre with
      | none => (.fatal, log)
      | some (expected, later) =>
        if later.length < Consts.SIG_SIZE then (.fatal, log)
        else
          let nRes : Option Nat := match nOpt with
            | some s => if s % 2 ^ 32 = hd.n then some s else none
            | none => some hd.n
          match nRes with
          | none => (.segmentCountMismatch, log)
          | some n =>
          let sizeRes : Option Nat := match sizeOpt with
            | some s => if s % 2 ^ 32 = hd.size then some s else none
            | none => some hd.size
          match sizeRes with
          | none => (.segmentSizeMismatch, log)
          | some size =>
          if n > Consts.O_MAX_SEGMENTS then (.tooManySegments, log)
          else if size > Consts.O_MAX_SEGMENT_SIZE then (.segmentsTooLarge, log)
          else
            match segLoop f dbase size n 0 (some prefixLen) crcInit log with
            | (none, log) => (.spiOutOfBounds, log)
            | (some reg, log) =>
              if expected = crcFinalize reg then (.ok, log) else (.crc32Mismatch, log)

/-- `SlotManager::validate_firmware_slot`: every failure is reported as `Spi(HardwareFailure)`, except a failing
    read of the *first* header load, which keeps its own error; a slot whose boot outcome is `Unsuccessful` is
    rejected as well (the new crate's `is_valid_firmware` does not look at the boot outcome). -/
def validateFirmwareSlot (f : Flash) (slotSize idx : Nat) : Res × ReadLog :=
  let base := idx * slotSize
  let log := [(base, Consts.O_SLOT_HEADER_SIZE)]
  match loadHeaderOrig f base with
  | none => (.spiOutOfBounds, log)
  | some none => (.spiHardwareFailure, log)
  | some (some hd) =>
    if hd.kind ≠ Kind.firmware ∨ hd.ext ≠ Ext.complete ∨ hd.boot = Boot.unsuccessful then (.spiHardwareFailure, log)
    else
      match checkCrcFromIndex f (some hd.size) (some hd.n) base log with
      | (.ok, log) => (.ok, log)
      | (_, log) => (.spiHardwareFailure, log)

end Fuota.Firmware
