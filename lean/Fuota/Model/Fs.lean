import Fuota.Model.Nor
import Fuota.Model.Layout
/-!
# L1/L2 model: device monad and slot accessors (`flash-algo-new/src/manager/fs.rs`, `manager.rs`)

`M` = exceptions over a device state. An exception models both a returned `Err` (propagated with `?`) and a
panic (`MErr.panic`); state changes made before it persist — exactly what the Rust code leaves behind.
Crash / torn / transient-fault injection are part of the device (same semantics as the harness' simulator).
-/
namespace Fuota.Fs
open Fuota.Nor Fuota.Layout

inductive SpiErr | unaligned | oob | hw | custom | logic
  deriving DecidableEq, Repr

inductive MErr
  | spi (e : SpiErr) | flashRepr | fatal | missingHeader | countMismatch | sizeMismatch
  | tooManySegments | segmentsTooLarge | crcMismatch | checkNotDone | checkNotFirmware | panic
  deriving DecidableEq, Repr

def MErr.name : MErr → String
  | .spi .unaligned => "Err(Spi(Unaligned))" | .spi .oob => "Err(Spi(OutOfBounds))"
  | .spi .hw => "Err(Spi(HardwareFailure))" | .spi .custom => "Err(Spi(Custom))"
  | .spi .logic => "Err(Spi(LogicError))" | .flashRepr => "Err(FlashRepr)" | .fatal => "Err(Fatal)"
  | .missingHeader => "Err(UnexpectedMissingHeader)" | .countMismatch => "Err(SegmentCountMismatch)"
  | .sizeMismatch => "Err(SegmentSizeMismatch)" | .tooManySegments => "Err(TooManySegments)"
  | .segmentsTooLarge => "Err(SegmentsTooLarge)" | .crcMismatch => "Err(Crc32Mismatch)"
  | .checkNotDone => "Err(CheckFailNotDone)" | .checkNotFirmware => "Err(CheckFailNotFirmware)"
  | .panic => "PANIC"

structure Dev where
  flash : Flash
  /-- mutating operations that took effect, newest first (a torn one is recorded as what was programmed) -/
  ops : List Op := []
  /-- mutating operations that took effect since the counters were armed -/
  nmut : Nat := 0
  /-- power loss before (or, with a tear `(prefix, keep)`, during) the mutating op with this index -/
  crashAt : Option (Nat × Option (Nat × Nat)) := none
  /-- transient fault on the mutating op with this index: fails once, no effect -/
  failAt : Option Nat := none
  dead : Bool := false
  /-- programs that needed a 0 → 1 transition -/
  needsSet : Nat := 0

abbrev M := ExceptT MErr (StateM Dev)

def arm : M Unit := modify fun d => { d with ops := [], nmut := 0, needsSet := 0 }

def readTo (a len : Nat) : M (List Nat) := do
  let d ← get
  if d.dead then throw (.spi .custom)
  match d.flash.readChecked a len with
  | none => throw (.spi .oob)
  | some bs => pure bs

/-- common part of the two mutating operations: crash / fault decision -/
def mutate (op : Op) : M Unit := do
  let d ← get
  match d.crashAt with
  | some (k, tr) =>
    if d.nmut = k then
      match tr, op with
      | some (p, keep), .program _ _ =>
        let t := tear p keep op
        set { d with dead := true, flash := d.flash.apply t, ops := t :: d.ops }
        throw (.spi .custom)
      | _, _ =>
        set { d with dead := true }
        throw (.spi .custom)
  | none => pure ()
  if d.failAt = some d.nmut then
    set { d with failAt := none }
    throw (.spi .custom)
  let ns := match op with
    | .program a bs => if d.flash.needsSet a bs then 1 else 0
    | .erase _ => 0
  set { d with flash := d.flash.apply op, ops := op :: d.ops, nmut := d.nmut + 1, needsSet := d.needsSet + ns }

def writeFrom (a : Nat) (bs : List Nat) : M Unit := do
  let d ← get
  if d.dead then throw (.spi .custom)
  if !d.flash.canProgram a bs.length then throw (.spi .oob)
  mutate (.program a bs)

def eraseBlock (a : Nat) : M Unit := do
  let d ← get
  if d.dead then throw (.spi .custom)
  if a % d.flash.block != 0 then throw (.spi .unaligned)
  if a + d.flash.block > d.flash.size then throw (.spi .oob)
  mutate (.erase a)

/-! ## slots -/

structure Slot where
  idx : Nat
  size : Nat
  /-- cached segment size (`Option<NonZeroU32>`) -/
  segSize : Option Nat := none
  deriving Repr

def C : Codec := Codec.new
def HEADER_SIZE := Consts.HEADER_SIZE
def WRITTEN_OFFSET := Consts.WRITTEN_OFFSET
def DATA_REGION_OFFSET := Consts.DATA_REGION_OFFSET
def MAX_SEGMENTS := Consts.MAX_SEGMENTS
def MAX_SEGMENT_SIZE := Consts.MAX_SEGMENT_SIZE

/-- `Slot::load_header` / one iteration of `load_headers` -/
def loadHeaderAt (a : Nat) : M (Option Header) := do
  let bs ← readTo a Consts.SLOT_HEADER_SIZE
  pure ((parseHeader C bs).map (·.1))

def loadHeadersFrom (slotSize : Nat) : List Nat → M (List (Option Header))
  | [] => pure []
  | i :: is => do
    let h ← loadHeaderAt (i * slotSize)
    let rest ← loadHeadersFrom slotSize is
    pure (h :: rest)

/-- `SlotManager::load_headers` -/
def loadHeaders (n slotSize : Nat) : M (List (Option Header)) := loadHeadersFrom slotSize (List.range n)

/-- `indexed_headers` -/
def indexed (hs : List (Option Header)) : List (Nat × Header) :=
  (hs.zipIdx).filterMap fun (h, i) => h.map (fun h => (i, h))

def eraseFrom (cur blockSize : Nat) : Nat → M Unit
  | 0 => pure ()
  | k + 1 => do
    eraseBlock cur
    eraseFrom (cur + blockSize) blockSize k

/-- `Slot::clear` -/
def Slot.clear (s : Slot) : M Unit := do
  let d ← get
  let bsz := d.flash.block
  if bsz = 0 then throw .panic
  if s.size % bsz != 0 then throw .panic
  eraseFrom (s.idx * s.size) bsz (s.size / bsz)

def Slot.writeWord (s : Slot) (off w : Nat) : M Unit := writeFrom (s.idx * s.size + off) (writeU32 w)

def Slot.writeSeqNo (s : Slot) (seq : Nat) : M Unit := s.writeWord Consts.SEQ_OFFSET seq
def Slot.setKind (s : Slot) (k : Kind) : M Unit := s.writeWord Consts.KIND_OFFSET (encKind C k)

def satMulU32 (a b : Nat) : Nat := min (a * b) (2 ^ 32 - 1)

/-- `Slot::set_layout` -/
def Slot.setLayout (s : Slot) (nseg segsz : Nat) : M Slot := do
  if satMulU32 nseg segsz > s.size - DATA_REGION_OFFSET then throw (.spi .oob)
  s.writeWord Consts.NSEG_OFFSET nseg
  s.writeWord Consts.SEGSIZE_OFFSET segsz
  pure { s with segSize := if segsz = 0 then none else some segsz }

/-- the segment size as read from the header word (0 when it does not parse) -/
def Slot.readSegSize (s : Slot) : M Nat := do
  let bs ← readTo (s.size * s.idx + Consts.SEGSIZE_OFFSET) 4
  pure (match parseSize C (Nor.le32 bs) with | some v => v | none => 0)

/-- `segment_size_mut` (caches) -/
def Slot.segmentSizeMut (s : Slot) : M (Nat × Slot) :=
  match s.segSize with
  | some v => pure (v, s)
  | none => do
    let v ← s.readSegSize
    pure (v, { s with segSize := if v = 0 then none else some v })

/-- `segment_size` (does not cache) -/
def Slot.segmentSize (s : Slot) : M Nat :=
  match s.segSize with
  | some v => pure v
  | none => s.readSegSize

/-- `num_segments` -/
def Slot.numSegments (s : Slot) : M Nat := do
  let bs ← readTo (s.size * s.idx + Consts.NSEG_OFFSET) 4
  pure (match parseNseg C (Nor.le32 bs) with | some v => v | none => 0)

/-- `mark_segment_written` -/
def Slot.markSegmentWritten (s : Slot) (idx : Nat) : M Unit := do
  if idx > MAX_SEGMENTS then throw (.spi .oob)
  let off := WRITTEN_OFFSET + idx
  if off > s.size then throw (.spi .oob)
  writeFrom (s.idx * s.size + off) [Consts.DATA_WRITTEN]

/-- `write_segment` -/
def Slot.writeSegment (s : Slot) (idx : Nat) (buf : List Nat) : M Slot := do
  if idx > MAX_SEGMENTS then throw (.spi .oob)
  let (seg, s) ← s.segmentSizeMut
  if seg = 0 then throw (.spi .logic)
  if seg ≠ buf.length then throw (.spi .logic)
  let off := DATA_REGION_OFFSET + idx * seg
  if off > s.size then throw (.spi .oob)
  writeFrom (s.idx * s.size + off) buf
  s.markSegmentWritten idx
  pure s

/-- `read_segment` (into a buffer of `len` bytes; returns the bytes read) -/
def Slot.readSegment (s : Slot) (idx len : Nat) : M (List Nat) := do
  if idx > MAX_SEGMENTS then throw (.spi .oob)
  let seg ← s.segmentSize
  if seg = 0 then throw (.spi .logic)
  let off := DATA_REGION_OFFSET + idx * seg
  if off > s.size then throw (.spi .oob)
  let w := min len seg
  let bs ← readTo (s.idx * s.size + off) w
  -- the rest of the caller's buffer keeps its previous contents; callers always pass `len = seg`
  pure bs

/-- `write_raw` (offset relative to the end of the header area) -/
def Slot.writeRaw (s : Slot) (off : Nat) (buf : List Nat) : M Unit := do
  if s.size - HEADER_SIZE < off + buf.length then throw (.spi .oob)
  writeFrom (s.idx * s.size + HEADER_SIZE + off) buf

/-- `read_raw` -/
def Slot.readRaw (s : Slot) (off len : Nat) : M (List Nat) := do
  if s.size - HEADER_SIZE < off + len then throw (.spi .oob)
  readTo (s.idx * s.size + HEADER_SIZE + off) len

/-- `BitCache::fill_from` on a mask: `none` = error kind -/
def fillFrom (mask start : Nat) : List Nat → Except SpiErr Nat
  | [] => .ok mask
  | b :: bs =>
    if b = Consts.DATA_WRITTEN then fillFrom (mask ||| 2 ^ start) (start + 1) bs
    else if b = Consts.DATA_NOT_WRITTEN then fillFrom (mask &&& (2 ^ MAX_SEGMENTS - 1 - 2 ^ start)) (start + 1) bs
    else .error .hw

/-- `fill_bitcache` with a scratch of `stride` bytes; fuel = number of strides -/
def fillBitcache (startAddr stride : Nat) : Nat → Nat → Nat → Nat → M Nat
  | 0, _, _, mask => pure mask
  | fuel + 1, addr, remain, mask =>
    if remain = 0 then pure mask else do
      let st := min remain stride
      let buf ← readTo addr st
      if (addr - startAddr) + st > MAX_SEGMENTS then throw (.spi .logic)
      match fillFrom mask (addr - startAddr) buf with
      | .error e => throw (.spi e)
      | .ok m => fillBitcache startAddr stride fuel (addr + st) (remain - st) m

/-- `load_status_array`: returns the `done` mask -/
def Slot.loadStatusArray (s : Slot) (stride : Nat) : M Nat := do
  let n ← s.numSegments
  let start := s.idx * s.size + WRITTEN_OFFSET
  fillBitcache start stride (n + 1) start n 0

/-! ## status marks (`manager.rs`) -/
def Slot.markExtAborted (s : Slot) : M Unit := s.writeWord Consts.EXT_OFFSET (encExt C .aborted)
def Slot.markExtComplete (s : Slot) : M Unit := s.writeWord Consts.EXT_OFFSET (encExt C .complete)
def Slot.markIntComplete (s : Slot) : M Unit := s.writeWord Consts.INT_OFFSET (encInt C .complete)
def Slot.markBootOk (s : Slot) : M Unit := s.writeWord Consts.BOOT_OFFSET (encBoot C .successful)
def Slot.markBootBad (s : Slot) : M Unit := s.writeWord Consts.BOOT_OFFSET (encBoot C .unsuccessful)

/-! ## header-level decisions (pure) -/

/-- `fallback_firmware_slot`: newest confirmed image -/
def fallbackSlot (hs : List (Option Header)) : Option Nat :=
  let step := fun (acc : Option (Nat × Nat)) (p : Nat × Header) =>
    if totalStatus p.2 = TotalStatus.confirmedImage then
      match acc with
      | none => some (p.1, p.2.seq)
      | some (_, s) => if s < p.2.seq then some (p.1, p.2.seq) else acc
    else acc
  ((indexed hs).foldl step none).map (·.1)

/-- `bl_boot_status`: `inl idx` = copy incomplete, `inr idx` = load unacknowledged -/
def blStatus (hs : List (Option Header)) : Option (Sum Nat Nat) :=
  (indexed hs).findSome? fun (i, h) =>
    if h.kind = Kind.firmware then
      match totalStatus h with
      | .bootloadWriteInProgress => some (.inl i)
      | .firstBootPendingAck => some (.inr i)
      | _ => none
    else none

/-- the slot pair and sequence numbers `alloc_slotpair` chooses -/
def choosePair (n : Nat) (hs : List (Option Header)) : Except MErr (Nat × Nat × Nat × Nat) :=
  let ih := indexed hs
  let low := ih.foldl (fun (acc : Option (Nat × Nat)) p =>
    match acc with
    | none => some (p.1, p.2.seq)
    | some (_, s) => if s > p.2.seq then some (p.1, p.2.seq) else acc) none
  let high := ih.foldl (fun (acc : Option (Nat × Nat)) p =>
    match acc with
    | none => some (p.1, p.2.seq)
    | some (_, s) => if s < p.2.seq then some (p.1, p.2.seq) else acc) none
  match low, high with
  | some (low, _), some (high, highSeq) =>
    if (high + n - low) % n + 3 ≤ n then
      .ok ((high + 1) % n, (high + 2) % n, seqNext highSeq, seqNext (seqNext highSeq))
    else if (high + n - low) % n + 2 = n then
      let fw := (fallbackSlot hs).getD low
      if fw = low then .ok (high, (high + 1) % n, highSeq, seqNext highSeq)
      else .ok ((high + 1) % n, (high + 2) % n, seqNext highSeq, seqNext (seqNext highSeq))
    else
      let fw := (fallbackSlot hs).getD low
      if (high + 1) % n = fw ∨ (high + 2) % n = fw then
        let first := (high + n - 1) % n
        match hs.getD first none with
        | none => .ok (first, high, highSeq - 1, highSeq)
        | some h => .ok (first, high, h.seq, highSeq)
      else .ok ((high + 1) % n, (high + 2) % n, seqNext highSeq, seqNext (seqNext highSeq))
  | _, _ => .ok (0, 1, 0, 1)

/-- `alloc_slotpair` -/
def allocSlotpair (n slotSize : Nat) : M (Slot × Slot) := do
  let hs ← loadHeaders n slotSize
  match choosePair n hs with
  | .error e => throw e
  | .ok (a, b, sa, sb) =>
    let first : Slot := { idx := a, size := slotSize }
    let second : Slot := { idx := b, size := slotSize }
    second.clear
    first.clear
    first.writeSeqNo sa
    second.writeSeqNo sb
    pure (first, second)

end Fuota.Fs
