import Fuota.Model.Nor
/-!
# The three `embedded-storage` adapters of `parity-reconstruct/src/flash.rs`

Executable transcription of `FlashDataStorage`, `FlashParityStorage`, `FlashMatrixStorage` on the NOR model of
`Fuota.Nor` (program = bitwise AND). Parameters (`Cfg`): device write size `W` (`F::WRITE_SIZE`), read size `R`
(`F::READ_SIZE`), the configured `flash_range` = `start .. stop`, the number of bytes `N` of the matrix adapter's
`BitArray<[u8; N]>`, and `tailReadLen`, the number of bytes `FlashParityStorage::get` reads for the padded tail word:
the pinned code reads `F::READ_SIZE` bytes (`tailReadLen := R`), the repaired code `F::WRITE_SIZE` (`:= W`).

Every operation returns the list of device accesses it issues (`Acc`) in program order; mutating operations also return
the new flash. The pure model issues *all* accesses; the device's own checks (bounds first, then alignment, as in
`embedded_storage::nor_flash::check_*`) and the early return of `?` are in `run`, which the driver uses.
Rust panics (the `assert!` of `store`, slice splits out of bounds) are the `*Panics` predicates.

Not modelled: the `as u32` truncations (all addresses here are `< 2^32`; the simulated device has 8 KiB).
-/
namespace Fuota.FlashAdapters
open Fuota.Nor

def MAX_WORD_SIZE : Nat := 32
/-- `F::ERASE_SIZE` of the simulated device -/
def ERASE_SIZE : Nat := 256

structure Cfg where
  W : Nat
  R : Nat
  start : Nat
  stop : Nat
  /-- bytes read for the padded tail by `FlashParityStorage::get`: `R` in the pinned tree, `W` when repaired -/
  tailReadLen : Nat
  /-- `N` of `BitArray<[u8; N]>` (matrix adapter only) -/
  N : Nat := 0
  deriving Repr

/-- one call of the `NorFlash` API -/
inductive Acc
  | erase (a b : Nat)
  | read (addr len : Nat)
  | program (addr : Nat) (bytes : List Nat)
  deriving DecidableEq, Repr

/-- `usize::next_multiple_of` -/
def nextMultipleOf (x k : Nat) : Nat := if x % k = 0 then x else x + (k - x % k)

/-- `previous_multiple_of` of flash.rs -/
def previousMultipleOf (v k : Nat) : Nat :=
  let next := nextMultipleOf v k
  if next > v then next - k else next

/-! ## effect of accesses on the medium -/

/-- the block erases of `erase(a, b)` -/
def eraseOps (a b : Nat) : List Op := (List.range ((b - a) / ERASE_SIZE)).map (fun i => Op.erase (a + i * ERASE_SIZE))

def applyAcc (f : Flash) : Acc → Flash
  | .erase a b => f.applyAll (eraseOps a b)
  | .read _ _ => f
  | .program a bs => f.apply (.program a bs)

def applyAccs (f : Flash) (accs : List Acc) : Flash := accs.foldl applyAcc f

inductive Err
  | notAligned
  | outOfBounds
  deriving DecidableEq, Repr

/-- the device's own argument checks (`check_read` / `check_write` / `check_erase`: bounds first, then alignment) -/
def Acc.check (c : Cfg) (size : Nat) : Acc → Option Err
  | .erase a b =>
    if a > b ∨ b > size then some .outOfBounds
    else if a % ERASE_SIZE ≠ 0 ∨ b % ERASE_SIZE ≠ 0 then some .notAligned else none
  | .read a n =>
    if a + n > size then some .outOfBounds
    else if a % c.R ≠ 0 ∨ n % c.R ≠ 0 then some .notAligned else none
  | .program a bs =>
    if a + bs.length > size then some .outOfBounds
    else if a % c.W ≠ 0 ∨ bs.length % c.W ≠ 0 then some .notAligned else none

/-- execute accesses in order; stop at the first one the device rejects (it is still part of the returned log) -/
def run (c : Cfg) (f : Flash) : List Acc → List Acc × Flash × Option Err
  | [] => ([], f, none)
  | a :: rest =>
    match a.check c f.size with
    | some e => ([a], f, some e)
    | none =>
      let (log, f', e) := run c (applyAcc f a) rest
      (a :: log, f', e)

/-! ## `new` (all three adapters): erase the range -/
def newAccs (c : Cfg) : List Acc := [.erase c.start c.stop]

/-- the two `assert!`s of `new` -/
def newPanics (c : Cfg) : Bool :=
  !(c.W ≤ MAX_WORD_SIZE) || !((List.range 32).any fun k => c.W / c.R == 2 ^ k)

def new (c : Cfg) (f : Flash) : List Acc × Flash := (newAccs c, applyAccs f (newAccs c))

/-! ## `FlashDataStorage` -/

structure Split where
  padStart : List Nat
  startAddr : Nat
  body : List Nat
  bodyAddr : Nat
  padEnd : List Nat
  endAddr : Nat
  deriving Repr

/-- `split_slice_addrs` / `split_slice_addrs_mut` (`List.take`/`drop` saturate; `dataSplitPanics` says when the
    Rust `split_at` panics instead) -/
def dataSplit (c : Cfg) (m : Nat) (data : List Nat) : Split :=
  let trueStart := c.start + m * data.length
  let so := trueStart % c.W
  let trueEnd := c.start + (m + 1) * data.length
  let eo := trueEnd % c.W
  let paddedStart := if so ≠ 0 then trueStart - so else trueStart
  let bodyStart := if so ≠ 0 then paddedStart + c.W else trueStart
  let padStart := if so ≠ 0 then data.take (c.W - (trueStart - paddedStart)) else []
  let body0 := if so ≠ 0 then data.drop (c.W - (trueStart - paddedStart)) else data
  let body := if eo ≠ 0 then body0.take (body0.length - eo) else body0
  let padEnd := if eo ≠ 0 then body0.drop (body0.length - eo) else []
  { padStart := padStart, startAddr := paddedStart, body := body, bodyAddr := bodyStart,
    padEnd := padEnd, endAddr := bodyStart + body.length }

/-- does one of the two `split_at` calls panic for a buffer of `len` bytes? -/
def dataSplitPanics (c : Cfg) (m len : Nat) : Bool :=
  let trueStart := c.start + m * len
  let so := trueStart % c.W
  let eo := (c.start + (m + 1) * len) % c.W
  let body0 := if so ≠ 0 then len - (c.W - so) else len
  (so ≠ 0 && c.W - so > len) || (eo ≠ 0 && eo > body0)

/-- `store` panics: `assert!(data.len() >= F::WRITE_SIZE)` (then the splits cannot) -/
def dataStorePanics (c : Cfg) (m len : Nat) : Bool := len < c.W || dataSplitPanics c m len

def dataStoreAccs (c : Cfg) (m : Nat) (data : List Nat) : List Acc :=
  let s := dataSplit c m data
  (if s.padStart ≠ [] then
     [Acc.program s.startAddr
        ((List.replicate (MAX_WORD_SIZE - s.padStart.length) 0xFF ++ s.padStart).drop (MAX_WORD_SIZE - c.W))]
   else []) ++
  [Acc.program s.bodyAddr s.body] ++
  (if s.padEnd ≠ [] then
     [Acc.program s.endAddr ((s.padEnd ++ List.replicate (MAX_WORD_SIZE - s.padEnd.length) 0xFF).take c.W)]
   else [])

def dataStore (c : Cfg) (f : Flash) (m : Nat) (data : List Nat) : List Acc × Flash :=
  (dataStoreAccs c m data, applyAccs f (dataStoreAccs c m data))

def dataGetAccs (c : Cfg) (m len : Nat) : List Acc :=
  let s := dataSplit c m (List.replicate len 0)
  (if s.padStart ≠ [] then [Acc.read s.startAddr c.W] else []) ++
  [Acc.read s.bodyAddr s.body.length] ++
  (if s.padEnd ≠ [] then [Acc.read s.endAddr c.W] else [])

def dataGetVal (c : Cfg) (f : Flash) (m len : Nat) : List Nat :=
  let s := dataSplit c m (List.replicate len 0)
  (if s.padStart ≠ [] then
     (List.replicate (MAX_WORD_SIZE - c.W) 0 ++ f.read s.startAddr c.W).drop (MAX_WORD_SIZE - s.padStart.length)
   else []) ++
  f.read s.bodyAddr s.body.length ++
  (if s.padEnd ≠ [] then
     (f.read s.endAddr c.W ++ List.replicate (MAX_WORD_SIZE - c.W) 0).take s.padEnd.length
   else [])

def dataGet (c : Cfg) (f : Flash) (m len : Nat) : List Acc × List Nat := (dataGetAccs c m len, dataGetVal c f m len)

/-! ## `FlashParityStorage` -/

def parityStoreAccs (c : Cfg) (m : Nat) (data : List Nat) : List Acc :=
  let up := nextMultipleOf data.length c.W
  let down := previousMultipleOf data.length c.W
  let offset := m * up
  let data0 := data.take down
  let data1 := data.drop down
  [Acc.program (c.start + offset) data0] ++
  (if data1 ≠ [] then
     [Acc.program (c.start + offset + data0.length)
        ((data1 ++ List.replicate (MAX_WORD_SIZE - data1.length) 0).take c.W)]
   else [])

def parityStore (c : Cfg) (f : Flash) (m : Nat) (data : List Nat) : List Acc × Flash :=
  (parityStoreAccs c m data, applyAccs f (parityStoreAccs c m data))

def parityGetAccs (c : Cfg) (m len : Nat) : List Acc :=
  let up := nextMultipleOf len c.W
  let down := previousMultipleOf len c.W
  let offset := m * up
  [Acc.read (c.start + offset) down] ++
  (if len - down ≠ 0 then [Acc.read (c.start + offset + down) c.tailReadLen] else [])

def parityGetVal (c : Cfg) (f : Flash) (m len : Nat) : List Nat :=
  let up := nextMultipleOf len c.W
  let down := previousMultipleOf len c.W
  let offset := m * up
  f.read (c.start + offset) down ++
  (if len - down ≠ 0 then
     (f.read (c.start + offset + down) c.tailReadLen ++ List.replicate (MAX_WORD_SIZE - c.tailReadLen) 0).take (len - down)
   else [])

def parityGet (c : Cfg) (f : Flash) (m len : Nat) : List Acc × List Nat :=
  (parityGetAccs c m len, parityGetVal c f m len)

/-! ## `FlashMatrixStorage` -/

/-- `flash_row_size` -/
def flashRowSize (c : Cfg) (m : Nat) : Nat := nextMultipleOf (nextMultipleOf (m + 1) 8 / 8) c.W

/-- `flash_row_address_offset` -/
def flashRowAddressOffset (c : Cfg) (m : Nat) : Nat :=
  let completes := m / (c.W * 8)
  let partials := m % (c.W * 8)
  let partialLen := flashRowSize c m
  completes * (completes + 1) * 4 * c.W * c.W + partials * partialLen

/-- `split_at(data_len - W)` out of bounds (cannot happen for `m < 8 N`) -/
def matrixPanics (c : Cfg) (m : Nat) : Bool :=
  flashRowSize c m > c.N && flashRowSize c m - c.W > c.N

/-- lengths of `(data_body, data_padded)` for a raw slice of `N` bytes -/
def rowBodyLen (c : Cfg) (m : Nat) : Nat :=
  if flashRowSize c m > c.N then flashRowSize c m - c.W else flashRowSize c m

def rowPaddedLen (c : Cfg) (m : Nat) : Nat :=
  if flashRowSize c m > c.N then c.N - (flashRowSize c m - c.W) else 0

/-- `set_row(m, data)`; `raw` = `data.as_raw_slice()` (`N` bytes, bit `i` of the row is bit `i % 8` of byte `i / 8`) -/
def setRowAccs (c : Cfg) (m : Nat) (raw : List Nat) : List Acc :=
  let address := c.start + flashRowAddressOffset c m
  let dataLen := flashRowSize c m
  let body := if dataLen > c.N then raw.take (dataLen - c.W) else raw.take dataLen
  let padded := if dataLen > c.N then raw.drop (dataLen - c.W) else []
  [Acc.program address body] ++
  (if padded ≠ [] then
     [Acc.program (address + body.length) ((padded ++ List.replicate (MAX_WORD_SIZE - padded.length) 0).take c.W)]
   else [])

def setRow (c : Cfg) (f : Flash) (m : Nat) (raw : List Nat) : List Acc × Flash :=
  (setRowAccs c m raw, applyAccs f (setRowAccs c m raw))

def rowAccs (c : Cfg) (m : Nat) : List Acc :=
  let address := c.start + flashRowAddressOffset c m
  [Acc.read address (rowBodyLen c m)] ++
  (if rowPaddedLen c m ≠ 0 then [Acc.read (address + rowBodyLen c m) c.W] else [])

/-- `row(m)` as raw bytes of the returned `BitArray<[u8; N]>` -/
def rowVal (c : Cfg) (f : Flash) (m : Nat) : List Nat :=
  let address := c.start + flashRowAddressOffset c m
  let bodyLen := rowBodyLen c m
  let paddedLen := rowPaddedLen c m
  f.read address bodyLen ++
  (if paddedLen ≠ 0 then
     (f.read (address + bodyLen) c.W ++ List.replicate (MAX_WORD_SIZE - c.W) 0).take paddedLen
   else List.replicate (c.N - bodyLen) 0)

def row (c : Cfg) (f : Flash) (m : Nat) : List Acc × List Nat := (rowAccs c m, rowVal c f m)

/-- the loop of `num_rows` (`fuel` bounds the iterations: the row count never exceeds `8 N`) -/
def numRowsLoop (c : Cfg) (storage : Nat) : Nat → Nat → Nat → Nat
  | 0, _, n => n
  | fuel + 1, size, n =>
    let size' := size + flashRowSize c n
    if size' < storage ∧ n < 8 * c.N then numRowsLoop c storage fuel size' (n + 1) else n

def numRows (c : Cfg) : Nat := numRowsLoop c (c.stop - c.start) (8 * c.N + 1) 0 0

end Fuota.FlashAdapters
