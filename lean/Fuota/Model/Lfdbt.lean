/-!
# Model of the parity-row generators (C10) and the TS004 specification they implement

Import-free, executable (linked into the driver).

* `Fuota.Lfdbt.Spec.*` — `matrix_line(N, M)` transcribed from the pseudo-code of the LoRaWAN
  *Fragmented Data Block Transport* specification (TS004), unbounded `Nat` arithmetic.
* `Fuota.Lfdbt.*` — transcription of the three Rust generators
  (`flash-algo-new/src/fragmentation.rs`, `original-flash-algo/src/fragmentation.rs` — textually the same
  function — and `parity-reconstruct/src/lfdbt.rs`) and of `UpdaterMatrix::row`
  (`flash-algo-new/src/update/matrix.rs`), with their `u32` arithmetic.

A row is a `Nat` bit mask: bit `i` set ⇔ data fragment `i` (0-based) takes part in the coded fragment
(`BitArray<[u8; _], Lsb0>`: byte `i / 8`, bit `i % 8`, i.e. the little-endian bytes of the mask).

Every `while`/`loop` of the sources is a fuelled recursion; `none` = fuel exhausted (or, for the top-level
entry points, a failed `assert!`).  `Fuota.C10.terminates` shows that `drawFuel` is enough for every draw.
-/
namespace Fuota.Lfdbt

/-! ## Specification (TS004, "Fragmentation algorithm": `matrix_line`, `prbs23`) -/
namespace Spec

/-- `function r = prbs23(x)`: `b0 = bitand(x,1); b1 = bitand(x,32)/32; x = floor(x/2) + bitxor(b0,b1)*2^22` -/
def prbs23 (x : Nat) : Nat :=
  let b0 := x &&& 1
  let b1 := (x &&& 32) / 32
  x / 2 + (b0 ^^^ b1) * 2 ^ 22

/-- `is_power2(M)` -/
def isPow2 (M : Nat) : Bool := M == 2 ^ M.log2

/-- `while (r >= M)  x = prbs23(x); r = mod(x, M+m); end`, unrolled at most `fuel` times -/
def drawFrom (M m : Nat) : Nat → Nat → Nat → Nat × Nat
  | 0, x, r => (x, r)
  | f + 1, x, r => if r ≥ M then drawFrom M m f (prbs23 x) (prbs23 x % (M + m)) else (x, r)

/-- the `r` of each of the `c` passes of `for nb_coeff = 1:floor(M/2)  r = 2^16; while …`, state threaded -/
def draws (fuel M m : Nat) : Nat → Nat → List Nat
  | 0, _ => []
  | c + 1, x => (drawFrom M m fuel x (2 ^ 16)).2 :: draws fuel M m c (drawFrom M m fuel x (2 ^ 16)).1

/-- `matrix_line(r+1) = 1` for every `r` of the list, starting from `row` -/
def maskFrom (row : Nat) (rs : List Nat) : Nat := rs.foldl (fun l r => l ||| 2 ^ r) row

/-- `matrix_line(N, M)` with the `while` unrolled at most `fuel` times -/
def matrixLineF (fuel N M : Nat) : Nat :=
  maskFrom 0 (draws fuel M (if isPow2 M then 1 else 0) (M / 2) (1 + 1001 * N))

/-- bound used for the `while` loop of the specification; any bound `≥ 40` gives the same rows
    (`Fuota.C10.matrixLineF_fuel_irrelevant`) -/
def whileFuel : Nat := 64

/-- `matrix_line(N, M)` as a bit mask: bit `i` ⇔ `matrix_line(i+1) = 1` -/
def matrixLine (N M : Nat) : Nat := matrixLineF whileFuel N M

end Spec

/-! ## Implementation model -/

/-- number of set bits (`count_ones`) -/
def popcount (n : Nat) : Nat := if n = 0 then 0 else n % 2 + popcount (n / 2)
decreasing_by omega

/-- `u32::is_power_of_two` / `usize::count_ones() == 1` -/
def isPow2 (M : Nat) : Bool := popcount M == 1

/-- `fragmentation_prbs23` / `lfdbt::prbs23`; no `u32` overflow for `x < 2^32` (`prbs23_lt`) -/
def prbs23 (x : Nat) : Nat :=
  let b0 := x &&& 1
  let b1 := (x &&& 0x20) >>> 5
  x / 2 + ((b0 ^^^ b1) <<< 22)

/-- `1 + 1001_u32.wrapping_mul(cap_n)` overflows `u32`: a panic in overflow-checked builds (used by C17) -/
def seedOverflows (capN : Nat) : Bool := 1 + (1001 * capN) % 2 ^ 32 == 2 ^ 32

/-- release-build value of `1 + 1001_u32.wrapping_mul(cap_n)` -/
def seed (capN : Nat) : Nat := (1 + (1001 * capN) % 2 ^ 32) % 2 ^ 32

/-- fuel of one inner draw loop -/
def drawFuel : Nat := 40

/-- `while r >= cap_m { x = prbs23(x); r = x % (cap_m + m); }` from state `(x, r)`; result `(x, r)` -/
def drawLoop (M S : Nat) : Nat → Nat → Nat → Option (Nat × Nat)
  | 0, x, r => if r < M then some (x, r) else none
  | f + 1, x, r => if r < M then some (x, r) else drawLoop M S f (prbs23 x) (prbs23 x % S)

/-- `while nb_coeff < (cap_m >> 1) { let mut r = 1 << 16; <drawLoop>;
     if allow_redundancy || !buf[r] { buf.set(r, true); nb_coeff += 1; } }` -/
def fillLoop (ffr : Bool) (M S : Nat) : Nat → Nat → Nat → Nat → Option Nat
  | 0, nb, _, row => if nb < M / 2 then none else some row
  | f + 1, nb, x, row =>
    if nb < M / 2 then
      match drawLoop M S drawFuel x (1 <<< 16) with
      | none => none
      | some (x', r) =>
        if !ffr || !row.testBit r then fillLoop ffr M S f (nb + 1) x' (row ||| 2 ^ r)
        else fillLoop ffr M S f nb x' row
    else some row

/-- iterations granted to the outer loop: exactly `M / 2` are used without `force-full-r` -/
def outerFuel (ffr : Bool) (M : Nat) : Nat := if ffr then 64 * (M + 1) else M / 2

/-- body of `get_parity_matrix_row` after the two `assert!`s -/
def rowGen (ffr : Bool) (capN capM : Nat) : Option Nat :=
  let m := if isPow2 capM then 1 else 0
  fillLoop ffr capM (capM + m) (outerFuel ffr capM) 0 (seed capN) 0

/-- `MAX_SEGMENTS`: bit length of the `BitArray<[u8; MAX_SEGMENTS / 8]>` buffer -/
def maxSegments : Nat := 16384

/-- `get_parity_matrix_row(cap_n, cap_m, buf)` of `flash-algo-new` and `original-flash-algo`;
    `none` = `assert!(cap_n != 0)` / `assert!(buf.len() >= cap_m)` fails (or fuel exhausted) -/
def getParityMatrixRow (ffr : Bool) (capN capM : Nat) : Option Nat :=
  if capN = 0 ∨ maxSegments < capM then none else rowGen ffr capN capM

/-- `original-flash-algo/src/fragmentation.rs::get_parity_matrix_row`: the same text as the `flash-algo-new` copy
    (the two files differ in imports, one doc-comment path and lint attributes only), hence the same model -/
def getParityMatrixRowOrig (ffr : Bool) (capN capM : Nat) : Option Nat := getParityMatrixRow ffr capN capM

/-- `UpdaterMatrix { num_blocks: M }.row(m)`; the `as _` casts to `u32` are kept -/
def updaterRow (ffr : Bool) (M m : Nat) : Option Nat :=
  if m < M then some (2 ^ m) else getParityMatrixRow ffr ((m - M + 1) % 2 ^ 32) (M % 2 ^ 32)

/-- `loop { x = prbs23(x); let cand = x % (n + jiggle); if cand < n { break cand; } }` -/
def lfdbtDraw (M S : Nat) : Nat → Nat → Option (Nat × Nat)
  | 0, _ => none
  | f + 1, x => if prbs23 x % S < M then some (prbs23 x, prbs23 x % S) else lfdbtDraw M S f (prbs23 x)

/-- `for _ in 0..(n / 2) { let r = <lfdbtDraw>; out.set(r, true); }` -/
def lfdbtFill (M S : Nat) : Nat → Nat → Nat → Option Nat
  | 0, _, row => some row
  | c + 1, x, row =>
    match lfdbtDraw M S drawFuel x with
    | none => none
    | some (x', r) => lfdbtFill M S c x' (row ||| 2 ^ r)

/-- `LfdbtParity::new(M).row(m)` (release arithmetic: `1 + 1001 * (row_index as u32)` wraps);
    not affected by `force-full-r`.  `none` = fuel exhausted. -/
def lfdbtRow (M m : Nat) : Option Nat :=
  if m < M then some (2 ^ m)
  else
    let rowIndex := m - M
    let jiggle := if popcount M == 1 then 1 else 0
    lfdbtFill M ((M + jiggle) % 2 ^ 32) (M / 2) (seed (rowIndex % 2 ^ 32)) 0

/-- the first `n` little-endian bytes of a mask (`as_raw_slice()[..n]`) -/
def maskBytes (row : Nat) (n : Nat) : List Nat := (List.range n).map (fun i => (row >>> (8 * i)) % 256)

end Fuota.Lfdbt
