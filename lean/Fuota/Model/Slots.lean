import Fuota.Model.Updater
import Std.Data.HashSet
/-!
# Header-level abstract machine of the slot ring (properties C05, C12, C13)

State = what `loadHeaders` returns (`List (Option Header)` of length `N`); the content of the data regions
is abstracted away. Every transition is the header-level effect of one atomic flash operation (or of a crash
prefix of an API call) and is DEFINED THROUGH the pure decision functions of the validated model:
`choosePair`, `fallbackSlot`, `blStatus` (`Model/Fs`), `twoNewest`, `reasonablySized`, `VBITS` (`Model/Updater`),
`totalStatus`, `seqNext` (`Model/Layout`).

Header-level reading of the flash operations (all justified by `Model/Fs`, `Model/Updater`):
* `Slot.clear` erases the first block of a slot first; the header lives in that block ⇒ the header reads
  `none` from the first erase on; the remaining block erases do not change any header;
* `writeSeqNo` alone leaves the header unparseable (kind word blank) ⇒ still `none`;
* `setKind; setLayout` (count, then size): the header parses exactly when the size word is programmed ⇒
  one effect "header appears" `{kind, seq, size, n, inProgress, inProgress, untested}`;
* `markExt*`, `markInt*`, `markBoot*` program one status word ⇒ one field of one header changes.
-/
namespace Fuota.Slots
open Fuota.Layout Fuota.Fs Fuota.Updater

abbrev Hdrs := List (Option Header)

/-- one atomic header-level effect: slot `e.1` now reads `e.2` -/
abbrev Eff := Nat × Option Header

def apply1 (hs : Hdrs) (e : Eff) : Hdrs := hs.set e.1 e.2
def applyAll (hs : Hdrs) (es : List Eff) : Hdrs := es.foldl apply1 hs

/-- geometry of the updates started by the machine (the image size is irrelevant at header level; it only
    feeds the sanity checks of recovery) -/
structure Geom where
  slotSize : Nat := 20480
  segSize : Nat := 32
  nseg : Nat := 16
  maxL : Nat := 8
  deriving Repr

def fwHeader (g : Geom) (s : Nat) : Header :=
  { kind := .firmware, seq := s, size := g.segSize, n := g.nseg, ext := .inProgress, ist := .inProgress, boot := .untested }
def parHeader (g : Geom) (s : Nat) : Header :=
  { kind := .parity, seq := s, size := g.segSize, n := g.maxL, ext := .inProgress, ist := .inProgress, boot := .untested }

/-! ## the ring order `choosePair` computes -/

/-- the `low` fold of `alloc_slotpair`: (index, sequence number) of the oldest used slot -/
def lowOf (hs : Hdrs) : Option (Nat × Nat) :=
  (indexed hs).foldl (fun (acc : Option (Nat × Nat)) p =>
    match acc with
    | none => some (p.1, p.2.seq)
    | some (_, s) => if s > p.2.seq then some (p.1, p.2.seq) else acc) none

/-- the `high` fold of `alloc_slotpair` -/
def highOf (hs : Hdrs) : Option (Nat × Nat) :=
  (indexed hs).foldl (fun (acc : Option (Nat × Nat)) p =>
    match acc with
    | none => some (p.1, p.2.seq)
    | some (_, s) => if s < p.2.seq then some (p.1, p.2.seq) else acc) none

/-- ring offset of slot `i` from slot `low` -/
def off (n low i : Nat) : Nat := (i + n - low) % n

/-- every used slot lies on the forward arc from `low` to `high` (the `low`/`high` of `choosePair`) -/
def ArcInv (n : Nat) (hs : Hdrs) : Prop :=
  match lowOf hs, highOf hs with
  | some (low, _), some (high, _) => ∀ p ∈ indexed hs, off n low p.1 ≤ off n low high
  | _, _ => True

instance (n : Nat) (hs : Hdrs) : Decidable (ArcInv n hs) := by
  unfold ArcInv; split <;> infer_instance

/-- sequence numbers increase along the arc from `low` at least as fast as the ring offset (so they increase
    strictly, and between two used slots there are enough unused numbers for the unused slots between them) -/
def SeqInv (n : Nat) (hs : Hdrs) : Prop :=
  match lowOf hs with
  | some (low, _) => ∀ p ∈ indexed hs, ∀ q ∈ indexed hs, off n low p.1 < off n low q.1 →
      p.2.seq + (off n low q.1 - off n low p.1) ≤ q.2.seq
  | none => True

instance (n : Nat) (hs : Hdrs) : Decidable (SeqInv n hs) := by
  unfold SeqInv; split <;> infer_instance

/-- no parsed header carries the reserved sequence number (`parseSeq` guarantees it), and there is room for
    `room` more allocations without reaching it (the no-wrap-around assumption of the ring theorems) -/
def SeqRoom (room : Nat) (hs : Hdrs) : Prop := ∀ p ∈ indexed hs, p.2.seq + room < 0xFFFFFFFF

instance (room : Nat) (hs : Hdrs) : Decidable (SeqRoom room hs) := by unfold SeqRoom; infer_instance

/-! ## header-level effects of the API operations -/

/-- `start_update` after its parameter check: erase second, erase first, firmware header appears, parity header
    appears. (A failing parameter check issues no operation at all: `C15.start_rejects_untouched`.) -/
def startEffs (g : Geom) (n : Nat) (hs : Hdrs) : Except MErr (List Eff × Nat × Nat) :=
  match choosePair n hs with
  | .error e => .error e
  | .ok (a, b, sa, sb) =>
    .ok ([(b, none), (a, none), (a, some (fwHeader g sa)), (b, some (parHeader g sb))], a, b)

/-- `check_and_mark_done` on the pair `(f, p)`: ext of the firmware header, then ext of the parity header -/
def completeEffs (hs : Hdrs) (f p : Nat) : Option (List Eff) :=
  match hs.getD f none, hs.getD p none with
  | some h, some hp => some [(f, some { h with ext := .complete }), (p, some { hp with ext := .complete })]
  | _, _ => none

/-- `cancel_all_ext_pending` (`cancelFrom`): every header whose ext status reads in progress, in index order -/
def cancelEffsOf : List (Nat × Header) → List Eff
  | [] => []
  | (i, h) :: rest =>
    if h.ext = Ext.inProgress then (i, some { h with ext := .aborted }) :: cancelEffsOf rest else cancelEffsOf rest

def cancelEffs (hs : Hdrs) : List Eff := cancelEffsOf (indexed hs)

/-- the decisions of `try_recover_inner` up to the remediation loop: `(newest, second newest)` -/
def recoverDecision (g : Geom) (hs : Hdrs) : Option ((Nat × Header) × (Nat × Header)) :=
  match twoNewest (indexed hs) with
  | (some nw, some sn) =>
    if totalStatus nw.2 ≠ TotalStatus.appWriteInProgress then none
    else if nw.2.kind ≠ Kind.parity then none
    else if totalStatus sn.2 ≠ TotalStatus.appWriteInProgress then none
    else if sn.2.kind ≠ Kind.firmware then none
    else if nw.2.size ≠ sn.2.size then none
    else if nw.2.n > VBITS then none
    else match reasonablySized g.slotSize sn.2.size sn.2.n with
      | .error _ => none
      | .ok () => some (nw, sn)
  | _ => none

/-- the remediation loop of `try_recover_inner` as one pass in slot-index order (the code before the
    remediation-order repair; kept for the witness of the chimera it allows) -/
def remediateEffsPinned (skipA skipB : Nat) : List (Nat × Header) → List Eff
  | [] => []
  | (i, h) :: rest =>
    if i = skipA ∨ i = skipB then remediateEffsPinned skipA skipB rest else
    match totalStatus h with
    | .appWriteInProgress => (i, some { h with ext := .aborted }) :: remediateEffsPinned skipA skipB rest
    | .bootloadWriteInProgress | .invalidNeedsErase => (i, none) :: remediateEffsPinned skipA skipB rest
    | _ => remediateEffsPinned skipA skipB rest

/-- first pass of the remediation: every other slot that reads in progress is marked aborted -/
def remediateAbortEffs (skipA skipB : Nat) : List (Nat × Header) → List Eff
  | [] => []
  | (i, h) :: rest =>
    if i = skipA ∨ i = skipB then remediateAbortEffs skipA skipB rest else
    match totalStatus h with
    | .appWriteInProgress => (i, some { h with ext := .aborted }) :: remediateAbortEffs skipA skipB rest
    | _ => remediateAbortEffs skipA skipB rest

/-- second pass of the remediation: every other copy-pending or invalid slot is erased -/
def remediateEraseEffs (skipA skipB : Nat) : List (Nat × Header) → List Eff
  | [] => []
  | (i, h) :: rest =>
    if i = skipA ∨ i = skipB then remediateEraseEffs skipA skipB rest else
    match totalStatus h with
    | .bootloadWriteInProgress | .invalidNeedsErase => (i, none) :: remediateEraseEffs skipA skipB rest
    | _ => remediateEraseEffs skipA skipB rest

/-- the remediation of `try_recover_inner`: all aborts, then all erases (each in slot-index order) -/
def remediateEffs (skipA skipB : Nat) (l : List (Nat × Header)) : List Eff :=
  remediateAbortEffs skipA skipB l ++ remediateEraseEffs skipA skipB l

/-- `try_recover`: the returned pair `(firmware slot, parity slot)` and the header effects, in order -/
def recoverEffs (g : Geom) (hs : Hdrs) : Option (Nat × Nat) × List Eff :=
  match recoverDecision g hs with
  | some (nw, sn) => (some (sn.1, nw.1), remediateEffs nw.1 sn.1 (indexed hs))
  | none => (none, cancelEffs hs)

/-- `try_recover` with the single-pass remediation -/
def recoverEffsPinned (g : Geom) (hs : Hdrs) : Option (Nat × Nat) × List Eff :=
  match recoverDecision g hs with
  | some (nw, sn) => (some (sn.1, nw.1), remediateEffsPinned nw.1 sn.1 (indexed hs))
  | none => (none, cancelEffs hs)

/-- `try_recover` run to its end -/
def recover (g : Geom) (hs : Hdrs) : Option (Nat × Nat) × Hdrs :=
  ((recoverEffs g hs).1, applyAll hs (recoverEffs g hs).2)

/-- `cancel_all_ext_pending` run to its end -/
def cancel (hs : Hdrs) : Hdrs := applyAll hs (cancelEffs hs)

/-- bootloader: `mark_int_status_complete` on the slot `bl_boot_status` reports as copy-incomplete -/
def copyDoneEff (hs : Hdrs) : Option Eff :=
  match blStatus hs with
  | some (.inl i) => (hs.getD i none).map fun h => (i, some { h with ist := .complete })
  | _ => none

/-- application: `mark_boot_outcome_successful` on the slot reported as load-unacknowledged -/
def confirmEff (hs : Hdrs) : Option Eff :=
  match blStatus hs with
  | some (.inr i) => (hs.getD i none).map fun h => (i, some { h with boot := .successful })
  | _ => none

/-- application: `mark_boot_outcome_unsuccessful` -/
def rejectEff (hs : Hdrs) : Option Eff :=
  match blStatus hs with
  | some (.inr i) => (hs.getD i none).map fun h => (i, some { h with boot := .unsuccessful })
  | _ => none

/-! ## the machine with its ghost state -/

inductive Life
  | inProg | par | aborted | copyPend | ackPend | confirmed (rank : Nat) | rejected
  deriving DecidableEq, Repr

structure State where
  hs : Hdrs
  /-- the updater object held in RAM: (firmware slot, parity slot) -/
  sess : Option (Nat × Nat) := none
  /-- pairs written by a successful start, not completed / cancelled, no slot touched since (sorted) -/
  live : List (Nat × Nat) := []
  /-- the latest start succeeded and that update was neither completed nor cancelled -/
  must : Option (Nat × Nat) := none
  /-- lifecycle of the image a successful start put into the slot -/
  life : List (Option Life)
  /-- which start attempt wrote the header of the slot -/
  att : List (Option Nat)
  deriving Repr

inductive Label
  | start (k : Nat) (full : Bool) | completeCrash | complete | cancel (k : Nat) (full : Bool)
  | recoverSome (k : Nat) (full : Bool) | recoverNone (k : Nat) (full : Bool)
  | copyDone | confirm | reject | reboot
  deriving DecidableEq, Repr

structure Cfg where
  n : Nat
  geom : Geom := {}
  /-- crash prefixes of cancel / recovery are transitions too (hdrsim.py has them atomic) -/
  crashInside : Bool := true
  /-- keep the start-attempt ids in the state (hdrsim.py has no such ghost) -/
  attempts : Bool := true
  /-- single-pass remediation in `try_recover_inner` (the code before the remediation-order repair) -/
  pinnedRemediation : Bool := false

def Cfg.recoverEffs (c : Cfg) (hs : Hdrs) : Option (Nat × Nat) × List Eff :=
  if c.pinnedRemediation then recoverEffsPinned c.geom hs else Slots.recoverEffs c.geom hs

instance : Inhabited State := ⟨{ hs := [], life := [], att := [] }⟩

def State.init (n : Nat) : State :=
  { hs := List.replicate n none, life := List.replicate n none, att := List.replicate n none }

def touches (es : List Eff) (p : Nat × Nat) : Bool := es.any fun e => e.1 = p.1 || e.1 = p.2

def insertPair (p : Nat × Nat) : List (Nat × Nat) → List (Nat × Nat)
  | [] => [p]
  | q :: qs => if p.1 < q.1 ∨ (p.1 = q.1 ∧ p.2 ≤ q.2) then p :: q :: qs else q :: insertPair p qs

/-- ghost update for one effect of cancel / recovery -/
def ghostEff (s : State) (e : Eff) : State :=
  match e.2 with
  | none => { s with life := s.life.set e.1 none, att := s.att.set e.1 none }
  | some h =>
    if h.ext = Ext.aborted ∧ s.life.getD e.1 none = some Life.inProg then { s with life := s.life.set e.1 (some .aborted) }
    else s

def pending (s : State) : List (Nat × Life) :=
  (s.life.zipIdx).filterMap fun (l, i) =>
    match l with
    | some .copyPend => some (i, .copyPend)
    | some .ackPend => some (i, .ackPend)
    | _ => none

def maxAtt (s : State) : Nat := s.att.foldl (fun m a => match a with | some v => max m (v + 1) | none => m) 0
def maxRank (s : State) : Nat :=
  s.life.foldl (fun m l => match l with | some (.confirmed r) => max m (r + 1) | _ => m) 0

/-- transitions of `start`: one per crash prefix, the last one is the successful call -/
def startSuccs (c : Cfg) (s : State) : List (Label × State) :=
  match startEffs c.geom c.n s.hs with
  | .error _ => []
  | .ok (es, a, b) =>
    let id := maxAtt s
    (List.range es.length).map fun k =>
      let done := es.take (k + 1)
      let hs' := applyAll s.hs done
      let full := k + 1 = es.length
      let life := done.foldl (fun (l : List (Option Life)) e => if e.2.isNone then l.set e.1 none else l) s.life
      let att := done.foldl (fun (l : List (Option Nat)) e => l.set e.1 (e.2.map fun _ => id)) s.att
      let live := s.live.filter fun p => !touches done p
      if full then
        (.start k true, { hs := hs', sess := some (a, b), live := insertPair (a, b) live, must := some (a, b),
                          life := (life.set a (some .inProg)).set b (some .par), att := att })
      else
        (.start k false, { hs := hs', sess := none, live := live, must := none, life := life, att := att })

/-- transitions of `check_and_mark_done` (environment assumption of C12: no other image is pending) -/
def completeSuccs (s : State) : List (Label × State) :=
  match s.sess with
  | none => []
  | some (f, p) =>
    if !(pending s).isEmpty then [] else
    match completeEffs s.hs f p with
    | none => []
    | some es =>
      let live := s.live.filter fun q => q ≠ (f, p)
      let must := if s.must = some (f, p) then none else s.must
      let life := s.life.set f (some .copyPend)
      [(.completeCrash, { s with hs := applyAll s.hs (es.take 1), sess := none, live := live, must := must, life := life }),
       (.complete, { s with hs := applyAll s.hs es, sess := none, live := live, must := must, life := life })]

/-- all crash prefixes (if `crashInside`) and the full run of an effect list of cancel / recovery -/
def prefixRuns (c : Cfg) (s : State) (es : List Eff) : List (Nat × Bool × State × List Eff) :=
  let ks := if c.crashInside then List.range (es.length + 1) else [es.length]
  ks.map fun k =>
    let done := es.take k
    let s' := done.foldl ghostEff { s with hs := applyAll s.hs done }
    (k, k = es.length, s', done)

def cancelSuccs (c : Cfg) (s : State) : List (Label × State) :=
  (prefixRuns c s (cancelEffs s.hs)).map fun (k, full, s', done) =>
    if full then (.cancel k true, { s' with sess := none, live := [], must := none })
    else (.cancel k false, { s' with sess := none, live := s.live.filter (fun p => !touches done p),
                                     must := match s.must with
                                       | some p => if touches done p then none else some p
                                       | none => none })

def recoverSuccs (c : Cfg) (s : State) : List (Label × State) :=
  match c.recoverEffs s.hs with
  | (none, es) =>
    (prefixRuns c s es).map fun (k, full, s', done) =>
      if full then (.recoverNone k true, { s' with sess := none, live := [], must := none })
      else (.recoverNone k false, { s' with sess := none, live := s.live.filter (fun p => !touches done p),
                                            must := match s.must with
                                              | some p => if touches done p then none else some p
                                              | none => none })
  | (some r, es) =>
    (prefixRuns c s es).map fun (k, full, s', done) =>
      if full then (.recoverSome k true, { s' with sess := some r, live := [r], must := if s.must = some r then s.must else none })
      else (.recoverSome k false, { s' with sess := none, live := s.live.filter (fun p => !touches done p),
                                            must := match s.must with
                                              | some p => if touches done p then none else some p
                                              | none => none })

def blSuccs (s : State) : List (Label × State) :=
  (match copyDoneEff s.hs with
   | some e => [(Label.copyDone, { s with hs := apply1 s.hs e, life := s.life.set e.1 (some .ackPend) })]
   | none => []) ++
  (match confirmEff s.hs with
   | some e => [(Label.confirm, { s with hs := apply1 s.hs e, life := s.life.set e.1 (some (.confirmed (maxRank s))) })]
   | none => []) ++
  (match rejectEff s.hs with
   | some e => [(Label.reject, { s with hs := apply1 s.hs e, life := s.life.set e.1 (some .rejected) })]
   | none => [])

def rebootSuccs (s : State) : List (Label × State) :=
  if s.sess.isSome then [(.reboot, { s with sess := none })] else []

/-- all transitions of the machine -/
def succs (c : Cfg) (s : State) : List (Label × State) :=
  startSuccs c s ++ completeSuccs s ++ cancelSuccs c s ++ recoverSuccs c s ++ blSuccs s ++ rebootSuccs s

/-- follow the transition with the given label -/
def stepBy (c : Cfg) (s : State) (l : Label) : Option State :=
  ((succs c s).find? (fun t => t.1 = l)).map (·.2)

def runLabels (c : Cfg) : State → List Label → Option State
  | s, [] => some s
  | s, l :: ls => match stepBy c s l with
    | some t => runLabels c t ls
    | none => none

/-! ## predicates checked on every reachable state (header-level readings of C05, C12, C13) -/

def readsInProgress (hs : Hdrs) : List Nat :=
  (indexed hs).filterMap fun (i, h) => if h.ext = Ext.inProgress then some i else none

def isProtected (h : Header) : Bool :=
  totalStatus h = .confirmedImage || totalStatus h = .rejectedImage || totalStatus h = .firstBootPendingAck

/-- lifecycle answer to the boot-status query -/
def lifeBl (s : State) : Option (Sum Nat Nat) :=
  match pending s with
  | (i, .copyPend) :: _ => some (.inl i)
  | (i, .ackPend) :: _ => some (.inr i)
  | _ => none

/-- lifecycle answer to the fallback query: the most recently confirmed slot -/
def lifeFallback (s : State) : Option Nat :=
  ((s.life.zipIdx).foldl (fun (acc : Option (Nat × Nat)) (li : Option Life × Nat) =>
    match li.1 with
    | some (.confirmed r) =>
      (match acc with
       | none => some (li.2, r)
       | some (_, r0) => if r0 < r then some (li.2, r) else acc)
    | _ => acc) none).map (·.1)

def Life.rank? : Option Life → Option Nat
  | some (.confirmed r) => some r
  | _ => none

def lifeAt (s : State) (i : Nat) : Option Life := s.life.getD i none

/-- the refinement relation of C12 between the ghost lifecycle and the headers: a firmware header reads copy- /
    acknowledgement-pending exactly when the lifecycle says so, a header reads confirmed exactly when the lifecycle
    says so, such lifecycle states sit on used slots, and a later confirmation carries a larger sequence number -/
def LifeInv (s : State) : Prop :=
  (∀ p ∈ indexed s.hs,
    ((p.2.kind = Kind.firmware ∧ totalStatus p.2 = TotalStatus.bootloadWriteInProgress) ↔ lifeAt s p.1 = some .copyPend) ∧
    ((p.2.kind = Kind.firmware ∧ totalStatus p.2 = TotalStatus.firstBootPendingAck) ↔ lifeAt s p.1 = some .ackPend) ∧
    (totalStatus p.2 = TotalStatus.confirmedImage ↔ (Life.rank? (lifeAt s p.1)).isSome)) ∧
  (∀ i ∈ List.range s.life.length,
    (lifeAt s i = some .copyPend ∨ lifeAt s i = some .ackPend ∨ (Life.rank? (lifeAt s i)).isSome) →
      (s.hs.getD i none).isSome) ∧
  (∀ p ∈ indexed s.hs, ∀ q ∈ indexed s.hs,
    match Life.rank? (lifeAt s p.1), Life.rank? (lifeAt s q.1) with
    | some r, some r' => (r < r' ↔ p.2.seq < q.2.seq) ∧ (r = r' → p.1 = q.1)
    | _, _ => True)

instance (s : State) : Decidable (LifeInv s) := by
  unfold LifeInv
  have : ∀ (a b : Option Nat) (P : Nat → Nat → Prop) [∀ r r', Decidable (P r r')],
      Decidable (match a, b with | some r, some r' => P r r' | _, _ => True) := by
    intro a b P _
    cases a <;> cases b <;> infer_instance
  infer_instance

def violations (c : Cfg) (s : State) : List String := Id.run do
  let mut v : List String := []
  let hs := s.hs
  if hs.length ≠ c.n then v := "length" :: v
  if !decide (ArcInv c.n hs) then v := "ArcInv" :: v
  if !decide (SeqInv c.n hs) then v := "SeqInv" :: v
  if !decide (SeqRoom 2 hs) then v := "SeqRoom" :: v
  -- C05
  let fb := fallbackSlot hs
  match startEffs c.geom c.n hs with
  | .error _ => v := "C05 start panics" :: v
  | .ok (es, a, b) =>
    if !(a < c.n && b < c.n && a ≠ b) then v := "C05 pair malformed" :: v
    match fb with
    | some f =>
      if a = f || b = f then v := "C05 start touches fallback" :: v
      for k in List.range (es.length + 1) do
        let hs' := applyAll hs (es.take k)
        if hs'.getD f none ≠ hs.getD f none then v := "C05 fallback slot changed" :: v
        if fallbackSlot hs' ≠ fb then v := "C05 fallback answer changed" :: v
    | none => pure ()
  -- C12
  if !decide (LifeInv s) then v := "LifeInv" :: v
  if (pending s).length > 1 then v := "C12 precondition broken (two pending)" :: v
  if blStatus hs ≠ lifeBl s then v := "C12 bl mismatch" :: v
  if fb ≠ lifeFallback s then v := "C12 fallback mismatch" :: v
  -- C13 cancel
  let hc := cancel hs
  if !(readsInProgress hc).isEmpty then v := "C13 cancel leaves in-progress" :: v
  for e in cancelEffs hs do
    match hs.getD e.1 none with
    | some h => if isProtected h then v := "C13 cancel modifies protected" :: v
    | none => pure ()
  if !(cancelEffs hc).isEmpty then v := "C13 cancel not idempotent" :: v
  -- C13 recover
  let (res, es) := c.recoverEffs hs
  for e in es do
    match hs.getD e.1 none with
    | some h => if isProtected h then v := "C13 recover modifies protected" :: v
    | none => pure ()
  let hr := applyAll hs es
  match res with
  | none =>
    if s.must.isSome then v := "C13 recover returns none though latest start succeeded and is live" :: v
    if !(readsInProgress hr).isEmpty then v := "C13 none leaves in-progress" :: v
  | some r =>
    if !s.live.contains r then v := "C13 recover returns session not live" :: v
    if s.must.isSome && s.must ≠ some r then v := "C13 recover returns other than latest" :: v
    if (readsInProgress hr).any (fun i => i ≠ r.1 && i ≠ r.2) then v := "C13 some leaves other in-progress" :: v
    if c.attempts then
      let af := s.att.getD r.1 none
      if af.isNone || af ≠ s.att.getD r.2 none then v := "C13 chimera (pair written by different starts)" :: v
  let (res2, es2) := c.recoverEffs hr
  if res2 ≠ res || !es2.isEmpty then v := "C13 recover not idempotent" :: v
  return v

/-! ## normal form modulo sequence shift, and the closure computation -/

def compress (xs : List Nat) (v : Nat) : Nat := ((xs.filter (· < v)).eraseDups).length

def State.norm (c : Cfg) (s : State) : State :=
  let seqs := (indexed s.hs).map (·.2.seq)
  let m := seqs.foldl min (seqs.headD 0)
  let ranks := s.life.filterMap fun l => match l with | some (.confirmed r) => some r | _ => none
  let atts := s.att.filterMap id
  { s with
    hs := s.hs.map (Option.map fun h => { h with seq := h.seq - m })
    life := s.life.map (Option.map fun l => match l with | .confirmed r => .confirmed (compress ranks r) | l => l)
    att := if c.attempts then s.att.map (Option.map (compress atts)) else s.att.map fun _ => none }

def kindCode : Kind → Nat | .firmware => 0 | .parity => 1
def extCode : Ext → Nat | .inProgress => 0 | .aborted => 1 | .complete => 2
def intCode : IntSt → Nat | .inProgress => 0 | .complete => 1
def bootCode : Boot → Nat | .untested => 0 | .successful => 1 | .unsuccessful => 2
def lifeCode : Option Life → Nat
  | none => 0 | some .inProg => 1 | some .par => 2 | some .aborted => 3 | some .copyPend => 4
  | some .ackPend => 5 | some .rejected => 6 | some (.confirmed r) => 7 + r
def pairCode : Option (Nat × Nat) → List Nat | none => [0] | some (a, b) => [1, a, b]

/-- injective encoding of a state, used as hash key -/
def State.key (s : State) : List Nat :=
  s.hs.flatMap (fun o => match o with
    | none => [0]
    | some h => [1 + kindCode h.kind + 2 * (extCode h.ext + 3 * (intCode h.ist + 2 * bootCode h.boot)), h.seq, h.size, h.n]) ++
  pairCode s.sess ++ pairCode s.must ++ [s.live.length] ++ s.live.flatMap (fun p => [p.1, p.2]) ++
  s.life.map lifeCode ++ s.att.map (fun a => match a with | none => 0 | some v => v + 1)

structure Result where
  states : Nat
  transitions : Nat
  exhausted : Bool
  bad : List (String × List Nat)
  deriving Repr

/-- breadth-first closure of `succs` from the blank ring modulo `State.norm`; `fuel` bounds the number of
    expanded states. Model-checking SUPPORT (not a proof): it is the same `succs` the theorems talk about. -/
def explore (c : Cfg) (fuel : Nat) : Result := Id.run do
  let s0 := (State.init c.n).norm c
  let mut seen : Std.HashSet (List Nat) := Std.HashSet.emptyWithCapacity 1024
  seen := seen.insert s0.key
  let mut queue : Array State := #[s0]
  let mut head := 0
  let mut trans := 0
  let mut bad : List (String × List Nat) := []
  for _ in [0:fuel] do
    if head ≥ queue.size then break
    let s := queue[head]!
    head := head + 1
    for m in violations c s do
      if !(bad.any fun b => b.1 = m) then bad := (m, s.key) :: bad
    for (_, t) in succs c s do
      trans := trans + 1
      let t' := t.norm c
      let k := t'.key
      if !seen.contains k then
        seen := seen.insert k
        queue := queue.push t'
  return { states := seen.size, transitions := trans, exhausted := head ≥ queue.size, bad := bad }

/-- `(number of reachable states modulo sequence shift, every one of them passes all checks)` -/
def closure (n : Nat) (fuel : Nat := 10000000) : Nat × Bool :=
  let r := explore { n := n } fuel
  (r.states, r.exhausted && r.bad.isEmpty)

/-- the same exploration with hdrsim.py's granularity (atomic cancel / recovery, no attempt ids) -/
def closureCompat (n : Nat) (fuel : Nat := 10000000) : Nat × Bool :=
  let r := explore { n := n, crashInside := false, attempts := false, pinnedRemediation := true } fuel
  (r.states, r.exhausted && r.bad.isEmpty)

end Fuota.Slots
