/-! GF(2) vocabulary shared by the reconstructor theorems: XOR-combinations and spans of `Nat` bit-mask rows. -/
namespace Fuota.Gf2

/-- XOR of `x j` over the bits `j < l` set in `r` (what a coded block is, given the originals `x`) -/
def combo (x : Nat → Nat) (r : Nat) : Nat → Nat
  | 0 => 0
  | l + 1 => combo x r l ^^^ (if r.testBit l then x l else 0)

/-- XOR of a list of rows -/
def xorAll : List Nat → Nat
  | [] => 0
  | r :: rs => r ^^^ xorAll rs

/-- `v` is the XOR of some sub-list of `rows` -/
def InSpan (rows : List Nat) (v : Nat) : Prop := ∃ sel : List Nat, sel.Sublist rows ∧ xorAll sel = v

/-- the documented `ParityMatrix` contract: identity rows below `n`, no bit at or above `n` anywhere -/
def Contract (n : Nat) (P : Nat → Nat) : Prop := (∀ m, m < n → P m = 2 ^ m) ∧ (∀ m, P m < 2 ^ n)

end Fuota.Gf2
