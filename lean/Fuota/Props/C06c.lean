import Fuota.Lemmas.RefineTornHazard
import Fuota.Lemmas.RefineStartH
/-!
# C06c — a power loss *inside* a program of a `handle_segment` call (a torn program), outside `finish`

`C06b` treats a power loss at an operation boundary. Here the power is lost inside the `k`-th mutating operation
(`Dev.withTear k p keep`, i.e. `crashAt = some (nmut + k, some (p, keep))`): a program of bytes `bs` programs only
`tear p keep` of itself — the bytes before `p` completely, byte `p` with the bits of `keep` not yet cleared, the bytes
after `p` not at all. The four programs of a call outside `finish` are: the data and the written mark (`0x33`) of a
stage-1 store, the parity block and the matrix row of a stage-2 pivot store (`Updater.TornState`).

**What is proved** (`crash_resume_resend_torn_L2_partial`): if the tear changed **no written-mark byte and no diagonal
byte of the matrix**, then after the reboot `try_recover_inner` succeeds without touching the device, and delivering
the interrupted fragment again is answered as the uninterrupted delivery, re-establishes the session invariant and
ends with the same abstraction (then any continuation: `crash_resume_continue_torn_L2_partial`). The extra hypothesis
holds automatically when the torn operation is the first program of the call — **every torn data program and every
torn parity-block program** (`crash_resume_resend_torn_first_L2`, no extra hypothesis): the torn bytes are a superset
of the final ones, nothing reads them before the redelivery, and programming the final bytes over them gives the
final value. It also covers a torn mark that left the byte `0xFF`, and a torn row that did not reach (or did not
change) its diagonal byte.

**What is excluded, and why (hazards of the pinned tree, replayable).**
* **torn written mark.** The mark program clears the four bits `0xCC` of an erased byte. A tear leaves
  `0x33 ||| k` with `k ⊆ 0xCC`. `k = 0xCC`: nothing happened (covered). `k = 0`: the mark is complete — the store
  is complete on flash although the call answered an error (benign, not covered by the statement: recovery then
  reports the block as present). Any other `k` (14 values, e.g. `keep = 0x40` ↦ `0x73`): the byte is neither
  `DATA_WRITTEN` nor `DATA_NOT_WRITTEN`, `BitCache::fill_from` answers `Hw`, and **`try_recover_inner` fails** —
  the session cannot be resumed (`torn_mark_hazard`).
* **torn matrix row.** The row is stored with its diagonal bit inverted; `load_used` takes pivot `p` for used when the
  diagonal *byte* is not `0xFF`. A tear inside the diagonal byte that clears the diagonal bit but not yet another bit
  that the row has 0 leaves a **different, valid-looking row**: recovery takes the pivot for used with a wrong
  equation, the redelivered fragment reduces against it, and the session completes with wrong blocks. Concrete
  scenario (`torn_row_hazard`): two 32 KiB slots, `n = 2`, `bs = 1`, image `[x0, x1]`; first delivery: coded fragment
  3 (row `10`, payload `x1`); power lost inside the second program of that call (the row program of pivot 1, one byte
  `0x00` over `0xFF`) with tear `(p, keep) = (0, 0x01)`: the byte reads `0x01`, i.e. pivot 1 used with row `11`
  ("x0 + x1 = payload"). After reboot and recovery, fragment 3 again reduces to row `01` with data `0`, is stored as
  pivot 0 ("x0 = 0"), the session is complete, `finish` writes segment 0 := `0` and segment 1 := `x1`:
  `FirmwareComplete` with a wrong block 0 whenever `x0 ≠ 0`.
* a power loss inside `finish` or `start_update`, and the stage corner, as in C06b.
-/
namespace Fuota.C06c
open Fuota.Nor Fuota.Fs Fuota.Updater Fuota.Recon Fuota.Layout Fuota.FlashAdapters Fuota.C07b

/-- **C06c (torn program outside `finish`, marks and diagonal bytes unchanged — `_partial`: the statement without
`hmarks`/`hdiags` is false, see the header).** `(u, d)` satisfies the session invariant with headers; the session
headers are the two newest of the ring, all other slots are settled; not the stage corner. A genuine fragment is
delivered while the power is lost inside the `k`-th mutating flash operation from now with tear `(p, keep)`; the call
answers an error and the in-memory updater was still incomplete; and on the rebooted device every written-mark byte
(`hmarks`) and every diagonal byte of the matrix (`hdiags`) reads as before the call. Then: the device is dead; the
rebooted device has no injection armed; `try_recover_inner` on it succeeds without touching it and returns `u'`; and
delivering the interrupted fragment to `(u', rebooted device)` is answered exactly as the uninterrupted delivery on
`(u, d)`, re-establishes the session invariant (for `u'` with its segment-size cache filled; `CacheOK`), and ends with
the same abstraction. -/
theorem crash_resume_resend_torn_L2_partial (ffr : Bool) (nslots : Nat) {u : Upd} {d : Dev} {sa sb : Nat}
    (LH : LawfulH u d sa sb) (hin : nslots * u.fw.size ≤ d.flash.size) (hnew : NewestPair nslots u d sa sb)
    (hoth : OthersSettled nslots u d) (hcorner : u.l = 0 ∨ u.used ≠ 0) (idx1 : Nat) (hidx : idx1 ≠ 0)
    (bytes : List Nat) (hb : IsBytes bytes) (hlen : bytes.length = u.bs)
    (hrow : (updaterRow ffr u.n (idx1 - 1)).isSome = true) (k p keep : Nat)
    (herr : ∃ er, ((handleSegment ffr idx1 bytes).run (u, d.withTear k p keep)).1 = .error er)
    (hinc : rcComplete ((handleSegment ffr idx1 bytes).run (u, d.withTear k p keep)).2.1 = false)
    (hmarks : ∀ j, j < u.n →
      ((handleSegment ffr idx1 bytes).run (u, d.withTear k p keep)).2.2.reboot.flash.byte (statAddr u j) =
        d.flash.byte (statAddr u j))
    (hdiags : ∀ m, m < u.maxL →
      ((handleSegment ffr idx1 bytes).run (u, d.withTear k p keep)).2.2.reboot.flash.byte (diagAddr u m) =
        d.flash.byte (diagAddr u m)) :
    ((handleSegment ffr idx1 bytes).run (u, d.withTear k p keep)).2.2.dead = true ∧
    Good ((handleSegment ffr idx1 bytes).run (u, d.withTear k p keep)).2.2.reboot ∧
    ∃ u', (tryRecoverInner nslots u.fw.size).run
          ((handleSegment ffr idx1 bytes).run (u, d.withTear k p keep)).2.2.reboot =
        (.ok (some u'), ((handleSegment ffr idx1 bytes).run (u, d.withTear k p keep)).2.2.reboot) ∧
      Repaired ffr idx1 bytes u d u' ((handleSegment ffr idx1 bytes).run (u, d.withTear k p keep)).2.2.reboot := by
  obtain ⟨index, rfl⟩ : ∃ index, idx1 = index + 1 := ⟨idx1 - 1, by omega⟩
  rw [Nat.add_sub_cancel] at hrow
  obtain ⟨hdead, hG, T, _⟩ := torn_call ffr LH.law index bytes hb hlen hrow k p keep herr hinc
  obtain ⟨hrec, R⟩ := T.resume nslots LH hin hnew hoth hcorner hG hmarks hdiags hlen hrow
  exact ⟨hdead, hG, _, hrec, R⟩

/-- **C06c (torn first program: every torn data program, every torn parity-block program).** As above with `k = 0`
— the power is lost inside the first program of the call, which is the data program of a stage-1 store or the block
program of a stage-2 pivot store — for **every** tear `(p, keep)`, without further hypothesis. -/
theorem crash_resume_resend_torn_first_L2 (ffr : Bool) (nslots : Nat) {u : Upd} {d : Dev} {sa sb : Nat}
    (LH : LawfulH u d sa sb) (hin : nslots * u.fw.size ≤ d.flash.size) (hnew : NewestPair nslots u d sa sb)
    (hoth : OthersSettled nslots u d) (hcorner : u.l = 0 ∨ u.used ≠ 0) (idx1 : Nat) (hidx : idx1 ≠ 0)
    (bytes : List Nat) (hb : IsBytes bytes) (hlen : bytes.length = u.bs)
    (hrow : (updaterRow ffr u.n (idx1 - 1)).isSome = true) (p keep : Nat)
    (herr : ∃ er, ((handleSegment ffr idx1 bytes).run (u, d.withTear 0 p keep)).1 = .error er)
    (hinc : rcComplete ((handleSegment ffr idx1 bytes).run (u, d.withTear 0 p keep)).2.1 = false) :
    ((handleSegment ffr idx1 bytes).run (u, d.withTear 0 p keep)).2.2.dead = true ∧
    Good ((handleSegment ffr idx1 bytes).run (u, d.withTear 0 p keep)).2.2.reboot ∧
    ∃ u', (tryRecoverInner nslots u.fw.size).run
          ((handleSegment ffr idx1 bytes).run (u, d.withTear 0 p keep)).2.2.reboot =
        (.ok (some u'), ((handleSegment ffr idx1 bytes).run (u, d.withTear 0 p keep)).2.2.reboot) ∧
      Repaired ffr idx1 bytes u d u' ((handleSegment ffr idx1 bytes).run (u, d.withTear 0 p keep)).2.2.reboot := by
  obtain ⟨index, rfl⟩ : ∃ index, idx1 = index + 1 := ⟨idx1 - 1, by omega⟩
  have hrow' := hrow
  rw [Nat.add_sub_cancel] at hrow'
  obtain ⟨_, _, _, hsafe⟩ := torn_call ffr LH.law index bytes hb hlen hrow' 0 p keep herr hinc
  obtain ⟨hm, hd⟩ := hsafe rfl
  exact crash_resume_resend_torn_L2_partial ffr nslots LH hin hnew hoth hcorner (index + 1) hidx bytes hb hlen hrow 0 p
    keep herr hinc hm hd

/-- **C06c (…and the session goes on).** After reboot, recovery and the redelivery of
`crash_resume_resend_torn_L2_partial`, the whole sequence `idx1 :: is` delivered to the recovered updater is answered
exactly as the uninterrupted session from `(u, d)` and ends with the same abstraction. -/
theorem crash_resume_continue_torn_L2_partial (ffr : Bool) (nslots : Nat) {u : Upd} {d : Dev} {sa sb : Nat}
    (LH : LawfulH u d sa sb) (hin : nslots * u.fw.size ≤ d.flash.size) (hnew : NewestPair nslots u d sa sb)
    (hoth : OthersSettled nslots u d) (hcorner : u.l = 0 ∨ u.used ≠ 0) (frag : Nat → List Nat)
    (hfrag : ∀ i, IsBytes (frag i) ∧ (frag i).length = u.bs) (idx1 : Nat) (is : List Nat)
    (his : ∀ i ∈ idx1 :: is, i ≠ 0) (hrows : C01.RowsDefined ffr u.n (idx1 :: is)) (k p keep : Nat)
    (herr : ∃ er, ((handleSegment ffr idx1 (frag (idx1 - 1))).run (u, d.withTear k p keep)).1 = .error er)
    (hinc : rcComplete ((handleSegment ffr idx1 (frag (idx1 - 1))).run (u, d.withTear k p keep)).2.1 = false)
    (hmarks : ∀ j, j < u.n →
      ((handleSegment ffr idx1 (frag (idx1 - 1))).run (u, d.withTear k p keep)).2.2.reboot.flash.byte (statAddr u j) =
        d.flash.byte (statAddr u j))
    (hdiags : ∀ m, m < u.maxL →
      ((handleSegment ffr idx1 (frag (idx1 - 1))).run (u, d.withTear k p keep)).2.2.reboot.flash.byte (diagAddr u m) =
        d.flash.byte (diagAddr u m)) :
    ∃ u', (tryRecoverInner nslots u.fw.size).run
          ((handleSegment ffr idx1 (frag (idx1 - 1))).run (u, d.withTear k p keep)).2.2.reboot =
        (.ok (some u'), ((handleSegment ffr idx1 (frag (idx1 - 1))).run (u, d.withTear k p keep)).2.2.reboot) ∧
      (session ffr frag (idx1 :: is)
          (u', ((handleSegment ffr idx1 (frag (idx1 - 1))).run (u, d.withTear k p keep)).2.2.reboot)).1 =
        (session ffr frag (idx1 :: is) (u, d)).1 ∧
      C18.Equiv
        (abs (session ffr frag (idx1 :: is)
          (u', ((handleSegment ffr idx1 (frag (idx1 - 1))).run (u, d.withTear k p keep)).2.2.reboot)).2)
        (abs (session ffr frag (idx1 :: is) (u, d)).2) := by
  have hidx : idx1 ≠ 0 := his idx1 List.mem_cons_self
  obtain ⟨hb, hlen⟩ := hfrag (idx1 - 1)
  obtain ⟨_, _, u', hrec, R⟩ := crash_resume_resend_torn_L2_partial ffr nslots LH hin hnew hoth hcorner idx1 hidx
    (frag (idx1 - 1)) hb hlen (hrows idx1 List.mem_cons_self) k p keep herr hinc hmarks hdiags
  obtain ⟨c1, c2⟩ := R.continuation frag hfrag is (fun i hi => his i (List.mem_cons_of_mem _ hi))
    (fun i hi => hrows i (List.mem_cons_of_mem _ hi))
  refine ⟨u', hrec, ?_, c2⟩
  show _ :: _ = _ :: _
  rw [R.res, c1]

/-! ## the hazards -/

/-- **hazard 1 (torn written mark): recovery fails.** In every stage-1 store situation with headers (session pair
newest, others settled), the power is lost inside the written-mark program (`k = 1`) with a tear `(0, keep)` that
leaves the mark byte `0xFF &&& (0x33 ||| keep)` different from both `0x33` and `0xFF` (e.g. `keep = 0x40`: `0x73`).
Then the device is dead and, after the reboot, `try_recover_inner` answers the hardware error of
`BitCache::fill_from`: the session cannot be resumed. -/
theorem torn_mark_hazard (ffr : Bool) (nslots : Nat) {u : Upd} {d : Dev} {sa sb : Nat} {i : Nat} {buf : List Nat}
    (LH : LawfulH u d sa sb) (hin : nslots * u.fw.size ≤ d.flash.size) (hnew : NewestPair nslots u d sa sb)
    (hoth : OthersSettled nslots u d) (S : Stage1Store u d i buf) (keep : Nat)
    (hk1 : 0xFF &&& (0x33 ||| keep) ≠ 0x33) (hk2 : 0xFF &&& (0x33 ||| keep) ≠ 0xFF) :
    ((handleSegment ffr (i + 1) buf).run (u, d.withTear 1 0 keep)).2.2.dead = true ∧
    (tryRecoverInner nslots u.fw.size).run ((handleSegment ffr (i + 1) buf).run (u, d.withTear 1 0 keep)).2.2.reboot =
      (.error (.spi .hw), ((handleSegment ffr (i + 1) buf).run (u, d.withTear 1 0 keep)).2.2.reboot) := by
  have L := LH.law
  have g := L.base.geo
  obtain ⟨h1, h2, h3, h4, h5, h6, h7⟩ := g.slots
  obtain ⟨r1, r2, r3, r4⟩ := g.regions.1 i S.hi
  have hfb : fwBase u = u.fw.idx * u.fw.size := rfl
  have hpb : parBase u = u.par.idx * u.par.size := rfl
  obtain ⟨_, ⟨e1, b1, b2, b3, b4⟩, _⟩ := writeSegment_torn g L.base.good S.hi buf S.len 0 keep
  rw [handleSegment_stage1 ffr _ S.inc S.l0 S.hi S.fresh S.len, b1]
  refine ⟨b2, ?_⟩
  show (tryRecoverInner nslots u.fw.size).run e1.reboot = (.error (.spi .hw), e1.reboot)
  have hfl : e1.reboot.flash = (d.flash.apply (.program (segAddr u i) buf)).apply
      (.program (statAddr u i) [0x33 ||| keep]) := b4
  have hsz : e1.reboot.flash.size = d.flash.size := by rw [hfl, size_apply_program, size_apply_program]
  have her := L.base.herD i S.hi ⟨S.inc, S.fresh⟩
  have hfr : ∀ x, ¬ (segAddr u i ≤ x ∧ x < segAddr u i + u.bs) → x ≠ statAddr u i →
      e1.reboot.flash.byte x = d.flash.byte x := by
    intro x hx1 hx2
    rw [hfl, byte_apply_program_of_not_mem _ _ _ _ (by simp only [List.length_singleton]; omega),
      byte_apply_program_of_not_mem _ _ _ _ (by rw [S.len]; omega)]
  have hbyte : e1.reboot.flash.byte (statAddr u i) = 0xFF &&& (0x33 ||| keep) := by
    rw [hfl, byte_apply_program_of_mem _ _ _ _ (by
        rw [size_apply_program]; simp only [List.length_singleton]; omega) (Nat.le_refl _) (by simp),
      byte_apply_program_of_not_mem _ _ _ _ (by omega), her.2]
    simp
  have hhd : NoPanic.hdrs e1.reboot.flash nslots u.fw.size = NoPanic.hdrs d.flash nslots u.fw.size :=
    hdrs_frame_slot nslots u.fw.size u.fw.idx (fun x hx => hfr x (by omega) (by omega))
  refine recover_run_badmark (sa := sa) (sb := sb) nslots (by rw [hsz]; exact g) b3 ?_ ?_ (by rw [hsz]; exact hin) ?_ ?_ S.hi
    (by rw [hbyte]; exact hk1) (by rw [hbyte]; exact hk2) ?_
  · rw [← LH.hfw]
    exact hdrAt_congr (fun x hx1 hx2 => hfr x (by omega) (by omega))
  · rw [← LH.hpar]
    exact hdrAt_congr (fun x hx1 hx2 => hfr x (by omega) (by omega))
  · show twoNewest (indexed (NoPanic.hdrs e1.reboot.flash nslots u.fw.size)) = _
    rw [hhd]; exact hnew
  · show ∀ q ∈ indexed (NoPanic.hdrs e1.reboot.flash nslots u.fw.size), _
    rw [hhd]; exact hoth
  · intro j hj
    have hjn : j < u.n := by have := S.hi; omega
    obtain ⟨t1, t2, t3, t4⟩ := g.regions.1 j hjn
    rw [hfr _ (by omega) (by simp only [statAddr]; omega)]
    cases hd : u.done.testBit j with
    | true => exact Or.inl (L.base.hstat j hd)
    | false => exact Or.inr (L.base.herD j hjn ⟨S.inc, hd⟩).2

/-- hazard 1 is not vacuous: `keep = 0x40` leaves `0x73`, which `BitCache::fill_from` rejects -/
example : (0xFF &&& (0x33 ||| 0x40) ≠ 0x33 ∧ 0xFF &&& (0x33 ||| 0x40) ≠ 0xFF ∧ 0xFF &&& (0x33 ||| 0x40) = 0x73) ∧
    fillFrom 0 0 [0x73] = .error .hw := ⟨by decide, rfl⟩

/-- **hazard 2 (torn matrix row): a different, valid-looking row.** The bytes of the scenario in the header: the row
program of pivot 1 with reduced row `10` writes the single byte `0x00` (diagonal bit stored inverted); torn with
`(p, keep) = (0, 0x01)` over an erased byte it leaves `0x01`; that byte is not `0xFF`, so `load_used` takes pivot 1
for used, and `mRow` reads it as the row `11`. -/
theorem torn_row_hazard :
    rowBytes 1 2 = [0x00] ∧ tornBytes 0 0x01 (rowBytes 1 2) = [0x01] ∧ 0xFF &&& 0x01 = 0x01 ∧ (0x01 : Nat) ≠ 0xFF ∧
    bytesToNat (flipBit [0x01] 1) = 3 ∧ bytesToNat (flipBit (rowBytes 1 2) 1) = 2 := by
  decide

/-! ## non-vacuity -/

/-- non-vacuity 1: in **every** stage-1 store situation a power loss inside the data program (`k = 0`) or inside the
mark program (`k = 1`), with any tear, satisfies the two hypotheses `herr`, `hinc` -/
theorem torn_hyps_store1 (ffr : Bool) {u : Upd} {d : Dev} {i : Nat} {buf : List Nat} (S : Stage1Store u d i buf)
    (k : Nat) (hk : k < 2) (p keep : Nat) :
    (∃ er, ((handleSegment ffr (i + 1) buf).run (u, d.withTear k p keep)).1 = .error er) ∧
    rcComplete ((handleSegment ffr (i + 1) buf).run (u, d.withTear k p keep)).2.1 = false := by
  obtain ⟨⟨e0, a1, _⟩, ⟨e1, b1, _⟩, _⟩ := writeSegment_torn S.law.base.geo S.law.base.good S.hi buf S.len p keep
  rw [handleSegment_stage1 ffr _ S.inc S.l0 S.hi S.fresh S.len]
  match k, hk with
  | 0, _ => rw [a1]; exact ⟨⟨_, rfl⟩, S.inc⟩
  | 1, _ => rw [b1]; exact ⟨⟨_, rfl⟩, S.inc⟩

/-- non-vacuity 2: right after `start_update` on a blank two-slot device, the first data fragment with the power lost
inside its data program — any tear — meets every hypothesis of `crash_resume_resend_torn_first_L2` -/
example (ffr : Bool) (S sz n block : Nat) (hb0 : 0 < block) (hdiv : S % block = 0)
    (hacc : reasonablySized S sz n = .ok ()) (hcap : 1 ≤ capacity S sz) (buf : List Nat) (hbuf : IsBytes buf)
    (hlen : buf.length = sz) (p keep : Nat) :
    ∃ u0 d0 sa sb, (startUpdate 2 S sz n).run { flash := Flash.blank block (2 * S) } = (.ok u0, d0) ∧
      LawfulH u0 d0 sa sb ∧ 2 * u0.fw.size ≤ d0.flash.size ∧ NewestPair 2 u0 d0 sa sb ∧ OthersSettled 2 u0 d0 ∧
      (u0.l = 0 ∨ u0.used ≠ 0) ∧ buf.length = u0.bs ∧
      (∃ er, ((handleSegment ffr 1 buf).run (u0, d0.withTear 0 p keep)).1 = .error er) ∧
      rcComplete ((handleSegment ffr 1 buf).run (u0, d0.withTear 0 p keep)).2.1 = false := by
  obtain ⟨u0, d0, sa, sb, hrun, LH, h3, h4, h5⟩ := recover_hyps_after_start S sz n block hb0 hdiv hacc hcap
  obtain ⟨hsz, hblk, hwf⟩ := C01.blank_spec block (2 * S)
  obtain ⟨u1, d1, _, _, hrun1, _, _, hl, hd, hu, hn, hbs, _⟩ :=
    startUpdate_lawfulH 2 S sz n { flash := Flash.blank block (2 * S) } ⟨rfl, rfl, rfl⟩ hwf hacc
      (by rw [hsz]; exact Nat.le_refl _) (by rw [hblk]; exact hb0) (by rw [hblk]; exact hdiv) (by omega) hcap
  have he := hrun.symm.trans hrun1
  obtain ⟨e1, rfl⟩ := Prod.mk.inj he
  obtain rfl := Except.ok.inj e1
  have hn1 : 1 ≤ u0.n := LH.law.base.geo.hn.1
  have hinc : rcComplete u0 = false := by
    cases hc : rcComplete u0 with
    | false => rfl
    | true =>
      have := (rcComplete_stage1 u0 hl).1 hc 0 (by omega)
      rw [hd] at this; simp at this
  have St : Stage1Store u0 d0 0 buf :=
    ⟨LH.law, hinc, hl, by omega, by rw [hd]; simp, hbuf, by rw [hbs]; exact hlen⟩
  obtain ⟨c1, c2⟩ := torn_hyps_store1 ffr St 0 (by omega) p keep
  exact ⟨u0, d0, sa, sb, hrun, LH, h3, h4, h5, Or.inl hl, by rw [hbs]; exact hlen, c1, c2⟩

end Fuota.C06c
