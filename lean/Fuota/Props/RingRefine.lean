import Fuota.Lemmas.RingFlashSim
import Fuota.Lemmas.RingFlashRunCalls
import Fuota.Lemmas.RingFlashRunMore
import Fuota.Props.C08
import Fuota.Props.C12
import Fuota.Props.C13
/-!
# The header-level machine (`Model/Slots`) is what the flash-level model does to the headers — by theorem

`hdrsOf f n S` = what `load_headers` returns on a live device with flash `f` (`NoPanic.hdrs`; `RefineRecover.loadHeaders_run`).
For each API call, every prefix of its flash operations — i.e. every crash at an operation boundary — leaves
`hdrsOf` equal to the ring's headers with a prefix of the machine's header effects applied:

* erasing block 0 of a slot = the header effect "slot := none"; the later erases of the slot, and the sequence /
  kind / count words, change no header (it stays unparseable); the size word, programmed last, = "slot := some header";
* a status-word program on a parsed header whose word is still erased = "that field := the code".

Crashes *inside* a program (torn words) are not transitions of the machine: a torn status word reads old, new or
unparseable (`C11.torn_ext_parse`, `Crash.torn_complete_is_complete`), and the machine has no "header becomes
unparseable by a mark" effect. They are C04 / C11's business; the quantifier of C05 / C12 / C13 (crash points between
operations) is what is covered here.
-/
namespace Fuota.RingRefine
open Fuota.Nor Fuota.Fs Fuota.Layout Fuota.Updater Fuota.Slots Fuota.Ring Fuota.RingFlash

/-- the geometry of the machine that corresponds to `start_update … sz n` on slots of size `S` -/
def geomOf (S sz n : Nat) : Geom := { slotSize := S, segSize := sz, nseg := n, maxL := capacity S sz }

theorem fwHeader_fresh (S sz n sa : Nat) : fwHeader (geomOf S sz n) sa = freshHdr .firmware sa sz n := rfl
theorem parHeader_fresh (S sz n sb : Nat) : parHeader (geomOf S sz n) sb = freshHdr .parity sb sz (capacity S sz) := rfl

/-- the headers `start_update` writes are representable -/
theorem fresh_wf {S sz n sa sb : Nat} (hrs : reasonablySized S sz n = .ok ()) (hcap : 1 ≤ capacity S sz)
    (ga : GoodSeq sa) (gb : GoodSeq sb) :
    (freshHdr .firmware sa sz n).WF Codec.pinned ∧ (freshHdr .parity sb sz (capacity S sz)).WF Codec.pinned := by
  obtain ⟨a1, a2, a3, a4, _⟩ := Ops.reasonablySized_ok hrs
  have hc := (C15.capacity_spec S sz).1
  exact ⟨⟨ga.1, ga.2, by show 0 < sz; omega, a2, by show 0 < n; omega, a4⟩,
    ⟨gb.1, gb.2, by show 0 < sz; omega, a2, by show 0 < capacity S sz; omega, by show capacity S sz ≤ 16384; omega⟩⟩

theorem goodSeq_of_hdrs {f : Flash} (hwf : Crash.WF f) (n S : Nat) :
    ∀ i h, (hdrsOf f n S).getD i none = some h → GoodSeq h.seq := by
  intro i h hget
  have hu : Used (hdrsOf f n S) i h := Ring.getD_eq_some.mp hget
  exact hdrAt_goodSeq hwf (used_hdrsOf.mp hu).2

/-- **`start_refines`**: for every flash holding bytes, every accepted geometry and every `k`, the headers read
    after the first `k` flash operations of `start_update` are the ring's headers with the first `κ k` header effects
    of the machine's `start` applied (`κ = kappaStart`, monotone: `kappaStart_mono`): every crash prefix of the
    flash-level `start_update` is a crash prefix of the machine's `start`, and the completed call is its `start`. -/
theorem start_refines {f : Flash} {n S B sz nn : Nat} (hwf : Crash.WF f) (hB : f.block = B) (h28 : 28 ≤ B)
    (hdiv : S % B = 0) (hn : 2 ≤ n) (hdev : n * S ≤ f.size) (hrs : reasonablySized S sz nn = .ok ())
    (hcap : 1 ≤ capacity S sz) :
    ∃ es a b sa sb, choosePair n (hdrsOf f n S) = .ok (a, b, sa, sb) ∧
      startEffs (geomOf S sz nn) n (hdrsOf f n S) = .ok (es, a, b) ∧ es.length = 4 ∧
      (Ops.startOps B S sz nn a b sa sb).length = 2 * (S / B) + 8 ∧
      ∀ k, hdrsOf (f.applyAll ((Ops.startOps B S sz nn a b sa sb).take k)) n S =
        applyAll (hdrsOf f n S) (es.take (kappaStart (S / B) k)) := by
  obtain ⟨⟨a, b, sa, sb⟩, hc⟩ := Ops.choosePair_ok n (hdrsOf f n S)
  obtain ⟨ha, hb⟩ := Ops.choosePair_lt n _ (hdrsOf_length f n S) hn a b sa sb hc
  have hab := Ops.choosePair_ne n _ (hdrsOf_length f n S) hn a b sa sb hc
  obtain ⟨ga, gb⟩ := choosePair_seqs n _ (goodSeq_of_hdrs hwf n S) a b sa sb hc
  obtain ⟨wfA, wfB⟩ := fresh_wf hrs hcap ga gb
  have hS : 28 ≤ S := by
    obtain ⟨a1, _, a3, _, a5, _⟩ := Ops.reasonablySized_ok hrs
    have : 1 ≤ sz * nn := Nat.mul_le_mul a1 a3
    omega
  refine ⟨[(b, none), (a, none), (a, some (fwHeader (geomOf S sz nn) sa)), (b, some (parHeader (geomOf S sz nn) sb))],
    a, b, sa, sb, hc, ?_, rfl, ?_, ?_⟩
  · unfold startEffs; rw [hc]
  · rw [startOps_eq]
    simp [length_eraseOps, hdrProgs]
    omega
  · intro k
    exact start_refines_flash hB h28 hS hdiv ha hb hab hdev wfA wfB k

/-- the completed flash-level `start_update` (healthy device: alive, no crash point, no pending fault) ends in
    the arrangement of the machine's successful `start` -/
theorem start_complete_refines (nslots S sz nn : Nat) (d : Dev) (h : Ops.Healthy d) (hwf : Crash.WF d.flash)
    (hn : 2 ≤ nslots) (h28 : 28 ≤ d.flash.block) (hdiv : S % d.flash.block = 0) (hdev : nslots * S ≤ d.flash.size)
    (hrs : reasonablySized S sz nn = .ok ()) (hcap : 1 ≤ capacity S sz) :
    ∃ es a b, startEffs (geomOf S sz nn) nslots (hdrsOf d.flash nslots S) = .ok (es, a, b) ∧
      ((startUpdate nslots S sz nn).run d).1 = .ok (C08.startUpd S sz nn a b) ∧
      hdrsOf ((startUpdate nslots S sz nn).run d).2.flash nslots S = applyAll (hdrsOf d.flash nslots S) es := by
  obtain ⟨hs, a, b, sa, sb, hload, hcp, _, _, _, hrun, _⟩ :=
    C08.start_crash_free nslots S sz nn d h hn (by omega) hdiv hdev hrs
  have hS : 28 ≤ S := by
    obtain ⟨a1, _, a3, _, a5, _⟩ := Ops.reasonablySized_ok hrs
    have : 1 ≤ sz * nn := Nat.mul_le_mul a1 a3
    omega
  have hhs : hs = hdrsOf d.flash nslots S := by
    have := loadHeaders_run nslots S (d := d) ⟨h.noCrash, h.noFault, h.alive⟩ hS hdev
    rw [hload] at this
    injection this with e1 _
    injection e1
  subst hhs
  obtain ⟨es, a', b', sa', sb', hc', hse, hlen, hol, hk⟩ := start_refines hwf rfl h28 hdiv hn hdev hrs hcap
  rw [hcp] at hc'
  simp only [Except.ok.injEq, Prod.mk.injEq] at hc'
  obtain ⟨rfl, rfl, rfl, rfl⟩ := hc'
  refine ⟨es, a, b, hse, by rw [hrun], ?_⟩
  rw [hrun]
  show hdrsOf (Ops.pushAll d _).flash nslots S = _
  rw [Ops.pushAll_flash]
  have := hk (Ops.startOps d.flash.block S sz nn a b sa sb).length
  rw [List.take_length, hol] at this
  rw [this]
  have hm : 1 ≤ S / d.flash.block := by
    have hmB : S / d.flash.block * d.flash.block = S := by
      have := Nat.div_add_mod S d.flash.block; rw [Nat.mul_comm]; omega
    apply Nat.pos_of_ne_zero; intro e; rw [e] at hmB; omega
  have : kappaStart (S / d.flash.block) (2 * (S / d.flash.block) + 8) = 4 := by
    unfold kappaStart
    rw [if_neg (by omega), if_neg (by omega), if_neg (by omega), if_neg (by omega)]
  rw [this, List.take_of_length_le (by omega)]

/-! ## flash-level histories -/

/-- the machine configuration matches the flash-level parameters: at least four slots, crash prefixes inside cancel /
    recovery are transitions, two-pass remediation, an accepted geometry whose parity capacity is at least one row and
    is what the machine writes into parity headers, erase blocks of at least 28 bytes dividing the slot size -/
structure CfgOK (c : Cfg) (B : Nat) : Prop where
  n4 : 4 ≤ c.n
  crash : c.crashInside = true
  twoPass : c.pinnedRemediation = false
  rs : reasonablySized c.geom.slotSize c.geom.segSize c.geom.nseg = .ok ()
  cap : c.geom.maxL = capacity c.geom.slotSize c.geom.segSize
  cap1 : 1 ≤ capacity c.geom.slotSize c.geom.segSize
  b28 : 28 ≤ B
  div : c.geom.slotSize % B = 0

theorem CfgOK.geom_eq {c : Cfg} {B : Nat} (h : CfgOK c B) :
    c.geom = geomOf c.geom.slotSize c.geom.segSize c.geom.nseg := by
  have := h.cap
  cases hg : c.geom with
  | mk a b cc d =>
    rw [hg] at this
    simp only at this
    simp [geomOf, this]

/-- **flash-level histories**: sequences of API calls on the flash, each possibly cut short by power loss at an
    operation boundary (`k` operations took effect), starting from a ring of unparseable slots. The second component
    is the session object in RAM (lost by a crash / reboot). `SeqRoom 2`: no sequence wrap-around (as in the machine
    theorems). Completion is only attempted when no image is pending (the proviso of C12). -/
inductive FlashHist (c : Cfg) (B : Nat) : Flash → Option (Nat × Nat) → Prop
  | init (f : Flash) : Crash.WF f → f.block = B → c.n * c.geom.slotSize ≤ f.size →
      (∀ i, i < c.n → NoPanic.hdrAt f (i * c.geom.slotSize) = none) → FlashHist c B f none
  | start {f : Flash} {se : Option (Nat × Nat)} {a b sa sb : Nat} (k : Nat) : FlashHist c B f se →
      SeqRoom 2 (hdrsOf f c.n c.geom.slotSize) →
      choosePair c.n (hdrsOf f c.n c.geom.slotSize) = .ok (a, b, sa, sb) →
      k ≤ (Ops.startOps B c.geom.slotSize c.geom.segSize c.geom.nseg a b sa sb).length →
      FlashHist c B (f.applyAll ((Ops.startOps B c.geom.slotSize c.geom.segSize c.geom.nseg a b sa sb).take k))
        (if k = (Ops.startOps B c.geom.slotSize c.geom.segSize c.geom.nseg a b sa sb).length then some (a, b) else none)
  | complete {f : Flash} {fi pi : Nat} (k : Nat) : FlashHist c B f (some (fi, pi)) →
      SeqRoom 2 (hdrsOf f c.n c.geom.slotSize) → blStatus (hdrsOf f c.n c.geom.slotSize) = none → k ≤ 2 →
      FlashHist c B (f.applyAll ((completeOps c.geom.slotSize fi pi).take k)) none
  | cancel {f : Flash} {se : Option (Nat × Nat)} (k : Nat) : FlashHist c B f se →
      SeqRoom 2 (hdrsOf f c.n c.geom.slotSize) →
      k ≤ (cancelOps c.geom.slotSize (indexed (hdrsOf f c.n c.geom.slotSize))).length →
      FlashHist c B (f.applyAll ((cancelOps c.geom.slotSize (indexed (hdrsOf f c.n c.geom.slotSize))).take k)) none
  | recover {f : Flash} {se : Option (Nat × Nat)} (k : Nat) : FlashHist c B f se →
      SeqRoom 2 (hdrsOf f c.n c.geom.slotSize) →
      k ≤ (recoverOps c.geom c.geom.slotSize B (hdrsOf f c.n c.geom.slotSize)).length →
      FlashHist c B (f.applyAll ((recoverOps c.geom c.geom.slotSize B (hdrsOf f c.n c.geom.slotSize)).take k))
        (if k = (recoverOps c.geom c.geom.slotSize B (hdrsOf f c.n c.geom.slotSize)).length
          then (recoverEffs c.geom (hdrsOf f c.n c.geom.slotSize)).1 else none)
  | copyDone {f : Flash} {se : Option (Nat × Nat)} {i : Nat} : FlashHist c B f se →
      SeqRoom 2 (hdrsOf f c.n c.geom.slotSize) → blStatus (hdrsOf f c.n c.geom.slotSize) = some (.inl i) →
      FlashHist c B (f.apply (.program (i * c.geom.slotSize + 20) (writeU32 (encInt C .complete)))) se
  | confirm {f : Flash} {se : Option (Nat × Nat)} {i : Nat} : FlashHist c B f se →
      SeqRoom 2 (hdrsOf f c.n c.geom.slotSize) → blStatus (hdrsOf f c.n c.geom.slotSize) = some (.inr i) →
      FlashHist c B (f.apply (.program (i * c.geom.slotSize + 24) (writeU32 (encBoot C .successful)))) se
  | reject {f : Flash} {se : Option (Nat × Nat)} {i : Nat} : FlashHist c B f se →
      SeqRoom 2 (hdrsOf f c.n c.geom.slotSize) → blStatus (hdrsOf f c.n c.geom.slotSize) = some (.inr i) →
      FlashHist c B (f.apply (.program (i * c.geom.slotSize + 24) (writeU32 (encBoot C .unsuccessful)))) se
  | reboot {f : Flash} {se : Option (Nat × Nat)} : FlashHist c B f se →
      SeqRoom 2 (hdrsOf f c.n c.geom.slotSize) → FlashHist c B f none

/-! ## the simulation -/






/-- what the simulation carries along a history -/
structure Sim (c : Cfg) (B : Nat) (f : Flash) (se : Option (Nat × Nat)) (s : State) : Prop where
  reach : C05.Reachable c s
  hs : s.hs = hdrsOf f c.n c.geom.slotSize
  sess : s.sess = se
  wf : Crash.WF f
  block : f.block = B
  dev : c.n * c.geom.slotSize ≤ f.size

theorem mem_succs_start {c : Cfg} {s : State} {t : Label × State} (h : t ∈ startSuccs c s) : t ∈ succs c s := by
  unfold succs; simp only [List.mem_append]; exact Or.inl (Or.inl (Or.inl (Or.inl (Or.inl h))))
theorem mem_succs_complete {c : Cfg} {s : State} {t : Label × State} (h : t ∈ completeSuccs s) : t ∈ succs c s := by
  unfold succs; simp only [List.mem_append]; exact Or.inl (Or.inl (Or.inl (Or.inl (Or.inr h))))
theorem mem_succs_cancel {c : Cfg} {s : State} {t : Label × State} (h : t ∈ cancelSuccs c s) : t ∈ succs c s := by
  unfold succs; simp only [List.mem_append]; exact Or.inl (Or.inl (Or.inl (Or.inr h)))
theorem mem_succs_recover {c : Cfg} {s : State} {t : Label × State} (h : t ∈ recoverSuccs c s) : t ∈ succs c s := by
  unfold succs; simp only [List.mem_append]; exact Or.inl (Or.inl (Or.inr h))
theorem mem_succs_bl {c : Cfg} {s : State} {t : Label × State} (h : t ∈ blSuccs s) : t ∈ succs c s := by
  unfold succs; simp only [List.mem_append]; exact Or.inl (Or.inr h)
theorem mem_succs_reboot {c : Cfg} {s : State} {t : Label × State} (h : t ∈ rebootSuccs s) : t ∈ succs c s := by
  unfold succs; simp only [List.mem_append]; exact Or.inr h

/-- losing the RAM session (power loss before the first operation of a call, or a plain reboot) -/
theorem sim_drop {c : Cfg} {B : Nat} {f : Flash} {se : Option (Nat × Nat)} {s : State} (h : Sim c B f se s)
    (hroom : SeqRoom 2 (hdrsOf f c.n c.geom.slotSize)) : ∃ s', Sim c B f none s' := by
  cases hse : se with
  | none => exact ⟨s, by rw [← hse]; exact h⟩
  | some r =>
    obtain ⟨t, ht, h1, h2⟩ := reboot_has s (by rw [h.sess, hse]; rfl)
    exact ⟨t.2, ⟨C05.Reachable.step h.reach (by rw [h.hs]; exact hroom) (mem_succs_reboot ht), by rw [h1, h.hs], h2,
      h.wf, h.block, h.dev⟩⟩



theorem wf_applyAll {f : Flash} (h : Crash.WF f) (ops : List Op) : Crash.WF (f.applyAll ops) := h.applyAll ops

theorem sim_start {c : Cfg} {B : Nat} (ok : CfgOK c B) {f : Flash} {se : Option (Nat × Nat)} {s : State}
    (h : Sim c B f se s) (hroom : SeqRoom 2 (hdrsOf f c.n c.geom.slotSize)) {a b sa sb : Nat}
    (hc : choosePair c.n (hdrsOf f c.n c.geom.slotSize) = .ok (a, b, sa, sb)) (k : Nat)
    (hk : k ≤ (Ops.startOps B c.geom.slotSize c.geom.segSize c.geom.nseg a b sa sb).length) :
    ∃ s', Sim c B (f.applyAll ((Ops.startOps B c.geom.slotSize c.geom.segSize c.geom.nseg a b sa sb).take k))
      (if k = (Ops.startOps B c.geom.slotSize c.geom.segSize c.geom.nseg a b sa sb).length then some (a, b) else none) s' := by
  obtain ⟨es, a', b', sa', sb', hc', hse, hlen, hol, hk'⟩ :=
    start_refines (n := c.n) (S := c.geom.slotSize) (sz := c.geom.segSize) (nn := c.geom.nseg) h.wf h.block ok.b28
      ok.div (by have := ok.n4; omega) h.dev ok.rs ok.cap1
  rw [hc] at hc'
  simp only [Except.ok.injEq, Prod.mk.injEq] at hc'
  obtain ⟨rfl, rfl, rfl, rfl⟩ := hc'
  have hes : es = [(b, none), (a, none), (a, some (fwHeader c.geom sa)), (b, some (parHeader c.geom sb))] := by
    unfold startEffs at hse
    rw [hc] at hse
    simp only [Except.ok.injEq, Prod.mk.injEq] at hse
    rw [← hse.1, ← ok.geom_eq]
  have hmB : c.geom.slotSize / B * B = c.geom.slotSize := by
    have := Nat.div_add_mod c.geom.slotSize B; have := ok.div; rw [Nat.mul_comm]; omega
  have hS : 28 ≤ c.geom.slotSize := by
    obtain ⟨a1, _, a3, _, a5, _⟩ := Ops.reasonablySized_ok ok.rs
    have : 1 ≤ c.geom.segSize * c.geom.nseg := Nat.mul_le_mul a1 a3
    omega
  have hm : 1 ≤ c.geom.slotSize / B := by
    apply Nat.pos_of_ne_zero; intro e; rw [e] at hmB; omega
  have base : Crash.WF (f.applyAll ((Ops.startOps B c.geom.slotSize c.geom.segSize c.geom.nseg a b sa sb).take k)) ∧
      (f.applyAll ((Ops.startOps B c.geom.slotSize c.geom.segSize c.geom.nseg a b sa sb).take k)).block = B ∧
      c.n * c.geom.slotSize ≤ (f.applyAll ((Ops.startOps B c.geom.slotSize c.geom.segSize c.geom.nseg a b sa sb).take k)).size :=
    ⟨wf_applyAll h.wf _, by rw [applyAll_block, h.block], by rw [applyAll_size]; exact h.dev⟩
  have hkk := hk' k
  rw [hol] at hk ⊢
  by_cases hk0 : k = 0
  · -- power lost before the first operation
    subst hk0
    rw [if_neg (by omega)]
    simp only [List.take_zero]
    exact sim_drop h hroom
  · have hchoose : choosePair c.n s.hs = .ok (a, b, sa, sb) := by rw [h.hs]; exact hc
    have hj : 1 ≤ kappaStart (c.geom.slotSize / B) k ∧ kappaStart (c.geom.slotSize / B) k ≤ 4 ∧
        (kappaStart (c.geom.slotSize / B) k = 4 ↔ k = 2 * (c.geom.slotSize / B) + 8) := by
      unfold kappaStart
      rw [if_neg hk0]
      repeat' split
      all_goals omega
    obtain ⟨t, ht, h1, h2⟩ := startSuccs_has c s hchoose _ hj.1 hj.2.1
    refine ⟨t.2, ⟨C05.Reachable.step h.reach (by rw [h.hs]; exact hroom) (mem_succs_start ht), ?_, ?_,
      base.1, base.2.1, base.2.2⟩⟩
    · rw [h1, hkk, hes, h.hs]
    · rw [h2]
      by_cases he : k = 2 * (c.geom.slotSize / B) + 8
      · rw [if_pos (hj.2.2.mpr he), if_pos he]
      · rw [if_neg (fun x => he (hj.2.2.mp x)), if_neg he]



theorem completeEffs_length {hs : Hdrs} {fi pi : Nat} {es : List Eff} (h : completeEffs hs fi pi = some es) :
    es.length = 2 := by
  unfold completeEffs at h
  split at h
  · simp only [Option.some.injEq] at h; rw [← h]; rfl
  · cases h

theorem sim_complete {c : Cfg} {B : Nat} (ok : CfgOK c B) {f : Flash} {fi pi : Nat} {s : State}
    (h : Sim c B f (some (fi, pi)) s) (hroom : SeqRoom 2 (hdrsOf f c.n c.geom.slotSize))
    (hbl : blStatus (hdrsOf f c.n c.geom.slotSize) = none) (k : Nat) (hk : k ≤ 2) :
    ∃ s', Sim c B (f.applyAll ((completeOps c.geom.slotSize fi pi).take k)) none s' := by
  have hS : 28 ≤ c.geom.slotSize := by
    obtain ⟨a1, _, a3, _, a5, _⟩ := Ops.reasonablySized_ok ok.rs
    have : 1 ≤ c.geom.segSize * c.geom.nseg := Nat.mul_le_mul a1 a3
    omega
  by_cases hk0 : k = 0
  · subst hk0
    simp only [List.take_zero]
    exact sim_drop h hroom
  have hinv := C12.reachable_inv1 c ok.n4 h.reach
  obtain ⟨hne, hf, hp, huf, _, hstf, hup, _, hstp, _⟩ := hinv.sess fi pi h.sess
  rw [h.hs] at huf hup
  obtain ⟨es, hes, href⟩ := complete_refines h.wf hS h.dev huf hup hne (Ring.status_inProgress_ext hstf)
    (Ring.status_inProgress_ext hstp) k
  have hpend : pending s = [] := by
    apply pending_nil_of
    have hl := (C12.life_refines c ok.n4 h.reach).2.2.1
    rw [h.hs] at hl
    intro i hp'
    have := hl.mp hbl i
    rcases hp' with e | e
    · exact this.1 e
    · exact this.2 e
  obtain ⟨t, ht, h1, h2⟩ := completeSuccs_has s h.sess hpend (by rw [h.hs]; exact hes) k (by omega)
    (completeEffs_length hes)
  exact ⟨t.2, ⟨C05.Reachable.step h.reach (by rw [h.hs]; exact hroom) (mem_succs_complete ht),
    by rw [h1, href, h.hs], h2, wf_applyAll h.wf _, by rw [applyAll_block, h.block],
    by rw [applyAll_size]; exact h.dev⟩⟩

theorem cancelOps_length (S : Nat) (l : List (Nat × Header)) : (cancelOps S l).length = (cancelEffsOf l).length := by
  rw [← cancelPairs_fst, ← cancelPairs_snd, List.length_map, List.length_map]

theorem sim_cancel {c : Cfg} {B : Nat} (ok : CfgOK c B) {f : Flash} {se : Option (Nat × Nat)} {s : State}
    (h : Sim c B f se s) (hroom : SeqRoom 2 (hdrsOf f c.n c.geom.slotSize)) (k : Nat)
    (hk : k ≤ (cancelOps c.geom.slotSize (indexed (hdrsOf f c.n c.geom.slotSize))).length) :
    ∃ s', Sim c B (f.applyAll ((cancelOps c.geom.slotSize (indexed (hdrsOf f c.n c.geom.slotSize))).take k)) none s' := by
  have hS : 28 ≤ c.geom.slotSize := by
    obtain ⟨a1, _, a3, _, a5, _⟩ := Ops.reasonablySized_ok ok.rs
    have : 1 ≤ c.geom.segSize * c.geom.nseg := Nat.mul_le_mul a1 a3
    omega
  have href := cancel_refines h.wf hS h.dev k
  rw [cancelOps_length] at hk
  obtain ⟨t, ht, h1, h2⟩ := cancelSuccs_has c ok.crash s k (by rw [h.hs]; exact hk)
  exact ⟨t.2, ⟨C05.Reachable.step h.reach (by rw [h.hs]; exact hroom) (mem_succs_cancel ht),
    by rw [h1, href, h.hs], h2, wf_applyAll h.wf _, by rw [applyAll_block, h.block],
    by rw [applyAll_size]; exact h.dev⟩⟩

theorem sim_mark {c : Cfg} {B : Nat} {f : Flash} {se : Option (Nat × Nat)} {s : State} (h : Sim c B f se s)
    (hroom : SeqRoom 2 (hdrsOf f c.n c.geom.slotSize)) (op : Op) {e : Eff}
    (href : hdrsOf (f.apply op) c.n c.geom.slotSize = apply1 (hdrsOf f c.n c.geom.slotSize) e)
    (hhas : ∃ t ∈ blSuccs s, t.2.hs = apply1 s.hs e ∧ t.2.sess = s.sess) :
    ∃ s', Sim c B (f.apply op) se s' := by
  obtain ⟨t, ht, h1, h2⟩ := hhas
  exact ⟨t.2, ⟨C05.Reachable.step h.reach (by rw [h.hs]; exact hroom) (mem_succs_bl ht),
    by rw [h1, href, h.hs], by rw [h2, h.sess], h.wf.apply _, by rw [Ops.apply_block, h.block],
    by rw [Ops.apply_size]; exact h.dev⟩⟩



theorem length_clearsOps (S B : Nat) (ts : List Nat) : (clearsOps S B ts).length = ts.length * (S / B) := by
  induction ts with
  | nil => simp [clearsOps]
  | cons t ts ih =>
    unfold clearsOps at ih ⊢
    rw [List.flatMap_cons, List.length_append, length_eraseOps, ih, List.length_cons, Nat.add_mul]
    omega

theorem ceilDiv_mul (t m : Nat) (hm : 1 ≤ m) : ceilDiv (t * m) m = t := by
  unfold ceilDiv
  cases t with
  | zero => rw [Nat.zero_mul]; exact Nat.div_eq_of_lt (by omega)
  | succ t =>
    have : (t + 1) * m + m - 1 = (m - 1) + m * (t + 1) := by rw [Nat.mul_comm]; omega
    rw [this, Nat.add_mul_div_left _ _ (by omega), Nat.div_eq_of_lt (by omega)]
    omega

theorem ceilDiv_mono (m : Nat) {k k' : Nat} (h : k ≤ k') : ceilDiv k m ≤ ceilDiv k' m := by
  unfold ceilDiv
  exact Nat.div_le_div_right (by omega)

theorem seqRoom_sub {r : Nat} {hs hs' : Hdrs} (h : SeqRoom r hs) (hsub : Sub hs' hs) : SeqRoom r hs' := by
  intro p hp
  obtain ⟨h0, hu0, e⟩ := hsub p.1 p.2 (Ring.mem_indexed.mp hp)
  have := h (p.1, h0) (Ring.mem_indexed.mpr hu0)
  simp only at this
  rw [← e]; exact this

/-- how far the header effects of `try_recover` have got, against the flash operations -/
theorem kappaRecover_bounds (g : Geom) (S B : Nat) (hs : Hdrs) (hm : 1 ≤ S / B) (k : Nat)
    (hk : k ≤ (recoverOps g S B hs).length) :
    kappaRecover g S B hs k ≤ (recoverEffs g hs).2.length ∧
    (k = (recoverOps g S B hs).length → kappaRecover g S B hs k = (recoverEffs g hs).2.length) := by
  unfold kappaRecover recoverOps recoverEffs at *
  cases hd : recoverDecision g hs with
  | none =>
    rw [hd] at hk
    simp only at hk ⊢
    unfold cancelEffs
    rw [← cancelOps_length S]
    exact ⟨hk, fun e => e⟩
  | some d =>
    obtain ⟨nw, sn⟩ := d
    rw [hd] at hk
    simp only at hk ⊢
    unfold remediateEffs
    rw [Ring.remediateAbortEffs_eq, Ring.remediateEraseEffs_eq, List.length_append, ← eraseSlots_effs,
      List.length_map]
    rw [List.length_append, length_clearsOps] at hk ⊢
    have hla : (abortOps S nw.1 sn.1 (indexed hs)).length = (Ring.effsOf (Ring.abortPhi nw.1 sn.1) (indexed hs)).length := by
      unfold abortOps
      rw [← abortPairs_snd S, List.length_map, List.length_map]
    rw [← hla]
    by_cases hk1 : k ≤ (abortOps S nw.1 sn.1 (indexed hs)).length
    · rw [if_pos hk1]
      refine ⟨by omega, ?_⟩
      intro e
      have hz : (eraseSlots nw.1 sn.1 (indexed hs)).length * (S / B) = 0 := by omega
      have : (eraseSlots nw.1 sn.1 (indexed hs)).length = 0 := by
        rcases Nat.mul_eq_zero.mp hz with h0 | h0 <;> omega
      omega
    · rw [if_neg hk1]
      have hb : ceilDiv (k - (abortOps S nw.1 sn.1 (indexed hs)).length) (S / B) ≤
          (eraseSlots nw.1 sn.1 (indexed hs)).length := by
        have := ceilDiv_mono (S / B) (show k - (abortOps S nw.1 sn.1 (indexed hs)).length ≤
          (eraseSlots nw.1 sn.1 (indexed hs)).length * (S / B) by omega)
        rwa [ceilDiv_mul _ _ hm] at this
      refine ⟨by omega, ?_⟩
      intro e
      have : k - (abortOps S nw.1 sn.1 (indexed hs)).length = (eraseSlots nw.1 sn.1 (indexed hs)).length * (S / B) := by
        omega
      rw [this, ceilDiv_mul _ _ hm]

theorem sim_recover {c : Cfg} {B : Nat} (ok : CfgOK c B) {f : Flash} {se : Option (Nat × Nat)} {s : State}
    (h : Sim c B f se s) (hroom : SeqRoom 2 (hdrsOf f c.n c.geom.slotSize)) (k : Nat)
    (hk : k ≤ (recoverOps c.geom c.geom.slotSize B (hdrsOf f c.n c.geom.slotSize)).length) :
    ∃ s', Sim c B (f.applyAll ((recoverOps c.geom c.geom.slotSize B (hdrsOf f c.n c.geom.slotSize)).take k))
      (if k = (recoverOps c.geom c.geom.slotSize B (hdrsOf f c.n c.geom.slotSize)).length
        then (recoverEffs c.geom (hdrsOf f c.n c.geom.slotSize)).1 else none) s' := by
  have hS : 28 ≤ c.geom.slotSize := by
    obtain ⟨a1, _, a3, _, a5, _⟩ := Ops.reasonablySized_ok ok.rs
    have : 1 ≤ c.geom.segSize * c.geom.nseg := Nat.mul_le_mul a1 a3
    omega
  have hmB : c.geom.slotSize / B * B = c.geom.slotSize := by
    have := Nat.div_add_mod c.geom.slotSize B; have := ok.div; rw [Nat.mul_comm]; omega
  have hm : 1 ≤ c.geom.slotSize / B := by
    apply Nat.pos_of_ne_zero; intro e; rw [e] at hmB; omega
  have href := recover_refines (g := c.geom) h.wf h.block ok.b28 hS ok.div h.dev k
  obtain ⟨hb1, hb2⟩ := kappaRecover_bounds c.geom c.geom.slotSize B (hdrsOf f c.n c.geom.slotSize) hm k hk
  obtain ⟨t, ht, h1, h2⟩ := recoverSuccs_has c ok.crash ok.twoPass s
    (kappaRecover c.geom c.geom.slotSize B (hdrsOf f c.n c.geom.slotSize) k) (by rw [h.hs]; exact hb1)
  have hreach : C05.Reachable c t.2 := C05.Reachable.step h.reach (by rw [h.hs]; exact hroom) (mem_succs_recover ht)
  have hths : t.2.hs = hdrsOf (f.applyAll ((recoverOps c.geom c.geom.slotSize B (hdrsOf f c.n c.geom.slotSize)).take k))
      c.n c.geom.slotSize := by rw [h1, href, h.hs]
  have base : Sim c B (f.applyAll ((recoverOps c.geom c.geom.slotSize B (hdrsOf f c.n c.geom.slotSize)).take k))
      t.2.sess t.2 :=
    ⟨hreach, hths, rfl, wf_applyAll h.wf _, by rw [applyAll_block, h.block], by rw [applyAll_size]; exact h.dev⟩
  by_cases hfull : k = (recoverOps c.geom c.geom.slotSize B (hdrsOf f c.n c.geom.slotSize)).length
  · rw [if_pos hfull]
    refine ⟨t.2, ?_⟩
    have : t.2.sess = (recoverEffs c.geom (hdrsOf f c.n c.geom.slotSize)).1 := by
      rw [h2, h.hs, if_pos (hb2 hfull)]
    rw [← this]; exact base
  · rw [if_neg hfull]
    -- power lost before the call returned: the session object is lost
    apply sim_drop base
    rw [← hths, h1]
    have hroom' : SeqRoom 2 s.hs := by rw [h.hs]; exact hroom
    apply seqRoom_sub hroom'
    have hsrc := Ring.recoverEffs_src c s.hs
    have hrec : c.recoverEffs s.hs = recoverEffs c.geom s.hs := by
      unfold Cfg.recoverEffs; simp [ok.twoPass]
    rw [hrec] at hsrc
    exact Ring.take_sub hsrc _



/-- **the flash-level model simulates into the machine**: along every flash-level history the headers read from the
    flash are the `hs` of a reachable machine state with the same RAM session -/
theorem flash_simulates (c : Cfg) (B : Nat) (ok : CfgOK c B) {f : Flash} {se : Option (Nat × Nat)}
    (h : FlashHist c B f se) : ∃ s, Sim c B f se s := by
  have hS : 28 ≤ c.geom.slotSize := by
    obtain ⟨a1, _, a3, _, a5, _⟩ := Ops.reasonablySized_ok ok.rs
    have : 1 ≤ c.geom.segSize * c.geom.nseg := Nat.mul_le_mul a1 a3
    omega
  induction h with
  | init f hwf hB hdev hblank =>
    refine ⟨State.init c.n, C05.Reachable.init, ?_, rfl, hwf, hB, hdev⟩
    apply List.ext_getElem?
    intro j
    by_cases hj : j < c.n
    · rw [hdrsOf_get f c.n _ j hj, hblank j hj]
      simp [State.init, hj]
    · rw [List.getElem?_eq_none (by simp [State.init]; omega),
        List.getElem?_eq_none (by rw [hdrsOf_length]; omega)]
  | start k _ hroom hc hk ih =>
    obtain ⟨s, hs⟩ := ih
    exact sim_start ok hs hroom hc k hk
  | complete k _ hroom hbl hk ih =>
    obtain ⟨s, hs⟩ := ih
    exact sim_complete ok hs hroom hbl k hk
  | cancel k _ hroom hk ih =>
    obtain ⟨s, hs⟩ := ih
    exact sim_cancel ok hs hroom k hk
  | recover k _ hroom hk ih =>
    obtain ⟨s, hs⟩ := ih
    exact sim_recover ok hs hroom k hk
  | copyDone _ hroom hbl ih =>
    obtain ⟨s, hs⟩ := ih
    obtain ⟨e, he, href⟩ := copyDone_refines hs.wf hS hs.dev hbl
    exact sim_mark hs hroom _ href (copyDone_has s (by rw [hs.hs]; exact he))
  | confirm _ hroom hbl ih =>
    obtain ⟨s, hs⟩ := ih
    obtain ⟨⟨e, he, href⟩, _⟩ := bootMark_refines hs.wf hS hs.dev hbl
    exact sim_mark hs hroom _ href (confirm_has s (by rw [hs.hs]; exact he))
  | reject _ hroom hbl ih =>
    obtain ⟨s, hs⟩ := ih
    obtain ⟨_, ⟨e, he, href⟩⟩ := bootMark_refines hs.wf hS hs.dev hbl
    exact sim_mark hs hroom _ href (reject_has s (by rw [hs.hs]; exact he))
  | reboot _ hroom ih =>
    obtain ⟨s, hs⟩ := ih
    exact sim_drop hs hroom

/-- **`flash_reachable_ringInv`**: along any sequence of flash-level API calls with crashes at operation boundaries,
    the headers `load_headers` reads are those of a reachable state of the header-level machine — so the ring
    invariant holds of them, and C05 / C12 / C13's theorems about reachable states apply to the flash-level model. -/
theorem flash_reachable_ringInv (c : Cfg) (B : Nat) (ok : CfgOK c B) {f : Flash} {se : Option (Nat × Nat)}
    (h : FlashHist c B f se) :
    (∃ s, C05.Reachable c s ∧ s.hs = hdrsOf f c.n c.geom.slotSize ∧ s.sess = se) ∧
    RingInv c.n (hdrsOf f c.n c.geom.slotSize) := by
  obtain ⟨s, hs⟩ := flash_simulates c B ok h
  exact ⟨⟨s, hs.reach, hs.hs, hs.sess⟩, hs.hs ▸ C05.reachable_ringInv c ok.n4 hs.reach⟩

/-- C05 on the flash-level model: in every flash-level history, the pair `alloc_slotpair` chooses from the headers on
    flash never contains the slot the fallback query names -/
theorem flash_alloc_spares_fallback (c : Cfg) (B : Nat) (ok : CfgOK c B) {f : Flash} {se : Option (Nat × Nat)}
    (h : FlashHist c B f se) (fb : Nat) (hf : fallbackSlot (hdrsOf f c.n c.geom.slotSize) = some fb) :
    ∃ a b sa sb, choosePair c.n (hdrsOf f c.n c.geom.slotSize) = .ok (a, b, sa, sb) ∧ a ≠ fb ∧ b ≠ fb := by
  obtain ⟨_, hinv⟩ := flash_reachable_ringInv c B ok h
  obtain ⟨a, b, sa, sb, hc, h1, h2, _⟩ := C05.alloc_spares_fallback c.n ok.n4 _ hinv.1 hinv.2.1 fb hf
  exact ⟨a, b, sa, sb, hc, h1, h2⟩

/-- C13 on the flash-level model: the session `try_recover` would return from the headers on flash was written by one
    start attempt, is live, and — when the latest start succeeded and was neither completed nor cancelled — is that one
    (stated through the ghost fields of the simulating machine state) -/
theorem flash_recover_no_chimera (c : Cfg) (B : Nat) (ok : CfgOK c B) {f : Flash} {se : Option (Nat × Nat)}
    (h : FlashHist c B f se) {r : Nat × Nat}
    (hr : (recover c.geom (hdrsOf f c.n c.geom.slotSize)).1 = some r) :
    ∃ s, C05.Reachable c s ∧ s.hs = hdrsOf f c.n c.geom.slotSize ∧ r ∈ s.live ∧
      (∃ k, s.att.getD r.1 none = some k ∧ s.att.getD r.2 none = some k) ∧ ∀ m, s.must = some m → m = r := by
  obtain ⟨s, hs⟩ := flash_simulates c B ok h
  have hr' : (recover c.geom s.hs).1 = some r := by rw [hs.hs]; exact hr
  obtain ⟨h1, h2⟩ := C13.recover_only_live_session c ok.n4 ok.twoPass hs.reach hr'
  exact ⟨s, hs.reach, hs.hs, h1, C13.no_chimera c ok.n4 ok.twoPass hs.reach (f := r.1) (p := r.2) hr', h2⟩

/-! ## non-vacuity -/

/-- the example configuration: 4 slots of 20480 bytes, 4096-byte erase blocks, 18 fragments of 4 bytes -/
def exCfg : Cfg := { n := 4, geom := geomOf 20480 4 18 }

example : CfgOK exCfg 4096 :=
  ⟨by decide, rfl, rfl, by show reasonablySized 20480 4 18 = .ok (); rfl, by simp [exCfg, geomOf],
    by show 1 ≤ capacity 20480 4; rw [show capacity 20480 4 = 188 by decide]; decide, by decide, by decide⟩


/-! ## the completed calls on a healthy device -/


/-- on a healthy device `cancel_all_ext_pending`'s loop emits exactly `cancelOps` -/
theorem cancelFrom_runs (S : Nat) : ∀ (l : List (Nat × Header)) (d : Dev), Ops.Healthy d →
    (∀ p ∈ l, p.1 * S + 20 ≤ d.flash.size) → Ops.Runs (cancelFrom S l) d () (cancelOps S l) := by
  intro l
  induction l with
  | nil => intro d _ _; exact Ops.Runs.pure () d
  | cons p l ih =>
    intro d h hin
    obtain ⟨i, hd⟩ := p
    have hi := hin (i, hd) List.mem_cons_self
    unfold cancelFrom cancelOps
    by_cases he : hd.ext = Ext.inProgress
    · simp only [he, ↓reduceIte, List.filterMap_cons]
      refine Ops.Runs.bind (o1 := [_]) (Ops.writeWord_runs { idx := i, size := S } Consts.EXT_OFFSET _ d h
        (by show i * S + 16 + 4 ≤ _; omega)) ?_
      apply ih _ (Ops.pushAll_healthy h _)
      intro q hq
      rw [Ops.pushAll_size]
      exact hin q (List.mem_cons_of_mem _ hq)
    · simp only [he, ↓reduceIte, List.filterMap_cons]
      have := ih d h (fun q hq => hin q (List.mem_cons_of_mem _ hq))
      exact this

/-- **`cancel_all_ext_pending` on a healthy device** (alive, no crash point, no pending fault) succeeds and emits
    exactly `cancelOps` computed from the headers on flash: its completed run is the machine's `cancel` -/
theorem cancelAll_runs (nslots S : Nat) (d : Dev) (h : Ops.Healthy d) (hS : 28 ≤ S) (hdev : nslots * S ≤ d.flash.size) :
    Ops.Runs (cancelAll nslots S) d () (cancelOps S (indexed (hdrsOf d.flash nslots S))) := by
  unfold cancelAll
  have hl : Ops.Runs (loadHeaders nslots S) d (hdrsOf d.flash nslots S) [] :=
    loadHeaders_run nslots S (d := d) ⟨h.noCrash, h.noFault, h.alive⟩ hS hdev
  refine Ops.Runs.bind (o1 := []) hl ?_
  apply cancelFrom_runs S _ _ h
  intro p hp
  have hu := Ring.mem_indexed.mp hp
  have hi : p.1 < nslots := (used_hdrsOf.mp hu).1
  have := slot_in_dev hdev hi
  show p.1 * S + 20 ≤ d.flash.size
  omega

theorem cancelAll_complete_refines (nslots S : Nat) (d : Dev) (h : Ops.Healthy d) (hwf : Crash.WF d.flash)
    (hS : 28 ≤ S) (hdev : nslots * S ≤ d.flash.size) :
    hdrsOf ((cancelAll nslots S).run d).2.flash nslots S = cancel (hdrsOf d.flash nslots S) := by
  have hr := cancelAll_runs nslots S d h hS hdev
  unfold Ops.Runs at hr
  rw [hr]
  show hdrsOf (Ops.pushAll d _).flash nslots S = _
  rw [Ops.pushAll_flash]
  have := cancel_refines (n := nslots) hwf hS hdev (cancelOps S (indexed (hdrsOf d.flash nslots S))).length
  rw [List.take_length, cancelOps_length] at this
  rw [this]
  unfold cancel
  rw [show (cancelEffsOf (indexed (hdrsOf d.flash nslots S))).length = (cancelEffs (hdrsOf d.flash nslots S)).length from rfl,
    List.take_length]




/-- the three status marks on a healthy device emit exactly the one program the flash-level histories use -/
theorem marks_run (i S : Nat) (d : Dev) (h : Ops.Healthy d) (hin : i * S + 28 ≤ d.flash.size) :
    Ops.Runs (Slot.markIntComplete { idx := i, size := S }) d () [.program (i * S + 20) (writeU32 (encInt C .complete))] ∧
    Ops.Runs (Slot.markBootOk { idx := i, size := S }) d () [.program (i * S + 24) (writeU32 (encBoot C .successful))] ∧
    Ops.Runs (Slot.markBootBad { idx := i, size := S }) d () [.program (i * S + 24) (writeU32 (encBoot C .unsuccessful))] ∧
    Ops.Runs (Slot.markExtComplete { idx := i, size := S }) d () [.program (i * S + 16) (writeU32 (encExt C .complete))] :=
  ⟨Ops.writeWord_runs { idx := i, size := S } Consts.INT_OFFSET _ d h (by show i * S + 20 + 4 ≤ _; omega),
   Ops.writeWord_runs { idx := i, size := S } Consts.BOOT_OFFSET _ d h (by show i * S + 24 + 4 ≤ _; omega),
   Ops.writeWord_runs { idx := i, size := S } Consts.BOOT_OFFSET _ d h (by show i * S + 24 + 4 ≤ _; omega),
   Ops.writeWord_runs { idx := i, size := S } Consts.EXT_OFFSET _ d h (by show i * S + 16 + 4 ≤ _; omega)⟩

/-! ## non-vacuity of the histories -/

theorem blank_byte (x : Nat) : (Flash.blank 4096 (4 * 20480)).byte x = 0xFF := by
  unfold Flash.byte Flash.blank
  by_cases hx : x < 4 * 20480
  · simp [Array.getD, hx]
  · simp [Array.getD, hx]

theorem blank_hdrs : hdrsOf (Flash.blank 4096 (4 * 20480)) 4 20480 = [none, none, none, none] := by
  have h : ∀ i, NoPanic.hdrAt (Flash.blank 4096 (4 * 20480)) (i * 20480) = none :=
    fun i => hdrAt_of_hdrFF (fun j _ => blank_byte _)
  simp [hdrsOf, NoPanic.hdrs, List.range, List.range.loop, h]

/-- the blank device is a history -/
theorem blank_hist : FlashHist exCfg 4096 (Flash.blank 4096 (4 * 20480)) none := by
  apply FlashHist.init
  · exact Crash.WF.blank _ _
  · rfl
  · show 4 * 20480 ≤ (Flash.blank 4096 (4 * 20480)).size
    simp [Flash.blank, Flash.size]
  · intro i _
    exact hdrAt_of_hdrFF (fun j _ => blank_byte _)

/-- from the blank ring, `start_update` cut short after any `k ≤ 18` of its operations is a history step
    (pair `(0, 1)`, sequence numbers `0, 1`); `k = 18` is the completed call with the session `(0, 1)` -/
example (k : Nat) (hk : k ≤ 18) :
    FlashHist exCfg 4096 ((Flash.blank 4096 (4 * 20480)).applyAll ((Ops.startOps 4096 20480 4 18 0 1 0 1).take k))
      (if k = (Ops.startOps 4096 20480 4 18 0 1 0 1).length then some (0, 1) else none) := by
  apply FlashHist.start (c := exCfg) k blank_hist
  · show SeqRoom 2 (hdrsOf (Flash.blank 4096 (4 * 20480)) 4 20480)
    rw [blank_hdrs]; decide
  · show choosePair 4 (hdrsOf (Flash.blank 4096 (4 * 20480)) 4 20480) = _
    rw [blank_hdrs]; rfl
  · show k ≤ (Ops.startOps 4096 20480 4 18 0 1 0 1).length
    rw [show (Ops.startOps 4096 20480 4 18 0 1 0 1).length = 18 by decide]; exact hk



open Fuota.RingRun




/-! ## `try_recover` and `check_and_mark_done` at the level of the device monad -/

/-- **`tryRecover_runs`**: on a good device (alive, nothing armed) `try_recover` leaves the flash that results from
    exactly `recoverOps`, followed — only when a pair was remediated and `try_recover_inner` then gives up on the
    tables it reads (`l > maxL`; impossible for the tables a session writes, possible for arbitrary slot contents) —
    by the cancel-all programs of the remediated arrangement; with a power loss armed before operation `k`
    (`Dev.withCrash k`) the flash is the one after the first `k` of these operations. -/
theorem tryRecover_runs (nslots S : Nat) (g : Geom) (hg : g.slotSize = S) (d : Dev) (h : Good d)
    (hB : 0 < d.flash.block) (hdiv : S % d.flash.block = 0) (hS : 28 ≤ S) (hdev : nslots * S ≤ d.flash.size) :
    (∃ extra, (extra = [] ∨ ((recoverDecision g (hdrsOf d.flash nslots S)).isSome ∧
        extra = cancelOps S (indexed (hdrsOf (d.flash.applyAll (recoverOps g S d.flash.block (hdrsOf d.flash nslots S)))
          nslots S)))) ∧
      ((tryRecover nslots S).run d).2.flash =
        d.flash.applyAll (recoverOps g S d.flash.block (hdrsOf d.flash nslots S) ++ extra)) ∧
    ∀ k, ∃ extra, (extra = [] ∨ ((recoverDecision g (hdrsOf d.flash nslots S)).isSome ∧
        extra = cancelOps S (indexed (hdrsOf (d.flash.applyAll (recoverOps g S d.flash.block (hdrsOf d.flash nslots S)))
          nslots S)))) ∧
      ((tryRecover nslots S).run (d.withCrash k)).2.flash =
        d.flash.applyAll ((recoverOps g S d.flash.block (hdrsOf d.flash nslots S) ++ extra).take k) := by
  constructor
  · obtain ⟨extra, h1, h2⟩ := tryRecover_device nslots S g hg d (live_of_good h) hB hdiv hS hdev
    exact ⟨extra, h1, by rw [h2, flash_outcome_good h]⟩
  · intro k
    obtain ⟨extra, h1, h2⟩ := tryRecover_device nslots S g hg (d.withCrash k) (live_withCrash h k) hB hdiv hS hdev
    exact ⟨extra, h1, by rw [h2]; exact flash_outcome_crash d k () _⟩

/-- **`check_runs`**: on a good device `check_and_mark_done` emits nothing (and fails) or exactly the two completion
    marks (and returns); with a power loss armed before operation `k` the flash is the one after the first `k` of
    the operations of that run. -/
theorem check_runs (u : Upd) (S : Nat) (hfs : u.fw.size = S) (hps : u.par.size = S) (d : Dev) (h : Good d)
    (hfin : u.fw.idx * S + 28 ≤ d.flash.size) (hpin : u.par.idx * S + 28 ≤ d.flash.size) :
    (∃ ops, (ops = [] ∨ ops = completeOps S u.fw.idx u.par.idx) ∧
      ((checkAndMarkDone u).run d).2.flash = d.flash.applyAll ops ∧
      (∀ i, ((checkAndMarkDone u).run d).1 = .ok i → ops = completeOps S u.fw.idx u.par.idx)) ∧
    ∀ k, ∃ ops, (ops = [] ∨ ops = completeOps S u.fw.idx u.par.idx) ∧
      ((checkAndMarkDone u).run (d.withCrash k)).2.flash = d.flash.applyAll (ops.take k) := by
  constructor
  · obtain ⟨ops, h1, h2, h3⟩ := check_device u S hfs hps d (live_of_good h) hfin hpin
    exact ⟨ops, h1, by rw [h2, flash_outcome_good h], h3⟩
  · intro k
    obtain ⟨ops, h1, h2, _⟩ := check_device u S hfs hps (d.withCrash k) (live_withCrash h k) hfin hpin
    exact ⟨ops, h1, by rw [h2]; exact flash_outcome_crash d k () _⟩



/-- all operations of `try_recover`'s remediation (or cancel-all) = the machine's `recover` -/
theorem recover_full_refines {f : Flash} {g : Geom} {n S B : Nat} (hwf : Crash.WF f) (hB : f.block = B) (h28 : 28 ≤ B)
    (hS : 28 ≤ S) (hdiv : S % B = 0) (hdev : n * S ≤ f.size) :
    hdrsOf (f.applyAll (recoverOps g S B (hdrsOf f n S))) n S = (recover g (hdrsOf f n S)).2 := by
  have hmB : S / B * B = S := by
    have := Nat.div_add_mod S B; rw [Nat.mul_comm]; omega
  have hm : 1 ≤ S / B := by
    apply Nat.pos_of_ne_zero; intro e; rw [e] at hmB; omega
  have := recover_refines (g := g) hwf hB h28 hS hdiv hdev (recoverOps g S B (hdrsOf f n S)).length
  rw [List.take_length, (kappaRecover_bounds g S B (hdrsOf f n S) hm _ (Nat.le_refl _)).2 rfl, List.take_length] at this
  exact this

theorem cancel_full_refines {f : Flash} {n S : Nat} (hwf : Crash.WF f) (hS : 28 ≤ S) (hdev : n * S ≤ f.size) :
    hdrsOf (f.applyAll (cancelOps S (indexed (hdrsOf f n S)))) n S = cancel (hdrsOf f n S) := by
  have := cancel_refines (n := n) hwf hS hdev (cancelOps S (indexed (hdrsOf f n S))).length
  rw [List.take_length, cancelOps_length] at this
  rw [this]
  unfold cancel
  rw [show (cancelEffsOf (indexed (hdrsOf f n S))).length = (cancelEffs (hdrsOf f n S)).length from rfl,
    List.take_length]

/-- **`recover_complete_refines`**: the completed `try_recover` on a good device acts on the headers as the machine's
    `recover` step — or, when it gave up after the remediation (see `tryRecover_runs`), as `recover` followed by the
    machine's `cancel`. -/
theorem recover_complete_refines (nslots S : Nat) (g : Geom) (hg : g.slotSize = S) (d : Dev) (h : Good d)
    (hwf : Crash.WF d.flash) (h28 : 28 ≤ d.flash.block) (hdiv : S % d.flash.block = 0) (hS : 28 ≤ S)
    (hdev : nslots * S ≤ d.flash.size) :
    hdrsOf ((tryRecover nslots S).run d).2.flash nslots S = (recover g (hdrsOf d.flash nslots S)).2 ∨
    ((recoverDecision g (hdrsOf d.flash nslots S)).isSome ∧
      hdrsOf ((tryRecover nslots S).run d).2.flash nslots S = cancel (recover g (hdrsOf d.flash nslots S)).2) := by
  obtain ⟨⟨extra, hex, hfl⟩, _⟩ := tryRecover_runs nslots S g hg d h (by omega) hdiv hS hdev
  have hfull := recover_full_refines (g := g) (n := nslots) hwf rfl h28 hS hdiv hdev
  rw [hfl, Ops.applyAll_append]
  rcases hex with rfl | ⟨hsome, rfl⟩
  · left
    exact hfull
  · right
    refine ⟨hsome, ?_⟩
    rw [cancel_full_refines (hwf.applyAll _) hS (by rw [applyAll_size]; exact hdev), hfull]

/-- **`recover_crash_refines`**: with a power loss armed before operation `k` of `try_recover`, the headers on flash
    are the ring's headers with a prefix of the machine's `recover` effects applied — or, in the give-up case, all of
    them and then a prefix of the machine's `cancel` effects. -/
theorem recover_crash_refines (nslots S : Nat) (g : Geom) (hg : g.slotSize = S) (d : Dev) (h : Good d)
    (hwf : Crash.WF d.flash) (h28 : 28 ≤ d.flash.block) (hdiv : S % d.flash.block = 0) (hS : 28 ≤ S)
    (hdev : nslots * S ≤ d.flash.size) (k : Nat) :
    (∃ j, hdrsOf ((tryRecover nslots S).run (d.withCrash k)).2.flash nslots S =
      applyAll (hdrsOf d.flash nslots S) ((recoverEffs g (hdrsOf d.flash nslots S)).2.take j)) ∨
    ((recoverDecision g (hdrsOf d.flash nslots S)).isSome ∧
      ∃ j, hdrsOf ((tryRecover nslots S).run (d.withCrash k)).2.flash nslots S =
        applyAll (recover g (hdrsOf d.flash nslots S)).2 ((cancelEffs (recover g (hdrsOf d.flash nslots S)).2).take j)) := by
  obtain ⟨_, hcr⟩ := tryRecover_runs nslots S g hg d h (by omega) hdiv hS hdev
  obtain ⟨extra, hex, hfl⟩ := hcr k
  have hfull := recover_full_refines (g := g) (n := nslots) hwf rfl h28 hS hdiv hdev
  rw [hfl, List.take_append, Ops.applyAll_append]
  by_cases hk : k ≤ (recoverOps g S d.flash.block (hdrsOf d.flash nslots S)).length
  · left
    rw [show k - (recoverOps g S d.flash.block (hdrsOf d.flash nslots S)).length = 0 by omega, List.take_zero]
    exact ⟨_, recover_refines (g := g) hwf rfl h28 hS hdiv hdev k⟩
  · rw [List.take_of_length_le (by omega)]
    rcases hex with rfl | ⟨hsome, rfl⟩
    · left
      refine ⟨(recoverEffs g (hdrsOf d.flash nslots S)).2.length, ?_⟩
      rw [List.take_nil, List.take_length]
      exact hfull
    · right
      refine ⟨hsome, k - (recoverOps g S d.flash.block (hdrsOf d.flash nslots S)).length, ?_⟩
      have := cancel_refines (n := nslots) (hwf.applyAll (recoverOps g S d.flash.block (hdrsOf d.flash nslots S))) hS
        (by rw [applyAll_size]; exact hdev) (k - (recoverOps g S d.flash.block (hdrsOf d.flash nslots S)).length)
      rw [this, hfull]

/-- **`check_complete_refines`**: when `check_and_mark_done` returns on a good device whose session slots carry
    in-progress headers, it acted on the headers as the machine's `complete`; with a power loss armed before operation
    `k`, as a prefix of it (`k = 1`: `completeCrash`). -/
theorem check_complete_refines (u : Upd) (nslots S : Nat) (hfs : u.fw.size = S) (hps : u.par.size = S) (d : Dev)
    (h : Good d) (hwf : Crash.WF d.flash) (hS : 28 ≤ S) (hdev : nslots * S ≤ d.flash.size) {hf hp : Header}
    (huf : Used (hdrsOf d.flash nslots S) u.fw.idx hf) (hup : Used (hdrsOf d.flash nslots S) u.par.idx hp)
    (hne : u.fw.idx ≠ u.par.idx) (hef : hf.ext = Ext.inProgress) (hep : hp.ext = Ext.inProgress) :
    ∃ es, completeEffs (hdrsOf d.flash nslots S) u.fw.idx u.par.idx = some es ∧
      (∀ i, ((checkAndMarkDone u).run d).1 = .ok i →
        hdrsOf ((checkAndMarkDone u).run d).2.flash nslots S = applyAll (hdrsOf d.flash nslots S) es) ∧
      ∀ k, ∃ j, hdrsOf ((checkAndMarkDone u).run (d.withCrash k)).2.flash nslots S =
        applyAll (hdrsOf d.flash nslots S) (es.take j) := by
  have hfin : u.fw.idx * S + 28 ≤ d.flash.size := by
    have := slot_in_dev hdev (used_hdrsOf.mp huf).1; omega
  have hpin : u.par.idx * S + 28 ≤ d.flash.size := by
    have := slot_in_dev hdev (used_hdrsOf.mp hup).1; omega
  obtain ⟨⟨ops, _, hfl, hok⟩, hcr⟩ := check_runs u S hfs hps d h hfin hpin
  obtain ⟨es, hes, _⟩ := complete_refines hwf hS hdev huf hup hne hef hep 0
  have href : ∀ k, hdrsOf (d.flash.applyAll ((completeOps S u.fw.idx u.par.idx).take k)) nslots S =
      applyAll (hdrsOf d.flash nslots S) (es.take k) := by
    intro k
    obtain ⟨es', hes', hr⟩ := complete_refines hwf hS hdev huf hup hne hef hep k
    rw [hes] at hes'
    simp only [Option.some.injEq] at hes'
    rw [hes']; exact hr
  refine ⟨es, hes, ?_, ?_⟩
  · intro i hi
    rw [hfl, hok i hi]
    have := href (completeOps S u.fw.idx u.par.idx).length
    rw [List.take_length] at this
    rw [this, List.take_of_length_le (by rw [completeEffs_length hes]; exact Nat.le_refl _)]
  · intro k
    obtain ⟨ops', hops', hfl'⟩ := hcr k
    rw [hfl']
    rcases hops' with rfl | rfl
    · exact ⟨0, by simp [Flash.applyAll, applyAll]⟩
    · exact ⟨k, href k⟩



/-! ### non-vacuity: a concrete device -/

/-- the blank device of the example configuration: nothing armed, alive -/
def blankDev : Dev := { flash := Flash.blank 4096 (4 * 20480) }

theorem blankDev_good : Good blankDev := ⟨rfl, rfl, rfl⟩

theorem blankDev_size : 4 * 20480 ≤ blankDev.flash.size := by
  show 4 * 20480 ≤ (Flash.blank 4096 (4 * 20480)).size
  simp [Flash.blank, Flash.size]

/-- the hypotheses of `recover_complete_refines` / `recover_crash_refines` / `tryRecover_runs` hold on it -/
example (k : Nat) :=
  And.intro (recover_complete_refines 4 20480 (geomOf 20480 4 18) rfl blankDev blankDev_good (Crash.WF.blank _ _)
      (by decide) (by decide) (by decide) blankDev_size)
   (recover_crash_refines 4 20480 (geomOf 20480 4 18) rfl blankDev blankDev_good (Crash.WF.blank _ _)
      (by decide) (by decide) (by decide) blankDev_size k)

/-- the hypotheses of `check_runs` hold on it for the session `start_update` returns for the pair `(0, 1)` -/
example := check_runs (C08.startUpd 20480 4 18 0 1) 20480 rfl rfl blankDev blankDev_good
  (by have := blankDev_size; show 0 * 20480 + 28 ≤ _; omega) (by have := blankDev_size; show 1 * 20480 + 28 ≤ _; omega)


/-! ## `start_update` and `handle_segment` at the level of the device monad -/

theorem outcome_good_fst {α : Type} {d : Dev} (h : Good d) (a : α) (ops : List Op) : (outcome d a ops).1 = .ok a := by
  unfold outcome cutAt
  rw [h.crash]

/-- **`start_runs`**: `start_update` on a good device emits exactly `Ops.startOps` for the pair `alloc_slotpair`
    chooses from the headers on flash and returns the fresh session object; with a power loss armed before its `k`-th
    mutating operation exactly the first `k` of them took effect; and in every case the headers read back afterwards are
    those of the header-level machine after the matching prefix of `startEffs` (`start_refines` on the real call). -/
theorem start_runs (n S sz nn : Nat) (d : Dev) (h : Good d) (hwf : Crash.WF d.flash) (h28 : 28 ≤ d.flash.block)
    (hdiv : S % d.flash.block = 0) (hn : 2 ≤ n) (hdev : n * S ≤ d.flash.size) (hrs : reasonablySized S sz nn = .ok ())
    (hcap : 1 ≤ capacity S sz) :
    ∃ es a b sa sb, choosePair n (hdrsOf d.flash n S) = .ok (a, b, sa, sb) ∧
      startEffs (geomOf S sz nn) n (hdrsOf d.flash n S) = .ok (es, a, b) ∧
      ((startUpdate n S sz nn).run d).1 = .ok (C08.startUpd S sz nn a b) ∧
      ((startUpdate n S sz nn).run d).2.flash = d.flash.applyAll (Ops.startOps d.flash.block S sz nn a b sa sb) ∧
      hdrsOf ((startUpdate n S sz nn).run d).2.flash n S = applyAll (hdrsOf d.flash n S) es ∧
      ∀ k, ((startUpdate n S sz nn).run (d.withCrash k)).2.flash =
          d.flash.applyAll ((Ops.startOps d.flash.block S sz nn a b sa sb).take k) ∧
        hdrsOf ((startUpdate n S sz nn).run (d.withCrash k)).2.flash n S =
          applyAll (hdrsOf d.flash n S) (es.take (kappaStart (S / d.flash.block) k)) := by
  obtain ⟨es, a, b, sa, sb, hc, hse, hlen, hol, href⟩ :=
    start_refines (n := n) (S := S) (sz := sz) (nn := nn) hwf rfl h28 hdiv hn hdev hrs hcap
  have hgood := start_device n S sz nn d (live_of_good h) hn (by omega) hdiv hdev hrs hc
  refine ⟨es, a, b, sa, sb, hc, hse, ?_, ?_, ?_, ?_⟩
  · rw [hgood]; exact outcome_good_fst h _ _
  · rw [hgood]; exact flash_outcome_good h _ _
  · rw [hgood, flash_outcome_good h]
    have := href (Ops.startOps d.flash.block S sz nn a b sa sb).length
    rw [List.take_length] at this
    rw [this, hol]
    have hk : kappaStart (S / d.flash.block) (2 * (S / d.flash.block) + 8) = 4 := by
      unfold kappaStart
      have hm : 1 ≤ S / d.flash.block := by
        have := Nat.div_add_mod S d.flash.block
        apply Nat.pos_of_ne_zero; intro e; rw [e] at this
        have : 17408 < S := (Ops.reasonablySized_ok hrs).2.2.2.2.2
        omega
      repeat' split
      all_goals omega
    rw [hk, ← hlen, List.take_length]
  · intro k
    have hcr := start_device n S sz nn (d.withCrash k) (live_withCrash h k) hn (by show 0 < d.flash.block; omega) hdiv hdev
      hrs hc
    have hfl : ((startUpdate n S sz nn).run (d.withCrash k)).2.flash =
        d.flash.applyAll ((Ops.startOps d.flash.block S sz nn a b sa sb).take k) := by
      rw [hcr]; exact flash_outcome_crash d k _ _
    exact ⟨hfl, by rw [hfl]; exact href k⟩

/-- **`handle_segment` does not touch the headers**: on any device (healthy, faulty, with a power loss armed anywhere,
    or already dead), for every fragment index and payload, the headers read back are unchanged -/
theorem handle_segment_keeps_headers (ffr : Bool) (idx : Nat) (bytes : List Nat) (u : Upd) (d : Dev) (n S : Nat)
    (hg : Ops.SlotGeom u) (hfs : u.fw.size = S) (hps : u.par.size = S) :
    hdrsOf ((handleSegment ffr idx bytes).run (u, d)).2.2.flash n S = hdrsOf d.flash n S ∧
    ∀ k, hdrsOf ((handleSegment ffr idx bytes).run (u, d.withCrash k)).2.2.flash n S = hdrsOf d.flash n S :=
  ⟨handleSegment_hdrsOf ffr idx bytes u d n S hg hfs hps,
   fun k => handleSegment_hdrsOf ffr idx bytes u (d.withCrash k) n S hg hfs hps⟩

/-! ## histories made of the real calls of the flash-level model -/

/-- the two slots of a session object -/
def pairOf (u : Upd) : Nat × Nat := (u.fw.idx, u.par.idx)

/-- a session object in RAM for slots of size `S` -/
structure RamOK (S : Nat) (u : Upd) : Prop where
  geom : Ops.SlotGeom u
  fs : u.fw.size = S
  ps : u.par.size = S

/-- what is left in RAM after a call that returns a session object: nothing when a power loss was armed (the device
    reboots), nothing when the call failed -/
def ramAfter (k : Option Nat) (r : Except MErr (Option Upd)) : Option Upd :=
  if k = none then (match r with | .ok o => o | .error _ => none) else none

/-- the same headers, another flash -/
theorem sim_frame {c : Cfg} {B : Nat} {f f' : Flash} {se : Option (Nat × Nat)} {s : State} (h : Sim c B f se s)
    (hh : hdrsOf f' c.n c.geom.slotSize = hdrsOf f c.n c.geom.slotSize) (hwf : Crash.WF f') (hb : f'.block = B)
    (hz : f'.size = f.size) : Sim c B f' se s :=
  ⟨h.reach, by rw [hh]; exact h.hs, h.sess, hwf, hb, by rw [hz]; exact h.dev⟩

theorem sim_none {c : Cfg} {B : Nat} {f : Flash} (h : ∃ se s, Sim c B f se s)
    (hroom : SeqRoom 2 (hdrsOf f c.n c.geom.slotSize)) : ∃ s', Sim c B f none s' := by
  obtain ⟨se, s, hs⟩ := h
  exact sim_drop hs hroom

theorem CfgOK.slot28 {c : Cfg} {B : Nat} (ok : CfgOK c B) : 28 ≤ c.geom.slotSize := by
  have := (Ops.reasonablySized_ok ok.rs).2.2.2.2.2
  omega

/-- `start_update`, run to its end or cut by a power loss -/
theorem call_start {c : Cfg} {B : Nat} (ok : CfgOK c B) {f : Flash} {se : Option (Nat × Nat)} {s : State}
    (h : Sim c B f se s) (hroom : SeqRoom 2 (hdrsOf f c.n c.geom.slotSize)) (d : Dev) (k : Option Nat) (hg : Good d)
    (hdf : d.flash = f)
    (hpost : k ≠ none → SeqRoom 2 (hdrsOf ((startUpdate c.n c.geom.slotSize c.geom.segSize c.geom.nseg).run
      (arm d k)).2.flash c.n c.geom.slotSize)) :
    (∃ s', Sim c B ((startUpdate c.n c.geom.slotSize c.geom.segSize c.geom.nseg).run (arm d k)).2.flash
      ((ramAfter k (((startUpdate c.n c.geom.slotSize c.geom.segSize c.geom.nseg).run (arm d k)).1.map some)).map
        pairOf) s') ∧
    ∀ u, ramAfter k (((startUpdate c.n c.geom.slotSize c.geom.segSize c.geom.nseg).run (arm d k)).1.map some) = some u →
      RamOK c.geom.slotSize u := by
  subst hdf
  obtain ⟨es, a, b, sa, sb, hc, _, _, _, _⟩ :=
    start_refines (n := c.n) (S := c.geom.slotSize) (sz := c.geom.segSize) (nn := c.geom.nseg) h.wf h.block ok.b28
      ok.div (by have := ok.n4; omega) h.dev ok.rs ok.cap1
  have hB := h.block
  have hrun := start_device c.n c.geom.slotSize c.geom.segSize c.geom.nseg (arm d k) (live_arm hg k)
    (by have := ok.n4; omega) (by rw [arm_flash, hB]; have := ok.b28; omega) (by rw [arm_flash, hB]; exact ok.div)
    (by rw [arm_flash]; exact h.dev) ok.rs (by rw [arm_flash]; exact hc)
  rw [arm_flash, hB] at hrun
  have hfl : ((startUpdate c.n c.geom.slotSize c.geom.segSize c.geom.nseg).run (arm d k)).2.flash = d.flash.applyAll
      ((Ops.startOps B c.geom.slotSize c.geom.segSize c.geom.nseg a b sa sb).take
        (min (k.getD (Ops.startOps B c.geom.slotSize c.geom.segSize c.geom.nseg a b sa sb).length)
          (Ops.startOps B c.geom.slotSize c.geom.segSize c.geom.nseg a b sa sb).length)) := by
    rw [hrun, flash_outcome_arm hg, ← take_min]
  obtain ⟨s', hs'⟩ := sim_start ok h hroom hc
    (min (k.getD (Ops.startOps B c.geom.slotSize c.geom.segSize c.geom.nseg a b sa sb).length)
      (Ops.startOps B c.geom.slotSize c.geom.segSize c.geom.nseg a b sa sb).length) (Nat.min_le_right _ _)
  cases k with
  | none =>
    have hres : ((startUpdate c.n c.geom.slotSize c.geom.segSize c.geom.nseg).run (arm d none)).1 =
        .ok (C08.startUpd c.geom.slotSize c.geom.segSize c.geom.nseg a b) := by
      rw [hrun]; exact outcome_good_fst hg _ _
    rw [hres]
    have hram : ramAfter none (Except.map some (.ok (C08.startUpd c.geom.slotSize c.geom.segSize c.geom.nseg a b) :
        Except MErr Upd)) = some (C08.startUpd c.geom.slotSize c.geom.segSize c.geom.nseg a b) := rfl
    rw [hram]
    constructor
    · rw [hfl]
      simp only [Option.getD_none, Nat.min_self, ↓reduceIte] at hs' ⊢
      exact ⟨s', hs'⟩
    · intro u hu
      simp only [Option.some.injEq] at hu
      subst hu
      obtain ⟨_, _, _, _, h5, h6⟩ := Ops.reasonablySized_ok ok.rs
      exact ⟨⟨h6, h6, h5⟩, rfl, rfl⟩
  | some kk =>
    have hram : ∀ r, ramAfter (some kk) r = none := fun r => rfl
    rw [hram]
    refine ⟨?_, fun u hu => by cases hu⟩
    have hp := hpost (by simp)
    rw [hfl] at hp ⊢
    exact sim_none ⟨_, s', hs'⟩ hp

/-- `handle_segment` on any device holding the flash: the headers are not touched, the session object stays one for
    the same pair of slots -/
theorem call_segment {c : Cfg} {B : Nat} {f : Flash} {u : Upd} {s : State}
    (h : Sim c B f (some (pairOf u)) s) (hr : RamOK c.geom.slotSize u) (d : Dev) (hdf : d.flash = f) (ffr : Bool)
    (idx : Nat) (bytes : List Nat) :
    Sim c B ((handleSegment ffr idx bytes).run (u, d)).2.2.flash
      (some (pairOf ((handleSegment ffr idx bytes).run (u, d)).2.1)) s ∧
    RamOK c.geom.slotSize ((handleSegment ffr idx bytes).run (u, d)).2.1 := by
  subst hdf
  obtain ⟨hblk, ⟨new, hrep, _⟩, hinv, _⟩ := Ops.handleSegment_emits (B := d.flash.block) (u.l ≤ u.maxL) u hr.geom ffr idx
    bytes u d rfl ⟨Ops.SameSess.refl u, fun h => h⟩
  have hsame := hinv.1
  have hpair : pairOf ((handleSegment ffr idx bytes).run (u, d)).2.1 = pairOf u := by
    unfold pairOf; rw [hsame.fw.1, hsame.par.1]
  rw [hpair]
  refine ⟨sim_frame h (handleSegment_hdrsOf ffr idx bytes u d c.n c.geom.slotSize hr.geom hr.fs hr.ps) ?_
    (by rw [hblk]; exact h.block) (by rw [hrep.flash, applyAll_size]), hr.geom.of_same hsame, ?_, ?_⟩
  · rw [hrep.flash]; exact wf_applyAll h.wf _
  · rw [hsame.fw.2]; exact hr.fs
  · rw [hsame.par.2]; exact hr.ps

theorem recoverDecision_rs {g : Geom} {hs : Hdrs} {nw sn : Nat × Header} (h : recoverDecision g hs = some (nw, sn)) :
    reasonablySized g.slotSize sn.2.size sn.2.n = .ok () := by
  unfold recoverDecision at h
  split at h
  · rename_i nw' sn' _
    by_cases c1 : totalStatus nw'.2 ≠ TotalStatus.appWriteInProgress
    · rw [if_pos c1] at h; cases h
    rw [if_neg c1] at h
    by_cases c2 : nw'.2.kind ≠ Kind.parity
    · rw [if_pos c2] at h; cases h
    rw [if_neg c2] at h
    by_cases c3 : totalStatus sn'.2 ≠ TotalStatus.appWriteInProgress
    · rw [if_pos c3] at h; cases h
    rw [if_neg c3] at h
    by_cases c4 : sn'.2.kind ≠ Kind.firmware
    · rw [if_pos c4] at h; cases h
    rw [if_neg c4] at h
    by_cases c5 : nw'.2.size ≠ sn'.2.size
    · rw [if_pos c5] at h; cases h
    rw [if_neg c5] at h
    by_cases c6 : nw'.2.n > VBITS
    · rw [if_pos c6] at h; cases h
    rw [if_neg c6] at h
    cases hr : reasonablySized g.slotSize sn'.2.size sn'.2.n with
    | error e => rw [hr] at h; cases h
    | ok v =>
      rw [hr] at h
      simp only [Option.some.injEq, Prod.mk.injEq] at h
      rw [← h.2]; exact hr
  · cases h

theorem blStatus_used {hs : Hdrs} {i : Nat} (h : blStatus hs = some (.inl i) ∨ blStatus hs = some (.inr i)) :
    ∃ hd, Used hs i hd := by
  rcases h with h | h
  all_goals
    obtain ⟨i', hd, ⟨hu, _⟩, hr, -⟩ := Ring.blStatus_eq_some.mp h
    by_cases hst : totalStatus hd = TotalStatus.bootloadWriteInProgress
    · simp only [hst, ↓reduceIte, Sum.inl.injEq, reduceCtorEq] at hr
      first | exact ⟨hd, hr ▸ hu⟩ | skip
    · simp only [hst, ↓reduceIte, Sum.inr.injEq, reduceCtorEq] at hr
      first | exact ⟨hd, hr ▸ hu⟩ | skip

/-- `cancel_all_ext_pending`, run to its end or cut by a power loss -/
theorem call_cancel {c : Cfg} {B : Nat} (ok : CfgOK c B) {f : Flash} {se : Option (Nat × Nat)} {s : State}
    (h : Sim c B f se s) (hroom : SeqRoom 2 (hdrsOf f c.n c.geom.slotSize)) (d : Dev) (k : Option Nat) (hg : Good d)
    (hdf : d.flash = f) : ∃ s', Sim c B ((cancelAll c.n c.geom.slotSize).run (arm d k)).2.flash none s' := by
  subst hdf
  have hrun := cancelAll_device c.n c.geom.slotSize (arm d k) (live_arm hg k) ok.slot28 (by rw [arm_flash]; exact h.dev)
  rw [arm_flash] at hrun
  rw [hrun, flash_outcome_arm hg, take_min]
  exact sim_cancel ok h hroom _ (Nat.min_le_right _ _)

/-- a status mark (one word), run to its end or cut by a power loss -/
theorem call_mark {c : Cfg} {B : Nat} {f : Flash} {se : Option (Nat × Nat)} {s : State}
    (h : Sim c B f se s) (hroom : SeqRoom 2 (hdrsOf f c.n c.geom.slotSize)) (d : Dev) (k : Option Nat) (hg : Good d)
    (hdf : d.flash = f) (x : M Unit) (op : Op)
    (hx : ∀ e, Live e → e.flash.size = f.size → x.run e = outcome e () [op]) {e : Eff}
    (href : hdrsOf (f.apply op) c.n c.geom.slotSize = apply1 (hdrsOf f c.n c.geom.slotSize) e)
    (hhas : ∀ s : State, s.hs = hdrsOf f c.n c.geom.slotSize → ∃ t ∈ blSuccs s, t.2.hs = apply1 s.hs e ∧ t.2.sess = s.sess) :
    ∃ s', Sim c B (x.run (arm d k)).2.flash (if k = none then se else none) s' := by
  subst hdf
  rw [hx (arm d k) (live_arm hg k) (by rw [arm_flash]), flash_outcome_arm hg]
  cases k with
  | none =>
    simp only [Option.getD_none, List.length_cons, List.length_nil, Nat.zero_add, List.take_succ_cons, List.take_zero,
      Flash.applyAll, List.foldl_cons, List.foldl_nil, ↓reduceIte]
    exact sim_mark h hroom op href (hhas s h.hs)
  | some kk =>
    simp only [Option.getD_some, reduceCtorEq, ↓reduceIte]
    obtain ⟨s0, hs0⟩ := sim_drop h hroom
    cases kk with
    | zero => exact ⟨s0, hs0⟩
    | succ j =>
      simp only [List.take_succ_cons, List.take_nil, Flash.applyAll, List.foldl_cons, List.foldl_nil]
      exact sim_mark hs0 hroom op href (hhas s0 hs0.hs)

/-- `check_and_mark_done`, run to its end or cut by a power loss -/
theorem call_check {c : Cfg} {B : Nat} (ok : CfgOK c B) {f : Flash} {u : Upd} {s : State}
    (h : Sim c B f (some (pairOf u)) s) (hr : RamOK c.geom.slotSize u)
    (hroom : SeqRoom 2 (hdrsOf f c.n c.geom.slotSize)) (hbl : blStatus (hdrsOf f c.n c.geom.slotSize) = none)
    (d : Dev) (k : Option Nat) (hg : Good d) (hdf : d.flash = f) :
    ∃ s', Sim c B ((checkAndMarkDone u).run (arm d k)).2.flash none s' := by
  subst hdf
  have hS := ok.slot28
  have hinv := C12.reachable_inv1 c ok.n4 h.reach
  obtain ⟨_, _, _, huf, _, _, hup, _, _, _⟩ := hinv.sess u.fw.idx u.par.idx h.sess
  rw [h.hs] at huf hup
  have hfin : u.fw.idx * c.geom.slotSize + 28 ≤ d.flash.size := by
    have := slot_in_dev h.dev (used_hdrsOf.mp huf).1; omega
  have hpin : u.par.idx * c.geom.slotSize + 28 ≤ d.flash.size := by
    have := slot_in_dev h.dev (used_hdrsOf.mp hup).1; omega
  obtain ⟨ops, hops, hrun, _⟩ := check_device u c.geom.slotSize hr.fs hr.ps (arm d k) (live_arm hg k)
    (by rw [arm_flash]; exact hfin) (by rw [arm_flash]; exact hpin)
  rw [hrun, flash_outcome_arm hg]
  rcases hops with rfl | rfl
  · simp only [List.take_nil, Flash.applyAll, List.foldl_nil]
    exact sim_drop h hroom
  · rw [take_min]
    exact sim_complete ok h hroom hbl _ (Nat.min_le_right _ _)

theorem recover_room {c : Cfg} {B : Nat} (ok : CfgOK c B) {f : Flash} (hwf : Crash.WF f) (hB : f.block = B)
    (hdev : c.n * c.geom.slotSize ≤ f.size) (hroom : SeqRoom 2 (hdrsOf f c.n c.geom.slotSize)) (k : Nat) :
    SeqRoom 2 (hdrsOf (f.applyAll ((recoverOps c.geom c.geom.slotSize B (hdrsOf f c.n c.geom.slotSize)).take k)) c.n
      c.geom.slotSize) := by
  rw [recover_refines (g := c.geom) hwf hB ok.b28 ok.slot28 ok.div hdev k]
  apply seqRoom_sub hroom
  have hsrc := Ring.recoverEffs_src c (hdrsOf f c.n c.geom.slotSize)
  have hrec : c.recoverEffs (hdrsOf f c.n c.geom.slotSize) = recoverEffs c.geom (hdrsOf f c.n c.geom.slotSize) := by
    unfold Cfg.recoverEffs; simp [ok.twoPass]
  rw [hrec] at hsrc
  exact Ring.take_sub hsrc _

theorem cancel_room {c : Cfg} {B : Nat} (ok : CfgOK c B) {f : Flash} (hwf : Crash.WF f)
    (hdev : c.n * c.geom.slotSize ≤ f.size) (hroom : SeqRoom 2 (hdrsOf f c.n c.geom.slotSize)) (k : Nat) :
    SeqRoom 2 (hdrsOf (f.applyAll ((cancelOps c.geom.slotSize (indexed (hdrsOf f c.n c.geom.slotSize))).take k)) c.n
      c.geom.slotSize) := by
  rw [cancel_refines hwf ok.slot28 hdev k]
  exact seqRoom_sub hroom (Ring.take_sub (Ring.cancelEffs_src _) _)

/-- `try_recover`, run to its end or cut by a power loss. When the call decides on a session but finds
    `l > max_l` afterwards it cancels on the remediated flash: two transitions of the machine (recover, then cancel). -/
theorem call_recover {c : Cfg} {B : Nat} (ok : CfgOK c B) {f : Flash} {se : Option (Nat × Nat)} {s : State}
    (h : Sim c B f se s) (hroom : SeqRoom 2 (hdrsOf f c.n c.geom.slotSize)) (d : Dev) (k : Option Nat) (hg : Good d)
    (hdf : d.flash = f) :
    (∃ s', Sim c B ((tryRecover c.n c.geom.slotSize).run (arm d k)).2.flash
      ((ramAfter k ((tryRecover c.n c.geom.slotSize).run (arm d k)).1).map pairOf) s') ∧
    ∀ u, ramAfter k ((tryRecover c.n c.geom.slotSize).run (arm d k)).1 = some u → RamOK c.geom.slotSize u := by
  subst hdf
  have hS := ok.slot28
  have hB := h.block
  have h28 := ok.b28
  have hdev2 := tryRecover_device2 c.n c.geom.slotSize c.geom rfl (arm d k) (live_arm hg k)
    (by rw [arm_flash, hB]; omega) (by rw [arm_flash, hB]; exact ok.div) hS (by rw [arm_flash]; exact h.dev)
  rw [arm_flash, hB] at hdev2
  obtain ⟨extra, hex, hrun, hres⟩ := hdev2
  have hfl : ((tryRecover c.n c.geom.slotSize).run (arm d k)).2.flash = d.flash.applyAll
      ((recoverOps c.geom c.geom.slotSize B (hdrsOf d.flash c.n c.geom.slotSize) ++ extra).take
        (k.getD (recoverOps c.geom c.geom.slotSize B (hdrsOf d.flash c.n c.geom.slotSize) ++ extra).length)) := by
    rw [hrun, flash_outcome_arm hg]
  have hr1 := fun j => recover_room ok h.wf hB h.dev hroom j
  -- the flash afterwards is that of a reachable state, with sequence room
  have hA : (∃ se' s', Sim c B ((tryRecover c.n c.geom.slotSize).run (arm d k)).2.flash se' s') ∧
      SeqRoom 2 (hdrsOf ((tryRecover c.n c.geom.slotSize).run (arm d k)).2.flash c.n c.geom.slotSize) := by
    rw [hfl]
    generalize k.getD (recoverOps c.geom c.geom.slotSize B (hdrsOf d.flash c.n c.geom.slotSize) ++ extra).length = K
    by_cases hK : K ≤ (recoverOps c.geom c.geom.slotSize B (hdrsOf d.flash c.n c.geom.slotSize)).length
    · rw [List.take_append_of_le_length hK]
      obtain ⟨s', hs'⟩ := sim_recover ok h hroom K hK
      exact ⟨⟨_, s', hs'⟩, hr1 K⟩
    · obtain ⟨s1, hs1⟩ := sim_recover ok h hroom _ (Nat.le_refl _)
      have hroom1 := hr1 (recoverOps c.geom c.geom.slotSize B (hdrsOf d.flash c.n c.geom.slotSize)).length
      rw [List.take_length] at hs1 hroom1
      rw [List.take_append, List.take_of_length_le (by omega), Ops.applyAll_append]
      rcases hex with rfl | ⟨_, rfl⟩
      · simp only [List.take_nil, Flash.applyAll, List.foldl_nil]
        exact ⟨⟨_, s1, hs1⟩, hroom1⟩
      · rw [take_min]
        obtain ⟨s2, hs2⟩ := sim_cancel ok hs1 hroom1 _ (Nat.min_le_right _ _)
        exact ⟨⟨_, s2, hs2⟩, cancel_room ok hs1.wf hs1.dev hroom1 _⟩
  -- a returned session object is the one the machine's recover decides on
  have hBq : ∀ u, ramAfter k ((tryRecover c.n c.geom.slotSize).run (arm d k)).1 = some u →
      (∃ s', Sim c B ((tryRecover c.n c.geom.slotSize).run (arm d k)).2.flash (some (pairOf u)) s') ∧
      RamOK c.geom.slotSize u := by
    intro u hu
    cases k with
    | some kk => cases hu
    | none =>
      have hok : ((tryRecover c.n c.geom.slotSize).run (arm d none)).1 = .ok (some u) := by
        cases hr : ((tryRecover c.n c.geom.slotSize).run (arm d none)).1 with
        | error e => rw [hr] at hu; cases hu
        | ok o =>
          rw [hr] at hu
          have : o = some u := hu
          rw [this]
      obtain ⟨rfl, nw, sn, hdec, hfw, hpar, hn, hbs⟩ := hres u hok
      have hrs := recoverDecision_rs hdec
      obtain ⟨_, _, _, _, h5, h6⟩ := Ops.reasonablySized_ok hrs
      constructor
      · rw [hfl]
        simp only [Option.getD_none, List.append_nil, List.take_length]
        obtain ⟨s1, hs1⟩ := sim_recover ok h hroom _ (Nat.le_refl _)
        rw [List.take_length, if_pos rfl] at hs1
        have hp : (recoverEffs c.geom (hdrsOf d.flash c.n c.geom.slotSize)).1 = some (pairOf u) := by
          unfold recoverEffs pairOf
          rw [hdec, hfw, hpar]
        rw [hp] at hs1
        exact ⟨s1, hs1⟩
      · refine ⟨⟨?_, ?_, ?_⟩, ?_, ?_⟩
        · rw [hfw]; exact h6
        · rw [hpar]; exact h6
        · rw [hfw, hn, hbs]; exact h5
        · rw [hfw]
        · rw [hpar]
  cases hram : ramAfter k ((tryRecover c.n c.geom.slotSize).run (arm d k)).1 with
  | none => exact ⟨sim_none hA.1 hA.2, fun u hu => by cases hu⟩
  | some u =>
    obtain ⟨h1, h2⟩ := hBq u hram
    exact ⟨h1, fun u' hu' => by cases hu'; exact h2⟩

/-- **call-level histories**: every step is a real call of the flash-level model (`start_update`, `handle_segment`,
    `check_and_mark_done`, `try_recover`, `cancel_all_ext_pending`, the three status marks of bootloader and
    application, a reboot), run on a good device holding the current flash (`Good d`, `d.flash = f`), either to its
    end (`k = none`) or with a clean power loss armed before its `k`-th mutating operation (`k = some k`: `arm d k =
    d.withCrash k`; the device then reboots, so the session object in RAM is lost). `handle_segment` may run on any
    device holding the current flash (faulty, with a power loss armed anywhere, dead). The second component is the
    session object in RAM. `SeqRoom 2`: no sequence wrap-around in the step (after a power loss inside `start_update`
    also for the reboot that follows). A `check_and_mark_done` that wrote nothing may keep its session object.
    Completion is only attempted when no image is pending (the proviso of C12). -/
inductive CallHist (c : Cfg) (B : Nat) : Flash → Option Upd → Prop
  | init (f : Flash) : Crash.WF f → f.block = B → c.n * c.geom.slotSize ≤ f.size →
      (∀ i, i < c.n → NoPanic.hdrAt f (i * c.geom.slotSize) = none) → CallHist c B f none
  | start {f : Flash} {ram : Option Upd} (d : Dev) (k : Option Nat) : CallHist c B f ram → Good d → d.flash = f →
      SeqRoom 2 (hdrsOf f c.n c.geom.slotSize) →
      (k ≠ none → SeqRoom 2 (hdrsOf ((startUpdate c.n c.geom.slotSize c.geom.segSize c.geom.nseg).run (arm d k)).2.flash
        c.n c.geom.slotSize)) →
      CallHist c B ((startUpdate c.n c.geom.slotSize c.geom.segSize c.geom.nseg).run (arm d k)).2.flash
        (ramAfter k (((startUpdate c.n c.geom.slotSize c.geom.segSize c.geom.nseg).run (arm d k)).1.map some))
  | segment {f : Flash} {u : Upd} (d : Dev) (ffr : Bool) (idx : Nat) (bytes : List Nat) :
      CallHist c B f (some u) → d.flash = f →
      CallHist c B ((handleSegment ffr idx bytes).run (u, d)).2.2.flash
        (some ((handleSegment ffr idx bytes).run (u, d)).2.1)
  | check {f : Flash} {u : Upd} (d : Dev) (k : Option Nat) (ram' : Option Upd) : CallHist c B f (some u) → Good d →
      d.flash = f → SeqRoom 2 (hdrsOf f c.n c.geom.slotSize) → blStatus (hdrsOf f c.n c.geom.slotSize) = none →
      (ram' = none ∨ (ram' = some u ∧ ((checkAndMarkDone u).run (arm d k)).2.flash = f)) →
      CallHist c B ((checkAndMarkDone u).run (arm d k)).2.flash ram'
  | recover {f : Flash} {ram : Option Upd} (d : Dev) (k : Option Nat) : CallHist c B f ram → Good d → d.flash = f →
      SeqRoom 2 (hdrsOf f c.n c.geom.slotSize) →
      CallHist c B ((tryRecover c.n c.geom.slotSize).run (arm d k)).2.flash
        (ramAfter k ((tryRecover c.n c.geom.slotSize).run (arm d k)).1)
  | cancel {f : Flash} {ram : Option Upd} (d : Dev) (k : Option Nat) : CallHist c B f ram → Good d → d.flash = f →
      SeqRoom 2 (hdrsOf f c.n c.geom.slotSize) →
      CallHist c B ((cancelAll c.n c.geom.slotSize).run (arm d k)).2.flash none
  | copyDone {f : Flash} {ram : Option Upd} {i : Nat} (d : Dev) (k : Option Nat) : CallHist c B f ram → Good d →
      d.flash = f → SeqRoom 2 (hdrsOf f c.n c.geom.slotSize) →
      blStatus (hdrsOf f c.n c.geom.slotSize) = some (.inl i) →
      CallHist c B ((Slot.markIntComplete { idx := i, size := c.geom.slotSize }).run (arm d k)).2.flash
        (if k = none then ram else none)
  | confirm {f : Flash} {ram : Option Upd} {i : Nat} (d : Dev) (k : Option Nat) : CallHist c B f ram → Good d →
      d.flash = f → SeqRoom 2 (hdrsOf f c.n c.geom.slotSize) →
      blStatus (hdrsOf f c.n c.geom.slotSize) = some (.inr i) →
      CallHist c B ((Slot.markBootOk { idx := i, size := c.geom.slotSize }).run (arm d k)).2.flash
        (if k = none then ram else none)
  | reject {f : Flash} {ram : Option Upd} {i : Nat} (d : Dev) (k : Option Nat) : CallHist c B f ram → Good d →
      d.flash = f → SeqRoom 2 (hdrsOf f c.n c.geom.slotSize) →
      blStatus (hdrsOf f c.n c.geom.slotSize) = some (.inr i) →
      CallHist c B ((Slot.markBootBad { idx := i, size := c.geom.slotSize }).run (arm d k)).2.flash
        (if k = none then ram else none)
  | reboot {f : Flash} {ram : Option Upd} : CallHist c B f ram → SeqRoom 2 (hdrsOf f c.n c.geom.slotSize) →
      CallHist c B f none

theorem map_ite_ram (k : Option Nat) (ram : Option Upd) :
    (if k = none then ram else none).map pairOf = if k = none then ram.map pairOf else none := by
  cases k <;> rfl

/-- **the real calls simulate into the machine**: along every call-level history — real M-level calls, each possibly
    cut by a power loss at an operation boundary — the headers read from the flash are those of a reachable state of
    the header-level machine whose RAM session is the pair of slots of the session object in RAM, and that object is
    one `handle_segment` and `check_and_mark_done` accept (`RamOK`) -/
theorem flash_call_simulates (c : Cfg) (B : Nat) (ok : CfgOK c B) {f : Flash} {ram : Option Upd}
    (h : CallHist c B f ram) :
    (∃ s, Sim c B f (ram.map pairOf) s) ∧ ∀ u, ram = some u → RamOK c.geom.slotSize u := by
  have hS := ok.slot28
  induction h with
  | init f hwf hB hdev hblank =>
    refine ⟨⟨State.init c.n, C05.Reachable.init, ?_, rfl, hwf, hB, hdev⟩, fun u hu => by cases hu⟩
    apply List.ext_getElem?
    intro j
    by_cases hj : j < c.n
    · rw [hdrsOf_get f c.n _ j hj, hblank j hj]
      simp [State.init, hj]
    · rw [List.getElem?_eq_none (by simp [State.init]; omega),
        List.getElem?_eq_none (by rw [hdrsOf_length]; omega)]
  | start d k _ hg hdf hroom hpost ih =>
    obtain ⟨⟨s, hs⟩, _⟩ := ih
    exact call_start ok hs hroom d k hg hdf hpost
  | segment d ffr idx bytes _ hdf ih =>
    obtain ⟨⟨s, hs⟩, hr⟩ := ih
    obtain ⟨h1, h2⟩ := call_segment hs (hr _ rfl) d hdf ffr idx bytes
    exact ⟨⟨s, h1⟩, fun u' hu' => by cases hu'; exact h2⟩
  | check d k ram' _ hg hdf hroom hbl hram ih =>
    obtain ⟨⟨s, hs⟩, hr⟩ := ih
    rcases hram with rfl | ⟨rfl, hfl⟩
    · exact ⟨call_check ok hs (hr _ rfl) hroom hbl d k hg hdf, fun u hu => by cases hu⟩
    · rw [hfl]
      exact ⟨⟨s, hs⟩, hr⟩
  | recover d k _ hg hdf hroom ih =>
    obtain ⟨⟨s, hs⟩, _⟩ := ih
    exact call_recover ok hs hroom d k hg hdf
  | cancel d k _ hg hdf hroom ih =>
    obtain ⟨⟨s, hs⟩, _⟩ := ih
    exact ⟨call_cancel ok hs hroom d k hg hdf, fun u hu => by cases hu⟩
  | @copyDone f ram i d k _ hg hdf hroom hbl ih =>
    obtain ⟨⟨s, hs⟩, hr⟩ := ih
    obtain ⟨e, he, href⟩ := copyDone_refines hs.wf hS hs.dev hbl
    obtain ⟨hd, hu⟩ := blStatus_used (Or.inl hbl)
    have hin := slot_in_dev hs.dev (used_hdrsOf.mp hu).1
    refine ⟨?_, fun u hu => hr u (by cases k <;> first | exact hu | cases hu)⟩
    rw [map_ite_ram]
    refine call_mark hs hroom d k hg hdf _ _ (fun e' he' hz => ?_) href (fun s' hs' => copyDone_has s' (by rw [hs']; exact he))
    exact writeWord_cr (T := f.size) (B := e'.flash.block) { idx := i, size := c.geom.slotSize } Consts.INT_OFFSET _
      (by show i * c.geom.slotSize + 20 + 4 ≤ _; omega) e' he' hz rfl
  | @confirm f ram i d k _ hg hdf hroom hbl ih =>
    obtain ⟨⟨s, hs⟩, hr⟩ := ih
    obtain ⟨⟨e, he, href⟩, _⟩ := bootMark_refines hs.wf hS hs.dev hbl
    obtain ⟨hd, hu⟩ := blStatus_used (Or.inr hbl)
    have hin := slot_in_dev hs.dev (used_hdrsOf.mp hu).1
    refine ⟨?_, fun u hu => hr u (by cases k <;> first | exact hu | cases hu)⟩
    rw [map_ite_ram]
    refine call_mark hs hroom d k hg hdf _ _ (fun e' he' hz => ?_) href (fun s' hs' => confirm_has s' (by rw [hs']; exact he))
    exact writeWord_cr (T := f.size) (B := e'.flash.block) { idx := i, size := c.geom.slotSize } Consts.BOOT_OFFSET _
      (by show i * c.geom.slotSize + 24 + 4 ≤ _; omega) e' he' hz rfl
  | @reject f ram i d k _ hg hdf hroom hbl ih =>
    obtain ⟨⟨s, hs⟩, hr⟩ := ih
    obtain ⟨_, ⟨e, he, href⟩⟩ := bootMark_refines hs.wf hS hs.dev hbl
    obtain ⟨hd, hu⟩ := blStatus_used (Or.inr hbl)
    have hin := slot_in_dev hs.dev (used_hdrsOf.mp hu).1
    refine ⟨?_, fun u hu => hr u (by cases k <;> first | exact hu | cases hu)⟩
    rw [map_ite_ram]
    refine call_mark hs hroom d k hg hdf _ _ (fun e' he' hz => ?_) href (fun s' hs' => reject_has s' (by rw [hs']; exact he))
    exact writeWord_cr (T := f.size) (B := e'.flash.block) { idx := i, size := c.geom.slotSize } Consts.BOOT_OFFSET _
      (by show i * c.geom.slotSize + 24 + 4 ≤ _; omega) e' he' hz rfl
  | reboot _ hroom ih =>
    obtain ⟨⟨s, hs⟩, _⟩ := ih
    exact ⟨sim_drop hs hroom, fun u hu => by cases hu⟩

/-- **`flash_call_reachable_ringInv`**: along any sequence of real calls with power losses at operation boundaries,
    the headers `load_headers` reads are those of a reachable state of the header-level machine, whose RAM session is
    the pair of slots of the session object in RAM — so the ring invariant holds of them, and C05 / C12 / C13's
    theorems about reachable states apply to the real calls of the flash-level model. -/
theorem flash_call_reachable_ringInv (c : Cfg) (B : Nat) (ok : CfgOK c B) {f : Flash} {ram : Option Upd}
    (h : CallHist c B f ram) :
    (∃ s, C05.Reachable c s ∧ s.hs = hdrsOf f c.n c.geom.slotSize ∧ s.sess = ram.map pairOf) ∧
    RingInv c.n (hdrsOf f c.n c.geom.slotSize) := by
  obtain ⟨⟨s, hs⟩, _⟩ := flash_call_simulates c B ok h
  exact ⟨⟨s, hs.reach, hs.hs, hs.sess⟩, hs.hs ▸ C05.reachable_ringInv c ok.n4 hs.reach⟩

/-- C05 over the real calls: in every call-level history, the pair `alloc_slotpair` chooses from the headers on flash
    never contains the slot the fallback query names -/
theorem flash_call_alloc_spares_fallback (c : Cfg) (B : Nat) (ok : CfgOK c B) {f : Flash} {ram : Option Upd}
    (h : CallHist c B f ram) (fb : Nat) (hf : fallbackSlot (hdrsOf f c.n c.geom.slotSize) = some fb) :
    ∃ a b sa sb, choosePair c.n (hdrsOf f c.n c.geom.slotSize) = .ok (a, b, sa, sb) ∧ a ≠ fb ∧ b ≠ fb := by
  obtain ⟨_, hinv⟩ := flash_call_reachable_ringInv c B ok h
  obtain ⟨a, b, sa, sb, hc, h1, h2, _⟩ := C05.alloc_spares_fallback c.n ok.n4 _ hinv.1 hinv.2.1 fb hf
  exact ⟨a, b, sa, sb, hc, h1, h2⟩

/-- C13 over the real calls: the session `try_recover` would return from the headers on flash was written by one start
    attempt, is live, and — when the latest start succeeded and was neither completed nor cancelled — is that one
    (stated through the ghost fields of the simulating machine state) -/
theorem flash_call_recover_no_chimera (c : Cfg) (B : Nat) (ok : CfgOK c B) {f : Flash} {ram : Option Upd}
    (h : CallHist c B f ram) {r : Nat × Nat}
    (hr : (recover c.geom (hdrsOf f c.n c.geom.slotSize)).1 = some r) :
    ∃ s, C05.Reachable c s ∧ s.hs = hdrsOf f c.n c.geom.slotSize ∧ r ∈ s.live ∧
      (∃ k, s.att.getD r.1 none = some k ∧ s.att.getD r.2 none = some k) ∧ ∀ m, s.must = some m → m = r := by
  obtain ⟨⟨s, hs⟩, _⟩ := flash_call_simulates c B ok h
  have hr' : (recover c.geom s.hs).1 = some r := by rw [hs.hs]; exact hr
  obtain ⟨h1, h2⟩ := C13.recover_only_live_session c ok.n4 ok.twoPass hs.reach hr'
  exact ⟨s, hs.reach, hs.hs, h1, C13.no_chimera c ok.n4 ok.twoPass hs.reach (f := r.1) (p := r.2) hr', h2⟩

/-- the session object a real `try_recover` returns at the end of a call-level history is for the pair the machine's
    `recover` names — so it is live and no chimera -/
theorem flash_call_recovered_session (c : Cfg) (B : Nat) (ok : CfgOK c B) {f : Flash} {ram : Option Upd}
    (h : CallHist c B f ram) (d : Dev) (hg : Good d) (hdf : d.flash = f)
    (hroom : SeqRoom 2 (hdrsOf f c.n c.geom.slotSize)) {u : Upd}
    (hu : ((tryRecover c.n c.geom.slotSize).run d).1 = .ok (some u)) :
    (recover c.geom (hdrsOf f c.n c.geom.slotSize)).1 = some (pairOf u) := by
  subst hdf
  obtain ⟨⟨s, hs⟩, _⟩ := flash_call_simulates c B ok h
  obtain ⟨extra, _, _, hres⟩ := tryRecover_device2 c.n c.geom.slotSize c.geom rfl d (live_of_good hg)
    (by rw [hs.block]; have := ok.b28; omega) (by rw [hs.block]; exact ok.div) ok.slot28 hs.dev
  obtain ⟨_, nw, sn, hdec, hfw, hpar, _, _⟩ := hres u hu
  unfold recover recoverEffs pairOf
  rw [hdec, hfw, hpar]

/-! ### non-vacuity of the call-level histories -/

theorem exCfg_ok : CfgOK exCfg 4096 :=
  ⟨by decide, rfl, rfl, by show reasonablySized 20480 4 18 = .ok (); rfl, by simp [exCfg, geomOf],
    by show 1 ≤ capacity 20480 4; rw [show capacity 20480 4 = 188 by decide]; decide, by decide, by decide⟩

/-- the blank device is a call-level history -/
theorem blank_call : CallHist exCfg 4096 blankDev.flash none := by
  apply CallHist.init
  · exact Crash.WF.blank _ _
  · rfl
  · exact blankDev_size
  · intro i _
    exact hdrAt_of_hdrFF (fun j _ => blank_byte _)

theorem blank_room : SeqRoom 2 (hdrsOf blankDev.flash exCfg.n exCfg.geom.slotSize) := by
  show SeqRoom 2 (hdrsOf (Flash.blank 4096 (4 * 20480)) 4 20480)
  rw [blank_hdrs]; decide

/-- from the blank ring: the real `try_recover` and `cancel_all_ext_pending`, run to the end or with a power loss
    armed before any operation, are history steps -/
example (k : Option Nat) :
    CallHist exCfg 4096 ((tryRecover 4 20480).run (arm blankDev k)).2.flash
      (ramAfter k ((tryRecover 4 20480).run (arm blankDev k)).1) ∧
    CallHist exCfg 4096 ((cancelAll 4 20480).run (arm blankDev k)).2.flash none :=
  ⟨CallHist.recover (c := exCfg) blankDev k blank_call blankDev_good rfl blank_room,
   CallHist.cancel (c := exCfg) blankDev k blank_call blankDev_good rfl blank_room⟩

/-- from the blank ring: the real `start_update` run to its end (on any good device holding the blank flash) returns
    the session object for the pair `(0, 1)` -/
theorem blank_started (d : Dev) (hg : Good d) (hd : d.flash = blankDev.flash) :
    CallHist exCfg 4096 ((startUpdate 4 20480 4 18).run d).2.flash (some (C08.startUpd 20480 4 18 0 1)) := by
  have h : CallHist exCfg 4096 ((startUpdate 4 20480 4 18).run d).2.flash
      (ramAfter none (((startUpdate 4 20480 4 18).run d).1.map some)) :=
    CallHist.start (c := exCfg) d none blank_call hg hd blank_room (fun h => absurd rfl h)
  obtain ⟨es, a, b, sa, sb, hc, _, hres, _⟩ := start_runs 4 20480 4 18 d hg (by rw [hd]; exact Crash.WF.blank _ _)
    (by rw [hd]; decide) (by rw [hd]; decide) (by decide) (by rw [hd]; exact blankDev_size) rfl
    (by rw [show capacity 20480 4 = 188 by decide]; decide)
  rw [hd] at hc
  have hc' : choosePair 4 (hdrsOf (Flash.blank 4096 (4 * 20480)) 4 20480) = .ok (a, b, sa, sb) := hc
  rw [blank_hdrs] at hc'
  have hab : (0, 1, 0, 1) = (a, b, sa, sb) := by
    have : choosePair 4 [none, none, none, none] = .ok (0, 1, 0, 1) := rfl
    rw [this] at hc'
    injection hc'
  simp only [Prod.mk.injEq] at hab
  obtain ⟨rfl, rfl, rfl, rfl⟩ := hab
  rw [hres] at h
  exact h

/-- … and then any `handle_segment`, on any device holding that flash, is a history step -/
example (d : Dev) (hg : Good d) (hd : d.flash = blankDev.flash) (d' : Dev)
    (hd' : d'.flash = ((startUpdate 4 20480 4 18).run d).2.flash) (ffr : Bool) (idx : Nat) (bytes : List Nat) :
    CallHist exCfg 4096 ((handleSegment ffr idx bytes).run (C08.startUpd 20480 4 18 0 1, d')).2.2.flash
      (some ((handleSegment ffr idx bytes).run (C08.startUpd 20480 4 18 0 1, d')).2.1) :=
  CallHist.segment d' ffr idx bytes (blank_started d hg hd) hd'

example (d : Dev) (hg : Good d) (hd : d.flash = blankDev.flash) :=
  flash_call_reachable_ringInv exCfg 4096 exCfg_ok (blank_started d hg hd)

/-- such a device exists -/
example : Good blankDev ∧ blankDev.flash = blankDev.flash := ⟨blankDev_good, rfl⟩

end Fuota.RingRefine
