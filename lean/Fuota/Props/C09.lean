import Fuota.Model.Recon
import Fuota.Spec.Gf2
import Fuota.Props.C02
/-!
# C09 — the reconstructor honours the write-once storage contracts

Same space of runs as C02 (every `n`, capacity, contract-respecting matrix, delivery sequence). `St.log` is the
list of storage calls, **newest first**. Buffer lengths are not expressible at this level (blocks are numbers);
they are covered by the correspondence check (the harness' stores monitor every buffer length).
-/
namespace Fuota.C09
open Fuota.Recon Fuota.Gf2 Fuota.C02

def isDStore (m : Nat) : Call → Bool | .dStore m' _ => m' == m | _ => false
def isPStore (m : Nat) : Call → Bool | .pStore m' _ => m' == m | _ => false
def isMSet (m : Nat) : Call → Bool | .mSet m' _ => m' == m | _ => false

/- TO PROVE (statements fixed):

theorem contract_log (V : Variant) (n bs vbits numRows : Nat) (x P : Nat → Nat) (hP : Contract n P)
    (is : List Nat) :
    let r := run V n bs vbits numRows x P is
    let log := r.1.log
    -- each data / parity / matrix index is stored at most once
    (∀ m, (log.filter (isDStore m)).length ≤ 1) ∧
    (∀ m, (log.filter (isPStore m)).length ≤ 1) ∧
    (∀ m, (log.filter (isMSet m)).length ≤ 1) ∧
    -- a stored row has its own bit set, no higher bit, and an index below the advertised capacity
    (∀ m row, Call.mSet m row ∈ log → row.testBit m = true ∧ row < 2 ^ (m + 1) ∧ m < vbits ∧ m < numRows) ∧
    (∀ m d, Call.pStore m d ∈ log → m < vbits ∧ m < numRows) ∧
    -- the parity block is written immediately before its matrix row
    (∀ pre post m row, log = pre ++ Call.mSet m row :: post → ∃ d post', post = Call.pStore m d :: post') ∧
    -- reads only of what was stored earlier
    (∀ pre post m, log = pre ++ Call.dGet m :: post → ∃ d, Call.dStore m d ∈ post) ∧
    (∀ pre post m, log = pre ++ Call.pGet m :: post → ∃ d, Call.pStore m d ∈ post) ∧
    (∀ pre post m, log = pre ++ Call.mRow m :: post → ∃ row, Call.mSet m row ∈ post) ∧
    -- data indices are in range, and by the time Done is reported all n have been stored exactly once
    (∀ m d, Call.dStore m d ∈ log → m < n) ∧
    (∀ b, r.2.getLast? = some (Res.done b) → ∀ m, m < n → (log.filter (isDStore m)).length = 1)
-/

end Fuota.C09
