import Fuota.Model.Recon
import Fuota.Spec.Gf2
import Fuota.Props.C02
import Fuota.Lemmas.ReconStep
/-!
# C09 — the reconstructor honours the write-once storage contracts

Same space of runs as C02 (every `n`, capacity, contract-respecting matrix, delivery sequence). `St.log` is the
list of storage calls, **newest first**. Buffer lengths are not expressible at this level (blocks are numbers);
they are covered by the correspondence check (the harness' stores monitor every buffer length).
-/
namespace Fuota.C09
open Fuota.Recon Fuota.Gf2 Fuota.C02

/-- data-store call of index `m` -/
def isDStore (m : Nat) : Call → Bool | .dStore m' _ => m' == m | _ => false
/-- parity-store call of index `m` -/
def isPStore (m : Nat) : Call → Bool | .pStore m' _ => m' == m | _ => false
/-- matrix-row store call of index `m` -/
def isMSet (m : Nat) : Call → Bool | .mSet m' _ => m' == m | _ => false

/-- same predicate as the one used in the lemmas -/
theorem isDStore_eq (m : Nat) : isDStore m = isDStoreB m := by
  funext c; cases c <;> rfl
/-- same predicate as the one used in the lemmas -/
theorem isPStore_eq (m : Nat) : isPStore m = isPStoreB m := by
  funext c; cases c <;> rfl
/-- same predicate as the one used in the lemmas -/
theorem isMSet_eq (m : Nat) : isMSet m = isMSetB m := by
  funext c; cases c <;> rfl

/-- **C09.** In every fault-free run (same space of runs as C02) the storage-call log shows: each data, parity and
matrix index is stored at most once; a stored matrix row has its own bit set, no higher bit, and (like every stored
parity block) an index below both advertised capacities; a matrix row is written immediately after the parity block
of the same index; every read is of an index stored earlier; data indices are below `n`; and once `Done` is
reported every one of the `n` data indices has been stored exactly once. -/
theorem contract_log (V : Variant) (n bs vbits numRows : Nat) (x P : Nat → Nat) (hP : Contract n P)
    (is : List Nat) :
    let r := run V n bs vbits numRows x P is
    let log := r.1.log
    -- each data / parity / matrix index is stored at most once
    (∀ m, (log.filter (isDStore m)).length ≤ 1) ∧
    (∀ m, (log.filter (isPStore m)).length ≤ 1) ∧
    (∀ m, (log.filter (isMSet m)).length ≤ 1) ∧
    -- a stored row has its own bit set, no higher bit, and an index below the advertised capacity
    (∀ m row, Call.mSet m row ∈ log → row.testBit m = true ∧ row < 2 ^ (m + 1) ∧ m < vbits ∧ m < numRows) ∧
    (∀ m d, Call.pStore m d ∈ log → m < vbits ∧ m < numRows) ∧
    -- the parity block is written immediately before its matrix row
    (∀ pre post m row, log = pre ++ Call.mSet m row :: post → ∃ d post', post = Call.pStore m d :: post') ∧
    -- reads only of what was stored earlier
    (∀ pre post m, log = pre ++ Call.dGet m :: post → ∃ d, Call.dStore m d ∈ post) ∧
    (∀ pre post m, log = pre ++ Call.pGet m :: post → ∃ d, Call.pStore m d ∈ post) ∧
    (∀ pre post m, log = pre ++ Call.mRow m :: post → ∃ row, Call.mSet m row ∈ post) ∧
    -- data indices are in range, and by the time Done is reported all n have been stored exactly once
    (∀ m d, Call.dStore m d ∈ log → m < n) ∧
    (∀ b, r.2.getLast? = some (Res.done b) → ∀ m, m < n → (log.filter (isDStore m)).length = 1) := by
  intro r log
  obtain ⟨hI, _, hlast⟩ := run_inv V n bs vbits numRows x P hP is
  have hC := hI.core
  have hcap := hC.hcap
  refine ⟨?_, ?_, ?_, ?_, ?_, ?_, ?_, ?_, ?_, ?_, ?_⟩
  · intro m
    rw [isDStore_eq, ← List.countP_eq_length_filter, hI.cntD m]
    split <;> omega
  · intro m
    rw [isPStore_eq, ← List.countP_eq_length_filter, hC.hcntP m]
    split <;> omega
  · intro m
    rw [isMSet_eq, ← List.countP_eq_length_filter, hC.hcntM m]
    split <;> omega
  · intro m row hm
    obtain ⟨h1, h2, h3⟩ := hC.hlogM m row hm
    exact ⟨h1, h2, by omega, by omega⟩
  · intro m d hm
    have := hC.hlogP m d hm
    exact ⟨by omega, by omega⟩
  · intro pre post m row e
    exact LogOK_split pre _ post _ hC.hlogOK e
  · intro pre post m e
    exact LogOK_split pre _ post _ hC.hlogOK e
  · intro pre post m e
    exact LogOK_split pre _ post _ hC.hlogOK e
  · intro pre post m e
    exact LogOK_split pre _ post _ hC.hlogOK e
  · intro m d hm
    exact (hC.hlogD m d hm).1
  · intro b hb m hm
    have hc := hlast b hb
    rw [isDStore_eq, ← List.countP_eq_length_filter, hI.cntD m, hc]
    by_cases hl : (run V n bs vbits numRows x P is).1.l = 0
    · have := (isComplete_stage1 _ hl).1 hc m (by rw [hC.hn]; exact hm)
      simp [this]
    · simp [hl, hm]

/-- non-vacuity: in the crate's unit-test run (see C02) the log really contains parity and matrix stores, reads of
all three stores, and four data stores -/
example :
    let P : Nat → Nat := fun m => if m < 4 then 2 ^ m else (m - 4) % 16
    let x : Nat → Nat := fun m => 17 * (m + 1)
    let log := (run ⟨true⟩ 4 1 8 8 x P [0, 2, 9, 10, 14]).1.log
    (∀ m, m < 4 → (log.filter (isDStore m)).length = 1) ∧ (log.filter (isMSet 0)).length = 1 ∧
      (log.filter (isPStore 1)).length = 1 ∧ Call.dGet 0 ∈ log ∧ Call.pGet 0 ∈ log ∧ Call.mRow 0 ∈ log := by
  decide +kernel

end Fuota.C09
