import Fuota.Model.Layout
/-!
# C11 — header codec canonical; status codes one-way and tear-safe

All statements are about `Codec.pinned` (the values deployed bootloaders read); `new_codec_pinned` and
`orig_codec_pinned` tie both crates' *generated* constants to it, so a changed constant breaks the build.
-/
namespace Fuota.C11
open Fuota.Layout

/-! ## pinned constants -/
theorem new_codec_pinned : Codec.new = Codec.pinned := by decide
theorem orig_codec_pinned : Codec.orig = Codec.pinned := by decide

theorem pinned_layout :
    Consts.KIND_OFFSET = 0 ∧ Consts.SEQ_OFFSET = 4 ∧ Consts.SEGSIZE_OFFSET = 8 ∧ Consts.NSEG_OFFSET = 12 ∧
    Consts.EXT_OFFSET = 16 ∧ Consts.INT_OFFSET = 20 ∧ Consts.BOOT_OFFSET = 24 ∧ Consts.SLOT_HEADER_SIZE = 28 ∧
    Consts.HEADER_SIZE = 0x400 ∧ Consts.WRITTEN_OFFSET = 0x400 ∧ Consts.DATA_REGION_OFFSET = 0x4400 ∧
    Consts.DATA_PAYLOAD_OFFSET = 0x4444 ∧ Consts.DATA_WRITTEN = 0x33 ∧ Consts.DATA_NOT_WRITTEN = 0xFF ∧
    Consts.MAX_SEGMENTS = 16384 ∧ Consts.MAX_SEGMENT_SIZE = 256 := by decide

theorem pinned_layout_orig :
    Consts.O_KIND_OFFSET = 0 ∧ Consts.O_SEQ_OFFSET = 4 ∧ Consts.O_SEGSIZE_OFFSET = 8 ∧ Consts.O_NSEG_OFFSET = 12 ∧
    Consts.O_EXT_OFFSET = 16 ∧ Consts.O_INT_OFFSET = 20 ∧ Consts.O_BOOT_OFFSET = 24 ∧
    Consts.O_SLOT_HEADER_SIZE = 28 ∧ Consts.O_HEADER_SIZE = 0x400 ∧ Consts.O_WRITTEN_OFFSET = 0x400 ∧
    Consts.O_DATA_REGION_OFFSET = 0x4400 ∧ Consts.O_DATA_PAYLOAD_OFFSET = 0x4444 ∧ Consts.O_DATA_WRITTEN = 0x33 ∧
    Consts.O_MAX_SEGMENTS = 16384 ∧ Consts.O_MAX_SEGMENT_SIZE = 256 := by decide

/-! ## little-endian words -/
theorem takeU32_writeU32 (v : Nat) (hv : v < 2 ^ 32) (rest : List Nat) :
    takeU32 (writeU32 v ++ rest) = some (v, rest) := by
  simp only [writeU32, takeU32, List.cons_append, List.nil_append, le32]
  congr 2; omega

theorem writeU32_of_takeU32 (bs rest : List Nat) (w : Nat) (hb : ∀ b ∈ bs, b < 256)
    (h : takeU32 bs = some (w, rest)) : writeU32 w ++ rest = bs := by
  match bs, h with
  | b0 :: b1 :: b2 :: b3 :: r, h =>
    simp only [takeU32, Option.some.injEq, Prod.mk.injEq] at h
    obtain ⟨hw, hr⟩ := h
    have h0 := hb b0 (by simp); have h1 := hb b1 (by simp)
    have h2 := hb b2 (by simp); have h3 := hb b3 (by simp)
    subst hr; subst hw
    simp only [writeU32, le32, List.cons_append, List.nil_append]
    congr 1; · omega
    congr 1; · omega
    congr 1; · omega
    congr 1; omega

theorem takeU32_lt (bs rest : List Nat) (w : Nat) (hb : ∀ b ∈ bs, b < 256)
    (h : takeU32 bs = some (w, rest)) : w < 2 ^ 32 ∧ ∀ b ∈ rest, b < 256 := by
  match bs, h with
  | b0 :: b1 :: b2 :: b3 :: r, h =>
    simp only [takeU32, Option.some.injEq, Prod.mk.injEq] at h
    obtain ⟨hw, hr⟩ := h
    have h0 := hb b0 (by simp); have h1 := hb b1 (by simp)
    have h2 := hb b2 (by simp); have h3 := hb b3 (by simp)
    subst hr; subst hw
    refine ⟨by simp only [le32]; omega, fun b hbr => hb b (by simp [hbr])⟩

/-! ## field codecs: parse succeeds exactly on the legal words, and is inverted by encode -/
theorem parseKind_some (c : Codec) (w : Nat) (k : Kind) (h : parseKind c w = some k) : encKind c k = w := by
  unfold parseKind at h
  split at h
  · cases h; simp_all [encKind]
  split at h
  · cases h; simp_all [encKind]
  · cases h
theorem parseExt_some (c : Codec) (w : Nat) (k : Ext) (h : parseExt c w = some k) : encExt c k = w := by
  unfold parseExt at h
  split at h
  · cases h; simp_all [encExt]
  split at h
  · cases h; simp_all [encExt]
  split at h
  · cases h; simp_all [encExt]
  · cases h
theorem parseInt_some (c : Codec) (w : Nat) (k : IntSt) (h : parseInt c w = some k) : encInt c k = w := by
  unfold parseInt at h
  split at h
  · cases h; simp_all [encInt]
  split at h
  · cases h; simp_all [encInt]
  · cases h
theorem parseBoot_some (c : Codec) (w : Nat) (k : Boot) (h : parseBoot c w = some k) : encBoot c k = w := by
  unfold parseBoot at h
  split at h
  · cases h; simp_all [encBoot]
  split at h
  · cases h; simp_all [encBoot]
  split at h
  · cases h; simp_all [encBoot]
  · cases h
theorem parseSeq_some (c : Codec) (w s : Nat) (h : parseSeq c w = some s) : s = w ∧ w ≠ c.seqInvalid := by
  unfold parseSeq at h
  by_cases h1 : w = c.seqInvalid <;> simp [h1] at h
  exact ⟨h.symm, h1⟩
theorem parseSize_some (c : Codec) (w s : Nat) (h : parseSize c w = some s) :
    s = w ∧ 0 < w ∧ w ≤ c.maxSegmentSize := by
  unfold parseSize at h
  by_cases h1 : 0 < w ∧ w ≤ c.maxSegmentSize <;> simp [h1] at h
  exact ⟨h.symm, h1⟩
theorem parseNseg_some (c : Codec) (w s : Nat) (h : parseNseg c w = some s) :
    s = w ∧ 0 < w ∧ w ≤ c.maxSegments := by
  unfold parseNseg at h
  by_cases h1 : 0 < w ∧ w ≤ c.maxSegments <;> simp [h1] at h
  exact ⟨h.symm, h1⟩

theorem parseKind_isSome (c : Codec) (w : Nat) :
    (parseKind c w).isSome ↔ (w = c.kindFirmware ∨ w = c.kindParity) := by
  unfold parseKind; repeat' split
  all_goals simp_all
theorem parseSeq_isSome (c : Codec) (w : Nat) : (parseSeq c w).isSome ↔ w ≠ c.seqInvalid := by
  unfold parseSeq; split <;> simp_all
theorem parseSize_isSome (c : Codec) (w : Nat) : (parseSize c w).isSome ↔ (0 < w ∧ w ≤ c.maxSegmentSize) := by
  unfold parseSize; split <;> simp_all
theorem parseNseg_isSome (c : Codec) (w : Nat) : (parseNseg c w).isSome ↔ (0 < w ∧ w ≤ c.maxSegments) := by
  unfold parseNseg; split <;> simp_all
theorem parseExt_isSome (c : Codec) (w : Nat) :
    (parseExt c w).isSome ↔ (w = c.extInProgress ∨ w = c.extAborted ∨ w = c.extComplete) := by
  unfold parseExt; repeat' split
  all_goals simp_all
theorem parseInt_isSome (c : Codec) (w : Nat) :
    (parseInt c w).isSome ↔ (w = c.intInProgress ∨ w = c.intComplete) := by
  unfold parseInt; repeat' split
  all_goals simp_all
theorem parseBoot_isSome (c : Codec) (w : Nat) :
    (parseBoot c w).isSome ↔ (w = c.bootUntested ∨ w = c.bootSuccessful ∨ w = c.bootUnsuccessful) := by
  unfold parseBoot; repeat' split
  all_goals simp_all

/-! ## whole header -/

/-- shape of a successful parse: the seven words exist and each field parser accepted its word -/
theorem parseHeader_eq_some (c : Codec) (bs : List Nat) (h : Header) (rest : List Nat) :
    parseHeader c bs = some (h, rest) ↔
      ∃ w0 w1 w2 w3 w4 w5 w6, words7 bs = some ((w0, w1, w2, w3, w4, w5, w6), rest) ∧
        parseKind c w0 = some h.kind ∧ parseSeq c w1 = some h.seq ∧ parseSize c w2 = some h.size ∧
        parseNseg c w3 = some h.n ∧ parseExt c w4 = some h.ext ∧ parseInt c w5 = some h.ist ∧
        parseBoot c w6 = some h.boot := by
  unfold parseHeader words7
  simp only [Option.pure_def, Option.bind_eq_bind, Option.bind_eq_some_iff, Option.some.injEq,
    Prod.mk.injEq, Prod.exists]
  constructor
  · rintro ⟨w0, r0, h0, k, hk, w1, r1, h1, s, hs, w2, r2, h2, z, hz, w3, r3, h3, n, hn, w4, r4, h4, e, he,
      w5, r5, h5, i, hi, w6, r6, h6, b, hb, rfl, rfl⟩
    exact ⟨w0, w1, w2, w3, w4, w5, w6, ⟨w0, r0, h0, w1, r1, h1, w2, r2, h2, w3, r3, h3, w4, r4, h4,
      w5, r5, h5, w6, r6, h6, ⟨rfl, rfl, rfl, rfl, rfl, rfl, rfl⟩, rfl⟩, hk, hs, hz, hn, he, hi, hb⟩
  · rintro ⟨w0, w1, w2, w3, w4, w5, w6, ⟨_, r0, h0, _, r1, h1, _, r2, h2, _, r3, h3, _, r4, h4,
      _, r5, h5, _, r6, h6, ⟨rfl, rfl, rfl, rfl, rfl, rfl, rfl⟩, rfl⟩, hk, hs, hz, hn, he, hi, hb⟩
    exact ⟨_, r0, h0, _, hk, _, r1, h1, _, hs, _, r2, h2, _, hz, _, r3, h3, _, hn, _, r4, h4, _, he,
      _, r5, h5, _, hi, _, r6, h6, _, hb, rfl, rfl⟩

/-- **C11 parse-iff-legal**: a byte string (any length, any content) parses exactly when it holds seven
    little-endian words and every one of them is a legal value of its field. Any codec. -/
theorem parse_iff_legal (c : Codec) (bs : List Nat) :
    (∃ h rest, parseHeader c bs = some (h, rest)) ↔
      ∃ w0 w1 w2 w3 w4 w5 w6 rest, words7 bs = some ((w0, w1, w2, w3, w4, w5, w6), rest) ∧
        LegalWords c w0 w1 w2 w3 w4 w5 w6 := by
  constructor
  · rintro ⟨h, rest, hp⟩
    obtain ⟨w0, w1, w2, w3, w4, w5, w6, hw, hk, hs, hz, hn, he, hi, hb⟩ := (parseHeader_eq_some c bs h rest).1 hp
    refine ⟨w0, w1, w2, w3, w4, w5, w6, rest, hw, ?_⟩
    exact ⟨(parseKind_isSome c w0).1 (by simp [hk]), (parseSeq_isSome c w1).1 (by simp [hs]),
      (parseSize_isSome c w2).1 (by simp [hz]), (parseNseg_isSome c w3).1 (by simp [hn]),
      (parseExt_isSome c w4).1 (by simp [he]), (parseInt_isSome c w5).1 (by simp [hi]),
      (parseBoot_isSome c w6).1 (by simp [hb])⟩
  · rintro ⟨w0, w1, w2, w3, w4, w5, w6, rest, hw, lk, ls, lz, ln, le, li, lb⟩
    obtain ⟨k, hk⟩ := Option.isSome_iff_exists.1 ((parseKind_isSome c w0).2 lk)
    obtain ⟨s, hs⟩ := Option.isSome_iff_exists.1 ((parseSeq_isSome c w1).2 ls)
    obtain ⟨z, hz⟩ := Option.isSome_iff_exists.1 ((parseSize_isSome c w2).2 lz)
    obtain ⟨n, hn⟩ := Option.isSome_iff_exists.1 ((parseNseg_isSome c w3).2 ln)
    obtain ⟨e, he⟩ := Option.isSome_iff_exists.1 ((parseExt_isSome c w4).2 le)
    obtain ⟨i, hi⟩ := Option.isSome_iff_exists.1 ((parseInt_isSome c w5).2 li)
    obtain ⟨b, hb⟩ := Option.isSome_iff_exists.1 ((parseBoot_isSome c w6).2 lb)
    exact ⟨⟨k, s, z, n, e, i, b⟩, rest,
      (parseHeader_eq_some c bs _ rest).2 ⟨w0, w1, w2, w3, w4, w5, w6, hw, hk, hs, hz, hn, he, hi, hb⟩⟩

theorem words7_bytes (bs rest : List Nat) (w0 w1 w2 w3 w4 w5 w6 : Nat) (hb : ∀ b ∈ bs, b < 256)
    (h : words7 bs = some ((w0, w1, w2, w3, w4, w5, w6), rest)) :
    writeU32 w0 ++ writeU32 w1 ++ writeU32 w2 ++ writeU32 w3 ++ writeU32 w4 ++ writeU32 w5 ++ writeU32 w6 ++ rest
      = bs := by
  unfold words7 at h
  simp only [Option.pure_def, Option.bind_eq_bind, Option.bind_eq_some_iff, Option.some.injEq,
    Prod.mk.injEq, Prod.exists] at h
  obtain ⟨_, r0, h0, _, r1, h1, _, r2, h2, _, r3, h3, _, r4, h4, _, r5, h5, _, r6, h6,
    ⟨rfl, rfl, rfl, rfl, rfl, rfl, rfl⟩, rfl⟩ := h
  have b0 := (takeU32_lt _ _ _ hb h0).2
  have b1 := (takeU32_lt _ _ _ b0 h1).2
  have b2 := (takeU32_lt _ _ _ b1 h2).2
  have b3 := (takeU32_lt _ _ _ b2 h3).2
  have b4 := (takeU32_lt _ _ _ b3 h4).2
  have b5 := (takeU32_lt _ _ _ b4 h5).2
  rw [← writeU32_of_takeU32 _ _ _ hb h0, ← writeU32_of_takeU32 _ _ _ b0 h1, ← writeU32_of_takeU32 _ _ _ b1 h2,
    ← writeU32_of_takeU32 _ _ _ b2 h3, ← writeU32_of_takeU32 _ _ _ b3 h4, ← writeU32_of_takeU32 _ _ _ b4 h5,
    ← writeU32_of_takeU32 _ _ _ b5 h6]
  simp [List.append_assoc]

/-- **C11 parse-then-encode**: re-encoding a parsed header reproduces the 28 bytes (and the remainder). Any codec. -/
theorem parse_encode (c : Codec) (bs rest : List Nat) (h : Header) (hb : ∀ b ∈ bs, b < 256)
    (hp : parseHeader c bs = some (h, rest)) : encodeHeader c h ++ rest = bs := by
  obtain ⟨w0, w1, w2, w3, w4, w5, w6, hw, hk, hs, hz, hn, he, hi, hbo⟩ := (parseHeader_eq_some c bs h rest).1 hp
  have := words7_bytes bs rest _ _ _ _ _ _ _ hb hw
  unfold encodeHeader
  rw [parseKind_some c _ _ hk, parseExt_some c _ _ he, parseInt_some c _ _ hi, parseBoot_some c _ _ hbo,
    (parseSeq_some c _ _ hs).1, (parseSize_some c _ _ hz).1, (parseNseg_some c _ _ hn).1]
  exact this

theorem words7_encode (w0 w1 w2 w3 w4 w5 w6 : Nat) (rest : List Nat)
    (h0 : w0 < 2 ^ 32) (h1 : w1 < 2 ^ 32) (h2 : w2 < 2 ^ 32) (h3 : w3 < 2 ^ 32) (h4 : w4 < 2 ^ 32)
    (h5 : w5 < 2 ^ 32) (h6 : w6 < 2 ^ 32) :
    words7 (writeU32 w0 ++ writeU32 w1 ++ writeU32 w2 ++ writeU32 w3 ++ writeU32 w4 ++ writeU32 w5 ++
      writeU32 w6 ++ rest) = some ((w0, w1, w2, w3, w4, w5, w6), rest) := by
  unfold words7
  simp only [List.append_assoc]
  rw [takeU32_writeU32 _ h0]; simp only [Option.bind_eq_bind, Option.bind_some]
  rw [takeU32_writeU32 _ h1]; simp only [Option.bind_some]
  rw [takeU32_writeU32 _ h2]; simp only [Option.bind_some]
  rw [takeU32_writeU32 _ h3]; simp only [Option.bind_some]
  rw [takeU32_writeU32 _ h4]; simp only [Option.bind_some]
  rw [takeU32_writeU32 _ h5]; simp only [Option.bind_some]
  rw [takeU32_writeU32 _ h6]; simp

/-- **C11 encode-then-parse** for the pinned code table: every representable header survives the round trip. -/
theorem encode_parse (h : Header) (rest : List Nat) (wf : h.WF Codec.pinned) :
    parseHeader Codec.pinned (encodeHeader Codec.pinned h ++ rest) = some (h, rest) := by
  obtain ⟨s32, sinv, z0, z1, n0, n1⟩ := wf
  rw [parseHeader_eq_some]
  refine ⟨encKind Codec.pinned h.kind, h.seq, h.size, h.n, encExt Codec.pinned h.ext,
    encInt Codec.pinned h.ist, encBoot Codec.pinned h.boot, ?_, ?_, ?_, ?_, ?_, ?_, ?_, ?_⟩
  · unfold encodeHeader
    apply words7_encode
    · cases h.kind <;> decide
    · exact s32
    · simp [Codec.pinned] at z1; omega
    · simp [Codec.pinned] at n1; omega
    · cases h.ext <;> decide
    · cases h.ist <;> decide
    · cases h.boot <;> decide
  · cases h.kind <;> decide
  · simp [parseSeq, sinv]
  · simp [parseSize, z0, z1]
  · simp [parseNseg, n0, n1]
  · cases h.ext <;> decide
  · cases h.ist <;> decide
  · cases h.boot <;> decide

/-- the encoding is always 28 bytes, each below 256 -/
theorem encode_length (c : Codec) (h : Header) : (encodeHeader c h).length = 28 := by
  simp [encodeHeader, writeU32]

/-! ## one-way, tear-safe status codes -/

/-- the status transitions the API performs -/
inductive Transition : Nat → Nat → Prop
  | extAbort : Transition Codec.pinned.extInProgress Codec.pinned.extAborted
  | extComplete : Transition Codec.pinned.extInProgress Codec.pinned.extComplete
  | intComplete : Transition Codec.pinned.intInProgress Codec.pinned.intComplete
  | bootOk : Transition Codec.pinned.bootUntested Codec.pinned.bootSuccessful
  | bootBad : Transition Codec.pinned.bootUntested Codec.pinned.bootUnsuccessful

/-- **one-way**: every transition only clears bits, so programming `new` over `old` on NOR flash
    (`old &&& new`) yields exactly `new`. -/
theorem transition_clears_only (old new : Nat) (t : Transition old new) : old &&& new = new := by
  cases t <;> decide

/-- NOR programming of a word, possibly torn: the bits of `m` outside `new` are the bits not yet cleared.
    (`m = 0`: complete program; `m = 0xFFFFFFFF`: nothing programmed; byte-prefix tears are special cases.) -/
def tornProgram (old new m : Nat) : Nat := old &&& (new ||| m)

theorem torn_between (old new m : Nat) :
    let w := tornProgram old new m
    (old &&& new) &&& w = old &&& new ∧ w &&& old = w := by
  constructor <;>
  · apply Nat.eq_of_testBit_eq; intro i
    simp only [tornProgram, Nat.testBit_and, Nat.testBit_or]
    cases old.testBit i <;> cases new.testBit i <;> cases m.testBit i <;> rfl

/-- legal codes of the three status fields -/
def extCodes : List Nat := [Codec.pinned.extInProgress, Codec.pinned.extAborted, Codec.pinned.extComplete]
def intCodes : List Nat := [Codec.pinned.intInProgress, Codec.pinned.intComplete]
def bootCodes : List Nat := [Codec.pinned.bootUntested, Codec.pinned.bootSuccessful, Codec.pinned.bootUnsuccessful]

/-- finite core of tear-safety: among the legal codes of one field, the only codes lying between
    `old &&& new` and `old` are `old` and `new` — for **every ordered pair** of legal codes. -/
theorem between_codes (cs : List Nat) (hcs : cs = extCodes ∨ cs = intCodes ∨ cs = bootCodes) :
    ∀ old ∈ cs, ∀ new ∈ cs, ∀ c ∈ cs, (old &&& new) &&& c = old &&& new → c &&& old = c → c = old ∨ c = new := by
  rcases hcs with rfl | rfl | rfl <;> decide

/-- **C11 tear-safety**: for every ordered pair of legal codes of a status field and *every* torn outcome of
    programming `new` over `old` (any subset of the bits to clear), the word read back is `old`, `new`, or is
    not a legal code of that field at all (so the header does not parse). -/
theorem torn_safe (cs : List Nat) (hcs : cs = extCodes ∨ cs = intCodes ∨ cs = bootCodes)
    (old new : Nat) (ho : old ∈ cs) (hn : new ∈ cs) (m : Nat) :
    let w := tornProgram old new m
    w ∈ cs → w = old ∨ w = new := by
  intro w hw
  have hb := torn_between old new m
  exact between_codes cs hcs old ho new hn w hw hb.1 hb.2

/-- the field parsers accept exactly the listed codes (ties `torn_safe` to "parses as") -/
theorem parseExt_mem (w : Nat) : (parseExt Codec.pinned w).isSome ↔ w ∈ extCodes := by
  rw [parseExt_isSome]; simp [extCodes]
theorem parseInt_mem (w : Nat) : (parseInt Codec.pinned w).isSome ↔ w ∈ intCodes := by
  rw [parseInt_isSome]; simp [intCodes]
theorem parseBoot_mem (w : Nat) : (parseBoot Codec.pinned w).isSome ↔ w ∈ bootCodes := by
  rw [parseBoot_isSome]; simp [bootCodes]

/-- **C11 tear-safety, parser form** (external status; the other two fields are identical in shape):
    a torn external-status word either fails to parse or parses to the old or the new status. -/
theorem torn_ext_parse (old new : Ext) (m : Nat) :
    let w := tornProgram (encExt Codec.pinned old) (encExt Codec.pinned new) m
    parseExt Codec.pinned w = none ∨ parseExt Codec.pinned w = some old ∨ parseExt Codec.pinned w = some new := by
  intro w
  cases hp : parseExt Codec.pinned w with
  | none => exact Or.inl rfl
  | some k =>
    right
    have hmem : w ∈ extCodes := (parseExt_mem w).1 (by simp [hp])
    have ho : encExt Codec.pinned old ∈ extCodes := by cases old <;> simp [extCodes, encExt]
    have hn : encExt Codec.pinned new ∈ extCodes := by cases new <;> simp [extCodes, encExt]
    have hk := parseExt_some _ _ _ hp
    rcases torn_safe extCodes (Or.inl rfl) _ _ ho hn m hmem with h | h
    · left; congr 1
      have : encExt Codec.pinned k = encExt Codec.pinned old := by rw [hk]; exact h
      revert this; cases k <;> cases old <;> decide
    · right; congr 1
      have : encExt Codec.pinned k = encExt Codec.pinned new := by rw [hk]; exact h
      revert this; cases k <;> cases new <;> decide

theorem torn_int_parse (old new : IntSt) (m : Nat) :
    let w := tornProgram (encInt Codec.pinned old) (encInt Codec.pinned new) m
    parseInt Codec.pinned w = none ∨ parseInt Codec.pinned w = some old ∨ parseInt Codec.pinned w = some new := by
  intro w
  cases hp : parseInt Codec.pinned w with
  | none => exact Or.inl rfl
  | some k =>
    right
    have hmem : w ∈ intCodes := (parseInt_mem w).1 (by simp [hp])
    have ho : encInt Codec.pinned old ∈ intCodes := by cases old <;> simp [intCodes, encInt]
    have hn : encInt Codec.pinned new ∈ intCodes := by cases new <;> simp [intCodes, encInt]
    have hk := parseInt_some _ _ _ hp
    rcases torn_safe intCodes (Or.inr (Or.inl rfl)) _ _ ho hn m hmem with h | h
    · left; congr 1
      have : encInt Codec.pinned k = encInt Codec.pinned old := by rw [hk]; exact h
      revert this; cases k <;> cases old <;> decide
    · right; congr 1
      have : encInt Codec.pinned k = encInt Codec.pinned new := by rw [hk]; exact h
      revert this; cases k <;> cases new <;> decide

theorem torn_boot_parse (old new : Boot) (m : Nat) :
    let w := tornProgram (encBoot Codec.pinned old) (encBoot Codec.pinned new) m
    parseBoot Codec.pinned w = none ∨ parseBoot Codec.pinned w = some old ∨ parseBoot Codec.pinned w = some new := by
  intro w
  cases hp : parseBoot Codec.pinned w with
  | none => exact Or.inl rfl
  | some k =>
    right
    have hmem : w ∈ bootCodes := (parseBoot_mem w).1 (by simp [hp])
    have ho : encBoot Codec.pinned old ∈ bootCodes := by cases old <;> simp [bootCodes, encBoot]
    have hn : encBoot Codec.pinned new ∈ bootCodes := by cases new <;> simp [bootCodes, encBoot]
    have hk := parseBoot_some _ _ _ hp
    rcases torn_safe bootCodes (Or.inr (Or.inr rfl)) _ _ ho hn m hmem with h | h
    · left; congr 1
      have : encBoot Codec.pinned k = encBoot Codec.pinned old := by rw [hk]; exact h
      revert this; cases k <;> cases old <;> decide
    · right; congr 1
      have : encBoot Codec.pinned k = encBoot Codec.pinned new := by rw [hk]; exact h
      revert this; cases k <;> cases new <;> decide

/-! ## total status classification -/

/-- **C11 classification**: `totalStatus` is a total function; the seven named lifecycle states are reached by
    exactly the documented (sequence-valid, external, internal, boot) combinations and every other combination
    is `invalidNeedsErase`. (Disjointness of pre-images is functionality of `totalStatus`.) -/
theorem total_status_table (h : Header) :
    (totalStatus h = .blankSlot ↔ (h.seq = 0xFFFFFFFF ∧ h.ext = .inProgress ∧ h.ist = .inProgress ∧ h.boot = .untested)) ∧
    (totalStatus h = .appWriteInProgress ↔ (h.seq ≠ 0xFFFFFFFF ∧ h.ext = .inProgress ∧ h.ist = .inProgress ∧ h.boot = .untested)) ∧
    (totalStatus h = .appWriteAborted ↔ (h.seq ≠ 0xFFFFFFFF ∧ h.ext = .aborted ∧ h.ist = .inProgress ∧ h.boot = .untested)) ∧
    (totalStatus h = .bootloadWriteInProgress ↔ (h.seq ≠ 0xFFFFFFFF ∧ h.ext = .complete ∧ h.ist = .inProgress ∧ h.boot = .untested)) ∧
    (totalStatus h = .firstBootPendingAck ↔ (h.seq ≠ 0xFFFFFFFF ∧ h.ext = .complete ∧ h.ist = .complete ∧ h.boot = .untested)) ∧
    (totalStatus h = .confirmedImage ↔ (h.seq ≠ 0xFFFFFFFF ∧ h.ext = .complete ∧ h.ist = .complete ∧ h.boot = .successful)) ∧
    (totalStatus h = .rejectedImage ↔ (h.seq ≠ 0xFFFFFFFF ∧ h.ext = .complete ∧ h.ist = .complete ∧ h.boot = .unsuccessful)) := by
  obtain ⟨k, s, z, n, e, i, b⟩ := h
  by_cases hs : s = 0xFFFFFFFF
  · have hb : (s != 4294967295) = false := by simp [hs]
    cases e <;> cases i <;> cases b <;> simp [totalStatus, hs]
  · have hb : (s != 4294967295) = true := by simp [hs]
    cases e <;> cases i <;> cases b <;> simp [totalStatus, hb, hs]

/-- a header that came out of the parser never classifies as blank (its sequence number is not reserved) -/
theorem parsed_not_blank (bs rest : List Nat) (h : Header) (hp : parseHeader Codec.pinned bs = some (h, rest)) :
    totalStatus h ≠ .blankSlot := by
  obtain ⟨w0, w1, w2, w3, w4, w5, w6, _, _, hs, _⟩ := (parseHeader_eq_some _ bs h rest).1 hp
  have h1 := (parseSeq_some _ _ _ hs).1
  have h2 : w1 ≠ 0xFFFFFFFF := (parseSeq_some _ _ _ hs).2
  intro hb
  have h3 := ((total_status_table h).1.1 hb).1
  omega

/-! ## non-vacuity -/
def sampleHeader : Header := Header.mk .parity 7 40 658 .inProgress .inProgress .untested
example : sampleHeader.WF Codec.pinned := by decide
example : parseHeader Codec.pinned
    [1,0,0,0, 7,0,0,0, 40,0,0,0, 0x92,2,0,0, 255,255,255,255, 255,255,255,255, 255,255,255,255] =
    some (sampleHeader, []) := by decide
example : tornProgram 0xFFFFFFFF 0x44444444 0x0000FFFF = 0x4444FFFF := by decide

/-! ## sequence numbers around the reserved value

`SequenceNumber::next` (model: `seqNext`) never produces the reserved erased code: the successor of every legal sequence
number is again a legal 32-bit sequence number that the codec parses, so a header carrying it round-trips; the successor
of `0xFFFFFFFE` is `0` (the reserved `0xFFFFFFFF` is skipped). The correspondence suite `d3` observes the (private)
function through the sequence numbers `start_update` writes (`alloc s`). -/

theorem seqNext_legal (s : Nat) (h : s < 2 ^ 32) (hs : s ≠ 0xFFFFFFFF) :
    seqNext s < 2 ^ 32 ∧ seqNext s ≠ 0xFFFFFFFF ∧ parseSeq Codec.new (seqNext s) = some (seqNext s) := by
  have hinv : Codec.new.seqInvalid = 0xFFFFFFFF := rfl
  have h1 : seqNext s < 2 ^ 32 ∧ seqNext s ≠ 0xFFFFFFFF := by
    unfold seqNext
    split <;> omega
  refine ⟨h1.1, h1.2, ?_⟩
  unfold parseSeq
  rw [hinv, if_neg h1.2]

theorem seqNext_skips_reserved : seqNext 0xFFFFFFFE = 0 ∧ seqNext 0xFFFFFFFD = 0xFFFFFFFE ∧ seqNext 0 = 1 := by decide

/-- twice in a row (the two headers of one `start_update`) -/
theorem seqNext_twice_legal (s : Nat) (h : s < 2 ^ 32) (hs : s ≠ 0xFFFFFFFF) :
    parseSeq Codec.new (seqNext (seqNext s)) = some (seqNext (seqNext s)) :=
  let ⟨a, b, _⟩ := seqNext_legal s h hs
  (seqNext_legal _ a b).2.2

end Fuota.C11
