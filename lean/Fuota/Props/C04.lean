import Fuota.Lemmas.CrashGate
import Fuota.Lemmas.CrashStart
import Fuota.Lemmas.CrashTorn
import Fuota.Props.C08
/-!
# C04 — power loss at any point never leaves a slot that reads "completed firmware" but fails validation

Ring: `nslots` slots of `s` bytes, erase-block size `B`; standing assumptions `17412 ≤ s` (a slot holds at least the
stored CRC), `28 ≤ B` (the first erase block of a slot contains its whole header), and `2 ≤ nslots` for
`start_update` (the allocator needs two different slots).

**How crash points are quantified.** Every theorem below is about `(x.run d)` for an *arbitrary* device `d`:
arbitrary contents, `crashAt = some (k, none)` (power lost before mutating operation `k`), `crashAt = some (k, some
(p, keep))` (operation `k` torn: bytes `< p` programmed, byte `p` with the bits `keep` not yet cleared, the rest
untouched), any pending transient fault, dead or alive. The flash of `(x.run d).2` is the flash as the crash left it
(`Ops.Replay`: the initial flash with exactly the logged operations applied, the torn one included). So
"`CVW` holds for `(x.run d).2.flash` for all `d`" **is** "the invariant holds at every crash point, for every torn
outcome". Erases are atomic per block in the model (`tear` leaves an erase alone).

**The invariant** `Crash.CVW nslots s B f`: the flash is well formed (bytes `< 256`), has block size `B`, and every
slot `i < nslots` whose kind word is the firmware code and whose external-status word is the Complete code has good
content: for whatever its size and count words parse to, the image fits the slot, the reads of `crc_valid` are
inside the device and the stored CRC equals CRC-32/CKSUM of `dataRegion[68 .. n·size]`. It does not mention the
sequence-number, internal-status or boot words, so no status mark can make a bad slot look validated.
`CVW.completeValid` / `completeValid_of_cvw`: it implies the property's formulation `CompleteValid`.
-/
namespace Fuota.C04
open Fuota.Nor Fuota.Fs Fuota.Layout Fuota.Ops Fuota.Updater Fuota.Crash

variable {nslots s B : Nat}

/-! ## 0. the invariant in the words of the property -/

/-- every slot whose header parses as a completed firmware passes `is_valid_firmware` -/
def CompleteValid (nslots s : Nat) (f : Flash) : Prop :=
  ∀ i, i < nslots → ∀ hd rest, parseHeader Codec.new (f.read (i * s) 28) = some (hd, rest) →
    hd.kind = Kind.firmware → hd.ext = Ext.complete → (Firmware.isValidFirmware f s i).1 = .ok

theorem completeValid_of_cvw {f : Flash} (h : CVW nslots s B f) : CompleteValid nslots s f :=
  fun i hi hd rest hp hk he => h.completeValid i hi hd rest hp hk he

/-- a blank device satisfies the invariant (no slot is sealed) -/
theorem cvw_blank (total : Nat) : CVW nslots s B (Flash.blank B total) := by
  refine ⟨WF.blank B total, rfl, ?_⟩
  intro i _ hseal
  have hb : ∀ x, (Flash.blank B total).byte x = 0xFF := by
    intro x
    unfold Flash.byte Flash.blank
    simp only [Array.getD_eq_getD_getElem?, Array.getElem?_replicate]
    split <;> rfl
  have := hseal.1
  unfold word at this
  rw [hb, hb, hb, hb] at this
  exact absurd this (by decide)

/-! ## 1. the bridge to the validation model (C14) -/

/-- the two CRC transcriptions agree on bytes, for every register value -/
theorem crcByte_eq (r b : Nat) (hb : b < 256) : Updater.crcByte r b = Crc.crcStepByte r b := Crash.crcByte_eq r b hb

/-- well-formedness is preserved by every operation, whatever it programs -/
theorem wf_apply {f : Flash} (h : WF f) (op : Op) : WF (f.apply op) := h.apply op

/-- **`valid_bridge`** (and the same for `crc_valid`): on a live, well-formed device the session model's
    `Slot::is_valid_firmware` leaves the device unchanged and returns the verdict of `Firmware.isValidFirmware` on
    the current flash (`Res.toM` maps the result types; `Res.toM r = ok ↔ r = ok`). On a dead device both fail with
    the dead-device error and change nothing (`valid_dead`). -/
theorem valid_bridge {d : Dev} (hd : d.dead = false) (hwf : WF d.flash) (sl : Slot) :
    (Updater.isValidFirmware sl).run d = (Res.toM (Firmware.isValidFirmware d.flash sl.size sl.idx).1, d) ∧
    ∀ h log, (Updater.crcValid sl h).run d = (Res.toM (Firmware.crcValid d.flash (sl.idx * sl.size) h log).1, d) :=
  ⟨Crash.valid_bridge hd hwf sl, fun h log => crcValid_bridge hd hwf sl h log⟩

/-- consequence: on a live, well-formed device the session model's validation succeeds exactly under C14's
    `valid_iff` condition -/
theorem valid_ok_iff {d : Dev} (hd : d.dead = false) (hwf : WF d.flash) (sl : Slot) :
    ((Updater.isValidFirmware sl).run d).1 = .ok () ↔ (Firmware.isValidFirmware d.flash sl.size sl.idx).1 = .ok := by
  rw [(valid_bridge hd hwf sl).1]
  exact Res.toM_ok _

/-! ## 2. the gate -/

/-- **`check_gate_L2`** -/
theorem check_gate_L2 (u : Upd) (d : Dev) (hwf : WF d.flash) :
    ∃ new, Replay d ((checkAndMarkDone u).run d).2 new ∧ CheckLog u new ∧
      (new ≠ [] → u.complete = true ∧ d.dead = false ∧
        ∃ hd, Firmware.loadHeader d.flash (u.fw.idx * u.fw.size) = some (some hd) ∧
          (Firmware.crcValid d.flash (u.fw.idx * u.fw.size) hd []).1 = .ok) := Crash.check_gate_L2 u d hwf

/-! ## 3. torn external-status words -/

/-- **`torn_complete_is_complete`** (via `torn_word_tornProgram`: the word on flash after
    `tear p keep (program a [b0,b1,b2,b3])` is `C11.tornProgram old new m` with `m` the byte-wise tear mask, so
    C11's `torn_ext_parse` applies): programming Complete, whole or torn, over a legal external-status word leaves a
    word that does not parse, or still parses to the old status, or is exactly the Complete code. -/
theorem torn_complete_is_complete (f : Flash) (hwf : WF f) (a : Nat) (hin : a + 4 ≤ f.size) (old : Ext)
    (hold : word f a = encExt Codec.pinned old) (p keep : Nat) :
    let w := word (f.apply (tear p keep (.program a (writeU32 (encExt Codec.new .complete))))) a
    parseExt Codec.pinned w = none ∨ parseExt Codec.pinned w = some old ∨
      (parseExt Codec.pinned w = some .complete ∧ w = 0x44444444) :=
  Crash.torn_complete_is_complete f hwf a hin old hold p keep

/-! ## 4. `clear` kills the header first -/

/-- **`clear_kills_header_first`**: from any state satisfying the invariant, at every crash point of `Slot::clear`
    the invariant still holds (first component: the flash after the run, for every device state); when `clear`
    returns, the slot's 28 header bytes are `0xFF`, and such a header does not parse. The proof (`clear_keeps`)
    shows more: the *first* operation is the erase of the block containing the header, after which the header is
    erased, and every later erase of the same `clear` keeps it erased. -/
theorem clear_kills_header_first (hs : 17412 ≤ s) (hB : 28 ≤ B) (i : Nat) (d : Dev) (hJ : CVW nslots s B d.flash) :
    CVW nslots s B ((Slot.clear { idx := i, size := s }).run d).2.flash ∧
    (((Slot.clear { idx := i, size := s }).run d).1 = .ok () →
      HdrFF ((Slot.clear { idx := i, size := s }).run d).2.flash (i * s) ∧
      parseHeader Codec.new (((Slot.clear { idx := i, size := s }).run d).2.flash.read (i * s) 28) = none) := by
  obtain ⟨h1, h2⟩ := clear_keeps hs hB (fun _ => True) i (fun _ _ _ _ => trivial) d ⟨hJ, trivial⟩
  refine ⟨h1.1, fun hr => ?_⟩
  have := (h2 () hr).2.2
  exact ⟨this, hdrFF_no_parse this⟩

/-! ## 5. every API call preserves the invariant, at every crash point -/

/-- **`start_preserves`** — for every requested geometry and every device state; a returned session is open on the
    flash (`SessFlash`: firmware slot reads In-progress, parity slot is not of kind firmware, geometry words fit) -/
theorem start_preserves (hs : 17412 ≤ s) (hB : 28 ≤ B) (h2 : 2 ≤ nslots) (sz n : Nat) (d : Dev)
    (hJ : CVW nslots s B d.flash) :
    CVW nslots s B ((startUpdate nslots s sz n).run d).2.flash ∧
    ∀ u, ((startUpdate nslots s sz n).run d).1 = .ok u →
      SessFlash s ((startUpdate nslots s sz n).run d).2.flash u ∧ SessionGeom u := by
  obtain ⟨h1, h3⟩ := start_keeps hs hB h2 sz n d hJ
  refine ⟨h1, fun u hu => ⟨(h3 u hu).2, ?_⟩⟩
  rcases Fuota.C08.start_ops_in_pair nslots s sz n d with h | ⟨_, _, _, _, _, _, _, _, _, h5⟩
  · exact absurd hu (h.2 u)
  · exact (h5 u hu).2.2.2.2

/-- **`segment_preserves`** — for every fragment index, payload, in-memory state and device state, while the
    session is open; the session stays open and keeps its geometry -/
theorem segment_preserves (hs : 17412 ≤ s) (ffr : Bool) (idx : Nat) (bytes : List Nat) (u : Upd) (d : Dev)
    (hg : SlotGeom u) (hJ : CVW nslots s B d.flash) (hsf : SessFlash s d.flash u) :
    CVW nslots s B ((handleSegment ffr idx bytes).run (u, d)).2.2.flash ∧
    SessFlash s ((handleSegment ffr idx bytes).run (u, d)).2.2.flash ((handleSegment ffr idx bytes).run (u, d)).2.1 ∧
    SlotGeom ((handleSegment ffr idx bytes).run (u, d)).2.1 := by
  obtain ⟨h1, h2⟩ := segment_keeps hs ffr idx bytes u d hg hJ hsf
  exact ⟨h1, h2, (Fuota.C08.segment_ops_in_pair ffr idx bytes u d hg).2.2.2.2.2⟩

/-- **`check_preserves`** — the final mark of an open session, at every crash point (the Complete code reaches the
    firmware slot, whole or torn, only after `crc_valid` said `ok` on the same flash: `check_gate_L2`) -/
theorem check_preserves (hs : 17412 ≤ s) (u : Upd) (d : Dev) (hJ : CVW nslots s B d.flash)
    (hsf : SessFlash s d.flash u) : CVW nslots s B ((checkAndMarkDone u).run d).2.flash :=
  (check_keeps hs u hsf.fwSize hsf.parSize d ⟨hJ, hsf.hdr.fit, hsf.hdr.kind⟩).1

/-- **`recover_preserves`** — `try_recover` (remediation: aborts, then header-first erases; or cancellation) at
    every crash point; a session it returns is open on the flash and has the recovered geometry -/
theorem recover_preserves (hs : 17412 ≤ s) (hB : 28 ≤ B) (d : Dev) (hJ : CVW nslots s B d.flash) :
    CVW nslots s B ((tryRecover nslots s).run d).2.flash ∧
    ∀ u, ((tryRecover nslots s).run d).1 = .ok (some u) →
      SessFlash s ((tryRecover nslots s).run d).2.flash u ∧ RecoveredGeom nslots s u := by
  obtain ⟨h1, h2⟩ := tryRecover_keeps hs hB d hJ
  exact ⟨h1, fun u hu => ⟨(h2 _ hu).2 u rfl, Fuota.C08.recovered_geom nslots s (by omega) d u hu⟩⟩

/-- **`cancel_preserves`** — `cancel_all_ext_pending` at every crash point. Argument used: it programs Aborted only
    over status words that *read In-progress (`0xFFFFFFFF`) when the call started*; every byte of such a word keeps
    the bits of `0xAA` under a whole or torn Aborted program, so the word can never become `0x44444444`. -/
theorem cancel_preserves (hs : 17412 ≤ s) (d : Dev) (hJ : CVW nslots s B d.flash) :
    CVW nslots s B ((cancelAll nslots s).run d).2.flash := (cancelAll_keeps hs d hJ).1

/-- **`marks_preserve`** — the bootloader / application status marks on any slot, at every crash point:
    internal-status Complete and boot Successful / Unsuccessful unconditionally; external-status Aborted on a slot
    whose status word has the bits of `0xAA` (it reads In-progress or Aborted). -/
theorem marks_preserve (hs : 17412 ≤ s) (i : Nat) (d : Dev) (hJ : CVW nslots s B d.flash) :
    CVW nslots s B ((Slot.markIntComplete { idx := i, size := s }).run d).2.flash ∧
    CVW nslots s B ((Slot.markBootOk { idx := i, size := s }).run d).2.flash ∧
    CVW nslots s B ((Slot.markBootBad { idx := i, size := s }).run d).2.flash ∧
    (ExtSup d.flash (i * s) → CVW nslots s B ((Slot.markExtAborted { idx := i, size := s }).run d).2.flash) := by
  refine ⟨(metaWord_keeps hs i 20 _ (Or.inr (Or.inl rfl)) d hJ).1,
    (metaWord_keeps hs i 24 _ (Or.inr (Or.inr rfl)) d hJ).1,
    (metaWord_keeps hs i 24 _ (Or.inr (Or.inr rfl)) d hJ).1, fun hx => ?_⟩
  exact (abort_keeps hs (fun _ => True) i (fun _ _ _ _ _ => trivial) d ⟨hJ, hx, trivial⟩).1.1

/-- the read-only calls made after a reboot change nothing -/
theorem status_calls_preserve (d : Dev) (hJ : CVW nslots s B d.flash) :
    CVW nslots s B ((blBootStatus nslots s).run d).2.flash ∧
    CVW nslots s B ((fallbackFirmware nslots s).run d).2.flash := by
  refine ⟨(blBootStatus_keeps d hJ).1, ?_⟩
  unfold fallbackFirmware
  exact ((loadHeaders_keeps nslots s _).bind (fun hs' => Keeps.pure (a := fallbackSlot hs')
    (Q := fun _ f => CVW nslots s B f) (fun f hf => ⟨hf.1, hf.1⟩)) d hJ).1

/-- **the lift to every crash prefix**, spelled out: the flash after a run from `d` is `d.flash` with the logged
    operations applied in order (a prefix of what the crash-free run would issue, the last one possibly torn), and
    the crash point of `d` is arbitrary. Instance for `start_update`: choose any operation index `k` and any tear. -/
theorem start_crash_prefix (hs : 17412 ≤ s) (hB : 28 ≤ B) (h2 : 2 ≤ nslots) (sz n : Nat) (d : Dev)
    (hJ : CVW nslots s B d.flash) (k : Nat) (tr : Option (Nat × Nat)) :
    let d' := ((startUpdate nslots s sz n).run { d with crashAt := some (k, tr) }).2
    (∃ new, d'.flash = d.flash.applyAll new ∧ d'.ops = new.reverse ++ d.ops) ∧
    CVW nslots s B d'.flash ∧ CompleteValid nslots s d'.flash := by
  intro d'
  have h := (start_preserves hs hB h2 sz n { d with crashAt := some (k, tr) } hJ).1
  refine ⟨?_, h, completeValid_of_cvw h⟩
  rcases Ops.startUpdate_emitsAt nslots s sz n { d with crashAt := some (k, tr) } with hl | ⟨_, _, _, _, _, _, _, _, hl⟩
  · obtain ⟨new, hrep, _⟩ := hl.2.1
    exact ⟨new.reverse, hrep.flash, by rw [List.reverse_reverse]; exact hrep.ops⟩
  · obtain ⟨new, hrep, _⟩ := hl.2.1
    exact ⟨new.reverse, hrep.flash, by rw [List.reverse_reverse]; exact hrep.ops⟩

/-- feeding a list of fragments (index, payload) to `handle_segment`, on the same device -/
def feed (ffr : Bool) : List (Nat × List Nat) → Upd × Dev → Upd × Dev
  | [], st => st
  | (i, b) :: rest, st => feed ffr rest ((handleSegment ffr i b).run (st.1, st.2)).2

/-- **a whole session**: from an open session, after any sequence of fragments (any indices, any payloads, any loss
    pattern, the crash point anywhere in the sequence) the invariant holds, the session is still open, and the
    final mark keeps the invariant too -/
theorem session_preserves (hs : 17412 ≤ s) (ffr : Bool) : ∀ (frs : List (Nat × List Nat)) (u : Upd) (d : Dev),
    SlotGeom u → CVW nslots s B d.flash → SessFlash s d.flash u →
    CVW nslots s B (feed ffr frs (u, d)).2.flash ∧ SessFlash s (feed ffr frs (u, d)).2.flash (feed ffr frs (u, d)).1 ∧
    SlotGeom (feed ffr frs (u, d)).1 ∧
    CVW nslots s B ((checkAndMarkDone (feed ffr frs (u, d)).1).run (feed ffr frs (u, d)).2).2.flash := by
  intro frs
  induction frs with
  | nil =>
    intro u d hg hJ hsf
    exact ⟨hJ, hsf, hg, check_preserves hs u d hJ hsf⟩
  | cons fr frs ih =>
    intro u d hg hJ hsf
    obtain ⟨i, b⟩ := fr
    obtain ⟨h1, h2, h3⟩ := segment_preserves hs ffr i b u d hg hJ hsf
    exact ih _ _ h3 h1 h2

/-! ## 6. the bootloader status never designates a slot that fails validation -/

/-- **`bl_designates_valid`** — pure form (on the headers of a flash satisfying the invariant) and call form -/
theorem bl_designates_valid {f : Flash} (hJ : CVW nslots s B f) (r : Sum Nat Nat)
    (h : blStatus ((List.range nslots).map (hdrAt f s)) = some r) :
    blIdx r < nslots ∧ (∃ hd, hdrAt f s (blIdx r) = some hd ∧ hd.kind = .firmware ∧ hd.ext = .complete) ∧
      (Firmware.isValidFirmware f s (blIdx r)).1 = .ok := Crash.bl_designates_valid hJ r h

theorem bl_call_designates_valid (d : Dev) (hJ : CVW nslots s B d.flash) (x : Sum Nat Nat)
    (h : ((blBootStatus nslots s).run d).1 = .ok (some x)) :
    blIdx x < nslots ∧ (Firmware.isValidFirmware ((blBootStatus nslots s).run d).2.flash s (blIdx x)).1 = .ok :=
  ((blBootStatus_keeps d hJ).2 _ h).2 x rfl

/-! ## non-vacuity -/

/-- the invariant is not trivially true: a slot sealed as completed firmware whose geometry words (256 × 16384)
    do not fit a 20480-byte slot violates it -/
def badMem (j : Nat) : Nat :=
  if j < 4 then 0 else if j = 9 then 1 else if j = 13 then 0x40 else if 8 ≤ j ∧ j < 16 then 0
  else if 16 ≤ j ∧ j < 20 then 0x44 else 0xFF

example : ¬ CVW 4 20480 4096 (C14.flashOfFn 81920 badMem) := by
  intro h
  have hb : ∀ a, a < 81920 → (C14.flashOfFn 81920 badMem).byte a = badMem a := fun a ha => C14.byte_ofFn _ _ a ha
  have hseal : Sealed (C14.flashOfFn 81920 badMem) 20480 0 := by
    unfold Sealed word
    simp only [Nat.zero_mul, Nat.zero_add, hb 0 (by decide), hb 1 (by decide), hb 2 (by decide), hb 3 (by decide),
      hb 16 (by decide), hb 17 (by decide), hb 18 (by decide), hb 19 (by decide)]
    decide
  have hc := h.safe 0 (by decide) hseal 256 16384
    (by unfold word
        simp only [Nat.zero_mul, Nat.zero_add, hb 8 (by decide), hb 9 (by decide), hb 10 (by decide),
          hb 11 (by decide)]
        decide)
    (by unfold word
        simp only [Nat.zero_mul, Nat.zero_add, hb 12 (by decide), hb 13 (by decide), hb 14 (by decide),
          hb 15 (by decide)]
        decide)
  exact absurd hc.1 (by decide)

/-- the hypotheses of the session theorems are satisfiable: on a healthy blank 4 × 20480 device with 4096-byte
    blocks `start_update 4 20480 4 18` succeeds (`C08.start_crash_free`) and, by `start_preserves`, the session it
    returns is open on a flash satisfying the invariant -/
example : ∃ u d', (startUpdate 4 20480 4 18).run { flash := Flash.blank 4096 81920 } = (.ok u, d') ∧
    CVW 4 20480 4096 d'.flash ∧ SessFlash 20480 d'.flash u ∧ SessionGeom u := by
  have hsz : (Flash.blank 4096 81920).size = 81920 := by simp [Flash.blank, Flash.size]
  obtain ⟨hs', a, b, sa, sb, _, _, _, _, _, hrun, _⟩ :=
    Fuota.C08.start_crash_free 4 20480 4 18 { flash := Flash.blank 4096 81920 } ⟨rfl, rfl, rfl⟩ (by decide)
      (by decide) (by decide) (by rw [hsz]; decide) (by rfl)
  have hp := start_preserves (nslots := 4) (s := 20480) (B := 4096) (by decide) (by decide) (by decide) 4 18
    { flash := Flash.blank 4096 81920 } (cvw_blank 81920)
  refine ⟨_, _, hrun, ?_, ?_⟩
  · have := hp.1; rw [hrun] at this; exact this
  · have := hp.2 _ (by rw [hrun]); rw [hrun] at this; exact this

end Fuota.C04
