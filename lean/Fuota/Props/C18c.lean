import Fuota.Lemmas.RefineFaultReadRun
import Fuota.Props.C18b
import Fuota.Lemmas.RefineStartH
/-!
# C18c — a transient fault on *any* flash operation of a delivery outside `finish`, reads included (flash level)

`C18b` covers a failed *program* operation. **The model has no read-fault injection**: in `Model/Fs`, `Dev.failAt` is
compared with `Dev.nmut`, which only mutating operations advance, and `readTo` fails only on a dead device or out of
bounds; there is no operation counter that reads tick. Nothing was added to `Model/*`. Instead
`Lemmas/RefineFaultRead.lean` defines a copy `handleSegmentC` of `handle_segment` in which every flash read of `strip`
and of the elimination loop — all flash reads of a delivery outside `finish` once the segment-size cache is filled —
passes a gate that lets exactly the read with a given number fail; without a pending fault the copy *is* the model's
function (`Updater.handleSegmentC_none`).

**Result.** All those reads precede the first program of the call and their errors are propagated, so a failed read
leaves the device untouched; the only thing that survives in memory is the stage adjustment (`l` set when parity
processing begins, as after a failed program), and delivering the fragment again is *the same run* as the delivery
that never failed (`read_fault_retry_L2`). Together with C18b: a transient fault on any flash operation outside
`finish` is repaired by redelivery (`flash_fault_retry_L2`).

**No read site swallows an error.** In the model every read error is propagated by `bind`. In the Rust code the corresponding
sites — `datablocks.get` in the strip loop, `parityblocks.get` and `matrix.row` in the elimination loop of
`handle_parity_block`, `read_segment`/`read_raw` below them, and the wrapper `Updater::handle_segment` — all use `?` /
`map_err(..)?`; none swallows an error or treats a failed read as "not present" (inspection of
`parity-reconstruct/src/lib.rs`, `flash-algo-new/src/update/matrix.rs`). Not covered here: reads inside `finish`
(excluded as in C18/C18b), the header read that fills an empty segment-size cache (the state is assumed `Lawful`,
cache filled, as in C18b), and the reads of `try_recover_inner` (an error there is returned to the caller before any
session state exists).
-/
namespace Fuota.C18c
open Fuota.Nor Fuota.Fs Fuota.Updater Fuota.Recon Fuota.Layout Fuota.FlashAdapters

/-- **C18c (one failed flash read outside `finish`).** `(u, d)` satisfies the session invariant; a genuine fragment is
delivered while the flash read number `c` of the call (reads of `strip`, then of the elimination loop) fails. If the
call answers an error, then: the error is the read error; the device is exactly as before the call; the in-memory
updater is the stage-adjusted one and still incomplete; the state satisfies the session invariant; and delivering the
same fragment again is the very run of the delivery that never failed — same answer, same device, same updater. -/
theorem read_fault_retry_L2 (ffr : Bool) {u : Upd} {d : Dev} (L : Lawful u d) (idx1 : Nat) (hidx : idx1 ≠ 0)
    (bytes : List Nat) (hb : IsBytes bytes) (hlen : bytes.length = u.bs)
    (hrow : (updaterRow ffr u.n (idx1 - 1)).isSome = true) (c : Nat)
    (herr : ∃ er, ((handleSegmentC ffr idx1 bytes (some c)).run (u, d)).1 = .error er) :
    (handleSegmentC ffr idx1 bytes (some c)).run (u, d) = (.error (.spi .custom), (adjU u (idx1 - 1), d)) ∧
    Lawful (adjU u (idx1 - 1)) d ∧ rcComplete (adjU u (idx1 - 1)) = false ∧
    (handleSegment ffr idx1 bytes).run ((handleSegmentC ffr idx1 bytes (some c)).run (u, d)).2 =
      (handleSegment ffr idx1 bytes).run (u, d) := by
  obtain ⟨index, rfl⟩ : ∃ index, idx1 = index + 1 := ⟨idx1 - 1, by omega⟩
  rw [Nat.add_sub_cancel] at hrow ⊢
  rcases read_fault_call ffr L index bytes hlen (some c) with h | ⟨h1, h2, h3⟩
  · -- the fault was not reached: the uninterrupted delivery does not answer an error
    exfalso
    obtain ⟨er, herr⟩ := herr
    rw [h, handleSegment_run ffr (index + 1) bytes (by omega), Nat.add_sub_cancel] at herr
    obtain ⟨c1, _⟩ := handleBlock_sim ⟨false⟩ ffr L index bytes hb hlen hrow
    generalize (handleBlock ffr index bytes).run (u, d) = q at herr c1
    obtain ⟨r, s'⟩ := q
    cases r with
    | error e => exact c1.elim
    | ok o =>
      cases o with
      | none => cases herr
      | some b => cases b <;> cases herr
  · refine ⟨h1, h2, ?_, by rw [h1]; exact h3⟩
    cases hc : rcComplete (adjU u index) with
    | false => rfl
    | true =>
      -- a complete updater answers without touching the flash, so the gated call cannot have failed
      exfalso
      -- the failed call itself: it went through stage 2 of `adjU u index`, which is incomplete
      rw [handleSegmentC_run ffr (index + 1) bytes (some c) (by omega), Nat.add_sub_cancel,
        handleBlockC_eqU ffr u d index bytes (some c) hlen] at h1
      by_cases hcu : rcComplete u = true
      · rw [if_pos hcu] at h1; cases h1
      rw [if_neg hcu] at h1
      by_cases hnt : u.n ≤ index ∧ u.l = 0 ∧
          (VBITS < (unknowns u.done u.n).length ∨ u.maxL < (unknowns u.done u.n).length)
      · rw [if_pos hnt] at h1; cases h1
      by_cases hl : (adjU u index).l = 0
      · have hpar : ¬ (u.n ≤ index ∧ u.l = 0) := by
          intro hpar
          have hadj : adjU u index = { u with l := (unknowns u.done u.n).length } := by unfold adjU; rw [if_pos hpar]
          rw [hadj] at hl
          have hcA : isComplete (abs (u, d)) = false := by rw [← rcComplete_eq]; simpa using hcu
          exact unknowns_length_ne_zero (abs (u, d)) hpar.2 hcA hl
        have hadj : adjU u index = u := by unfold adjU; rw [if_neg hpar]
        rw [hadj] at hc; exact hcu hc
      · have := (adjU_stage2 L (by simpa using hcu) index hnt hl).2
        rw [hc] at this; cases this

/-- **C18c (…and the session goes on).** After the failed read, redelivering the fragment and continuing with any
fragments is the uninterrupted session: same answers, same final state. -/
theorem read_fault_retry_continue_L2 (ffr : Bool) {u : Upd} {d : Dev} (L : Lawful u d) (frag : Nat → List Nat)
    (hfrag : ∀ i, IsBytes (frag i) ∧ (frag i).length = u.bs) (idx1 : Nat) (is : List Nat) (hidx : idx1 ≠ 0)
    (hrow : (updaterRow ffr u.n (idx1 - 1)).isSome = true) (c : Nat)
    (herr : ∃ er, ((handleSegmentC ffr idx1 (frag (idx1 - 1)) (some c)).run (u, d)).1 = .error er) :
    session ffr frag (idx1 :: is) ((handleSegmentC ffr idx1 (frag (idx1 - 1)) (some c)).run (u, d)).2 =
      session ffr frag (idx1 :: is) (u, d) := by
  obtain ⟨hb, hlen⟩ := hfrag (idx1 - 1)
  obtain ⟨_, _, _, h⟩ := read_fault_retry_L2 ffr L idx1 hidx (frag (idx1 - 1)) hb hlen hrow c herr
  show (_, _) = (_, _)
  simp only [h]

/-- a transient fault on a flash operation of a delivery: the read with a given number, or the mutating operation
    with a given number -/
inductive FlashFault
  | read (c : Nat)
  | write (k : Nat)

/-- the delivery of a fragment under a flash fault -/
def deliverWith (ffr : Bool) (idx1 : Nat) (bytes : List Nat) (s : Upd × Dev) :
    FlashFault → Except MErr Outcome × (Upd × Dev)
  | .read c => (handleSegmentC ffr idx1 bytes (some c)).run s
  | .write k => (handleSegment ffr idx1 bytes).run (s.1, s.2.withFault k)

/-- **C18c (a transient fault on any flash operation outside `finish`).** `(u, d)` satisfies the session invariant;
a genuine fragment is delivered while one flash operation — a read or a mutating operation — fails once. If the call
answers an error and leaves the in-memory updater incomplete, then the device has no injection armed, and delivering
the same fragment again is answered exactly as the delivery that never failed, re-establishes the session invariant,
and ends with the same abstraction. -/
theorem flash_fault_retry_L2 (ffr : Bool) {u : Upd} {d : Dev} (L : Lawful u d) (idx1 : Nat) (hidx : idx1 ≠ 0)
    (bytes : List Nat) (hb : IsBytes bytes) (hlen : bytes.length = u.bs)
    (hrow : (updaterRow ffr u.n (idx1 - 1)).isSome = true) (fault : FlashFault)
    (herr : ∃ er, (deliverWith ffr idx1 bytes (u, d) fault).1 = .error er)
    (hinc : rcComplete (deliverWith ffr idx1 bytes (u, d) fault).2.1 = false) :
    Good (deliverWith ffr idx1 bytes (u, d) fault).2.2 ∧
    ((handleSegment ffr idx1 bytes).run (deliverWith ffr idx1 bytes (u, d) fault).2).1 =
      ((handleSegment ffr idx1 bytes).run (u, d)).1 ∧
    Lawful ((handleSegment ffr idx1 bytes).run (deliverWith ffr idx1 bytes (u, d) fault).2).2.1
      ((handleSegment ffr idx1 bytes).run (deliverWith ffr idx1 bytes (u, d) fault).2).2.2 ∧
    C18.Equiv (abs ((handleSegment ffr idx1 bytes).run (deliverWith ffr idx1 bytes (u, d) fault).2).2)
      (abs ((handleSegment ffr idx1 bytes).run (u, d)).2) := by
  cases fault with
  | read c =>
    obtain ⟨h1, _, _, h4⟩ := read_fault_retry_L2 ffr L idx1 hidx bytes hb hlen hrow c herr
    have hG : Good ((handleSegmentC ffr idx1 bytes (some c)).run (u, d)).2.2 := by rw [h1]; exact L.base.good
    have hL := (handleSegment_lawful ffr idx1 bytes L hb hlen hrow).1
    show Good ((handleSegmentC ffr idx1 bytes (some c)).run (u, d)).2.2 ∧
      ((handleSegment ffr idx1 bytes).run ((handleSegmentC ffr idx1 bytes (some c)).run (u, d)).2).1 = _ ∧
      Lawful ((handleSegment ffr idx1 bytes).run ((handleSegmentC ffr idx1 bytes (some c)).run (u, d)).2).2.1
        ((handleSegment ffr idx1 bytes).run ((handleSegmentC ffr idx1 bytes (some c)).run (u, d)).2).2.2 ∧
      C18.Equiv (abs ((handleSegment ffr idx1 bytes).run ((handleSegmentC ffr idx1 bytes (some c)).run (u, d)).2).2) _
    rw [h4]
    exact ⟨hG, rfl, hL, Fault.Eqv.refl _⟩
  | write k =>
    obtain ⟨a1, _, _, a4, a5, a6⟩ := C18b.fault_retry_L2 ffr L idx1 hidx bytes hb hlen hrow k herr hinc
    exact ⟨a1, a4, a5, a6⟩

/-! ## non-vacuity -/

/-- the gated `strip` with the fault on its first read fails as soon as one present block is selected -/
theorem stripC_fires (u : Upd) (row : Nat) (d : Dev) : ∀ (is : List Nat) (data : List Nat),
    (∃ i ∈ is, row.testBit i = true ∧ u.done.testBit i = true) →
    (stripC u row is data (some 0)).run d = (.error (.spi .custom), d)
  | [], _, h => by obtain ⟨i, hi, _⟩ := h; cases hi
  | j :: is, data, h => by
    unfold stripC
    by_cases hs : (row.testBit j && u.done.testBit j) = true
    · rw [if_pos hs]; rfl
    · rw [if_neg hs]
      apply stripC_fires u row d is data
      obtain ⟨i, hi, h1, h2⟩ := h
      rcases List.mem_cons.1 hi with rfl | hi'
      · simp [h1, h2] at hs
      · exact ⟨i, hi', h1, h2⟩

/-- non-vacuity 1: in **every** stage-2 delivery whose coded row selects at least one block that is already present,
the fault on the first read fires — the hypothesis `herr` of `read_fault_retry_L2` holds with `c = 0` -/
theorem read_fault_fires (ffr : Bool) {u : Upd} {d : Dev} (index : Nat) (bytes : List Nat)
    (hlen : bytes.length = u.bs) (hinc : rcComplete u = false) (hnt : ¬ tooManyCond u index)
    (hl : (adjU u index).l ≠ 0) {r i : Nat} (hrow : updaterRow ffr u.n index = some r) (hi : i < u.n)
    (hri : r.testBit i = true) (hdi : u.done.testBit i = true) :
    ∃ er, ((handleSegmentC ffr (index + 1) bytes (some 0)).run (u, d)).1 = .error er := by
  have hnt' : ¬ (u.n ≤ index ∧ u.l = 0 ∧
      (VBITS < (unknowns u.done u.n).length ∨ u.maxL < (unknowns u.done u.n).length)) := hnt
  obtain ⟨f1, f2, f3, f4, f5, f6, f7, f8⟩ := adjU_fields u index
  have hst : (stripC (adjU u index) r (List.range (adjU u index).n) bytes (some 0)).run d =
      (.error (.spi .custom), d) :=
    stripC_fires _ r d _ bytes ⟨i, List.mem_range.2 (by rw [f3]; exact hi), hri, by rw [f5]; exact hdi⟩
  refine ⟨.spi .custom, ?_⟩
  rw [handleSegmentC_run ffr (index + 1) bytes (some 0) (by omega), Nat.add_sub_cancel,
    handleBlockC_eqU ffr u d index bytes (some 0) hlen, if_neg (by rw [hinc]; simp), if_neg hnt', if_neg hl]
  unfold stage2C
  rw [f3, hrow]
  simp only [runU_bind, runU_pure, runU_liftM]
  rw [← f3, hst]

/-- non-vacuity 2 (a concrete failed read): on every device that meets the hypotheses of `start_update` for two 32 KiB
slots, open a session of two 1-byte fragments, deliver data fragment 1, then coded fragment 4 (row `01`, which selects
the block just stored) while the first flash read of the call fails: the state before the call satisfies the session
invariant and the call answers an error — the hypotheses of `read_fault_retry_L2` -/
example (d : Dev) (hG : Good d) (hwf : WF d.flash) (hdev : 2 * 32768 ≤ d.flash.size)
    (hb0 : 0 < d.flash.block) (hdiv : 32768 % d.flash.block = 0) (b0 b3 : Nat) (h0 : b0 < 256) :
    ∃ u0 d0, (startUpdate 2 32768 1 2).run d = (.ok u0, d0) ∧
      Lawful ((handleSegment false 1 [b0]).run (u0, d0)).2.1 ((handleSegment false 1 [b0]).run (u0, d0)).2.2 ∧
      [b3].length = ((handleSegment false 1 [b0]).run (u0, d0)).2.1.bs ∧
      ∃ er, ((handleSegmentC false 4 [b3] (some 0)).run ((handleSegment false 1 [b0]).run (u0, d0)).2).1 =
        .error er := by
  obtain ⟨u0, d0, sa, sb, hrun, LH, _, hl, hd, hu, hn, hbs, hm, _⟩ :=
    startUpdate_lawfulH 2 32768 1 2 d hG hwf ((C15.accept_iff 32768 1 2 (by decide) (by decide)).2 (by decide))
      hdev hb0 hdiv (by omega) (by decide +kernel)
  have L := LH.law
  have g := L.base.geo
  have hwu : warm u0 = u0 := warm_of_some g.hseg
  have hbytes : IsBytes [b0] := fun x hx => by rw [List.mem_singleton.1 hx]; exact h0
  have hinc : rcComplete u0 = false := by
    cases hc : rcComplete u0 with
    | false => rfl
    | true =>
      have := (rcComplete_stage1 u0 hl).1 hc 0 (by omega)
      rw [hd] at this; simp at this
  have hinc1 : rcComplete (afterStore u0 0) = false := by
    cases hc : rcComplete (afterStore u0 0) with
    | false => rfl
    | true =>
      have := (rcComplete_stage1 (afterStore u0 0) hl).1 hc 1 (by show 1 < u0.n; omega)
      have e : (afterStore u0 0).done = 1 := by show u0.done ||| 2 ^ 0 = 1; rw [hd]; rfl
      rw [e] at this; exact absurd this (by decide)
  have hrun1 := handleSegment_stage1_good false (w := u0) (e := d0) (by rw [hwu]; exact g) L.base.good
    (Or.inl g.hseg) (i := 0) (buf := [b0]) hinc hl (by omega) (by rw [hd]; simp) (by rw [hbs]; rfl)
  rw [hwu, if_neg (by rw [hinc1]; simp)] at hrun1
  have hL1 := (handleSegment_lawful false 1 [b0] L hbytes (by rw [hbs]; rfl) (by rw [hn]; decide +kernel)).1
  refine ⟨u0, d0, hrun, hL1, ?_, ?_⟩
  · rw [hrun1]; show 1 = u0.bs; rw [hbs]
  · rw [hrun1]
    have e : (afterStore u0 0).done = 1 := by show u0.done ||| 2 ^ 0 = 1; rw [hd]; rfl
    have hunk : (unknowns (afterStore u0 0).done (afterStore u0 0).n).length = 1 := by
      rw [e]; show (unknowns 1 u0.n).length = 1; rw [hn]; decide
    have hadjl : (adjU (afterStore u0 0) 3).l = 1 := by
      unfold adjU; rw [if_pos ⟨by show u0.n ≤ 3; omega, hl⟩]; exact hunk
    refine read_fault_fires false (u := afterStore u0 0) 3 [b3] (by show 1 = u0.bs; rw [hbs]) hinc1 ?_
      (by rw [hadjl]; omega) (r := 1) (i := 0) (by show updaterRow false u0.n 3 = some 1; rw [hn]; decide +kernel)
      (by show 0 < u0.n; omega) (by decide) (by rw [e]; decide)
    intro h
    have h3 := h.2.2
    rw [hunk] at h3
    have : (afterStore u0 0).maxL = 483 := by show u0.maxL = 483; rw [hm]; decide +kernel
    rw [this] at h3
    rcases h3 with h3 | h3
    · exact absurd h3 (by decide)
    · omega

end Fuota.C18c
