import Fuota.Props.C07b
import Fuota.Lemmas.RefineStartH
import Fuota.Lemmas.RefineCrashCall
/-!
# C07c — the stage corner at flash level: recovery falls back to stage 1, and that is still transparent

C07b / C06b / C18b exclude the *stage corner* `u.l ≠ 0 ∧ u.used = 0`: parity processing has begun (every coded
fragment so far reduced to the zero row, or a failed call left the stage adjustment behind) but no row is stored, so
`try_recover_inner`, which rebuilds `l` from the stored rows, falls back to stage 1. This file closes it:
`recover_refines_corner_L2` (what recovery returns), `reboot_transparent_corner_parity_next_L2` (a coded fragment next:
fully transparent), `reboot_transparent_corner_L2` (any continuation: every delivery is answered alike — the answers
`Consumed` / `FirmwareComplete` coincide position by position — although the stores may be filled differently).
The corner is reachable from `start_update` by genuine fragments (`corner_reachable`).
-/
namespace Fuota.C07c
open Fuota.Nor Fuota.Fs Fuota.Updater Fuota.Recon Fuota.Layout Fuota.FlashAdapters Fuota.C07b

/-- **C07c (recovery in the corner).** `(u, d)` satisfies the session invariant with headers, the session headers
are the two newest of the ring, all other slots are settled, and the state is in the stage corner. Then
`try_recover_inner` succeeds and leaves the device exactly as it was; the updater `u'` it returns is in stage 1
(`l = 0`) with the same `done`, `used = 0` and geometry; with its segment-size cache filled it satisfies the session
invariant (an empty cache is fillable from the header); and its abstraction is `C07.rehydrate` of the lost one. -/
theorem recover_refines_corner_L2 (nslots : Nat) {u : Upd} {d : Dev} {sa sb : Nat} (LH : LawfulH u d sa sb)
    (hin : nslots * u.fw.size ≤ d.flash.size) (hnew : NewestPair nslots u d sa sb)
    (hoth : OthersSettled nslots u d) (hl : u.l ≠ 0) (hu : u.used = 0) :
    ∃ u', (tryRecoverInner nslots u.fw.size).run d = (.ok (some u'), d) ∧
      u'.l = 0 ∧ u'.done = u.done ∧ u'.used = 0 ∧ u'.n = u.n ∧ u'.bs = u.bs ∧ u'.maxL = u.maxL ∧
      Lawful (warm u') d ∧ CacheOK u' d ∧ rcComplete u' = false ∧
      C18.Equiv (abs (u', d)) (C07.rehydrate (abs (u, d))) := by
  have L := LH.law
  have hinc : rcComplete u = false :=
    rcComplete_stage2_false (p := 0) hl (Nat.pos_of_ne_zero hl) (by rw [hu]; rfl)
  obtain ⟨u', hrun, _, _, _, _, hn', hbs', hmaxL', _, hused, _, hl', hI, _⟩ := recover_refines nslots LH hin hnew hoth
  obtain ⟨hdone, hE, hLw, hc, _⟩ := hI hinc
  have hl0 : u'.l = 0 := by rw [hl', if_pos hu]
  refine ⟨u', hrun, hl0, hdone, by rw [hused, hu], hn', hbs', hmaxL', hLw, hc, ?_, hE⟩
  -- stage 1 with the same marks as an incomplete session
  cases hc' : rcComplete u' with
  | false => rfl
  | true =>
    exfalso
    have hall := (rcComplete_stage1 u' hl0).1 hc'
    -- all data fragments present would make the unknown list, hence `l`, empty
    have hnil : (unknowns u.done u.n).length = 0 := by
      rw [List.length_eq_zero_iff]
      apply List.filter_eq_nil_iff.2
      intro i hi
      have := hall i (by rw [hn']; exact List.mem_range.1 hi)
      rw [hdone] at this
      simp [this]
    exact hl (by rw [L.base.hl2 hl]; exact hnil)

/-- the stage invariant and the capacity bound of the abstraction of a lawful state -/
theorem abs_stageInv {u : Upd} {d : Dev} (L : Lawful u d) :
    C07.StageInv (abs (u, d)) ∧ ((abs (u, d)).l ≤ 2048 ∧ (abs (u, d)).l ≤ u.maxL) := by
  have hcapL := L.base.geo.slots.2.2.2.2.2.1
  refine ⟨⟨fun h0 => ?_, fun h0 => L.base.hl2 h0⟩, by show u.l ≤ 2048; have := L.base.hl; omega, L.base.hl⟩
  apply Nat.eq_of_testBit_eq
  intro p
  cases hb : u.used.testBit p with
  | false => simp [abs, hb]
  | true => have := (L.base.hech p hb).1; have h0' : u.l = 0 := h0; omega

/-- **C07c (the corner, a coded fragment next: fully transparent).** In the corner, after a reboot and
`try_recover_inner`, a continuation that starts with a coded fragment (`n ≤ j - 1`) re-enters stage 2 with the same
`l`: every fragment of `j :: js` is answered exactly as without the reboot, and the final abstractions have the same
contents. -/
theorem reboot_transparent_corner_parity_next_L2 (ffr : Bool) (nslots : Nat) {u : Upd} {d : Dev} {sa sb : Nat}
    (LH : LawfulH u d sa sb) (hin : nslots * u.fw.size ≤ d.flash.size) (hnew : NewestPair nslots u d sa sb)
    (hoth : OthersSettled nslots u d) (hl : u.l ≠ 0) (hu : u.used = 0) (frag : Nat → List Nat)
    (hfrag : ∀ i, IsBytes (frag i) ∧ (frag i).length = u.bs) (j : Nat) (js : List Nat)
    (hidx : ∀ i ∈ j :: js, i ≠ 0) (hrows : C01.RowsDefined ffr u.n (j :: js)) (hj : u.n ≤ j - 1) :
    ∃ u', (tryRecoverInner nslots u.fw.size).run d = (.ok (some u'), d) ∧
      (session ffr frag (j :: js) (u', d)).1 = (session ffr frag (j :: js) (u, d)).1 ∧
      C18.Equiv (abs (session ffr frag (j :: js) (u', d)).2) (abs (session ffr frag (j :: js) (u, d)).2) := by
  obtain ⟨u', hrun, _, _, _, hn', hbs', hmaxL', hLw, hc, _, hE⟩ :=
    recover_refines_corner_L2 nslots LH hin hnew hoth hl hu
  refine ⟨u', hrun, ?_⟩
  have L := LH.law
  obtain ⟨w1, w2, w3⟩ := session_warm ffr frag (j :: js) u' d hLw hc (fun i => by rw [hbs']; exact hfrag i)
    (fun i hi => by rw [hn']; exact hrows i hi)
  obtain ⟨_, b2, b3, _⟩ := session_sim ⟨false⟩ ffr u.n u.bs u.maxL frag hfrag (j :: js) (warm u') d
    (C07.rehydrate (abs (u, d))) hidx hrows hLw hn' hbs' hmaxL' hE
  obtain ⟨_, c2, c3, _⟩ := session_sim ⟨false⟩ ffr u.n u.bs u.maxL frag hfrag (j :: js) u d (abs (u, d)) hidx hrows L
    rfl rfl rfl (Fault.Eqv.refl _)
  obtain ⟨hSI, hcap⟩ := abs_stageInv L
  obtain ⟨t1, t2⟩ := C07.reboot_transparent_corner_parity_next ⟨false⟩ (fun m => (updaterRow ffr u.n m).getD 0) 2048
    u.maxL (fun i => bytesToNat (frag i)) hSI hl hu hcap (j - 1) hj (js.map (· - 1))
  have hmap : (j :: js).map (· - 1) = (j - 1) :: js.map (· - 1) := rfl
  rw [hmap, t1] at b3
  rw [hmap] at b2 c2 c3
  refine ⟨w1.trans (allCorr_unique b3 c3), ?_⟩
  have e1 : abs (session ffr frag (j :: js) (u', d)).2 = abs (session ffr frag (j :: js) (warm u', d)).2 := by
    show abs ((session ffr frag (j :: js) (u', d)).2.1, (session ffr frag (j :: js) (u', d)).2.2) = _
    rw [w2]
    show _ = abs ((session ffr frag (j :: js) (warm u', d)).2.1, (session ffr frag (j :: js) (warm u', d)).2.2)
    rw [← w3]; rfl
  rw [e1]
  exact Fault.Eqv.trans b2 (Fault.Eqv.trans t2 (Fault.Eqv.symm c2))

/-- a session over a concatenation is the session over the first part followed by the session over the second -/
theorem session_append (ffr : Bool) (frag : Nat → List Nat) : ∀ (a b : List Nat) (s : Upd × Dev),
    (session ffr frag (a ++ b) s).1 = (session ffr frag a s).1 ++ (session ffr frag b (session ffr frag a s).2).1
  | [], _, _ => rfl
  | x :: a, b, s => by
    show _ :: _ = _ :: _ ++ _
    rw [List.cons_append]
    congr 1
    exact session_append ffr frag a b _

/-- **C07c (the corner, any continuation: every delivery is answered alike).** In the corner, after a reboot and
`try_recover_inner`, every continuation `js` (any fragment numbers, payloads of `bs` bytes, row generator defined) is
answered, delivery by delivery, exactly as without the reboot — `FirmwareComplete` on the same fragment, `Consumed`
everywhere else. (With a data fragment next the two runs fill the stores differently — the recovered one stores it
as a data block, the other as a pivot row — so the abstractions need not have the same contents before completion;
`reboot_transparent_corner_parity_next_L2` gives equal contents when a coded fragment comes next.) -/
theorem reboot_transparent_corner_L2 (ffr : Bool) (nslots : Nat) {u : Upd} {d : Dev} {sa sb : Nat}
    (LH : LawfulH u d sa sb) (hin : nslots * u.fw.size ≤ d.flash.size) (hnew : NewestPair nslots u d sa sb)
    (hoth : OthersSettled nslots u d) (hl : u.l ≠ 0) (hu : u.used = 0) (frag : Nat → List Nat)
    (hfrag : ∀ i, IsBytes (frag i) ∧ (frag i).length = u.bs) :
    ∃ u', (tryRecoverInner nslots u.fw.size).run d = (.ok (some u'), d) ∧
      ∀ js : List Nat, (∀ i ∈ js, i ≠ 0) → C01.RowsDefined ffr u.n js →
        (session ffr frag js (u', d)).1 = (session ffr frag js (u, d)).1 := by
  obtain ⟨u', hrun, _, _, _, hn', hbs', hmaxL', hLw, hc, _, hE⟩ :=
    recover_refines_corner_L2 nslots LH hin hnew hoth hl hu
  refine ⟨u', hrun, ?_⟩
  have L := LH.law
  obtain ⟨hSI, hcap⟩ := abs_stageInv L
  have hC : Gf2.Contract (abs (u, d)).n (fun m => (updaterRow ffr u.n m).getD 0) :=
    updaterRow_contract ffr u.n L.base.geo.hn.2
  -- for every continuation: all answers are successes on both sides, and the last ones agree on `FirmwareComplete`
  have key : ∀ js : List Nat, (∀ i ∈ js, i ≠ 0) → C01.RowsDefined ffr u.n js →
      ((session ffr frag js (u', d)).1.getLast? = some (.ok .complete) ↔
        (session ffr frag js (u, d)).1.getLast? = some (.ok .complete)) ∧
      (∀ a ∈ (session ffr frag js (u', d)).1, ∃ o, a = .ok o) ∧
      (∀ a ∈ (session ffr frag js (u, d)).1, ∃ o, a = .ok o) := by
    intro js hidx hrows
    obtain ⟨w1, _, _⟩ := session_warm ffr frag js u' d hLw hc (fun i => by rw [hbs']; exact hfrag i)
      (fun i hi => by rw [hn']; exact hrows i hi)
    obtain ⟨_, _, b3, _⟩ := session_sim ⟨false⟩ ffr u.n u.bs u.maxL frag hfrag js (warm u') d
      (C07.rehydrate (abs (u, d))) hidx hrows hLw hn' hbs' hmaxL' hE
    obtain ⟨_, _, c3, _⟩ := session_sim ⟨false⟩ ffr u.n u.bs u.maxL frag hfrag js u d (abs (u, d)) hidx hrows L
      rfl rfl rfl (Fault.Eqv.refl _)
    have k := C07.reboot_transparent_corner ⟨false⟩ (fun m => (updaterRow ffr u.n m).getD 0) 2048 u.maxL
      (fun i => bytesToNat (frag i)) hC hSI hl hu hcap (js.map (· - 1))
    refine ⟨?_, ?_, C01.allCorr_ok c3⟩
    · rw [w1, allCorr_getLast b3, allCorr_getLast c3]; exact k
    · rw [w1]; exact C01.allCorr_ok b3
  intro js
  induction hlen : js.length generalizing js with
  | zero =>
    intro _ _
    rw [List.length_eq_zero_iff.1 hlen]; rfl
  | succ m ih =>
    intro hidx hrows
    have hne : js ≠ [] := by intro h; rw [h] at hlen; cases hlen
    have hsplit := List.dropLast_concat_getLast hne
    have hmem : ∀ i ∈ js.dropLast, i ∈ js := fun i hi => by
      rw [← hsplit]; exact List.mem_append_left _ hi
    have hidx0 : ∀ i ∈ js.dropLast, i ≠ 0 := fun i hi => hidx i (hmem i hi)
    have hrows0 : C01.RowsDefined ffr u.n js.dropLast := fun i hi => hrows i (hmem i hi)
    have ih0 := ih js.dropLast (by rw [List.length_dropLast, hlen]; rfl) hidx0 hrows0
    obtain ⟨klast, ka, kb⟩ := key js hidx hrows
    have ea := session_append ffr frag js.dropLast [js.getLast hne] (u', d)
    have eb := session_append ffr frag js.dropLast [js.getLast hne] (u, d)
    rw [hsplit] at ea eb
    have hla : (session ffr frag [js.getLast hne] (session ffr frag js.dropLast (u', d)).2).1 =
        [((handleSegment ffr (js.getLast hne) (frag (js.getLast hne - 1))).run
          (session ffr frag js.dropLast (u', d)).2).1] := rfl
    have hlb : (session ffr frag [js.getLast hne] (session ffr frag js.dropLast (u, d)).2).1 =
        [((handleSegment ffr (js.getLast hne) (frag (js.getLast hne - 1))).run
          (session ffr frag js.dropLast (u, d)).2).1] := rfl
    rw [hla] at ea
    rw [hlb] at eb
    rw [ea] at klast ka ⊢
    rw [eb] at klast kb ⊢
    rw [ih0]
    congr 1
    generalize ((handleSegment ffr (js.getLast hne) (frag (js.getLast hne - 1))).run
      (session ffr frag js.dropLast (u', d)).2).1 = oa at klast ka ⊢
    generalize ((handleSegment ffr (js.getLast hne) (frag (js.getLast hne - 1))).run
      (session ffr frag js.dropLast (u, d)).2).1 = ob at klast kb ⊢
    obtain ⟨a, rfl⟩ := ka oa (List.mem_append_right _ List.mem_cons_self)
    obtain ⟨b, rfl⟩ := kb ob (List.mem_append_right _ List.mem_cons_self)
    simp only [List.getLast?_append, List.getLast?_singleton, Option.some_or, Option.some.injEq,
      Except.ok.injEq] at klast
    cases a <;> cases b <;> simp_all

/-! ## non-vacuity: the corner is reachable by genuine fragments -/

/-- **the corner is reachable from `start_update` by genuine fragments**: on every device that meets the hypotheses of
`start_update` for two 32 KiB slots, open a session for the image `[[7], [9]]`, deliver data fragment 1 and then coded
fragment 4 (row `01`: it only involves the block already present, so its reduced row is zero and nothing is stored).
The state reached satisfies the session invariant and is in the stage corner: `l = 1`, `used = 0`. -/
theorem corner_reachable (d : Dev) (hG : Good d) (hwf : WF d.flash) (hdev : 2 * 32768 ≤ d.flash.size)
    (hb0 : 0 < d.flash.block) (hdiv : 32768 % d.flash.block = 0) :
    ∃ u0 d0, (startUpdate 2 32768 1 2).run d = (.ok u0, d0) ∧
      Lawful (session false (C01.fragment false 2 1 (fun m => [7 + 2 * m])) [1, 4] (u0, d0)).2.1
        (session false (C01.fragment false 2 1 (fun m => [7 + 2 * m])) [1, 4] (u0, d0)).2.2 ∧
      (session false (C01.fragment false 2 1 (fun m => [7 + 2 * m])) [1, 4] (u0, d0)).2.1.l = 1 ∧
      (session false (C01.fragment false 2 1 (fun m => [7 + 2 * m])) [1, 4] (u0, d0)).2.1.used = 0 := by
  obtain ⟨u0, d0, hrun, hL, h1, h2, h3, h4, h5, h6, _⟩ :=
    startUpdate_lawful 2 32768 1 2 d hG hwf ((C15.accept_iff 32768 1 2 (by decide) (by decide)).2 (by decide))
      hdev hb0 hdiv (by omega)
  have himg : ∀ m, m < u0.n → IsBytes ((fun m => [7 + 2 * m]) m) ∧ ((fun m => [7 + 2 * m]) m).length = u0.bs := by
    intro m hm
    rw [h4] at hm
    refine ⟨fun b hb => ?_, by rw [h5]; rfl⟩
    simp only [List.mem_singleton] at hb
    omega
  have hrows : C01.RowsDefined false u0.n [1, 4] := by
    rw [h4]; exact C01.rowsDefined_std 2 (by omega) (by omega) _ (by decide)
  obtain ⟨_, c1, c2, _, _⟩ := C01.session_refines false u0 d0 (fun m => [7 + 2 * m]) [1, 4] hL ⟨h1, h2, h3⟩ himg hrows
    (by decide)
  rw [h4, h5] at c1 c2
  refine ⟨u0, d0, hrun, c1, ?_, ?_⟩
  · have := c2.2.2.1
    rw [h6, show capacity 32768 1 = 483 from by decide +kernel] at this
    exact this.trans (by decide +kernel)
  · have := c2.2.2.2.2.1
    rw [h6, show capacity 32768 1 = 483 from by decide +kernel] at this
    exact this.trans (by decide +kernel)

end Fuota.C07c
