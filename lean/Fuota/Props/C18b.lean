import Fuota.Lemmas.RefineCrashFault
import Fuota.Lemmas.RefineStartH
/-!
# C18b — a failed flash operation outside `finish` is repaired by redelivery (flash-level model)

`C18` proves, for the reconstructor model `Fuota.Recon`, that one failed storage call outside `finish` is repaired by
delivering the same block again. This file proves the same for the byte-level model `Fuota.Updater` on the NOR device
of `Fuota.Fs`, where a failed call is a failed *program* operation (`Dev.failAt`): the `k`-th mutating flash operation
from now fails once, with no effect on the array.

What a failed call can leave behind outside `finish` (`Updater.Interrupted`, `Updater.LawfulUpTo`):
* nothing (the first program of the call failed);
* **(i)** the data of one segment programmed, its written mark not — harmless: the mark reads erased, the abstraction
  does not see the bytes, and the redelivery programs identical bytes over them (`a &&& a = a`);
* **(ii)** one parity block programmed at a not yet used pivot, its matrix row not — an *orphan block*: the scan of the
  matrix rows does not see it, and the redelivery reduces the same fragment to the same pivot and programs the same
  bytes over it.

**Which continuation is covered.** The redelivery of the *same* fragment immediately after the failed call (then any
continuation: `fault_retry_continue_L2`, `fault_retry_seq_L2`). Not covered, and not true of the pinned tree: in
situation (ii) another coded fragment that reduces to the same pivot with *different* bytes before the redelivery (the
region is not erased on NOR; finding `row-lost`); and a failure inside `finish` (excluded here, as in C18, by "the
in-memory updater is still incomplete after the failed call").
-/
namespace Fuota.C18b
open Fuota.Nor Fuota.Fs Fuota.Updater Fuota.Recon Fuota.Layout Fuota.FlashAdapters

/-- **C18b (one failed program operation outside `finish`).** `(u, d)` satisfies the session invariant of C01; a
genuine fragment (number `idx1 ≠ 0`, `bs` bytes, row generator defined) is delivered while the `k`-th mutating flash
operation from now fails once. If the call answers an error and leaves the in-memory updater incomplete, then:
the fault is consumed and the device has no injection armed; the state left behind satisfies the relaxed invariant
`LawfulUpTo` and its abstraction has the old contents (with the stage the updater was left in); and delivering the
same fragment again is answered exactly as the delivery that never failed, re-establishes the session invariant, and
ends with the same abstraction. -/
theorem fault_retry_L2 (ffr : Bool) {u : Upd} {d : Dev} (L : Lawful u d) (idx1 : Nat) (hidx : idx1 ≠ 0)
    (bytes : List Nat) (hb : IsBytes bytes) (hlen : bytes.length = u.bs)
    (hrow : (updaterRow ffr u.n (idx1 - 1)).isSome = true) (k : Nat)
    (herr : ∃ er, ((handleSegment ffr idx1 bytes).run (u, d.withFault k)).1 = .error er)
    (hinc : rcComplete ((handleSegment ffr idx1 bytes).run (u, d.withFault k)).2.1 = false) :
    Good ((handleSegment ffr idx1 bytes).run (u, d.withFault k)).2.2 ∧
    LawfulUpTo ((handleSegment ffr idx1 bytes).run (u, d.withFault k)).2.1
      ((handleSegment ffr idx1 bytes).run (u, d.withFault k)).2.2 ∧
    C18.Equiv (abs ((handleSegment ffr idx1 bytes).run (u, d.withFault k)).2)
      { abs (u, d) with l := ((handleSegment ffr idx1 bytes).run (u, d.withFault k)).2.1.l } ∧
    ((handleSegment ffr idx1 bytes).run ((handleSegment ffr idx1 bytes).run (u, d.withFault k)).2).1 =
      ((handleSegment ffr idx1 bytes).run (u, d)).1 ∧
    Lawful ((handleSegment ffr idx1 bytes).run ((handleSegment ffr idx1 bytes).run (u, d.withFault k)).2).2.1
      ((handleSegment ffr idx1 bytes).run ((handleSegment ffr idx1 bytes).run (u, d.withFault k)).2).2.2 ∧
    C18.Equiv (abs ((handleSegment ffr idx1 bytes).run ((handleSegment ffr idx1 bytes).run (u, d.withFault k)).2).2)
      (abs ((handleSegment ffr idx1 bytes).run (u, d)).2) := by
  obtain ⟨index, rfl⟩ : ∃ index, idx1 = index + 1 := ⟨idx1 - 1, by omega⟩
  rw [Nat.add_sub_cancel] at hrow
  have I := fault_call ffr L index bytes hb hlen hrow k herr hinc
  obtain ⟨hG, hR, hd, hu, hfw⟩ := I.basic L
  have hseg : ((handleSegment ffr (index + 1) bytes).run (u, d.withFault k)).2.1.fw.segSize =
      some ((handleSegment ffr (index + 1) bytes).run (u, d.withFault k)).2.1.bs := by
    rw [hfw, hR.bs]; exact L.base.geo.hseg
  have R := I.repaired hlen hrow hG rfl hR (Or.inr rfl) hd hu (Or.inl hseg)
  exact ⟨hG, I.lawfulUpTo L, I.abs_eqv L, R.res, R.lawful_of_warm hseg, R.eqv⟩

/-- **C18b (…and the session goes on as if nothing had failed).** After the redelivery of `fault_retry_L2`, every
continuation (any fragment numbers, payloads of `bs` bytes, row generator defined) is answered exactly as in the
session that never failed, and ends with the same abstraction. -/
theorem fault_retry_continue_L2 (ffr : Bool) {u : Upd} {d : Dev} (L : Lawful u d) (idx1 : Nat) (hidx : idx1 ≠ 0)
    (bytes : List Nat) (hb : IsBytes bytes) (hlen : bytes.length = u.bs)
    (hrow : (updaterRow ffr u.n (idx1 - 1)).isSome = true) (k : Nat)
    (herr : ∃ er, ((handleSegment ffr idx1 bytes).run (u, d.withFault k)).1 = .error er)
    (hinc : rcComplete ((handleSegment ffr idx1 bytes).run (u, d.withFault k)).2.1 = false)
    (frag : Nat → List Nat) (hfrag : ∀ i, IsBytes (frag i) ∧ (frag i).length = u.bs) (is : List Nat)
    (his : ∀ i ∈ is, i ≠ 0) (hrows : C01.RowsDefined ffr u.n is) :
    (session ffr frag is
        ((handleSegment ffr idx1 bytes).run ((handleSegment ffr idx1 bytes).run (u, d.withFault k)).2).2).1 =
      (session ffr frag is ((handleSegment ffr idx1 bytes).run (u, d)).2).1 ∧
    C18.Equiv
      (abs (session ffr frag is
        ((handleSegment ffr idx1 bytes).run ((handleSegment ffr idx1 bytes).run (u, d.withFault k)).2).2).2)
      (abs (session ffr frag is ((handleSegment ffr idx1 bytes).run (u, d)).2).2) := by
  obtain ⟨index, rfl⟩ : ∃ index, idx1 = index + 1 := ⟨idx1 - 1, by omega⟩
  rw [Nat.add_sub_cancel] at hrow
  have I := fault_call ffr L index bytes hb hlen hrow k herr hinc
  obtain ⟨hG, hR, hd, hu, hfw⟩ := I.basic L
  have hseg : ((handleSegment ffr (index + 1) bytes).run (u, d.withFault k)).2.1.fw.segSize =
      some ((handleSegment ffr (index + 1) bytes).run (u, d.withFault k)).2.1.bs := by
    rw [hfw, hR.bs]; exact L.base.geo.hseg
  have R := I.repaired hlen hrow hG rfl hR (Or.inr rfl) hd hu (Or.inl hseg)
  exact R.continuation frag hfrag is his hrows

/-! ## any number of fault episodes -/

/-- A delivery sequence with fault episodes on the flash-level model. `(idx1, none)`: fragment `idx1` is delivered
without fault. `(idx1, some k)`: fragment `idx1` is delivered while the `k`-th mutating flash operation from now fails
once, and is then delivered again. The answer of the failed attempt is dropped; every other answer is recorded. -/
def episodes (ffr : Bool) (frag : Nat → List Nat) :
    List (Nat × Option Nat) → Upd × Dev → List (Except MErr Outcome) × (Upd × Dev)
  | [], s => ([], s)
  | (idx1, none) :: ds, s =>
    let r := (handleSegment ffr idx1 (frag (idx1 - 1))).run s
    let t := episodes ffr frag ds r.2
    (r.1 :: t.1, t.2)
  | (idx1, some k) :: ds, s =>
    let a := (handleSegment ffr idx1 (frag (idx1 - 1))).run (s.1, s.2.withFault k)
    let r := (handleSegment ffr idx1 (frag (idx1 - 1))).run a.2
    let t := episodes ffr frag ds r.2
    (r.1 :: t.1, t.2)

/-- every tagged delivery of the sequence is a fault outside `finish`: along the run, the failed attempt answers an
    error and leaves the in-memory updater incomplete -/
def FaultsOutsideFinish (ffr : Bool) (frag : Nat → List Nat) : List (Nat × Option Nat) → Upd × Dev → Prop
  | [], _ => True
  | (idx1, none) :: ds, s =>
    FaultsOutsideFinish ffr frag ds ((handleSegment ffr idx1 (frag (idx1 - 1))).run s).2
  | (idx1, some k) :: ds, s =>
    (∃ er, ((handleSegment ffr idx1 (frag (idx1 - 1))).run (s.1, s.2.withFault k)).1 = .error er) ∧
    rcComplete ((handleSegment ffr idx1 (frag (idx1 - 1))).run (s.1, s.2.withFault k)).2.1 = false ∧
    FaultsOutsideFinish ffr frag ds ((handleSegment ffr idx1 (frag (idx1 - 1))).run
      ((handleSegment ffr idx1 (frag (idx1 - 1))).run (s.1, s.2.withFault k)).2).2

/-- one fault-free delivery from two lawful states with the same abstraction: same answer, lawful again, same
    abstraction again, geometry unchanged -/
theorem step_ff (ffr : Bool) {x y : Upd} {dx dy : Dev} (LX : Lawful x dx) (LY : Lawful y dy)
    (hE : C18.Equiv (abs (x, dx)) (abs (y, dy))) (hm : x.maxL = y.maxL) (idx1 : Nat) (hidx : idx1 ≠ 0)
    (bytes : List Nat) (hb : IsBytes bytes) (hlen : bytes.length = y.bs)
    (hrow : (updaterRow ffr y.n (idx1 - 1)).isSome = true) :
    ((handleSegment ffr idx1 bytes).run (x, dx)).1 = ((handleSegment ffr idx1 bytes).run (y, dy)).1 ∧
    Lawful ((handleSegment ffr idx1 bytes).run (x, dx)).2.1 ((handleSegment ffr idx1 bytes).run (x, dx)).2.2 ∧
    Lawful ((handleSegment ffr idx1 bytes).run (y, dy)).2.1 ((handleSegment ffr idx1 bytes).run (y, dy)).2.2 ∧
    C18.Equiv (abs ((handleSegment ffr idx1 bytes).run (x, dx)).2) (abs ((handleSegment ffr idx1 bytes).run (y, dy)).2) ∧
    ((handleSegment ffr idx1 bytes).run (x, dx)).2.1.maxL = ((handleSegment ffr idx1 bytes).run (y, dy)).2.1.maxL ∧
    ((handleSegment ffr idx1 bytes).run (y, dy)).2.1.n = y.n ∧
    ((handleSegment ffr idx1 bytes).run (y, dy)).2.1.bs = y.bs := by
  have hn : x.n = y.n := hE.1
  have hbs : x.bs = y.bs := hE.2.1
  obtain ⟨s1, s2⟩ := session_equiv ffr (fun _ => bytes) [idx1] LY LX hE hm (fun _ => ⟨hb, hlen⟩)
    (fun i hi => by rw [List.mem_singleton.1 hi]; exact hidx)
    (fun i hi => by rw [List.mem_singleton.1 hi]; exact hrow)
  obtain ⟨lx, _, _, _, _, mx, _⟩ := handleSegment_lawful ffr idx1 bytes LX hb (by rw [hbs]; exact hlen)
    (by rw [hn]; exact hrow)
  obtain ⟨ly, _, _, ny, by', my, _⟩ := handleSegment_lawful ffr idx1 bytes LY hb hlen hrow
  refine ⟨?_, lx, ly, s2, by rw [mx, my, hm], ny, by'⟩
  have : ((handleSegment ffr idx1 bytes).run (x, dx)).1 :: [] = ((handleSegment ffr idx1 bytes).run (y, dy)).1 :: [] :=
    s1
  exact List.head_eq_of_cons_eq this

/-- the induction behind `fault_retry_seq_L2`, from two lawful states with the same abstraction -/
theorem fault_retry_seq_aux (ffr : Bool) (frag : Nat → List Nat) (n0 bs0 : Nat)
    (hfrag : ∀ i, IsBytes (frag i) ∧ (frag i).length = bs0) :
    ∀ (ds : List (Nat × Option Nat)) (x y : Upd) (dx dy : Dev), Lawful x dx → Lawful y dy →
      C18.Equiv (abs (x, dx)) (abs (y, dy)) → x.maxL = y.maxL → y.n = n0 → y.bs = bs0 →
      (∀ e ∈ ds, e.1 ≠ 0) → C01.RowsDefined ffr n0 (ds.map Prod.fst) →
      FaultsOutsideFinish ffr frag ds (x, dx) →
      (episodes ffr frag ds (x, dx)).1 = (session ffr frag (ds.map Prod.fst) (y, dy)).1 ∧
      C18.Equiv (abs (episodes ffr frag ds (x, dx)).2) (abs (session ffr frag (ds.map Prod.fst) (y, dy)).2) := by
  intro ds
  induction ds with
  | nil => intro x y dx dy _ _ hE _ _ _ _ _ _; exact ⟨rfl, hE⟩
  | cons e ds ih =>
    intro x y dx dy LX LY hE hm hn hbs hidx hrows hF
    obtain ⟨idx1, ok⟩ := e
    have hi : idx1 ≠ 0 := hidx (idx1, ok) List.mem_cons_self
    have hidx' : ∀ e ∈ ds, e.1 ≠ 0 := fun e he => hidx e (List.mem_cons_of_mem _ he)
    have hrow : (updaterRow ffr y.n (idx1 - 1)).isSome = true := by
      rw [hn]; exact hrows idx1 List.mem_cons_self
    have hrows' : C01.RowsDefined ffr n0 (ds.map Prod.fst) := fun i hi => hrows i (List.mem_cons_of_mem _ hi)
    obtain ⟨fb, fl⟩ := hfrag (idx1 - 1)
    have hxn : x.n = y.n := hE.1
    have hxbs : x.bs = y.bs := hE.2.1
    cases ok with
    | none =>
      obtain ⟨a1, a2, a3, a4, a5, a6, a7⟩ := step_ff ffr LX LY hE hm idx1 hi (frag (idx1 - 1)) fb (by rw [hbs]; exact fl)
        hrow
      obtain ⟨b1, b2⟩ := ih _ _ _ _ a2 a3 a4 a5 (a6.trans hn) (a7.trans hbs) hidx' hrows' hF
      refine ⟨?_, b2⟩
      show _ :: _ = _ :: _
      rw [a1, b1]
    | some k =>
      obtain ⟨herr, hinc, hF'⟩ := hF
      obtain ⟨index, rfl⟩ : ∃ index, idx1 = index + 1 := ⟨idx1 - 1, by omega⟩
      have hrowx : (updaterRow ffr x.n index).isSome = true := by
        rw [hxn, ← Nat.add_sub_cancel (n := index) (m := 1)]; exact hrow
      have hlenx : (frag (index + 1 - 1)).length = x.bs := by rw [hxbs, hbs]; exact fl
      have I := fault_call ffr LX index (frag (index + 1 - 1)) fb hlenx hrowx k herr hinc
      obtain ⟨hG, hR, hd, hu, hfw⟩ := I.basic LX
      have hseg : ((handleSegment ffr (index + 1) (frag (index + 1 - 1))).run (x, dx.withFault k)).2.1.fw.segSize =
          some ((handleSegment ffr (index + 1) (frag (index + 1 - 1))).run (x, dx.withFault k)).2.1.bs := by
        rw [hfw, hR.bs]; exact LX.base.geo.hseg
      have R := I.repaired hlenx hrowx hG rfl hR (Or.inr rfl) hd hu (Or.inl hseg)
      obtain ⟨a1, a2, a3, a4, a5, a6, a7⟩ := step_ff ffr LX LY hE hm (index + 1) hi (frag (index + 1 - 1)) fb
        (by rw [hbs]; exact fl) hrow
      have hm' : ((handleSegment ffr (index + 1) (frag (index + 1 - 1))).run
            ((handleSegment ffr (index + 1) (frag (index + 1 - 1))).run (x, dx.withFault k)).2).2.1.maxL =
          ((handleSegment ffr (index + 1) (frag (index + 1 - 1))).run (y, dy)).2.1.maxL := by
        rw [R.geo.2.2, ← R.geoff.2.2, a5]
      obtain ⟨b1, b2⟩ := ih _ _ _ _ (R.lawful_of_warm hseg) a3 (Fault.Eqv.trans R.eqv a4) hm' (a6.trans hn)
        (a7.trans hbs) hidx' hrows' hF'
      refine ⟨?_, b2⟩
      show _ :: _ = _ :: _
      rw [R.res, a1, b1]

/-- **C18b (any number of fault episodes).** From a state satisfying the session invariant, a delivery sequence in
which some deliveries suffer one failed program operation outside `finish` and are then redelivered produces the same
answers (those of the failed attempts aside) as the fault-free session with the same fragments, and ends with the same
abstraction. -/
theorem fault_retry_seq_L2 (ffr : Bool) (frag : Nat → List Nat) {u : Upd} {d : Dev} (L : Lawful u d)
    (hfrag : ∀ i, IsBytes (frag i) ∧ (frag i).length = u.bs) (ds : List (Nat × Option Nat))
    (hidx : ∀ e ∈ ds, e.1 ≠ 0) (hrows : C01.RowsDefined ffr u.n (ds.map Prod.fst))
    (h : FaultsOutsideFinish ffr frag ds (u, d)) :
    (episodes ffr frag ds (u, d)).1 = (session ffr frag (ds.map Prod.fst) (u, d)).1 ∧
    C18.Equiv (abs (episodes ffr frag ds (u, d)).2) (abs (session ffr frag (ds.map Prod.fst) (u, d)).2) :=
  fault_retry_seq_aux ffr frag u.n u.bs hfrag ds u u d d L L (Fault.Eqv.refl _) rfl rfl rfl hidx hrows h

/-! ## non-vacuity -/

/-- non-vacuity 1: in **every** stage-1 store situation (a lawful incomplete stage-1 state, a new data fragment) a fault
on the first or on the second program of the call satisfies the two hypotheses of `fault_retry_L2` -/
theorem fault_hyps_store1 (ffr : Bool) {u : Upd} {d : Dev} {i : Nat} {buf : List Nat} (S : Stage1Store u d i buf)
    (k : Nat) (hk : k < 2) :
    (∃ er, ((handleSegment ffr (i + 1) buf).run (u, d.withFault k)).1 = .error er) ∧
    rcComplete ((handleSegment ffr (i + 1) buf).run (u, d.withFault k)).2.1 = false := by
  rw [stage1_fault ffr S k hk]
  exact ⟨⟨_, rfl⟩, S.inc⟩

/-- non-vacuity 2: in **every** stage-2 situation in which the elimination loop decides to store a new pivot, a fault
on the first or on the second program of the pair satisfies the two hypotheses of `fault_retry_L2` -/
theorem fault_hyps_store2 (ffr : Bool) {u : Upd} {d : Dev} {index : Nat} {bytes : List Nat} {r p row' : Nat}
    {data' : List Nat} (hlen : bytes.length = u.bs) (hinc : rcComplete u = false) (hnt : ¬ tooManyCond u index)
    (hl0 : (adjU u index).l ≠ 0) (S : Stage2Store ffr (adjU u index) d index bytes r p row' data') (k : Nat)
    (hk : k < 2) :
    (∃ er, ((handleSegment ffr (index + 1) bytes).run (u, d.withFault k)).1 = .error er) ∧
    rcComplete ((handleSegment ffr (index + 1) bytes).run (u, d.withFault k)).2.1 = false := by
  have hrun := handleSegment_of_error ffr (index + 1) bytes (by omega) (u, d.withFault k) _ _ (by
    rw [Nat.add_sub_cancel, handleBlock_stage2_eq ffr u _ index bytes hlen hinc hnt hl0]
    exact S.run_fault k hk)
  rw [hrun]
  obtain ⟨hp, _, hup, _, _⟩ := S.facts
  exact ⟨⟨_, rfl⟩, rcComplete_stage2_false hl0 hp hup⟩

/-- `stripF` without present blocks returns the buffer -/
theorem stripF_nodone {u : Upd} (h : u.done = 0) (f : Flash) (row : Nat) : ∀ (is : List Nat) (d : List Nat),
    stripF u f row is d = d
  | [], _ => rfl
  | i :: is, d => by
    unfold stripF
    rw [h, Nat.zero_testBit, Bool.and_false, if_neg (by simp)]
    exact stripF_nodone h f row is d

/-- non-vacuity 3 (the delicate case exists): on every device that meets the hypotheses of `start_update` for two
32 KiB slots, open a session of two 1-byte fragments and deliver coded fragment 3 first (row `10`) while the second
program of the call fails. The call answers an error, the session stays incomplete — the hypotheses of
`fault_retry_L2` — and the state left behind has an orphan block at pivot 1. -/
theorem orphan_scenario (d : Dev) (hG : Good d) (hwf : WF d.flash) (hdev : 2 * 32768 ≤ d.flash.size)
    (hb0 : 0 < d.flash.block) (hdiv : 32768 % d.flash.block = 0) (b : Nat) (hb : b < 256) :
    ∃ u0 d0, (startUpdate 2 32768 1 2).run d = (.ok u0, d0) ∧ Lawful u0 d0 ∧
      (∃ er, ((handleSegment false 3 [b]).run (u0, d0.withFault 1)).1 = .error er) ∧
      rcComplete ((handleSegment false 3 [b]).run (u0, d0.withFault 1)).2.1 = false ∧
      OrphanBlock ((handleSegment false 3 [b]).run (u0, d0.withFault 1)).2.1
        ((handleSegment false 3 [b]).run (u0, d0.withFault 1)).2.2 1 [b] := by
  obtain ⟨u0, d0, sa, sb, hrun, LH, _, hl, hd, hu, hn, hbs, hm, _⟩ :=
    startUpdate_lawfulH 2 32768 1 2 d hG hwf ((C15.accept_iff 32768 1 2 (by decide) (by decide)).2 (by decide))
      hdev hb0 hdiv (by omega) (by decide +kernel)
  have L := LH.law
  refine ⟨u0, d0, hrun, L, ?_⟩
  have hinc : rcComplete u0 = false := by
    cases hc : rcComplete u0 with
    | false => rfl
    | true =>
      have := (rcComplete_stage1 u0 hl).1 hc 0 (by omega)
      rw [hd] at this; simp at this
  have hunk : (unknowns u0.done u0.n).length = 2 := by rw [hd, hn]; decide
  have hnt : ¬ tooManyCond u0 2 := by
    intro h
    have h3 := h.2.2
    rw [hunk, hm] at h3
    have : capacity 32768 1 = 483 := by decide +kernel
    rw [this] at h3
    rcases h3 with h3 | h3
    · exact absurd h3 (by decide)
    · omega
  have hadjl : (adjU u0 2).l = 2 := by
    unfold adjU; rw [if_pos ⟨by omega, hl⟩]; exact hunk
  have hl0 : (adjU u0 2).l ≠ 0 := by rw [hadjl]; omega
  obtain ⟨f1, f2, f3, f4, f5, f6, f7, f8⟩ := adjU_fields u0 2
  obtain ⟨L1, hinc1⟩ := adjU_stage2 L hinc 2 hnt hl0
  have hbytes : IsBytes [b] := fun x hx => by rw [List.mem_singleton.1 hx]; exact hb
  have S : Stage2Store false (adjU u0 2) d0 2 [b] 2 1 2 [b] := by
    refine ⟨L1, hl0, hbytes, by rw [f4, hbs]; rfl, by rw [f3, hn]; decide +kernel, ?_⟩
    rw [stripF_nodone (by rw [f5, hd]), hadjl, f5, f3, hd, hn, show project 0 2 2 = 2 from by decide]
    unfold elimF
    rw [f6, hu]
    simp [show Nat.testBit 2 1 = true from by decide]
  have hrunf := handleSegment_of_error false 3 [b] (by omega) (u0, d0.withFault 1) _ _ (by
    rw [show 3 - 1 = 2 from rfl, handleBlock_stage2_eq false u0 _ 2 [b] (by rw [hbs]; rfl) hinc hnt hl0]
    exact S.run_fault 1 (by omega))
  rw [hrunf]
  refine ⟨⟨_, rfl⟩, hinc1, ?_⟩
  exact ⟨d0, L1, hl0, by rw [hadjl]; omega, by rw [f6, hu]; simp, by rw [f4, hbs]; rfl, L.base.good.prog _ _, rfl⟩

end Fuota.C18b
