import Fuota.Model.Recon
import Fuota.Spec.Gf2
import Fuota.Props.C02
import Fuota.Lemmas.Echelon
/-!
# C03 — reconstruction finishes exactly at full rank; a refusal is a no-op; Done is sticky
-/
namespace Fuota.C03
open Fuota.Recon Fuota.Gf2 Fuota.C02

/-- reduced rows (over the unknown columns frozen when parity processing began) of the blocks handled since then -/
def acceptedRows (P : Nat → Nat) (done n : Nat) (is : List Nat) : List Nat := is.map (fun i => project done n (P i))

/-- one handle_block step, fault free -/
def step (V : Variant) (P : Nat → Nat) (vbits numRows : Nat) (s : St) (i d : Nat) : St × Res :=
  handleBlock V noFault P vbits numRows s i d s.bs

/-! ## (a) refusal -/

/-- **C03 (a).** A block is refused (`TooMany`) exactly when a parity-range block arrives in stage 1 of an incomplete
session that has more unknown blocks than one of the two capacities. -/
theorem refuse_iff (V : Variant) (P : Nat → Nat) (vbits numRows : Nat) (s : St) (i d : Nat) :
    (step V P vbits numRows s i d).2 = Res.tooMany ↔
      (isComplete s = false ∧ s.n ≤ i ∧ s.l = 0 ∧
        (vbits < (unknowns s.done s.n).length ∨ numRows < (unknowns s.done s.n).length)) := by
  unfold step
  rw [handleBlock_eq]
  by_cases hc : isComplete s = true
  · simp [hc]
  · have hc' : isComplete s = false := by simpa using hc
    rw [if_neg hc]
    by_cases hr : s.n ≤ i ∧ s.l = 0 ∧
        (vbits < (unknowns s.done s.n).length ∨ numRows < (unknowns s.done s.n).length)
    · rw [if_pos hr]
      exact ⟨fun _ => ⟨hc', hr⟩, fun _ => rfl⟩
    · rw [if_neg hr]
      constructor
      · intro h
        exfalso
        generalize (if s.n ≤ i ∧ s.l = 0 then { s with l := (unknowns s.done s.n).length } else s) = s' at h
        split at h
        · exact stage1_ne_tooMany _ _ _ _ _ h
        · exact stage2_ne_tooMany _ _ _ _ _ h
      · intro h
        exact absurd h.2 hr

/-- **C03 (a).** A refusal changes nothing: state, stores and log are exactly as before. -/
theorem refuse_noop (V : Variant) (P : Nat → Nat) (vbits numRows : Nat) (s : St) (i d : Nat)
    (h : (step V P vbits numRows s i d).2 = Res.tooMany) : (step V P vbits numRows s i d).1 = s := by
  obtain ⟨hc, hr⟩ := (refuse_iff V P vbits numRows s i d).1 h
  unfold step
  rw [handleBlock_eq, if_neg (by simp [hc]), if_pos hr]

/-! ## (b) Done is sticky -/

/-- **C03 (b).** Once the session is complete every further call returns `Done` with the full length and leaves the
state (hence stores and log) untouched. -/
theorem done_sticky (V : Variant) (P : Nat → Nat) (vbits numRows : Nat) (s : St) (i d : Nat)
    (h : isComplete s = true) : step V P vbits numRows s i d = (s, Res.done (s.n * s.bs)) := by
  unfold step
  rw [handleBlock_eq, if_pos h]

/-- **C03 (b).** In every run as in C02, if the last delivery reports `Done` then the final state is complete, so
`done_sticky` applies to every later delivery. -/
theorem done_then_complete (V : Variant) (n bs vbits numRows : Nat) (x P : Nat → Nat) (hP : Contract n P)
    (is : List Nat) (b : Nat) (hdone : (run V n bs vbits numRows x P is).2.getLast? = some (Res.done b)) :
    isComplete (run V n bs vbits numRows x P is).1 = true :=
  (run_inv V n bs vbits numRows x P hP is).2.2 b hdone

/-! ## (c) never before the data is determined -/

/-- **C03 (c).** `Done` is never reported before the delivered blocks determine the data: if two sets of originals
give the same delivered blocks and the run on the first reports `Done`, the two sets agree on all `n` blocks. -/
theorem done_determines (V : Variant) (n bs vbits numRows : Nat) (x x' P : Nat → Nat) (hP : Contract n P)
    (is : List Nat) (hsame : ∀ i ∈ is, combo x (P i) n = combo x' (P i) n)
    (b : Nat) (hdone : (run V n bs vbits numRows x P is).2.getLast? = some (Res.done b)) :
    ∀ m, m < n → x m = x' m := by
  have hrun : run V n bs vbits numRows x P is = run V n bs vbits numRows x' P is :=
    runBlocks_congr V noFault P vbits numRows _ _ is _ hsame
  intro m hm
  have h1 := ((recon_sound V n bs vbits numRows x P hP is).2.1 b hdone).2 m hm
  have h2 := ((recon_sound V n bs vbits numRows x' P hP is).2.1 b (hrun ▸ hdone)).2 m hm
  rw [← h1, ← h2, hrun]

/-! ## (d) completion exactly at full rank -/

/-- **C03 (d).** Start from any stage-2 entry state `s0` (`l` = number of unknown blocks, non-zero; no pivot stored
yet) and deliver the blocks `js` with arbitrary contents `blk`, fault free. The last delivery reports `Done` if and
only if the rows of `js`, restricted to the unknown columns, span every unit vector of the unknown space — i.e. exactly
when the received equations have full rank. (No assumption on the matrix, the capacity or the data is needed.) -/
theorem done_iff_span (V : Variant) (P : Nat → Nat) (vbits numRows : Nat) (blk : Nat → Nat) (s0 : St)
    (hl : s0.l = (unknowns s0.done s0.n).length) (hl0 : s0.l ≠ 0) (hu : s0.used = 0) (js : List Nat) :
    (∃ b, (runBlocks V noFault P vbits numRows blk s0 js).2.getLast? = some (Res.done b)) ↔
      ∀ u, u < s0.l → InSpan (acceptedRows P s0.done s0.n js) (2 ^ u) := by
  have h0 : EchInv [] s0 := {
    hl := hl, hl0 := hl0
    hech := fun p hp => by rw [hu] at hp; simp at hp
    hin := fun p hp => by rw [hu] at hp; simp at hp
    hout := fun r hr => by simp at hr }
  obtain ⟨hE, el, hlast⟩ := runBlocks_stage2 V P vbits numRows blk js [] s0 h0
  rw [List.nil_append] at hE
  have hiff := hE.complete_iff
  rw [el] at hiff
  unfold acceptedRows
  rw [← hiff]
  by_cases hjs : js = []
  · subst hjs
    simp only [runBlocks, List.getLast?_nil, reduceCtorEq, exists_const, false_iff]
    have : isComplete s0 = true ↔ ∀ i, i < s0.l → s0.used.testBit i = true := isComplete_stage2 s0 hl0
    intro hc
    have := this.1 hc 0 (by omega)
    rw [hu] at this; simp at this
  · rw [hlast hjs]
    by_cases hc : isComplete (runBlocks V noFault P vbits numRows blk s0 js).1 = true
    · simp [hc]
    · have hc' : isComplete (runBlocks V noFault P vbits numRows blk s0 js).1 = false := by simpa using hc
      simp [hc']

/-- non-vacuity of (d): 4 blocks of which 0 and 2 are present (unknown columns 1 and 3), stage 2 just entered; the
parity rows 6 = 0b0110 and 10 = 0b1010 project to 0b01 and 0b11, which span both unit vectors, and the run reports
`Done` on the second of them (but not on the first). -/
example :
    let P : Nat → Nat := fun m => if m < 4 then 2 ^ m else (m - 4) % 16
    let s0 : St := { n := 4, bs := 1, l := 2, done := 5 }
    s0.l = (unknowns s0.done s0.n).length ∧ s0.l ≠ 0 ∧ s0.used = 0 ∧
      acceptedRows P s0.done s0.n [10, 14] = [1, 3] ∧
      (runBlocks ⟨true⟩ noFault P 8 8 (fun _ => 0) s0 [10, 14]).2 = [.needMore, .done 4] ∧
      (runBlocks ⟨true⟩ noFault P 8 8 (fun _ => 0) s0 [10]).2 = [.needMore] := by
  decide +kernel

end Fuota.C03
