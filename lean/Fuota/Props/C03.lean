import Fuota.Model.Recon
import Fuota.Spec.Gf2
import Fuota.Props.C02
/-!
# C03 — reconstruction finishes exactly at full rank; a refusal is a no-op; Done is sticky
-/
namespace Fuota.C03
open Fuota.Recon Fuota.Gf2 Fuota.C02

/-- reduced rows (over the unknown columns frozen when parity processing began) of the blocks handled since then -/
def acceptedRows (P : Nat → Nat) (done n : Nat) (is : List Nat) : List Nat := is.map (fun i => project done n (P i))

/- TO PROVE (statements fixed; helper lemmas go to Fuota/Lemmas/…):

/-- one handle_block step, fault free -/
def step (V : Variant) (P : Nat → Nat) (vbits numRows : Nat) (s : St) (i d : Nat) : St × Res :=
  handleBlock V noFault P vbits numRows s i d s.bs

-- (a) refusal: exactly when a parity-range block arrives in stage 1 of an incomplete session with more unknown
--     blocks than the capacity; and it changes nothing (state, stores, log)
theorem refuse_iff (V) (P) (vbits numRows) (s : St) (i d : Nat) :
    (step V P vbits numRows s i d).2 = Res.tooMany ↔
      (isComplete s = false ∧ s.n ≤ i ∧ s.l = 0 ∧
        (vbits < (unknowns s.done s.n).length ∨ numRows < (unknowns s.done s.n).length))
theorem refuse_noop (V) (P) (vbits numRows) (s : St) (i d : Nat)
    (h : (step V P vbits numRows s i d).2 = Res.tooMany) : (step V P vbits numRows s i d).1 = s

-- (b) Done is sticky and silent: once complete, every call returns Done and the state (hence log) is unchanged
theorem done_sticky (V) (P) (vbits numRows) (s : St) (i d : Nat) (h : isComplete s = true) :
    step V P vbits numRows s i d = (s, Res.done (s.n * s.bs))
theorem done_then_complete : for every run as in C02 (`run V n bs vbits numRows x P is`), if the last result is
    `Res.done _` then `isComplete` holds of the final state (so `done_sticky` applies to every later delivery).

-- (c) never before the received blocks determine the data (corollary of C02.recon_sound):
theorem done_determines (V) (n bs vbits numRows) (x x' P : Nat → Nat) (hP : Contract n P) (is : List Nat)
    (hsame : ∀ i ∈ is, combo x (P i) n = combo x' (P i) n)
    (b : Nat) (hdone : (run V n bs vbits numRows x P is).2.getLast? = some (Res.done b)) :
    ∀ m, m < n → x m = x' m

-- (d) completion exactly at full rank. Stage 2 state reached from a stage-2 entry state `s0`
--     (s0.l = (unknowns s0.done s0.n).length ≠ 0, s0.used = 0) by handling the blocks `js` (none refused, since
--     refusals only happen in stage 1): the last step reports Done iff the projected rows of `js` span every unit
--     vector of the unknown space; i.e. with U := unknowns s0.done s0.n, l := U.length:
--       last result = done  ↔  ∀ u < l, InSpan (acceptedRows P s0.done s0.n js) (2 ^ u)
--     (proved via the echelon invariant: stored rows have distinct pivots, each stored row is in the span of the
--      accepted rows and each accepted row is in the span of the stored rows.)
theorem done_iff_span … (state it precisely in this style; keep the hypothesis list minimal and satisfiable, and add
   an `example` showing a concrete state/sequence meeting the hypotheses)
-/

end Fuota.C03
