import Fuota.Props.C08
import Fuota.Props.C01
import Fuota.Lemmas.RefineClean
/-!
# C08b — in crash-free sessions no program ever needs a 0 → 1 transition (completes C08 §2e)

`Props/C08.lean` proves the statement for `start_update` (`start_crash_free`) and, for `handle_segment`, only under
the hypothesis that the emitted operations obey the write-once discipline (`segment_no_zero_to_one_partial`).
The session invariant `Updater.Lawful` of C01 supplies exactly that: every program `handle_segment` emits goes to a
data segment / written mark not yet in `done`, or to a parity block / matrix row not yet in `used`, and those are
still erased.
-/
namespace Fuota.C08b
open Fuota.Nor Fuota.Fs Fuota.Updater Fuota.Ops Fuota.FlashAdapters

/-- under the write-once discipline every in-range program of the log reads back exactly what was written, at the
    moment it has been applied -/
theorem discipline_readback (f : Flash) (ops : List Op) (h : Discipline f ops)
    (hin : ∀ op ∈ ops, ∃ a bs, op = .program a bs ∧ a + bs.length ≤ f.size) :
    ∀ pre a bs post, ops = pre ++ .program a bs :: post →
      ((f.applyAll pre).apply (.program a bs)).read a bs.length = bs := by
  intro pre a bs post e
  subst e
  rw [Ops.discipline_append] at h
  obtain ⟨a', bs', e', hin'⟩ := hin (.program a bs) (by simp)
  injection e' with e1 e2
  subst e1; subst e2
  apply program_readback
  · rw [size_applyAll]; exact hin'
  · exact needsSet_erased_or_same _ _ _ h.2.1

/-- **C08 (no 0 → 1 transition, `handle_segment`).** On an updater and device satisfying the session invariant
(crash free, fault free), for any fragment number and any payload made of bytes: the device after
`handle_segment` is the device before with the emitted operations applied; these are programs inside the device,
each of which, at the moment it is applied, targets bytes that are erased (write-once discipline); hence **the
0 → 1 counter does not move**, and every emitted program reads back exactly what was written. -/
theorem segment_no_zero_to_one (ffr : Bool) (idx : Nat) (bytes : List Nat) (u : Upd) (d : Dev) (L : Lawful u d)
    (hb : IsBytes bytes) :
    let d' := ((handleSegment ffr idx bytes).run (u, d)).2.2
    d'.needsSet = d.needsSet ∧
    ∃ new, d'.ops = new ++ d.ops ∧ d'.flash = d.flash.applyAll new.reverse ∧ Discipline d.flash new.reverse ∧
      (∀ op ∈ new, ∃ a bs, op = .program a bs ∧ a + bs.length ≤ d.flash.size) ∧
      ∀ pre a bs post, new.reverse = pre ++ .program a bs :: post →
        ((d.flash.applyAll pre).apply (.program a bs)).read a bs.length = bs := by
  intro d'
  obtain ⟨new, h1, h2, h3, h4, h5⟩ := handleSegment_clean ffr L idx bytes hb
  refine ⟨h3, new, h1, h2, h4, h5, discipline_readback d.flash new.reverse h4 (fun op hop => ?_)⟩
  exact h5 op (List.mem_reverse.1 hop)

/-- **C08 (no 0 → 1 transition, whole sessions).** From any state satisfying the session invariant, delivering any
list of fragment numbers with payloads of `bs` bytes (row generator defined at these numbers): the 0 → 1 counter at
the end is the one at the beginning, the emitted operations obey the write-once discipline, and the invariant holds
at the end. -/
theorem session_no_zero_to_one (ffr : Bool) (frag : Nat → List Nat) :
    ∀ (is : List Nat) (u : Upd) (d : Dev), Lawful u d →
      (∀ i, IsBytes (frag i) ∧ (frag i).length = u.bs) → C01.RowsDefined ffr u.n is →
      Clean d (session ffr frag is (u, d)).2.2 ∧
      Lawful (session ffr frag is (u, d)).2.1 (session ffr frag is (u, d)).2.2 := by
  intro is
  induction is with
  | nil => intro u d L _ _; exact ⟨Clean.refl d, L⟩
  | cons idx1 is ih =>
    intro u d L hfrag hrows
    obtain ⟨hfb, hfl⟩ := hfrag (idx1 - 1)
    have hc := handleSegment_clean ffr L idx1 (frag (idx1 - 1)) hfb
    obtain ⟨hL', hS'⟩ := handleSegment_lawful ffr idx1 (frag (idx1 - 1)) L hfb hfl (hrows idx1 List.mem_cons_self)
    simp only [session]
    generalize (handleSegment ffr idx1 (frag (idx1 - 1))).run (u, d) = p at hc hL' hS' ⊢
    obtain ⟨res, u', d'⟩ := p
    obtain ⟨k1, k2, k3, k4, k5, k6⟩ := hS'
    simp only at hc hL' k3 k4
    obtain ⟨a1, a2⟩ := ih u' d' hL' (fun i => by rw [k4]; exact hfrag i)
      (fun i hi => by rw [k3]; exact hrows i (List.mem_cons_of_mem _ hi))
    exact ⟨hc.trans a1, a2⟩

/-- **C08 (no 0 → 1 transition, from `start_update` on).** On a device without armed injection holding bytes, with
at least two slots inside the device and the slot size a multiple of the erase-block size, for an accepted geometry:
after `start_update` and any crash-free, fault-free delivery of fragments of `sz` bytes (row generator defined at
their numbers) the counter of programs that needed a 0 → 1 transition still has the value it had before
`start_update`. -/
theorem needsSet_from_start (ffr : Bool) (nslots S sz n : Nat) (d : Dev) (hG : Good d) (hwf : WF d.flash)
    (hacc : reasonablySized S sz n = .ok ()) (hdev : nslots * S ≤ d.flash.size) (hb0 : 0 < d.flash.block)
    (hdiv : S % d.flash.block = 0) (hn : 2 ≤ nslots) (frag : Nat → List Nat)
    (hfrag : ∀ i, IsBytes (frag i) ∧ (frag i).length = sz) (is : List Nat) (hrows : C01.RowsDefined ffr n is) :
    ∃ u0 d0, (startUpdate nslots S sz n).run d = (.ok u0, d0) ∧ d0.needsSet = d.needsSet ∧
      (session ffr frag is (u0, d0)).2.2.needsSet = d.needsSet := by
  obtain ⟨u0, d0, hrun, hL, _, _, _, h4, h5, _⟩ := startUpdate_lawful nslots S sz n d hG hwf hacc hdev hb0 hdiv hn
  have hstart := (C08.start_crash_free nslots S sz n d ⟨hG.alive, hG.crash, hG.fail⟩ hn hb0 hdiv hdev hacc)
  obtain ⟨_, _, _, _, _, _, _, _, _, _, _, _, _, hns⟩ := hstart
  rw [hrun] at hns
  have hns0 : d0.needsSet = d.needsSet := hns
  obtain ⟨⟨_, _, _, c3, _⟩, _⟩ := session_no_zero_to_one ffr frag is u0 d0 hL (fun i => by rw [h5]; exact hfrag i)
    (by rw [h4]; exact hrows)
  exact ⟨u0, d0, hrun, hns0, c3.trans hns0⟩

end Fuota.C08b
