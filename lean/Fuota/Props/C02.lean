import Fuota.Model.Recon
import Fuota.Spec.Gf2
/-!
# C02 — the parity reconstructor never produces wrong data

Statement for **every** block count `n`, block size, original data `x`, contract-respecting matrix `P`,
capacity (`vbits`, `numRows`), both variants of the stage-1 store order, and every finite delivery sequence `is`
(any order, duplicates, late data blocks, parity first, dependent and all-zero rows) in which block `i` is the
XOR-combination `combo x (P i) n` of the originals.
-/
namespace Fuota.C02
open Fuota.Recon Fuota.Gf2

def init (n bs : Nat) : St := { n := n, bs := bs }

/-- the run the theorems talk about -/
def run (V : Variant) (n bs vbits numRows : Nat) (x P : Nat → Nat) (is : List Nat) : St × List Res :=
  runBlocks V noFault P vbits numRows (fun i => combo x (P i) n) (init n bs) is

/- TO PROVE (statement fixed):

theorem recon_sound (V : Variant) (n bs vbits numRows : Nat) (x P : Nat → Nat) (hP : Contract n P)
    (is : List Nat) :
    let r := run V n bs vbits numRows x P is
    -- (1) every block written to the data store, received or rebuilt, is the original block of that index
    (∀ m d, Call.dStore m d ∈ r.1.log → m < n ∧ d = x m) ∧
    -- (2) whenever the last delivery reports Done: the length is n*bs and the store holds exactly the originals
    (∀ b, r.2.getLast? = some (Res.done b) → b = n * bs ∧ ∀ m, m < n → get r.1.ds m = x m) ∧
    -- (3) no panic and no error outcome in a fault-free run
    (∀ res ∈ r.2, res ≠ Res.panic ∧ ∀ e, res ≠ Res.err e)
-/

end Fuota.C02
