import Fuota.Model.Recon
import Fuota.Spec.Gf2
import Fuota.Lemmas.ReconStep
/-!
# C02 — the parity reconstructor never produces wrong data

Statement for **every** block count `n`, block size, original data `x`, contract-respecting matrix `P`,
capacity (`vbits`, `numRows`), both variants of the stage-1 store order, and every finite delivery sequence `is`
(any order, duplicates, late data blocks, parity first, dependent and all-zero rows) in which block `i` is the
XOR-combination `combo x (P i) n` of the originals.
-/
namespace Fuota.C02
open Fuota.Recon Fuota.Gf2

/-- the state after `new` -/
def init (n bs : Nat) : St := { n := n, bs := bs }

/-- the run the theorems talk about -/
def run (V : Variant) (n bs vbits numRows : Nat) (x P : Nat → Nat) (is : List Nat) : St × List Res :=
  runBlocks V noFault P vbits numRows (fun i => combo x (P i) n) (init n bs) is

/-- the invariant of `Fuota.Recon.Inv` holds after every fault-free run from the initial state -/
theorem run_inv (V : Variant) (n bs vbits numRows : Nat) (x P : Nat → Nat) (hP : Contract n P) (is : List Nat) :
    Inv n bs vbits numRows x (run V n bs vbits numRows x P is).1 ∧
    (∀ res ∈ (run V n bs vbits numRows x P is).2, res = .needMore ∨ res = .tooMany ∨ res = .done (n * bs)) ∧
    (∀ b, (run V n bs vbits numRows x P is).2.getLast? = some (.done b) →
      isComplete (run V n bs vbits numRows x P is).1 = true) :=
  runBlocks_inv hP V is _ (inv_init n bs vbits numRows x)

/-- **C02.** In every fault-free run — any block count, block size, originals `x`, contract-respecting matrix,
capacity, store order and delivery sequence, each delivered block being the XOR-combination of the originals that
its matrix row prescribes — (1) every block ever written to the data store is the original block of that index,
(2) whenever the last delivery reports `Done` the reported length is `n * bs` and the data store holds exactly the
originals, and (3) no delivery ends in a panic or an error. -/
theorem recon_sound (V : Variant) (n bs vbits numRows : Nat) (x P : Nat → Nat) (hP : Contract n P)
    (is : List Nat) :
    let r := run V n bs vbits numRows x P is
    -- (1) every block written to the data store, received or rebuilt, is the original block of that index
    (∀ m d, Call.dStore m d ∈ r.1.log → m < n ∧ d = x m) ∧
    -- (2) whenever the last delivery reports Done: the length is n*bs and the store holds exactly the originals
    (∀ b, r.2.getLast? = some (Res.done b) → b = n * bs ∧ ∀ m, m < n → get r.1.ds m = x m) ∧
    -- (3) no panic and no error outcome in a fault-free run
    (∀ res ∈ r.2, res ≠ Res.panic ∧ ∀ e, res ≠ Res.err e) := by
  intro r
  obtain ⟨hI, hres, hlast⟩ := run_inv V n bs vbits numRows x P hP is
  refine ⟨hI.core.hlogD, ?_, ?_⟩
  · intro b hb
    refine ⟨?_, hI.full (hlast b hb)⟩
    have hmem : Res.done b ∈ r.2 := List.mem_of_getLast? hb
    rcases hres _ hmem with h | h | h
    · cases h
    · cases h
    · injection h
  · intro res hr
    rcases hres res hr with rfl | rfl | rfl
    · exact ⟨by simp, by simp⟩
    · exact ⟨by simp, by simp⟩
    · exact ⟨by simp, by simp⟩

/-- non-vacuity: the crate's unit-test run (4 blocks of one byte, identity rows then `(m-4) % 16`), delivered as
`[0, 2, 9, 10, 14]`, ends with `Done 4`, and the data store then holds the originals `x m = 17 * (m + 1)` -/
example :
    let P : Nat → Nat := fun m => if m < 4 then 2 ^ m else (m - 4) % 16
    let x : Nat → Nat := fun m => 17 * (m + 1)
    let r := run ⟨true⟩ 4 1 8 8 x P [0, 2, 9, 10, 14]
    Contract 4 P ∧ r.2 = [.needMore, .needMore, .needMore, .needMore, .done 4] ∧
      (List.range 4).map (get r.1.ds) = [17, 34, 51, 68] := by
  refine ⟨⟨fun m hm => by simp [hm], fun m => ?_⟩, by decide +kernel, by decide +kernel⟩
  by_cases hm : m < 4
  · simp only [hm, ↓reduceIte]
    exact Nat.pow_lt_pow_right (by omega) hm
  · simp only [hm, ↓reduceIte]; omega

end Fuota.C02
