import Fuota.Lemmas.PrbsFill
import Fuota.Spec.InteropVectors
import Fuota.Spec.Gf2
/-!
# C10 — parity rows = TS004 `matrix_line`

`Spec.matrixLine N M` (in `Fuota/Model/Lfdbt.lean`) is written from the TS004 pseudo-code and is tied to the
outside world by `interop_vectors` (fragments produced by an independent server).  The models of the three Rust
generators and of `UpdaterMatrix::row` are proved equal to it, for every `M ≤ 2^16` at the loop level and for every
`M ≤ 16384 = MAX_SEGMENTS` at the level of the public function (which asserts `buf.len() >= cap_m`).

Ranges.  `N`: `1 + 1001·N < 2^32` (no wrap of the `u32` seed; `N ≤ 4290676`).  `M ≤ 2^16`: beyond it the C/Rust loop
`r = 1 << 16; while r >= M` is not entered at all, and the halving argument of `draw_terminates` needs
`2^k + 1 ∤ 2^23 + 1` (false for `k = 23`).

Termination: `terminates` (no `force-full-r`, every `M`, every `u32` seed, explicit fuel);
`terminates_fullr_partial` (with `force-full-r`, under the hypothesis that the draw sequence shows `M / 2` distinct
fragments within the outer fuel) and `fullr_diverges_seed_zero` (the hypothesis cannot be dropped: the wrapped seed
`0`, reached for `N = 1240005543` in release builds, loops for ever).
-/
namespace Fuota.C10
open Fuota Fuota.Lfdbt

/-! ## seeds and moduli -/

theorem seed_lt (N : Nat) : seed N < 2 ^ 32 := by unfold seed; omega

theorem seed_eq {N : Nat} (h : 1 + 1001 * N < 2 ^ 32) : seed N = 1 + 1001 * N := by unfold seed; omega

/-- the only `u32` value of `cap_n` for which `1 + 1001_u32.wrapping_mul(cap_n)` overflows (C17) -/
theorem seedOverflows_iff {N : Nat} (h : N < 2 ^ 32) : seedOverflows N = true ↔ N = 1240005543 := by
  unfold seedOverflows
  simp only [beq_iff_eq]
  omega

/-- in release builds that seed wraps to 0, the fixed point of PRBS23 -/
theorem seed_wraps_to_zero : seed 1240005543 = 0 ∧ prbs23 0 = 0 := by decide

theorem spec_jig (M : Nat) : (if Spec.isPow2 M then 1 else 0) = jig M := by
  unfold jig; rw [isPow2_eq_spec]

theorem jig_le (M : Nat) : jig M ≤ 1 := by unfold jig; split <;> omega

/-! ## the loop level (`M ≤ 2^16`, any `u32` state) -/

/-- the loop of `get_parity_matrix_row` without `force-full-r`, from any `u32` seed -/
theorem rowGen_std {M : Nat} (h16 : M ≤ 2 ^ 16) (g N : Nat) :
    rowGen false N M = some (Spec.maskFrom 0 (Spec.draws (38 + g) M (jig M) (M / 2) (seed N))) := by
  unfold rowGen outerFuel
  exact fill_std h16 g (M / 2) (M / 2) 0 (seed N) 0 (seed_lt N) (by omega) (Nat.le_refl _)

/-- the bound put on the specification's `while` loop is irrelevant from 38 on -/
theorem matrixLineF_fuel_irrelevant {M N : Nat} (h16 : M ≤ 2 ^ 16) (hN : 1 + 1001 * N < 2 ^ 32) (g : Nat) :
    Spec.matrixLineF (38 + g) N M = Spec.matrixLine N M := by
  have a := rowGen_std h16 g N
  have b := rowGen_std h16 26 N
  rw [a, seed_eq hN] at b
  unfold Spec.matrixLine Spec.matrixLineF
  rw [spec_jig]
  exact Option.some.inj b

theorem rowGen_eq_spec {M N : Nat} (h16 : M ≤ 2 ^ 16) (hN : 1 + 1001 * N < 2 ^ 32) :
    rowGen false N M = some (Spec.matrixLine N M) := by
  rw [rowGen_std h16 26 N, seed_eq hN]
  unfold Spec.matrixLine Spec.matrixLineF
  rw [spec_jig]; rfl

/-! ## the three generators and the reconstructor-side matrix -/

/-- `flash_algo_new::fragmentation::get_parity_matrix_row(N, M, buf)` without `force-full-r`, on its whole
    assert-free domain `M ≤ MAX_SEGMENTS = 16384`, `N ≥ 1`, seed not wrapping -/
theorem row_new_eq_spec {M N : Nat} (hM : M ≤ 16384) (hN1 : 1 ≤ N) (hN : 1 + 1001 * N < 2 ^ 32) :
    getParityMatrixRow false N M = some (Spec.matrixLine N M) := by
  unfold getParityMatrixRow maxSegments
  rw [if_neg (by omega)]
  exact rowGen_eq_spec (by omega) hN

/-- `original_flash_algo::fragmentation::get_parity_matrix_row` (textually the same function) -/
theorem row_orig_eq_spec {M N : Nat} (hM : M ≤ 16384) (hN1 : 1 ≤ N) (hN : 1 + 1001 * N < 2 ^ 32) :
    getParityMatrixRowOrig false N M = some (Spec.matrixLine N M) :=
  row_new_eq_spec hM hN1 hN

/-- the two `assert!`s: exactly `cap_n = 0` and `cap_m > MAX_SEGMENTS` are refused (both cfgs) -/
theorem row_new_asserts (ffr : Bool) (N M : Nat) (h : N = 0 ∨ 16384 < M) : getParityMatrixRow ffr N M = none := by
  unfold getParityMatrixRow maxSegments
  rw [if_pos h]

/-- `LfdbtParity::new(M).row(m)`: identity below `M`, TS004 row `N` at index `M + N`
    (`row_index = m - M` is used as the TS004 row number; also true for `N = 0`, which TS004 never uses) -/
theorem row_lfdbt_eq_spec {M : Nat} (h16 : M ≤ 2 ^ 16) :
    (∀ N, 1 + 1001 * N < 2 ^ 32 → lfdbtRow M (M + N) = some (Spec.matrixLine N M)) ∧
    (∀ m, m < M → lfdbtRow M m = some (2 ^ m)) := by
  constructor
  · intro N hN
    unfold lfdbtRow
    rw [if_neg (by omega)]
    have hj : (if popcount M == 1 then 1 else 0) = jig M := rfl
    have := jig_le M
    simp only [hj]
    rw [show M + N - M = N by omega, Nat.mod_eq_of_lt (show N < 2 ^ 32 by omega),
      Nat.mod_eq_of_lt (show M + jig M < 2 ^ 32 by omega), seed_eq hN]
    rw [lfdbtFill_spec h16 26 (M / 2) _ 0 (by omega) (by omega)]
    unfold Spec.matrixLine Spec.matrixLineF
    rw [spec_jig]; rfl
  · intro m hm
    unfold lfdbtRow
    rw [if_pos hm]

/-- `UpdaterMatrix { num_blocks: M }.row(m)`: identity below `M`; 0-based row `M + N - 1`, i.e. the 1-based
    fragment index `M + N` of `handle_segment`, is TS004 row `N` (`cap_n = m - M + 1`) -/
theorem updater_matrix_row {M : Nat} (hM : M ≤ 16384) :
    (∀ N, 1 ≤ N → 1 + 1001 * N < 2 ^ 32 → updaterRow false M (M + N - 1) = some (Spec.matrixLine N M)) ∧
    (∀ ffr m, m < M → updaterRow ffr M m = some (2 ^ m)) := by
  constructor
  · intro N hN1 hN
    unfold updaterRow
    rw [if_neg (by omega), show M + N - 1 - M + 1 = N by omega, Nat.mod_eq_of_lt (show N < 2 ^ 32 by omega),
      Nat.mod_eq_of_lt (show M < 2 ^ 32 by omega)]
    exact row_new_eq_spec hM hN1 hN
  · intro ffr m hm
    unfold updaterRow
    rw [if_pos hm]

/-- with `force-full-r` the reconstructor-side matrix is whatever the device-side generator produces -/
theorem updater_matrix_row_cfg (ffr : Bool) {M N : Nat} (hM : M ≤ 16384) (hN1 : 1 ≤ N) (hN : N < 2 ^ 32) :
    updaterRow ffr M (M + N - 1) = getParityMatrixRow ffr N M := by
  unfold updaterRow
  rw [if_neg (by omega), show M + N - 1 - M + 1 = N by omega, Nat.mod_eq_of_lt hN,
    Nat.mod_eq_of_lt (show M < 2 ^ 32 by omega)]

/-! ## shape of a row -/

/-- rows never address a fragment `≥ M` (both cfgs, every `N`, also wrapped seeds) -/
theorem row_bounds (ffr : Bool) (N M row : Nat) (h : getParityMatrixRow ffr N M = some row) : row < 2 ^ M := by
  unfold getParityMatrixRow at h
  split at h
  · simp at h
  · exact fill_bound _ _ _ _ _ h (Nat.two_pow_pos M)

/-- rows are never empty for `M ≥ 2` (both cfgs) -/
theorem row_nonempty (ffr : Bool) (N M row : Nat) (hM : 2 ≤ M) (h : getParityMatrixRow ffr N M = some row) :
    row ≠ 0 := by
  unfold getParityMatrixRow at h
  split at h
  · simp at h
  · exact fill_nonzero _ _ _ _ _ h (Or.inr (by omega))

/-- with `force-full-r` a row holds exactly `⌊M/2⌋` fragments -/
theorem row_fullr_card (N M row : Nat) (h : getParityMatrixRow true N M = some row) : popcount row = M / 2 := by
  unfold getParityMatrixRow at h
  split at h
  · simp at h
  · exact fill_card _ _ _ _ _ h popcount_zero (Nat.zero_le _)

/-- the same facts for the specification rows, hence for `lfdbtRow` and `updaterRow` -/
theorem matrixLine_shape {M N : Nat} (h16 : M ≤ 2 ^ 16) (hN : 1 + 1001 * N < 2 ^ 32) :
    Spec.matrixLine N M < 2 ^ M ∧ (2 ≤ M → Spec.matrixLine N M ≠ 0) := by
  have h := rowGen_eq_spec h16 hN
  unfold rowGen at h
  exact ⟨fill_bound _ _ _ _ _ h (Nat.two_pow_pos M), fun hM => fill_nonzero _ _ _ _ _ h (Or.inr (by omega))⟩

/-- without `force-full-r` a row holds at most `⌊M/2⌋` fragments (duplicates collapse); e.g. 7 of 8 below -/
theorem row_std_weight_example : popcount (Spec.matrixLine 3 16) = 7 ∧ 16 / 2 = 8 := by
  have : Spec.matrixLine 3 16 = 0b0011010100000111 := by decide
  rw [this]
  simp [popcount]

/-! ## termination -/

/-- **Termination (no `force-full-r`).**  For every `M ≥ 1` (up to `2^16`) and *every* `u32` value of `cap_n`
    (wrapped seeds included): each inner draw loop ends within `38 ≤ drawFuel = 40` PRBS steps with a legal fragment
    number and a `u32` state, and the generator returns a row using `M / 2` outer iterations. -/
theorem terminates {M : Nat} (_h1 : 1 ≤ M) (h16 : M ≤ 2 ^ 16) :
    (2 ≤ M → ∀ x, x < 2 ^ 32 →
      ∃ x' r, (∀ g, drawLoop M (M + jig M) (38 + g) x (1 <<< 16) = some (x', r)) ∧ r < M ∧ x' < 2 ^ 32) ∧
    (∀ N, ∃ row, rowGen false N M = some row) ∧
    (∀ N, 1 ≤ N → M ≤ 16384 → ∃ row, getParityMatrixRow false N M = some row) := by
  refine ⟨fun h2 x hx => draw_terminates h2 h16 hx, fun N => ⟨_, rowGen_std h16 0 N⟩, ?_⟩
  intro N hN hM
  unfold getParityMatrixRow maxSegments
  rw [if_neg (by omega)]
  exact ⟨_, rowGen_std h16 0 N⟩

/-- `LfdbtParity::row` terminates as well (it has no `force-full-r`) -/
theorem terminates_lfdbt {M : Nat} (h16 : M ≤ 2 ^ 16) (m : Nat) (hm : 1 + 1001 * (m - M) < 2 ^ 32) :
    ∃ row, lfdbtRow M m = some row := by
  by_cases h : m < M
  · exact ⟨_, (row_lfdbt_eq_spec h16).2 m h⟩
  · have := (row_lfdbt_eq_spec h16).1 (m - M) hm
    rw [show M + (m - M) = m by omega] at this
    exact ⟨_, this⟩

/-- the orbit hypothesis of `terminates_fullr_partial`: the first `c` draws of the TS004 sequence for `(N, M)`
    contain `M / 2` distinct fragment numbers -/
def DistinctWithin (N M c : Nat) : Prop :=
  M / 2 ≤ popcount (Spec.maskFrom 0 (Spec.draws Spec.whileFuel M (if Spec.isPow2 M then 1 else 0) c (1 + 1001 * N)))

/-- **Termination with `force-full-r`, partial.**  MISSING: a proof of the hypothesis `DistinctWithin N M c` for
    some `c ≤ outerFuel true M = 64·(M+1)` — i.e. that the PRBS23 orbit of the seed `1 + 1001·N`, reduced modulo
    `M (+1)`, visits `M / 2` distinct residues soon enough (needs period/equidistribution facts about the LFSR).
    Under it the generator returns, and the row is the set of the first draws up to the `M / 2`-th distinct one. -/
theorem terminates_fullr_partial {M N : Nat} (h2 : 2 ≤ M) (hM : M ≤ 16384) (hN1 : 1 ≤ N) (hN : 1 + 1001 * N < 2 ^ 32)
    (horbit : ∃ c, c ≤ outerFuel true M ∧ DistinctWithin N M c) :
    ∃ row c, getParityMatrixRow true N M = some row ∧ popcount row = M / 2 ∧
      row = Spec.maskFrom 0 (Spec.draws Spec.whileFuel M (if Spec.isPow2 M then 1 else 0) c (1 + 1001 * N)) := by
  obtain ⟨c, hc, hd⟩ := horbit
  unfold DistinctWithin at hd
  rw [spec_jig] at hd ⊢
  have e : getParityMatrixRow true N M = fillLoop true M (M + jig M) (outerFuel true M) 0 (seed N) 0 := by
    unfold getParityMatrixRow maxSegments
    rw [if_neg (by omega)]; rfl
  obtain ⟨c', res, h, hres⟩ := fill_ffr_terminates h2 (show M ≤ 2 ^ 16 by omega) 26 (outerFuel true M) 0 (seed N) 0
    (seed_lt N) popcount_zero ⟨c, hc, by rw [seed_eq hN]; exact hd⟩
  rw [seed_eq hN] at hres
  exact ⟨res, c', e ▸ h, fill_card _ _ _ _ _ h popcount_zero (Nat.zero_le _), hres⟩

/-- the hypothesis cannot be dropped: from the wrapped seed `0` (`cap_n = 1240005543`, release arithmetic) every draw
    is fragment 0, and with `force-full-r` and `M = 4` no amount of fuel produces a row — the Rust loop never ends -/
theorem fullr_diverges_seed_zero : seed 1240005543 = 0 ∧ ∀ fuel, fillLoop true 4 (4 + jig 4) fuel 0 0 0 = none := by
  have hj : jig 4 = 1 := by
    unfold jig; rw [if_pos ((isPow2_iff 4).mpr ⟨2, rfl⟩)]
  have hd : drawLoop 4 5 drawFuel 0 (1 <<< 16) = some (0, 0) := by decide
  have h1 : ∀ fuel, fillLoop true 4 5 fuel 1 0 1 = none := by
    intro fuel
    induction fuel with
    | zero => rfl
    | succ f ih => rw [fillLoop_succ (by decide), hd]; exact ih
  refine ⟨by decide, fun fuel => ?_⟩
  rw [hj]
  cases fuel with
  | zero => rfl
  | succ f => rw [fillLoop_succ (by decide), hd]; exact h1 f

/-- … whereas without `force-full-r` the same call returns the row `{0}` -/
theorem std_seed_zero_row : getParityMatrixRow false 1240005543 4 = some 1 := by
  have hj : jig 4 = 1 := by
    unfold jig; rw [if_pos ((isPow2_iff 4).mpr ⟨2, rfl⟩)]
  unfold getParityMatrixRow rowGen
  rw [if_neg (by decide)]
  show fillLoop false 4 (4 + jig 4) _ 0 _ 0 = _
  rw [hj]; decide

/-! ## the specification is the one other implementations use -/

/-- the five coded fragments shipped in `test-assets/interop-test-file-fragmented.txt` (made by an independent
    server) are the XOR of the uncoded fragments selected by `matrixLine k 21`, `k = 1..5`
    (coded fragment `k` has index `21 + k`) -/
theorem interop_vectors :
    ∀ k ∈ [1, 2, 3, 4, 5],
      Gf2.combo (fun j => Interop.data.getD j 0) (Spec.matrixLine k 21) 21 = Interop.coded.getD (k - 1) 0 := by
  decide

/-- … and the vectors discriminate: numbering the rows from 0 (`x = 1 + 1001·(k-1)`) matches none of them -/
theorem interop_vectors_discriminate :
    ∀ k ∈ [1, 2, 3, 4, 5],
      Gf2.combo (fun j => Interop.data.getD j 0) (Spec.matrixLine (k - 1) 21) 21 ≠ Interop.coded.getD (k - 1) 0 := by
  decide

/-! ## non-vacuity -/

/-- the doc-test row of `get_parity_matrix_row(3, 16, …)` (cfg without `force-full-r`) -/
example : getParityMatrixRow false 3 16 = some 0b0011010100000111 := by
  rw [row_new_eq_spec (by decide) (by decide) (by decide)]; decide

/-- first reference row of `lfdbt.rs`'s unit test: `LfdbtParity::new(26).row(27)` = `0x1A331CB` -/
example : lfdbtRow 26 (26 + 1) = some 0x1A331CB := by
  rw [(row_lfdbt_eq_spec (by decide)).1 1 (by decide)]; decide

/-- `row(26)` of that test is `row_index = 0`, TS004 "row 0" -/
example : lfdbtRow 26 (26 + 0) = some 0x1555554 := by
  rw [(row_lfdbt_eq_spec (by decide)).1 0 (by decide)]; decide

example : updaterRow false 16 (16 + 3 - 1) = some 0b0011010100000111 := by
  rw [(updater_matrix_row (by decide)).1 3 (by decide) (by decide)]; decide

example : updaterRow true 16 5 = some 32 := (updater_matrix_row (M := 16) (by decide)).2 true 5 (by decide)

/-- the `force-full-r` doc-test row: 8 = 16/2 fragments, a superset of the standard row -/
theorem fullr_example : getParityMatrixRow true 3 16 = some 0b0011010100100111 := by
  have hj : jig 16 = 1 := by
    unfold jig; rw [if_pos ((isPow2_iff 16).mpr ⟨4, rfl⟩)]
  unfold getParityMatrixRow rowGen
  rw [if_neg (by decide)]
  show fillLoop true 16 (16 + jig 16) _ 0 _ 0 = _
  rw [hj]; decide

example : popcount 0b0011010100100111 = 16 / 2 := row_fullr_card 3 16 _ fullr_example

/-- the orbit hypothesis is satisfiable: 10 draws suffice for `(N, M) = (3, 16)` -/
example : ∃ c, c ≤ outerFuel true 16 ∧ DistinctWithin 3 16 c := by
  refine ⟨10, by decide, ?_⟩
  unfold DistinctWithin
  have : Spec.maskFrom 0 (Spec.draws Spec.whileFuel 16 (if Spec.isPow2 16 then 1 else 0) 10 (1 + 1001 * 3))
      = 0b0011010100100111 := by decide
  rw [this]; simp [popcount]

/-- power-of-two moduli: `M = 16` draws modulo 17, `M = 21` modulo 21 -/
example : jig 16 = 1 ∧ jig 21 = 0 := by
  constructor
  · unfold jig; rw [if_pos ((isPow2_iff 16).mpr ⟨4, rfl⟩)]
  · unfold jig; rw [isPow2_eq_spec]; decide

/-- a rejected draw really occurs (so the `while` is not vacuous): from `x = 33` with `M = 16` -/
example : prbs23 33 % 17 = 16 ∧ drawLoop 16 17 drawFuel 33 (1 <<< 16) = some (8, 8) := by decide

end Fuota.C10
