import Fuota.Model.Recon
import Fuota.Spec.Gf2
import Fuota.Props.C02
/-!
# C18 — a failed storage operation does not advance the reconstruction (L0 part)

A fault oracle `F : Nat → Bool` makes the storage call with that global index fail without effect on the store.
-/
namespace Fuota.C18
open Fuota.Recon Fuota.Gf2 Fuota.C02

/-- two reconstructor states that no later behaviour can distinguish: same scalars, same bit sets,
    same store *contents* (as maps). The call log and counter are history, not state. -/
def Equiv (a b : St) : Prop :=
  a.n = b.n ∧ a.bs = b.bs ∧ a.l = b.l ∧ a.done = b.done ∧ a.used = b.used ∧
  (∀ k, get a.ds k = get b.ds k) ∧ (∀ k, get a.ps k = get b.ps k) ∧ (∀ k, get a.ms k = get b.ms k)

/-- exactly the call with global index `k` fails -/
def faultAt (k : Nat) : Nat → Bool := fun c => c == k

/- TO PROVE (statements fixed; for the repaired store order `V.bitBeforeStore = false`):

-- behaviour depends on the state only through `Equiv`
theorem handleBlock_congr : Equiv a b → (handleBlock V noFault P vb nr a i d len).2 = (handleBlock V noFault P vb nr b i d len).2
      ∧ Equiv (handleBlock V noFault P vb nr a i d len).1 (handleBlock V noFault P vb nr b i d len).1

-- **fault_retry**: if exactly one storage call of `handleBlock s i d` fails and that call is not inside `finish`
-- (i.e. the faulted call returned an error from stage 1, strip, or the elimination loop), the call returns that
-- error, and delivering the same block again without fault gives the same result as the fault-free delivery and
-- an `Equiv` state. Formally, with s' := (handleBlock V (faultAt k) P vb nr s i d len).1 :
--   (handleBlock V (faultAt k) … s i d len).2 = Res.err e  →  ¬ InFinish  →
--   (handleBlock V noFault … s' i d len).2 = (handleBlock V noFault … s i d len).2 ∧
--   Equiv (handleBlock V noFault … s' i d len).1 (handleBlock V noFault … s i d len).1
-- where "not in finish" is expressed as: `isComplete (handleParity noFault s'' (P i) d).1 = false ∨ stage 1`
-- or more simply as the hypothesis `isComplete s' = false` (the faulted call left the session incomplete) —
-- choose the weakest hypothesis that makes the statement true and say why.

-- the pinned order loses the block: concrete witness, by `decide`
theorem pinned_order_loses_block :
    let V : Variant := { bitBeforeStore := true }
    let P : Nat → Nat := fun m => 2 ^ m
    let s0 : St := { n := 2, bs := 1 }
    let s1 := (handleBlock V (faultAt 0) P 8 8 s0 0 7 1).1          -- store of block 0 fails
    let r := handleBlock V noFault P 8 8 s1 0 7 1                    -- redelivery
    r.1.log.filter (fun c => c == Call.dStore 0 7) = [] ∧ r.1.done.testBit 0 = true   -- never stored, yet marked done

-- a fault inside `finish` is not recoverable: concrete witness, by `decide` (n = 2, l = 2: fail the last dStore of
-- finish; the redelivery answers Done although block index 1 was never stored).
theorem fault_in_finish_witness : …
-/

end Fuota.C18
