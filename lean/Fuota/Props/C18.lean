import Fuota.Model.Recon
import Fuota.Spec.Gf2
import Fuota.Props.C02
import Fuota.Lemmas.FaultRetry
/-!
# C18 — a failed storage operation does not advance the reconstruction (L0 part)

A fault oracle `F : Nat → Bool` makes the storage call with that global index fail without effect on the store.

Results (for the repaired store order `V.bitBeforeStore = false` unless said otherwise):

* `handleBlock_congr`   — fault-free behaviour depends on the state only through `Equiv` (both store orders);
* `fault_retry`         — one failed storage call outside `finish`, then redelivery of the same block, is
                          indistinguishable (result, and state up to `Equiv`) from the fault-free delivery;
* `fault_retry_seq`     — the same for any finite delivery sequence with any number of such episodes;
* `pinned_order_loses_block`, `fault_in_finish_witness` — the two ways in which this fails: the pinned store order
                          (bit before store), and a fault inside `finish`.

The proofs live in `Fuota/Lemmas/FaultCongr.lean`, `FaultBlock.lean`, `FaultRetry.lean`; they never use that the
oracle has a single fault, so `fault_retry_any_oracle` is stated for an arbitrary oracle.
-/
namespace Fuota.C18
open Fuota.Recon Fuota.Gf2 Fuota.C02

/-- two reconstructor states that no later behaviour can distinguish: same scalars, same bit sets,
    same store *contents* (as maps). The call log and counter are history, not state. -/
def Equiv (a b : St) : Prop :=
  a.n = b.n ∧ a.bs = b.bs ∧ a.l = b.l ∧ a.done = b.done ∧ a.used = b.used ∧
  (∀ k, get a.ds k = get b.ds k) ∧ (∀ k, get a.ps k = get b.ps k) ∧ (∀ k, get a.ms k = get b.ms k)

/-- exactly the call with global index `k` fails -/
def faultAt (k : Nat) : Nat → Bool := fun c => c == k

/-- `Equiv` is the relation the lemma files call `Fault.Eqv` (the two definitions are the same term) -/
theorem equiv_iff_eqv (a b : St) : Equiv a b ↔ Fault.Eqv a b := Iff.rfl

theorem Equiv.refl (a : St) : Equiv a a := Fault.Eqv.refl a
theorem Equiv.symm {a b : St} (h : Equiv a b) : Equiv b a := Fault.Eqv.symm h
theorem Equiv.trans {a b c : St} (h : Equiv a b) (g : Equiv b c) : Equiv a c := Fault.Eqv.trans h g

/-! ## congruence -/

/-- **Fault-free behaviour depends on the state only through `Equiv`.** Two states with the same scalars, bit sets
    and store contents answer every delivery alike and end in states that again have the same contents (they may
    differ in call log, call counter and in how the association lists represent the stores). Holds for both store
    orders. -/
theorem handleBlock_congr {a b : St} (V : Variant) (P : Nat → Nat) (vb nr i d len : Nat) (h : Equiv a b) :
    (handleBlock V noFault P vb nr a i d len).2 = (handleBlock V noFault P vb nr b i d len).2 ∧
    Equiv (handleBlock V noFault P vb nr a i d len).1 (handleBlock V noFault P vb nr b i d len).1 :=
  Fault.handleBlock_congr V P vb nr i d len h

/-! ## one fault, one redelivery -/

/-- `fault_retry` for an arbitrary oracle (any number of scheduled faults: the first one that fires ends the
    delivery). -/
theorem fault_retry_any_oracle (V : Variant) (hV : V.bitBeforeStore = false) (F : Nat → Bool) (P : Nat → Nat)
    (vb nr : Nat) (s : St) (i d len : Nat) (e : Err)
    (herr : (handleBlock V F P vb nr s i d len).2 = Res.err e)
    (hinc : isComplete (handleBlock V F P vb nr s i d len).1 = false) :
    (handleBlock V noFault P vb nr (handleBlock V F P vb nr s i d len).1 i d len).2
        = (handleBlock V noFault P vb nr s i d len).2 ∧
    Equiv (handleBlock V noFault P vb nr (handleBlock V F P vb nr s i d len).1 i d len).1
          (handleBlock V noFault P vb nr s i d len).1 :=
  Fault.handleBlock_retry hV F P vb nr s i d len _ e (Prod.ext rfl herr) hinc

/-- **A failed storage call outside `finish` is repaired by redelivering the block.**
    For every state `s`, block `(i, d, len)`, matrix, capacities and fault index `k`: if the delivery during which
    storage call number `k` fails answers an error and leaves the session incomplete, then delivering the same
    block once more (no fault) gives the same answer as a delivery that never failed, and a state with the same
    contents.

    *Choice of the "not inside `finish`" hypothesis.* `hinc : isComplete s' = false` is used because
    (1) it is a statement about the state the caller actually holds after the error (`is_complete()` is a public
    query), not about a hypothetical fault-free run;
    (2) it is what the proof needs and no more: an error that leaves the session incomplete cannot have come from
    `finish`, because `finish` only runs when the session is complete and never changes `l`, `n`, `done`, `used`
    (`Fault.tail2_err`, `Fault.finish_isComplete`); conversely an error raised inside `finish` always leaves
    `isComplete s' = true` (`Fault.tail2_complete`), so on those the hypothesis is false, as it must be
    (`fault_in_finish_witness`);
    (3) it is necessary in general: if `isComplete s' = true` the redelivery answers `Done` without touching
    storage (`C03.done_sticky`), which differs from the fault-free delivery whenever that one still had to store
    something;
    (4) the alternative "the fault-free `handleParity` from `s` does not complete the session" is strictly stronger
    on reachable states: it also rules out a fault in `strip`/the elimination loop of the block that *would* have
    completed the session, a case that is perfectly recoverable and is covered here (second `example` below). -/
theorem fault_retry (V : Variant) (hV : V.bitBeforeStore = false) (P : Nat → Nat) (vb nr : Nat)
    (s : St) (i d len k : Nat) (e : Err)
    (herr : (handleBlock V (faultAt k) P vb nr s i d len).2 = Res.err e)
    (hinc : isComplete (handleBlock V (faultAt k) P vb nr s i d len).1 = false) :
    (handleBlock V noFault P vb nr (handleBlock V (faultAt k) P vb nr s i d len).1 i d len).2
        = (handleBlock V noFault P vb nr s i d len).2 ∧
    Equiv (handleBlock V noFault P vb nr (handleBlock V (faultAt k) P vb nr s i d len).1 i d len).1
          (handleBlock V noFault P vb nr s i d len).1 :=
  fault_retry_any_oracle V hV (faultAt k) P vb nr s i d len e herr hinc

/-- non-vacuity 1 (stage 1): fresh session of two blocks, the store of data block 0 (storage call 0) fails -/
example :
    let V : Variant := { bitBeforeStore := false }
    let a := handleBlock V (faultAt 0) (fun m => 2 ^ m) 8 8 { n := 2, bs := 1 } 0 7 1
    a.2 = Res.err Err.data ∧ isComplete a.1 = false := by decide

/-- non-vacuity 2 (the delicate case, and a case the stronger hypothesis would exclude): `n = 2`, parity rows
    `P 2 = 01`, `P 3 = 10`; block 2 handled; during block 3 `pStore 1 6` (call 2) succeeds and `mSet 1 2` (call 3)
    fails. The session stays incomplete, the parity store has the orphan entry `(1, 6)`, and the fault-free
    delivery of block 3 would have completed the session (`Done 2`). -/
example :
    let V : Variant := { bitBeforeStore := false }
    let P : Nat → Nat := fun m => 2 ^ (m - 2)
    let s1 := (handleBlock V noFault P 8 8 { n := 2, bs := 1 } 2 5 1).1
    let a := handleBlock V (faultAt 3) P 8 8 s1 3 6 1
    a.2 = Res.err Err.matrix ∧ isComplete a.1 = false ∧ a.1.ps = [(1, 6), (0, 5)] ∧ a.1.used = 1 ∧
      (handleBlock V noFault P 8 8 s1 3 6 1).2 = Res.done 2 ∧
      (handleBlock V noFault P 8 8 a.1 3 6 1).2 = Res.done 2 := by decide

/-! ## any number of episodes -/

/-- A delivery sequence with fault episodes. `(i, none)`: block `i` is delivered without fault.
    `(i, some k)`: block `i` is delivered while storage call number `k` (global counter `St.calls`) fails, and is
    then delivered again without fault. The answer of the failed attempt is dropped; the answer of every other
    delivery is recorded. The buffer length is the session's block size, as in `runBlocks`. -/
def runEpisodes (V : Variant) (P : Nat → Nat) (vb nr : Nat) (blk : Nat → Nat) :
    St → List (Nat × Option Nat) → St × List Res
  | s, [] => (s, [])
  | s, (i, none) :: ds =>
    let (s1, r) := handleBlock V noFault P vb nr s i (blk i) s.bs
    let (s2, rs) := runEpisodes V P vb nr blk s1 ds
    (s2, r :: rs)
  | s, (i, some k) :: ds =>
    let s' := (handleBlock V (faultAt k) P vb nr s i (blk i) s.bs).1
    let (s1, r) := handleBlock V noFault P vb nr s' i (blk i) s.bs
    let (s2, rs) := runEpisodes V P vb nr blk s1 ds
    (s2, r :: rs)

/-- every tagged delivery of the sequence is a fault outside `finish`: along the run, the faulted attempt answers
    an error and leaves the session incomplete -/
def FaultsOutsideFinish (V : Variant) (P : Nat → Nat) (vb nr : Nat) (blk : Nat → Nat) :
    St → List (Nat × Option Nat) → Prop
  | _, [] => True
  | s, (i, none) :: ds =>
    FaultsOutsideFinish V P vb nr blk (handleBlock V noFault P vb nr s i (blk i) s.bs).1 ds
  | s, (i, some k) :: ds =>
    (∃ e, (handleBlock V (faultAt k) P vb nr s i (blk i) s.bs).2 = Res.err e) ∧
    isComplete (handleBlock V (faultAt k) P vb nr s i (blk i) s.bs).1 = false ∧
    FaultsOutsideFinish V P vb nr blk
      (handleBlock V noFault P vb nr (handleBlock V (faultAt k) P vb nr s i (blk i) s.bs).1 i (blk i) s.bs).1 ds

theorem fault_retry_seq_aux (V : Variant) (hV : V.bitBeforeStore = false) (P : Nat → Nat) (vb nr : Nat)
    (blk : Nat → Nat) :
    ∀ (ds : List (Nat × Option Nat)) (a b : St), Equiv a b → FaultsOutsideFinish V P vb nr blk a ds →
      (runEpisodes V P vb nr blk a ds).2 = (runBlocks V noFault P vb nr blk b (ds.map Prod.fst)).2 ∧
      Equiv (runEpisodes V P vb nr blk a ds).1 (runBlocks V noFault P vb nr blk b (ds.map Prod.fst)).1 := by
  intro ds
  induction ds with
  | nil => intro a b hab _; exact ⟨rfl, hab⟩
  | cons x ds ih =>
    intro a b hab hok
    obtain ⟨i, ok⟩ := x
    have hbs : a.bs = b.bs := hab.2.1
    cases ok with
    | none =>
      obtain ⟨hr, hs⟩ := handleBlock_congr V P vb nr i (blk i) a.bs hab
      obtain ⟨ihr, ihs⟩ := ih _ _ hs hok
      simp only [runEpisodes, runBlocks, List.map_cons, ← hbs]
      exact ⟨by rw [hr, ihr], ihs⟩
    | some k =>
      obtain ⟨⟨e, herr⟩, hinc, hok'⟩ := hok
      obtain ⟨hr1, hs1⟩ := fault_retry V hV P vb nr a i (blk i) a.bs k e herr hinc
      obtain ⟨hr2, hs2⟩ := handleBlock_congr V P vb nr i (blk i) a.bs hab
      obtain ⟨ihr, ihs⟩ := ih _ _ (hs1.trans hs2) hok'
      simp only [runEpisodes, runBlocks, List.map_cons, ← hbs]
      exact ⟨by rw [hr1, hr2, ihr], ihs⟩

/-- **Any number of fault episodes.** A delivery sequence in which some deliveries suffer one failed storage call
    outside `finish` and are then redelivered produces the same answers (those of the failed attempts aside) as the
    fault-free run of the same blocks, and ends in a state with the same contents. -/
theorem fault_retry_seq (V : Variant) (hV : V.bitBeforeStore = false) (P : Nat → Nat) (vb nr : Nat)
    (blk : Nat → Nat) (s : St) (ds : List (Nat × Option Nat))
    (h : FaultsOutsideFinish V P vb nr blk s ds) :
    (runEpisodes V P vb nr blk s ds).2 = (runBlocks V noFault P vb nr blk s (ds.map Prod.fst)).2 ∧
    Equiv (runEpisodes V P vb nr blk s ds).1 (runBlocks V noFault P vb nr blk s (ds.map Prod.fst)).1 :=
  fault_retry_seq_aux V hV P vb nr blk ds s s (Equiv.refl s) h

/-- non-vacuity: `n = 2`, blocks `x 0 = 5`, `x 1 = 6`, parity rows `P 2 = 01`, `P 3 = 10`. Deliveries: data block 0
    with its store failing (call 0) and redelivered; parity block 3 with `mSet` failing after `pStore` succeeded
    (call 3: the delicate case) and redelivered; parity block 3 again, fault free. Two episodes, three recorded
    answers, the session ends `Done`. -/
example :
    let V : Variant := { bitBeforeStore := false }
    let P : Nat → Nat := fun m => if m < 2 then 2 ^ m else 2 ^ (m - 2)
    let blk : Nat → Nat := fun m => if m = 0 ∨ m = 2 then 5 else 6
    let ds : List (Nat × Option Nat) := [(0, some 0), (3, some 3), (3, none)]
    FaultsOutsideFinish V P 8 8 blk { n := 2, bs := 1 } ds ∧
      (runEpisodes V P 8 8 blk { n := 2, bs := 1 } ds).2 = [Res.needMore, Res.done 2, Res.done 2] := by
  intro V P blk ds
  exact ⟨⟨⟨Err.data, by decide⟩, by decide, ⟨Err.matrix, by decide⟩, by decide, trivial⟩, by decide⟩

/-! ## the two ways to lose a block -/

/-- **The pinned store order loses the block.** Pinned order (`done` bit set before the store): the store of data
    block 0 fails (storage call 0). On redelivery the block is taken for a duplicate: no storage call is made
    (the log still holds only the failed attempt), the data store has no entry for block 0, yet block 0 is marked
    done and the answer is `NeedMore`. -/
theorem pinned_order_loses_block :
    let V : Variant := { bitBeforeStore := true }
    let P : Nat → Nat := fun m => 2 ^ m
    let s0 : St := { n := 2, bs := 1 }
    let a := handleBlock V (faultAt 0) P 8 8 s0 0 7 1                -- store of block 0 fails
    let r := handleBlock V noFault P 8 8 a.1 0 7 1                   -- redelivery
    a.2 = Res.err Err.data ∧ isComplete a.1 = false ∧
    r.2 = Res.needMore ∧ r.1.log = [Call.dStore 0 7] ∧ r.1.calls = 1 ∧   -- only the failed attempt was ever made
    r.1.ds.lookup 0 = none ∧ r.1.done.testBit 0 = true ∧                 -- never stored, yet marked done
    (handleBlock V noFault P 8 8 s0 0 7 1).1.ds.lookup 0 = some 7 := by  -- what a fault-free delivery stores
  decide

/-- **A fault inside `finish` is not recoverable by redelivery** (either store order). `n = 2`, both blocks unknown,
    parity rows `P 2 = 01`, `P 3 = 10`, so `l = 2`. Block 2 is handled, then block 3 completes the elimination and
    `finish` runs; its last `dStore` (rebuilt block 1, storage call 9) fails. The session is complete, so the
    redelivery answers `Done 2` without touching storage, although block 1 was never stored (a fault-free delivery
    stores `(1, 6)`). -/
theorem fault_in_finish_witness :
    let V : Variant := { bitBeforeStore := false }
    let P : Nat → Nat := fun m => 2 ^ (m - 2)
    let s0 : St := { n := 2, bs := 1 }
    let s1 := (handleBlock V noFault P 8 8 s0 2 5 1).1
    let a := handleBlock V (faultAt 9) P 8 8 s1 3 6 1                -- the last dStore of finish fails
    let r := handleBlock V noFault P 8 8 a.1 3 6 1                   -- redelivery
    a.2 = Res.err Err.data ∧ a.1.log.head? = some (Call.dStore 1 6) ∧ isComplete a.1 = true ∧
    r.2 = Res.done 2 ∧ r.1.calls = a.1.calls ∧ r.1.ds.lookup 1 = none ∧
    (handleBlock V noFault P 8 8 s1 3 6 1).2 = Res.done 2 ∧
    (handleBlock V noFault P 8 8 s1 3 6 1).1.ds.lookup 1 = some 6 := by
  decide

end Fuota.C18
