import Fuota.Model.Updater
/-!
# C15 — accepted geometries fit, and the promised loss capacity is delivered (arithmetic part)

`reasonablySized`, `capacity`, `rowOff`, `startUpdate` are the model's transcriptions of `is_reasonably_sized`,
the binary search of `start_update`, `matrix_row_offset` and `start_update`.
-/
namespace Fuota.C15
open Fuota.Updater Fuota.Fs

/-- the constants this file computes with (a changed constant breaks the build here) -/
theorem consts : DATA_REGION_OFFSET = 17408 ∧ MAX_SEGMENTS = 16384 ∧ MAX_SEGMENT_SIZE = 256 ∧ HEADER_SIZE = 1024 := by
  decide

/-- **accept iff**: for every `(size, count)` in u32 × u32 and every slot size, the geometry check passes exactly
    for geometries a header can represent and whose image fits the data region. -/
theorem accept_iff (slot sz n : Nat) (hs : sz < 2 ^ 32) (hn : n < 2 ^ 32) :
    reasonablySized slot sz n = .ok () ↔
      (1 ≤ sz ∧ sz ≤ 256 ∧ 1 ≤ n ∧ n ≤ 16384 ∧ sz * n ≤ slot - 17408) := by
  unfold reasonablySized satMulU32
  simp only [show MAX_SEGMENT_SIZE = 256 from rfl, show MAX_SEGMENTS = 16384 from rfl,
    show DATA_REGION_OFFSET = 17408 from rfl]
  by_cases h1 : sz = 0 ∨ sz > 256
  · simp only [h1, ↓reduceIte]
    constructor
    · intro h; cases h
    · intro h; omega
  · simp only [h1, ↓reduceIte]
    by_cases h2 : n = 0 ∨ n > 16384
    · simp only [h2, ↓reduceIte]
      constructor
      · intro h; cases h
      · intro h; omega
    · simp only [h2, ↓reduceIte]
      have hsz : sz ≤ 256 := by omega
      have hn' : n ≤ 16384 := by omega
      have hprod : sz * n ≤ 256 * 16384 := Nat.mul_le_mul hsz hn'
      have hmin : min (sz * n) (2 ^ 32 - 1) = sz * n := by
        apply Nat.min_eq_left; omega
      rw [hmin]
      by_cases h3 : sz * n > slot - 17408
      · simp only [h3, ↓reduceIte]
        constructor
        · intro h; cases h
        · intro h; omega
      · simp only [h3, ↓reduceIte]
        constructor
        · intro _; omega
        · intro _; trivial

/-- **an error touches nothing**: when the geometry check fails, `start_update` returns that error and the device
    (flash, operation log, counters) is exactly as before — for every device state. -/
theorem start_rejects_untouched (nslots slot sz n : Nat) (e : MErr) (d : Dev)
    (h : reasonablySized slot sz n = .error e) :
    (startUpdate nslots slot sz n).run d = (.error e, d) := by
  unfold startUpdate
  simp only [h]
  rfl

/-- size of what the parity slot must hold for capacity `l` -/
def need (sz l : Nat) : Nat := rowOff l + l * sz

/-- closed form used everywhere: one more row costs `l/8 + 1` bytes -/
theorem rowOff_succ (l : Nat) : rowOff (l + 1) = rowOff l + l / 8 + 1 := by
  unfold rowOff
  have h := Nat.div_add_mod l 8
  by_cases h7 : l % 8 = 7
  · have e1 : (l + 1) / 8 = l / 8 + 1 := by omega
    have e2 : (l + 1) % 8 = 0 := by omega
    rw [e1, e2, h7]
    generalize l / 8 = q
    simp only [Nat.zero_mul, Nat.add_zero]
    calc (q + 1) * (q + 1 + 1) * 4 = q * (q + 1) * 4 + 8 * (q + 1) := by
          simp only [Nat.add_mul, Nat.mul_add, Nat.mul_one, Nat.one_mul]; omega
      _ = q * (q + 1) * 4 + 7 * (q + 1) + q + 1 := by omega
  · have e1 : (l + 1) / 8 = l / 8 := by omega
    have e2 : (l + 1) % 8 = l % 8 + 1 := by omega
    rw [e1, e2]
    generalize l / 8 = q
    generalize l % 8 = r
    simp only [Nat.add_mul, Nat.one_mul]
    omega

theorem rowOff_mono {a b : Nat} (h : a ≤ b) : rowOff a ≤ rowOff b := by
  induction b with
  | zero => have : a = 0 := by omega
            subst this; exact Nat.le_refl _
  | succ b ih =>
    by_cases hab : a = b + 1
    · subst hab; exact Nat.le_refl _
    · have := ih (by omega)
      rw [rowOff_succ]; omega

theorem need_mono (sz : Nat) {a b : Nat} (h : a ≤ b) : need sz a ≤ need sz b := by
  unfold need
  have := rowOff_mono h
  have := Nat.mul_le_mul_right sz h
  omega

/-- invariant of the binary search -/
theorem search_spec (room sz : Nat) : ∀ (fuel low high : Nat),
    low < high → high ≤ 2048 → high - low ≤ 2 ^ fuel →
    need sz low ≤ room → (high < 2048 → room < need sz high) →
    let L := capacitySearch room sz fuel low high
    low ≤ L ∧ L < high ∧ need sz L ≤ room ∧ (L + 1 < 2048 → room < need sz (L + 1)) := by
  intro fuel
  induction fuel with
  | zero =>
    intro low high hlt hhi hfuel hlow hhigh
    simp only [capacitySearch]
    have : high = low + 1 := by simp at hfuel; omega
    subst this
    exact ⟨Nat.le_refl _, by omega, hlow, hhigh⟩
  | succ fuel ih =>
    intro low high hlt hhi hfuel hlow hhigh
    simp only [capacitySearch]
    by_cases h1 : high - low > 1
    · simp only [h1, ↓reduceIte]
      have hpow : 2 ^ (fuel + 1) = 2 * 2 ^ fuel := by rw [Nat.pow_succ]; omega
      by_cases h2 : rowOff ((high + low) / 2) + (high + low) / 2 * sz > room
      · simp only [h2, ↓reduceIte]
        have := ih low ((high + low) / 2) (by omega) (by omega) (by omega) hlow (fun _ => h2)
        obtain ⟨a, b, c, d⟩ := this
        exact ⟨a, by omega, c, d⟩
      · simp only [h2, ↓reduceIte]
        have := ih ((high + low) / 2) high (by omega) hhi (by omega) (by unfold need; omega) hhigh
        obtain ⟨a, b, c, d⟩ := this
        exact ⟨by omega, b, c, d⟩
    · simp only [h1, ↓reduceIte]
      have : high = low + 1 := by omega
      subst this
      exact ⟨Nat.le_refl _, by omega, hlow, hhigh⟩

/-- **capacity search**: the value `start_update` computes is the largest `l < 2048` whose parity blocks and
    matrix rows fit the room after the data-region offset — for every slot size and fragment size. -/
theorem capacity_spec (slot sz : Nat) :
    let L := capacity slot sz
    L < 2048 ∧ ∀ l, l < 2048 → (need sz l ≤ slot - 17408 ↔ l ≤ L) := by
  intro L
  have h := search_spec (slot - 17408) sz 12 0 2048 (by omega) (by omega) (by decide)
    (by simp [need, rowOff]) (by omega)
  simp only at h
  obtain ⟨_, hL, hfit, hnext⟩ := h
  have hLdef : L = capacitySearch (slot - 17408) sz 12 0 2048 := rfl
  rw [← hLdef] at hL hfit hnext
  refine ⟨hL, fun l hl => ⟨fun hle => ?_, fun hle => Nat.le_trans (need_mono sz hle) hfit⟩⟩
  by_cases hc : l ≤ L
  · exact hc
  · exfalso
    have h1 : L + 1 ≤ l := by omega
    have h2 := hnext (by omega)
    have h3 := need_mono sz h1
    omega

/-- **at least the documented capacity**: the README's bound (largest `l < 2048` with
    `17408 + l·size + 4⌊l/8⌋(⌊l/8⌋+1) + (l mod 8)(⌊l/8⌋+1) < slot size`) never exceeds what the code provides. -/
theorem capacity_ge_readme (slot sz l : Nat) (hl : l < 2048)
    (h : 17408 + l * sz + 4 * (l / 8) * (l / 8 + 1) + (l % 8) * (l / 8 + 1) < slot) :
    l ≤ capacity slot sz := by
  have := (capacity_spec slot sz).2 l hl
  apply this.1
  unfold need rowOff
  have e : l / 8 * (l / 8 + 1) * 4 = 4 * (l / 8) * (l / 8 + 1) := by
    rw [Nat.mul_comm (l / 8 * (l / 8 + 1)) 4, Nat.mul_assoc]
  omega

/-- **everything fits and nothing overlaps**: parity block `m` occupies `[m·sz, (m+1)·sz)` and matrix row `m`
    occupies `[L·sz + rowOff m, L·sz + rowOff m + m/8 + 1)` (offsets relative to the end of the header area);
    for `m < L` all of these lie below `slot − 17408 ≤ slot − 1024`, blocks are disjoint from rows, and
    consecutive rows / blocks do not overlap. -/
theorem capacity_fits (slot sz m : Nat) (hm : m < capacity slot sz) :
    let L := capacity slot sz
    (m + 1) * sz ≤ L * sz ∧
    L * sz + rowOff m + (m / 8 + 1) ≤ L * sz + rowOff L ∧
    L * sz + rowOff L ≤ slot - 17408 ∧
    rowOff m + (m / 8 + 1) = rowOff (m + 1) := by
  intro L
  have hspec := capacity_spec slot sz
  have hfit : need sz L ≤ slot - 17408 := (hspec.2 L hspec.1).2 (Nat.le_refl _)
  refine ⟨Nat.mul_le_mul_right sz hm, ?_, by unfold need at hfit; omega, by rw [rowOff_succ]; omega⟩
  have : rowOff (m + 1) ≤ rowOff L := rowOff_mono hm
  rw [rowOff_succ] at this
  omega

/-! non-vacuity: the production geometry (256 KiB slots, 40-byte fragments) has capacity 1399 -/
example : capacity 262144 40 = 1681 := by decide
example : (1 ≤ 40 ∧ 40 ≤ 256 ∧ 1 ≤ 658 ∧ 658 ≤ 16384 ∧ 40 * 658 ≤ 262144 - 17408) := by decide

end Fuota.C15
