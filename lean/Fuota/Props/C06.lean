import Fuota.Props.C07
/-!
# C06 — an interrupted update can be resumed (L0 part, repaired store order)

Crash semantics at the storage-trait level: power loss *before* storage call number `k` of a delivery means that this
call, and hence the rest of the delivery, does not happen; the in-memory state is lost; recovery rehydrates
(`C07.rehydrate`). Since `handleBlock` returns at the first failing call, the persisted state at the crash is the
state `handleBlock V (faultAt k) …` returns.

* `crash_resume_resend` — crash, reboot, the interrupted fragment is sent again: same answer and same contents as if
  nothing had happened;
* `crash_resume_lost`   — crash, reboot, the interrupted fragment is *not* sent again: every continuation behaves as
  from the state before that fragment (the fragment just counts as lost); the states agree up to an orphan parity block;
* `crash_resume_seq`    — any finite history of deliveries, crashes (resent or lost) and clean reboots;
  `crash_resume_sound` — with C02: whenever such a history answers `Done`, the data store holds the originals;
* `orphan_block_restored_witness`, `crash_in_finish_witness` — the two known findings `crash-site=row-lost` and
  `crash-site=finish`.

Hypotheses, and why: the crash is not inside `finish` (the rehydrated state is not complete; see
`crash_in_finish_witness` for what happens otherwise), and the interrupted delivery did not *start* in the corner
`l ≠ 0 ∧ used = 0` of C07 (`s.l = 0 ∨ s.used ≠ 0`). The latter is weaker than asking that the crashed state is
outside the corner (`not_corner_of_crashed`): a crash during the very first parity-range fragment, which leaves the
crashed state in the corner, is covered.
-/
namespace Fuota.C06
open Fuota.Recon Fuota.Gf2 Fuota.C02 Fuota.C18 Fuota.C07

/-- the state recovery rebuilds after power is lost before storage call number `k` of the delivery of `(i, d, len)` -/
def crashDuring (V : Variant) (P : Nat → Nat) (vb nr : Nat) (s : St) (i d len k : Nat) : St :=
  rehydrate (handleBlock V (faultAt k) P vb nr s i d len).1

/-- same contents except for *orphan* parity blocks: the parity stores need only agree at used pivots
    (this is `Fault.Frame`). `Equiv` implies it. -/
def EquivUpToOrphans (a b : St) : Prop :=
  a.n = b.n ∧ a.bs = b.bs ∧ a.l = b.l ∧ a.done = b.done ∧ a.used = b.used ∧
  (∀ k, get a.ds k = get b.ds k) ∧ (∀ k, get a.ms k = get b.ms k) ∧
  (∀ k, b.used.testBit k = true → get a.ps k = get b.ps k)

theorem equivUpToOrphans_iff_frame (a b : St) : EquivUpToOrphans a b ↔ Fault.Frame a b := Iff.rfl

theorem EquivUpToOrphans.of_equiv {a b : St} (h : Equiv a b) : EquivUpToOrphans a b := Fault.Frame.of_eqv h

/-- a crashed state that is not complete after recovery was not complete at the crash -/
theorem incomplete_of_rehydrate {s' : St} (hs : StageInv s') (h : isComplete (rehydrate s') = false) :
    isComplete s' = false := by
  by_cases hc : s'.l = 0 ∨ s'.used ≠ 0
  · rw [← Fault.Eqv.isComplete (rehydrate_equiv hs hc)]; exact h
  · have hl : s'.l ≠ 0 := fun h0 => hc (Or.inl h0)
    have hu : s'.used = 0 := Classical.byContradiction fun h0 => hc (Or.inr h0)
    have : (List.range s'.l).all (fun i => s'.used.testBit i) = false := by
      rw [List.all_eq_false]
      exact ⟨0, by simp; omega, by simp [hu]⟩
    simp [isComplete, hl, this]

/-- if the crashed state is outside the corner, so was the state before the interrupted delivery -/
theorem not_corner_of_crashed (V : Variant) (hV : V.bitBeforeStore = false) (F : Nat → Bool) (P : Nat → Nat)
    (vb nr : Nat) (s : St) (i d len : Nat) (e : Err)
    (herr : (handleBlock V F P vb nr s i d len).2 = Res.err e)
    (hinc : isComplete (handleBlock V F P vb nr s i d len).1 = false)
    (hc : (handleBlock V F P vb nr s i d len).1.l = 0 ∨ (handleBlock V F P vb nr s i d len).1.used ≠ 0) :
    s.l = 0 ∨ s.used ≠ 0 := by
  obtain ⟨-, -, -, hF⟩ := Fault.handleBlock_err_frame hV F P vb nr s i d len _ e (Prod.ext rfl herr) hinc
  obtain ⟨-, -, -, a4, -, -, -, a8⟩ := Fault.adj_fields s i
  rcases hc with hc | hc
  · by_cases hl : s.l = 0
    · exact Or.inl hl
    · exact absurd (by rw [← a8 hl, ← hF.2.2.1]; exact hc) hl
  · exact Or.inr (by rw [← a4, ← hF.2.2.2.2.1]; exact hc)

/-! ## 5. one crash -/

/-- **Crash, reboot, resend.** The delivery of `(i, d, len)` to `s` is cut by power loss before storage call `k`
    (`herr`: the cut really is inside this delivery), not inside `finish` (`hinc`), and `s` was not in the corner.
    Redelivering the same block to the recovered state gives the answer of the uninterrupted delivery from `s`, and a
    state with the same contents (an orphan parity block is overwritten with the same block). -/
theorem crash_resume_resend (V : Variant) (hV : V.bitBeforeStore = false) (P : Nat → Nat) (vb nr : Nat)
    (s : St) (i d len k : Nat) (e : Err) (hs : StageInv s) (hcorner : s.l = 0 ∨ s.used ≠ 0)
    (herr : (handleBlock V (faultAt k) P vb nr s i d len).2 = Res.err e)
    (hinc : isComplete (crashDuring V P vb nr s i d len k) = false) :
    (handleBlock V noFault P vb nr (crashDuring V P vb nr s i d len k) i d len).2
        = (handleBlock V noFault P vb nr s i d len).2 ∧
    Equiv (handleBlock V noFault P vb nr (crashDuring V P vb nr s i d len k) i d len).1
          (handleBlock V noFault P vb nr s i d len).1 :=
  Fault.crash_resend hV (faultAt k) P vb nr s i d len _ e hs hcorner (Prod.ext rfl herr)
    (incomplete_of_rehydrate (stageInv_preserved V (faultAt k) P vb nr s i d len hs) hinc)

/-- the recovered state is the state before the interrupted delivery, up to history and an orphan parity block -/
theorem crashDuring_frame (V : Variant) (hV : V.bitBeforeStore = false) (P : Nat → Nat) (vb nr : Nat)
    (s : St) (i d len k : Nat) (e : Err) (hs : StageInv s) (hcorner : s.l = 0 ∨ s.used ≠ 0)
    (herr : (handleBlock V (faultAt k) P vb nr s i d len).2 = Res.err e)
    (hinc : isComplete (crashDuring V P vb nr s i d len k) = false) :
    EquivUpToOrphans (crashDuring V P vb nr s i d len k) s :=
  Fault.crash_frame hV (faultAt k) P vb nr s i d len _ e hs hcorner (Prod.ext rfl herr)
    (incomplete_of_rehydrate (stageInv_preserved V (faultAt k) P vb nr s i d len hs) hinc)

/-- **Crash, reboot, fragment lost.** Same situation, but the interrupted fragment is not sent again: every
    continuation `js` gives, from the recovered state, the answers it gives from `s` itself, and the final states have
    the same contents up to orphan parity blocks. (At L0 the stores are maps and an orphan block is invisible; on NOR
    flash it is not — see `orphan_block_restored_witness`.) -/
theorem crash_resume_lost (V : Variant) (hV : V.bitBeforeStore = false) (P : Nat → Nat) (vb nr : Nat)
    (blk : Nat → Nat) (s : St) (i d len k : Nat) (e : Err) (hs : StageInv s) (hcorner : s.l = 0 ∨ s.used ≠ 0)
    (herr : (handleBlock V (faultAt k) P vb nr s i d len).2 = Res.err e)
    (hinc : isComplete (crashDuring V P vb nr s i d len k) = false) (js : List Nat) :
    (runBlocks V noFault P vb nr blk (crashDuring V P vb nr s i d len k) js).2
        = (runBlocks V noFault P vb nr blk s js).2 ∧
    EquivUpToOrphans (runBlocks V noFault P vb nr blk (crashDuring V P vb nr s i d len k) js).1
                     (runBlocks V noFault P vb nr blk s js).1 :=
  Fault.runBlocks_fcongr V P vb nr blk js _ _
    (crashDuring_frame V hV P vb nr s i d len k e hs hcorner herr hinc)

/-- non-vacuity of `crash_resume_resend` / `crash_resume_lost`, twice (`n = 2`, rows `P 2 = 01`, `P 3 = 10`):
    (a) fresh session, the *first* parity fragment (index 2) is cut before its `mSet 0` (call 1): the crashed state is
    in the corner (`l = 2`, `used = 0`) with the orphan `(0, 5)`, the state before was not, all hypotheses hold;
    (b) after fragment 2, fragment 3 is cut before `mSet 1` (call 3): orphan `(1, 6)`, all hypotheses hold. -/
example :
    let V : Variant := { bitBeforeStore := false }
    let P : Nat → Nat := fun m => 2 ^ (m - 2)
    let s0 : St := { n := 2, bs := 1 }
    let s1 := (handleBlock V noFault P 8 8 s0 2 5 1).1
    (StageInv s0 ∧ (s0.l = 0 ∨ s0.used ≠ 0) ∧ (handleBlock V (faultAt 1) P 8 8 s0 2 5 1).2 = Res.err Err.matrix ∧
      isComplete (crashDuring V P 8 8 s0 2 5 1 1) = false ∧
      (handleBlock V (faultAt 1) P 8 8 s0 2 5 1).1.l = 2 ∧ (handleBlock V (faultAt 1) P 8 8 s0 2 5 1).1.used = 0 ∧
      (crashDuring V P 8 8 s0 2 5 1 1).ps = [(0, 5)]) ∧
    (StageInv s1 ∧ (s1.l = 0 ∨ s1.used ≠ 0) ∧ (handleBlock V (faultAt 3) P 8 8 s1 3 6 1).2 = Res.err Err.matrix ∧
      isComplete (crashDuring V P 8 8 s1 3 6 1 3) = false ∧
      (crashDuring V P 8 8 s1 3 6 1 3).ps = [(1, 6), (0, 5)] ∧ (crashDuring V P 8 8 s1 3 6 1 3).used = 1) := by
  decide

/-! ## 6. any history -/

/-- what can happen between two fragments or during one -/
inductive Ev
  /-- fragment `i` is delivered without interruption -/
  | deliver (i : Nat)
  /-- power is lost before storage call number `k` (counter `St.calls`, which restarts at 0 after a reboot) of the
      delivery of fragment `i`; the device reboots and recovers; the fragment is then sent again, or not -/
  | crash (i k : Nat) (resend : Bool)
  /-- clean reboot between two fragments -/
  | reboot

/-- the history as the device lives it. Answers of completed deliveries are recorded (an interrupted delivery
    answers nobody). The buffer length is the session's block size, as in `runBlocks`. -/
def runEvents (V : Variant) (P : Nat → Nat) (vb nr : Nat) (blk : Nat → Nat) : St → List Ev → St × List Res
  | s, [] => (s, [])
  | s, .deliver i :: evs =>
    let (s1, r) := handleBlock V noFault P vb nr s i (blk i) s.bs
    let (s2, rs) := runEvents V P vb nr blk s1 evs
    (s2, r :: rs)
  | s, .crash i k true :: evs =>
    let c := crashDuring V P vb nr s i (blk i) s.bs k
    let (s1, r) := handleBlock V noFault P vb nr c i (blk i) s.bs
    let (s2, rs) := runEvents V P vb nr blk s1 evs
    (s2, r :: rs)
  | s, .crash i k false :: evs => runEvents V P vb nr blk (crashDuring V P vb nr s i (blk i) s.bs k) evs
  | s, .reboot :: evs => runEvents V P vb nr blk (rehydrate s) evs

/-- the fragments that were not lost, in order -/
def kept : List Ev → List Nat
  | [] => []
  | .deliver i :: evs => i :: kept evs
  | .crash i _ true :: evs => i :: kept evs
  | .crash _ _ false :: evs => kept evs
  | .reboot :: evs => kept evs

/-- along the history: every crash point lies inside its delivery and outside `finish`, and no crash or reboot
    happens while the session is in the corner `l ≠ 0 ∧ used = 0` -/
def HistoryOK (V : Variant) (P : Nat → Nat) (vb nr : Nat) (blk : Nat → Nat) : St → List Ev → Prop
  | _, [] => True
  | s, .deliver i :: evs => HistoryOK V P vb nr blk (handleBlock V noFault P vb nr s i (blk i) s.bs).1 evs
  | s, .crash i k true :: evs =>
    (s.l = 0 ∨ s.used ≠ 0) ∧ (∃ e, (handleBlock V (faultAt k) P vb nr s i (blk i) s.bs).2 = Res.err e) ∧
    isComplete (crashDuring V P vb nr s i (blk i) s.bs k) = false ∧
    HistoryOK V P vb nr blk
      (handleBlock V noFault P vb nr (crashDuring V P vb nr s i (blk i) s.bs k) i (blk i) s.bs).1 evs
  | s, .crash i k false :: evs =>
    (s.l = 0 ∨ s.used ≠ 0) ∧ (∃ e, (handleBlock V (faultAt k) P vb nr s i (blk i) s.bs).2 = Res.err e) ∧
    isComplete (crashDuring V P vb nr s i (blk i) s.bs k) = false ∧
    HistoryOK V P vb nr blk (crashDuring V P vb nr s i (blk i) s.bs k) evs
  | s, .reboot :: evs => (s.l = 0 ∨ s.used ≠ 0) ∧ HistoryOK V P vb nr blk (rehydrate s) evs

theorem crash_resume_seq_aux (V : Variant) (hV : V.bitBeforeStore = false) (P : Nat → Nat) (vb nr : Nat)
    (blk : Nat → Nat) :
    ∀ (evs : List Ev) (a b : St), StageInv a → EquivUpToOrphans a b → HistoryOK V P vb nr blk a evs →
      (runEvents V P vb nr blk a evs).2 = (runBlocks V noFault P vb nr blk b (kept evs)).2 ∧
      EquivUpToOrphans (runEvents V P vb nr blk a evs).1 (runBlocks V noFault P vb nr blk b (kept evs)).1 := by
  intro evs
  induction evs with
  | nil => intro a b _ hab _; exact ⟨rfl, hab⟩
  | cons ev evs ih =>
    intro a b ha hab hok
    have hbs : a.bs = b.bs := hab.2.1
    cases ev with
    | deliver i =>
      obtain ⟨hr, hs⟩ := Fault.handleBlock_fcongr V P vb nr i (blk i) a.bs hab
      obtain ⟨ihr, ihs⟩ := ih _ _ (stageInv_preserved V noFault P vb nr a i (blk i) a.bs ha) hs hok
      simp only [runEvents, kept, runBlocks, ← hbs]
      exact ⟨by rw [hr, ihr], ihs⟩
    | crash i k resend =>
      cases resend with
      | true =>
        obtain ⟨hcorner, ⟨e, herr⟩, hinc, hok'⟩ := hok
        obtain ⟨hr1, hs1⟩ := crash_resume_resend V hV P vb nr a i (blk i) a.bs k e ha hcorner herr hinc
        obtain ⟨hr2, hs2⟩ := Fault.handleBlock_fcongr V P vb nr i (blk i) a.bs hab
        have hinv : StageInv (handleBlock V noFault P vb nr (crashDuring V P vb nr a i (blk i) a.bs k)
            i (blk i) a.bs).1 :=
          stageInv_preserved V noFault P vb nr _ i (blk i) a.bs
            (stageInv_rehydrate (stageInv_preserved V (faultAt k) P vb nr a i (blk i) a.bs ha))
        obtain ⟨ihr, ihs⟩ := ih _ _ hinv (Fault.Frame.trans (Fault.Frame.of_eqv hs1) hs2) hok'
        simp only [runEvents, kept, runBlocks, ← hbs]
        exact ⟨by rw [hr1, hr2, ihr], ihs⟩
      | false =>
        obtain ⟨hcorner, ⟨e, herr⟩, hinc, hok'⟩ := hok
        have hf := crashDuring_frame V hV P vb nr a i (blk i) a.bs k e ha hcorner herr hinc
        have hinv : StageInv (crashDuring V P vb nr a i (blk i) a.bs k) :=
          stageInv_rehydrate (stageInv_preserved V (faultAt k) P vb nr a i (blk i) a.bs ha)
        simp only [runEvents, kept]
        exact ih _ _ hinv (Fault.Frame.trans hf hab) hok'
    | reboot =>
      obtain ⟨hcorner, hok'⟩ := hok
      simp only [runEvents, kept]
      exact ih _ _ (stageInv_rehydrate ha)
        (Fault.Frame.trans (Fault.Frame.of_eqv (rehydrate_equiv ha hcorner)) hab) hok'

/-- **Any history of deliveries, crashes and reboots.** Start from a state with the stage invariant (e.g. a fresh
    session). Let fragments be delivered, deliveries be cut by power loss outside `finish` and outside the corner,
    followed by reboot and either a resend or nothing, and clean reboots happen between fragments (outside the
    corner). Then the recorded answers are those of the fault-free run of the fragments that were not lost, and the
    final state has the contents of that run's final state, up to orphan parity blocks. -/
theorem crash_resume_seq (V : Variant) (hV : V.bitBeforeStore = false) (P : Nat → Nat) (vb nr : Nat)
    (blk : Nat → Nat) (s : St) (evs : List Ev) (hs : StageInv s) (hok : HistoryOK V P vb nr blk s evs) :
    (runEvents V P vb nr blk s evs).2 = (runBlocks V noFault P vb nr blk s (kept evs)).2 ∧
    EquivUpToOrphans (runEvents V P vb nr blk s evs).1 (runBlocks V noFault P vb nr blk s (kept evs)).1 :=
  crash_resume_seq_aux V hV P vb nr blk evs s s hs (Fault.Frame.refl s) hok

/-- **With C02: a resumed update never produces wrong data.** Fresh session, contract-respecting matrix, every
    delivered block the XOR-combination of the originals `x` its row prescribes, any history as above (which may end
    with a later full pass of the data). Whenever the last recorded answer is `Done b`: `b = n * bs` and the data
    store holds exactly the originals. -/
theorem crash_resume_sound (V : Variant) (hV : V.bitBeforeStore = false) (n bs vb nr : Nat) (x P : Nat → Nat)
    (hP : Contract n P) (evs : List Ev)
    (hok : HistoryOK V P vb nr (fun i => combo x (P i) n) (init n bs) evs) (b : Nat)
    (hdone : (runEvents V P vb nr (fun i => combo x (P i) n) (init n bs) evs).2.getLast? = some (Res.done b)) :
    b = n * bs ∧
    ∀ m, m < n → get (runEvents V P vb nr (fun i => combo x (P i) n) (init n bs) evs).1.ds m = x m := by
  obtain ⟨hr, hf⟩ := crash_resume_seq V hV P vb nr _ (init n bs) evs (stageInv_init n bs) hok
  rw [hr] at hdone
  obtain ⟨hb, hd⟩ := (recon_sound V n bs vb nr x P hP (kept evs)).2.1 b hdone
  refine ⟨hb, fun m hm => ?_⟩
  rw [hf.2.2.2.2.2.1 m]
  exact hd m hm

/-- non-vacuity of `crash_resume_seq` / `crash_resume_sound`: `n = 2`, originals `5, 6`, rows `P 2 = 01`, `P 3 = 10`,
    `P 4 = 11`. The first parity fragment is cut before its `mSet` and resent; clean reboot; fragment 3 is cut between
    `pStore 1` and `mSet 1` and lost; fragment 4 completes the session. Answers `[NeedMore, Done 2]`, data `5, 6`,
    and the parity store still shows the orphan `(1, 6)` under the final `(1, 3)`. -/
example :
    let V : Variant := { bitBeforeStore := false }
    let P : Nat → Nat := fun m => if m < 2 then 2 ^ m else m - 1
    let blk : Nat → Nat := fun i => combo (fun m => 5 + m) (P i) 2
    let evs : List Ev := [.crash 2 1 true, .reboot, .crash 3 1 false, .deliver 4]
    HistoryOK V P 8 8 blk (init 2 1) evs ∧ kept evs = [2, 4] ∧
      (runEvents V P 8 8 blk (init 2 1) evs).2 = [Res.needMore, Res.done 2] ∧
      (List.range 2).map (get (runEvents V P 8 8 blk (init 2 1) evs).1.ds) = [5, 6] ∧
      (runEvents V P 8 8 blk (init 2 1) evs).1.ps = [(1, 3), (1, 6), (0, 5), (0, 5)] := by
  intro V P blk evs
  exact ⟨⟨by decide, ⟨Err.matrix, by decide⟩, by decide, by decide, by decide, ⟨Err.matrix, by decide⟩, by decide,
    trivial⟩, by decide, by decide, by decide, by decide⟩

/-! ## the two known findings -/

/-- **Known finding `crash-site=row-lost`: under crash, `ParityStorage::store(p)` is called twice with different
    data.** `n = 2`, originals `5, 6`, rows `P 2 = 01`, `P 3 = 10`, `P 4 = 11`. Fragment 2 is handled. Fragment 3 is
    cut between `pStore 1 6` (call 2) and `mSet 1` (call 3): parity block 1 is on flash, its row and pivot bit are
    not. Reboot; fragment 3 is lost. Fragment 4 (`5 ^^^ 6 = 3`) arrives: pivot 1 is free, so the reconstructor calls
    `pStore 1 3` — the same parity slot, different data. At L0 (stores are maps) the session still completes with the
    right data; on NOR flash the slot would be programmed a second time without erase (bitwise AND of `6` and `3`).
    The trait contract "`store` is called at most once for each `m`" does not hold across a crash. -/
theorem orphan_block_restored_witness :
    let V : Variant := { bitBeforeStore := false }
    let P : Nat → Nat := fun m => if m < 2 then 2 ^ m else m - 1
    let s0 : St := { n := 2, bs := 1 }
    let s1 := (handleBlock V noFault P 8 8 s0 2 5 1).1
    let a := handleBlock V (faultAt 3) P 8 8 s1 3 6 1                -- cut between pStore 1 and mSet 1
    let c := crashDuring V P 8 8 s1 3 6 1 3                          -- reboot
    let r := handleBlock V noFault P 8 8 c 4 3 1                     -- fragment 3 lost, fragment 4 arrives
    a.2 = Res.err Err.matrix ∧ a.1.log.head? = some (Call.mSet 1 2) ∧
    Call.pStore 1 6 ∈ a.1.log ∧ a.1.used.testBit 1 = false ∧        -- before the reboot: parity slot 1 written, orphan
    Call.pStore 1 3 ∈ r.1.log ∧                                      -- after the reboot: written again, other data
    r.1.ps = [(1, 3), (1, 6), (0, 5)] ∧
    r.2 = Res.done 2 ∧ (List.range 2).map (get r.1.ds) = [5, 6] := by -- (L0: maps, so the data is still right)
  decide

/-- **Known finding `crash-site=finish`: a crash inside `finish` is not recoverable.** Numbers of
    `C18.fault_in_finish_witness`: `n = 2`, both blocks unknown, rows `P 2 = 01`, `P 3 = 10`. Fragment 3 completes the
    elimination (after the last `mSet`), `finish` runs and is cut before its last `dStore` (rebuilt block 1, call 9).
    After the reboot the session is complete (`used` = all pivots), so the resent fragment — and any other delivery —
    is answered `Done 2` without touching storage, although block 1 was never stored. -/
theorem crash_in_finish_witness :
    let V : Variant := { bitBeforeStore := false }
    let P : Nat → Nat := fun m => 2 ^ (m - 2)
    let s0 : St := { n := 2, bs := 1 }
    let s1 := (handleBlock V noFault P 8 8 s0 2 5 1).1
    let a := handleBlock V (faultAt 9) P 8 8 s1 3 6 1                -- cut before the last dStore of finish
    let c := crashDuring V P 8 8 s1 3 6 1 9                          -- reboot
    let r := handleBlock V noFault P 8 8 c 3 6 1                     -- resend
    let r' := handleBlock V noFault P 8 8 c 0 5 1                    -- or any other fragment
    a.2 = Res.err Err.data ∧ Call.mSet 1 2 ∈ a.1.log ∧ a.1.log.head? = some (Call.dStore 1 6) ∧
    StageInv s1 ∧ (s1.l = 0 ∨ s1.used ≠ 0) ∧ isComplete c = true ∧
    r.2 = Res.done 2 ∧ r'.2 = Res.done 2 ∧ r.1.calls = 0 ∧ r'.1.calls = 0 ∧
    r.1.ds.lookup 1 = none ∧ r'.1.ds.lookup 1 = none ∧
    (handleBlock V noFault P 8 8 s1 3 6 1).1.ds.lookup 1 = some 6 := by
  decide

end Fuota.C06
