import Fuota.Lemmas.RingLifeSteps
import Fuota.Props.C05
/-!
# C12 — boot status and fallback queries follow the update lifecycle

`blStatus` / `fallbackSlot` are the validated models of `bl_boot_status` / `fallback_firmware_slot` (`Model/Fs`).
Part 1 (pure, every slot count, every arrangement): which slots can influence the two answers.
Part 2: the refinement step — from the ghost/header consistency `LifeInv` (checked on every reachable state of the
machine by the closure computation of `Model/Slots`, not proved inductively) to the equality of the answers.
-/
namespace Fuota.C12
open Fuota.Layout Fuota.Fs Fuota.Updater Fuota.Slots Fuota.Ring

/-- a header that neither query looks at: a parity slot that is not confirmed, or any slot whose image is in
    progress, aborted or rejected -/
def Ignored (h : Header) : Prop :=
  (h.kind = Kind.parity ∧ totalStatus h ≠ TotalStatus.confirmedImage) ∨
  totalStatus h = TotalStatus.appWriteInProgress ∨ totalStatus h = TotalStatus.appWriteAborted ∨
  totalStatus h = TotalStatus.rejectedImage

theorem ignored_not_conf {h : Header} (hi : Ignored h) : ¬ Conf h := by
  unfold Ignored at hi
  unfold Conf
  rcases hi with ⟨_, h1⟩ | h1 | h1 | h1
  · exact h1
  all_goals (rw [h1]; simp)

theorem ignored_not_pending {h : Header} (hi : Ignored h) : ¬ PendingFw h := by
  unfold Ignored at hi
  unfold PendingFw
  rcases hi with ⟨h0, _⟩ | h1 | h1 | h1
  · rw [h0]; simp
  all_goals (rw [h1]; simp)

/-- **the fallback query ignores** parity / in-progress / aborted / rejected slots, wherever they lie: replacing
    such a header (or a blank slot) by another such header, or erasing it, does not change the answer. For every
    slot count and every arrangement. -/
theorem fallback_ignores (hs : Hdrs) (i : Nat) (v : Option Header)
    (hold : ∀ h, Used hs i h → Ignored h) (hnew : ∀ h, v = some h → Ignored h) :
    fallbackSlot (hs.set i v) = fallbackSlot hs :=
  (fallbackSlot_congr (used_set_of_not (c := Conf) (fun h hu => ignored_not_conf (hold h hu))
    (fun h hv => ignored_not_conf (hnew h hv)))).symm

/-- **the boot-status query ignores** the same slots -/
theorem blStatus_ignores (hs : Hdrs) (i : Nat) (v : Option Header)
    (hold : ∀ h, Used hs i h → Ignored h) (hnew : ∀ h, v = some h → Ignored h) :
    blStatus (hs.set i v) = blStatus hs :=
  (blStatus_congr (used_set_of_not (c := PendingFw) (fun h hu => ignored_not_pending (hold h hu))
    (fun h hv => ignored_not_pending (hnew h hv)))).symm

/-- the fallback query does not look at the kind of pending / unconfirmed slots at all: only confirmed images count -/
theorem fallback_only_confirmed (hs hs' : Hdrs)
    (h : ∀ j hd, Conf hd → (Used hs j hd ↔ Used hs' j hd)) : fallbackSlot hs = fallbackSlot hs' :=
  fallbackSlot_congr h

/-- the boot-status query only looks at firmware slots that are copy- or acknowledgement-pending -/
theorem blStatus_only_pending (hs hs' : Hdrs)
    (h : ∀ j hd, PendingFw hd → (Used hs j hd ↔ Used hs' j hd)) : blStatus hs = blStatus hs' :=
  blStatus_congr h

/-! ## sequence numbers order the slots of the arc -/

/-- pointwise reading of `SeqInv` -/
theorem seqInv_iff {n : Nat} {hs : Hdrs} {low ls : Nat} (hl : lowOf hs = some (low, ls)) :
    SeqInv n hs ↔ ∀ i h j h', Used hs i h → Used hs j h' → off n low i < off n low j →
      h.seq + (off n low j - off n low i) ≤ h'.seq := by
  unfold SeqInv
  rw [hl]
  constructor
  · intro hh i h j h' hu hu'
    exact hh (i, h) (mem_indexed.mpr hu) (j, h') (mem_indexed.mpr hu')
  · intro hh p hp q hq
    exact hh p.1 p.2 q.1 q.2 (mem_indexed.mp hp) (mem_indexed.mp hq)

/-- ring offsets from a slot of the ring tell slots apart -/
theorem off_inj {n low i j : Nat} (hl : low < n) (hi : i < n) (hj : j < n) (h : off n low i = off n low j) : i = j := by
  unfold off at h
  have a := off_cases n low i hi hl
  have b := off_cases n low j hj hl
  omega

/-- **sequence numbers order confirmation**: under the ring invariant two different used slots never carry the same
    sequence number, and the one further along the arc carries the larger one — so "newest confirmed image" and
    "confirmed image with the largest sequence number" (what `fallbackSlot` computes) are the same slot. -/
theorem seq_orders_confirmation {n : Nat} {hs : Hdrs} (hlen : hs.length = n) (hseq : SeqInv n hs)
    {low ls : Nat} (hl : lowOf hs = some (low, ls))
    {i j : Nat} {h h' : Header} (hu : Used hs i h) (hu' : Used hs j h') (hij : i ≠ j) :
    (h.seq < h'.seq ↔ off n low i < off n low j) ∧ h.seq ≠ h'.seq := by
  have hh := (seqInv_iff hl).mp hseq
  obtain ⟨hlo, hlou, -⟩ := lowOf_eq_some.mp hl
  have hlown : low < n := hlen ▸ used_lt hlou
  have hin : i < n := hlen ▸ used_lt hu
  have hjn : j < n := hlen ▸ used_lt hu'
  have hne : off n low i ≠ off n low j := fun e => hij (off_inj hlown hin hjn e)
  have h1 := hh i h j h' hu hu'
  have h2 := hh j h' i h hu' hu
  constructor
  · constructor
    · intro hlt
      rcases Nat.lt_or_gt_of_ne hne with h3 | h3
      · exact h3
      · have := h2 h3; omega
    · intro hlt
      have := h1 hlt; omega
  · rcases Nat.lt_or_gt_of_ne hne with h3 | h3
    · have := h1 h3; omega
    · have := h2 h3; omega

/-! ## the refinement step -/

/-- at most one image is awaiting bootloader copy or first-boot acknowledgement (the property's proviso) -/
def AtMostOnePending (s : State) : Prop :=
  ∀ i ∈ List.range s.life.length, ∀ j ∈ List.range s.life.length,
    (lifeAt s i = some .copyPend ∨ lifeAt s i = some .ackPend) →
    (lifeAt s j = some .copyPend ∨ lifeAt s j = some .ackPend) → i = j

instance (s : State) : Decidable (AtMostOnePending s) := by unfold AtMostOnePending; infer_instance

theorem lifeAt_none {s : State} {i : Nat} (h : ¬ i < s.life.length) : lifeAt s i = none := by
  unfold lifeAt
  simp [List.getD, List.getElem?_eq_none (Nat.le_of_not_lt h)]

theorem atMostOne_all {s : State} (h : AtMostOnePending s) (i j : Nat)
    (hi : lifeAt s i = some .copyPend ∨ lifeAt s i = some .ackPend)
    (hj : lifeAt s j = some .copyPend ∨ lifeAt s j = some .ackPend) : i = j := by
  have hil : i < s.life.length := by
    by_cases hlt : i < s.life.length
    · exact hlt
    · rw [lifeAt_none hlt] at hi; simp at hi
  have hjl : j < s.life.length := by
    by_cases hlt : j < s.life.length
    · exact hlt
    · rw [lifeAt_none hlt] at hj; simp at hj
  exact h i (List.mem_range.mpr hil) j (List.mem_range.mpr hjl) hi hj

theorem lifeAt_used {s : State} (hinv : LifeInv s) {i : Nat}
    (h : lifeAt s i = some .copyPend ∨ lifeAt s i = some .ackPend ∨ (Life.rank? (lifeAt s i)).isSome) :
    ∃ hd, Used s.hs i hd := by
  have hi : i < s.life.length := by
    by_cases hlt : i < s.life.length
    · exact hlt
    · exfalso
      rw [lifeAt_none hlt] at h
      simp [Life.rank?] at h
  have := hinv.2.1 i (List.mem_range.mpr hi) h
  cases hg : s.hs[i]? with
  | none => simp [List.getD, hg] at this
  | some o =>
    cases o with
    | none => simp [List.getD, hg] at this
    | some hd => exact ⟨hd, hg⟩

/-- **`life_refines`, refinement step** (`_partial`: the ghost/header consistency `LifeInv` is a hypothesis; it is
    checked on every reachable state by the closure computation, not proved inductively). With at most one image
    pending: the boot-status query answers copy-incomplete for exactly the slot the lifecycle has copy-pending,
    load-unacknowledged for exactly the acknowledgement-pending one, idle iff nothing is pending; the fallback query
    answers exactly the most recently confirmed slot, none iff nothing was confirmed. -/
theorem life_refines_partial (s : State) (hinv : LifeInv s) (hone' : AtMostOnePending s) :
    (∀ i, blStatus s.hs = some (.inl i) ↔ lifeAt s i = some .copyPend) ∧
    (∀ i, blStatus s.hs = some (.inr i) ↔ lifeAt s i = some .ackPend) ∧
    (blStatus s.hs = none ↔ ∀ i, lifeAt s i ≠ some .copyPend ∧ lifeAt s i ≠ some .ackPend) ∧
    (∀ f, fallbackSlot s.hs = some f ↔
      ∃ r, lifeAt s f = some (.confirmed r) ∧ ∀ j r', lifeAt s j = some (.confirmed r') → r' ≤ r) ∧
    (fallbackSlot s.hs = none ↔ ∀ j r, lifeAt s j ≠ some (.confirmed r)) := by
  have hone := atMostOne_all hone'
  obtain ⟨ha, hb, hc⟩ := hinv
  have hinv' : LifeInv s := ⟨ha, hb, hc⟩
  have hA := fun i hd (hu : Used s.hs i hd) => ha (i, hd) (mem_indexed.mpr hu)
  have pend_of : ∀ j h', Used s.hs j h' → PendingFw h' →
      (lifeAt s j = some .copyPend ∨ lifeAt s j = some .ackPend) := by
    intro j h' hu hp
    obtain ⟨hk, hst | hst⟩ := hp
    · exact Or.inl ((hA j h' hu).1.mp ⟨hk, hst⟩)
    · exact Or.inr ((hA j h' hu).2.1.mp ⟨hk, hst⟩)
  have rank_conf : ∀ j r, lifeAt s j = some (.confirmed r) → ∃ hd, Used s.hs j hd ∧ Conf hd := by
    intro j r hl
    have hr : (Life.rank? (lifeAt s j)).isSome := by rw [hl]; rfl
    obtain ⟨hd, hu⟩ := lifeAt_used hinv' (Or.inr (Or.inr hr))
    exact ⟨hd, hu, (hA j hd hu).2.2.mpr hr⟩
  have conf_rank : ∀ j hd, Used s.hs j hd → Conf hd → ∃ r, lifeAt s j = some (.confirmed r) := by
    intro j hd hu hcf
    have := (hA j hd hu).2.2.mp hcf
    cases hl : lifeAt s j with
    | none => rw [hl] at this; simp [Life.rank?] at this
    | some l =>
      cases l with
      | confirmed r => exact ⟨r, rfl⟩
      | _ => rw [hl] at this; simp [Life.rank?] at this
  have hC : ∀ i hd j hd' r r', Used s.hs i hd → Used s.hs j hd' → lifeAt s i = some (.confirmed r) →
      lifeAt s j = some (.confirmed r') → (r < r' ↔ hd.seq < hd'.seq) ∧ (r = r' → i = j) := by
    intro i hd j hd' r r' hu hu' hl hl'
    have := hc (i, hd) (mem_indexed.mpr hu) (j, hd') (mem_indexed.mpr hu')
    simp only [hl, hl', Life.rank?] at this
    exact this
  refine ⟨?_, ?_, ?_, ?_, ?_⟩
  · intro i
    rw [blStatus_eq_some]
    constructor
    · rintro ⟨i', h, ⟨hu, hp⟩, hr, _⟩
      by_cases hst : totalStatus h = TotalStatus.bootloadWriteInProgress
      · simp only [hst, ↓reduceIte, Sum.inl.injEq] at hr
        subst hr
        exact (hA i h hu).1.mp ⟨hp.1, hst⟩
      · simp [hst] at hr
    · intro hl
      obtain ⟨hd, hu⟩ := lifeAt_used hinv' (Or.inl hl)
      have hk := (hA i hd hu).1.mpr hl
      refine ⟨i, hd, ⟨hu, hk.1, Or.inl hk.2⟩, by simp [hk.2], ?_⟩
      rintro j h' ⟨hu', hp'⟩
      have := hone i j (Or.inl hl) (pend_of j h' hu' hp')
      omega
  · intro i
    rw [blStatus_eq_some]
    constructor
    · rintro ⟨i', h, ⟨hu, hp⟩, hr, _⟩
      by_cases hst : totalStatus h = TotalStatus.bootloadWriteInProgress
      · simp [hst] at hr
      · simp only [hst, ↓reduceIte, Sum.inr.injEq] at hr
        subst hr
        rcases hp.2 with h1 | h1
        · exact absurd h1 hst
        · exact (hA i h hu).2.1.mp ⟨hp.1, h1⟩
    · intro hl
      obtain ⟨hd, hu⟩ := lifeAt_used hinv' (Or.inr (Or.inl hl))
      have hk := (hA i hd hu).2.1.mpr hl
      refine ⟨i, hd, ⟨hu, hk.1, Or.inr hk.2⟩, by simp [hk.2], ?_⟩
      rintro j h' ⟨hu', hp'⟩
      have := hone i j (Or.inr hl) (pend_of j h' hu' hp')
      omega
  · rw [blStatus_eq_none]
    constructor
    · intro hn i
      constructor
      · intro hl
        obtain ⟨hd, hu⟩ := lifeAt_used hinv' (Or.inl hl)
        have hk := (hA i hd hu).1.mpr hl
        exact hn i hd ⟨hu, hk.1, Or.inl hk.2⟩
      · intro hl
        obtain ⟨hd, hu⟩ := lifeAt_used hinv' (Or.inr (Or.inl hl))
        have hk := (hA i hd hu).2.1.mpr hl
        exact hn i hd ⟨hu, hk.1, Or.inr hk.2⟩
    · rintro hn j h' ⟨hu, hp⟩
      rcases pend_of j h' hu hp with h1 | h1
      · exact (hn j).1 h1
      · exact (hn j).2 h1
  · intro f
    rw [fallbackSlot_eq_some]
    constructor
    · rintro ⟨h, ⟨hu, hcf⟩, hall⟩
      obtain ⟨r, hl⟩ := conf_rank f h hu hcf
      refine ⟨r, hl, ?_⟩
      intro j r' hl'
      obtain ⟨hd', hu', hcf'⟩ := rank_conf j r' hl'
      have hcmp := hC f h j hd' r r' hu hu' hl hl'
      have := hall j hd' ⟨hu', hcf'⟩
      by_cases hjf : j = f
      · subst hjf
        rw [hl] at hl'
        simp only [Option.some.injEq, Life.confirmed.injEq] at hl'
        omega
      · apply Nat.le_of_not_lt
        intro hlt
        have h1 := hcmp.1.mp hlt
        rcases Nat.lt_or_gt_of_ne hjf with h2 | h2
        · have := this.1 h2; omega
        · have := this.2 h2; omega
    · rintro ⟨r, hl, hmax⟩
      obtain ⟨h, hu, hcf⟩ := rank_conf f r hl
      refine ⟨h, ⟨hu, hcf⟩, ?_⟩
      rintro j h' ⟨hu', hcf'⟩
      obtain ⟨r', hl'⟩ := conf_rank j h' hu' hcf'
      have hle := hmax j r' hl'
      have hcmp := hC j h' f h r' r hu' hu hl' hl
      by_cases hjf : j = f
      · constructor <;> intro <;> omega
      · have hne : r' ≠ r := fun e => hjf (hcmp.2 e)
        have hlt : r' < r := by omega
        have := hcmp.1.mp hlt
        constructor <;> intro <;> omega
  · rw [fallbackSlot_eq_none]
    constructor
    · intro hn j r hl
      obtain ⟨hd, hu, hcf⟩ := rank_conf j r hl
      exact hn j hd ⟨hu, hcf⟩
    · rintro hn j h' ⟨hu, hcf⟩
      obtain ⟨r, hl⟩ := conf_rank j h' hu hcf
      exact hn j r hl

/-! ## the lifecycle relation is an invariant of the machine -/

/-- **`lifeInv_preserved`**: every transition of the machine (every crash prefix of start / cancel / recovery, both
    completion marks, copy-done, confirm, reject, reboot; either remediation order; every `N ≥ 4`) preserves the
    invariant bundle `Inv1` = lengths ∧ `LifeInv` (pointwise: `LifeP`) ∧ at most one pending image ∧ every pending
    image carries a larger sequence number than every confirmed one ∧ the session in RAM names an in-progress
    firmware / parity pair whose firmware header is newer than every other slot. `LifeInv` alone is not inductive;
    this is the inductive strengthening. Assumptions: the ring invariant (itself an invariant: `C05.arc_preserved`)
    and no sequence wrap-around in this step (`SeqRoom 2`). -/
theorem lifeInv_preserved (c : Cfg) (hn : 4 ≤ c.n) (s : State) (h : Inv1 c.n s) (hinv : RingInv c.n s.hs)
    (hroom : SeqRoom 2 s.hs) : ∀ t ∈ succs c s, Inv1 c.n t.2 :=
  inv1_preserved c hn s h hinv hroom

theorem reachable_inv1 (c : Cfg) (hn : 4 ≤ c.n) {s : State} (h : C05.Reachable c s) : Inv1 c.n s := by
  induction h with
  | init => exact inv1_init c.n
  | step hr hroom hstep ih => exact inv1_preserved c hn _ ih (C05.reachable_ringInv c hn hr) hroom _ hstep

/-- in every reachable state the lifecycle relation holds and at most one image is pending (the machine only
    completes an update when no other image is pending: the proviso of the property is enforced by `completeSuccs`) -/
theorem reachable_lifeInv (c : Cfg) (hn : 4 ≤ c.n) {s : State} (h : C05.Reachable c s) :
    LifeInv s ∧ AtMostOnePending s := by
  have hi := reachable_inv1 c hn h
  refine ⟨(lifeInv_iff s).mpr hi.ok.rel, ?_⟩
  intro i _ j _ hpi hpj
  exact hi.ok.uniq i j hpi hpj

/-- **`life_refines`**: in every state reachable from the blank ring (every `N ≥ 4`, no sequence wrap-around), the
    boot-status query answers copy-incomplete for exactly the slot the lifecycle has copy-pending,
    load-unacknowledged for exactly the acknowledgement-pending one, idle iff nothing is pending; the fallback query
    answers exactly the most recently confirmed slot, none iff nothing was ever confirmed (or it was erased). -/
theorem life_refines (c : Cfg) (hn : 4 ≤ c.n) {s : State} (h : C05.Reachable c s) :
    (∀ i, blStatus s.hs = some (.inl i) ↔ lifeAt s i = some .copyPend) ∧
    (∀ i, blStatus s.hs = some (.inr i) ↔ lifeAt s i = some .ackPend) ∧
    (blStatus s.hs = none ↔ ∀ i, lifeAt s i ≠ some .copyPend ∧ lifeAt s i ≠ some .ackPend) ∧
    (∀ f, fallbackSlot s.hs = some f ↔
      ∃ r, lifeAt s f = some (.confirmed r) ∧ ∀ j r', lifeAt s j = some (.confirmed r') → r' ≤ r) ∧
    (fallbackSlot s.hs = none ↔ ∀ j r, lifeAt s j ≠ some (.confirmed r)) := by
  obtain ⟨h1, h2⟩ := reachable_lifeInv c hn h
  exact life_refines_partial s h1 h2

/-- a later confirmation carries a larger sequence number, in every reachable state -/
theorem seq_orders_confirmation_reachable (c : Cfg) (hn : 4 ≤ c.n) {s : State} (h : C05.Reachable c s)
    {i j r r' : Nat} {hd hd' : Header} (hu : Used s.hs i hd) (hu' : Used s.hs j hd')
    (hl : lifeAt s i = some (.confirmed r)) (hl' : lifeAt s j = some (.confirmed r')) :
    (r < r' ↔ hd.seq < hd'.seq) ∧ (r = r' → i = j) :=
  (reachable_inv1 c hn h).ok.rel.c i hd j hd' r r' hu hu' hl hl'

/-! ## non-vacuity -/

def C05w : Hdrs :=
  [ some { kind := .firmware, seq := 7, size := 32, n := 16, ext := .complete, ist := .complete, boot := .successful },
    some { kind := .parity, seq := 8, size := 32, n := 8, ext := .complete, ist := .inProgress, boot := .untested } ]

instance (h : Header) : Decidable (Ignored h) := by unfold Ignored; infer_instance

def holdsAt (P : State → Prop) [DecidablePred P] : Option State → Bool
  | some s => decide (P s)
  | none => false

/-- the hypotheses of `life_refines_partial` hold, with an image copy-pending in slot 2 and a confirmed image in
    slot 0, after: start, complete, copy-done, confirm, start, complete (N = 4) -/
example : holdsAt (fun s => LifeInv s ∧ AtMostOnePending s ∧ blStatus s.hs = some (.inl 2) ∧ fallbackSlot s.hs = some 0)
    (runLabels { n := 4 } (State.init 4)
      [.start 3 true, .complete, .copyDone, .confirm, .start 3 true, .complete]) = true := by decide

/-- an arrangement on which the ignores-lemmas apply: slot 1 holds a parity header -/
example : ∃ h, Used C05w 1 h ∧ Ignored h := ⟨_, rfl, by decide⟩

end Fuota.C12
