import Fuota.Lemmas.CrcLoop
import Fuota.Props.C11
/-!
# C14 — validation = header gate ∧ CRC-32/CKSUM over bytes 68 .. n·size of the data region

Model: `Fuota/Model/Crc.lean`, `Fuota/Model/Firmware.lean` (on `Fuota/Model/Nor.lean`, `Fuota/Model/Layout.lean`).
Helper lemmas: `Fuota/Lemmas/Crc.lean` (register algebra), `Fuota/Lemmas/CrcLoop.lean` (segment loop).

Specification vocabulary, for a slot starting at `base`:
* `storedCrc f base`  — little-endian word at `base + 0x4400`
* `covered f base size n` — the bytes at `base + 0x4400 + 68 … base + 0x4400 + n·size − 1` (empty if `n·size ≤ 68`)
* `InRange f base size n` — the 68-byte prefix, and the covered bytes if any, lie inside the device
* `CrcOk f base size n` — `storedCrc = CRC-32/CKSUM (covered)`
-/
namespace Fuota.C14
open Fuota.Layout Fuota.Nor Fuota.Crc Fuota.Firmware

/-! ## specification vocabulary -/

def storedCrc (f : Flash) (base : Nat) : Nat :=
  le32 (f.byte (base + 0x4400)) (f.byte (base + 0x4400 + 1)) (f.byte (base + 0x4400 + 2)) (f.byte (base + 0x4400 + 3))

def covered (f : Flash) (base size n : Nat) : List Nat := f.read (base + 0x4400 + 68) (n * size - 68)

def InRange (f : Flash) (base size n : Nat) : Prop :=
  base + 0x4400 + 68 ≤ f.size ∧ (68 < n * size → base + 0x4400 + n * size ≤ f.size)

instance (f : Flash) (base size n : Nat) : Decidable (InRange f base size n) := by
  unfold InRange; infer_instance

def CrcOk (f : Flash) (base size n : Nat) : Prop := storedCrc f base = crcBytes (covered f base size n)

instance (f : Flash) (base size n : Nat) : Decidable (CrcOk f base size n) := by
  unfold CrcOk; infer_instance

/-! ## the catalogue check value -/

/-- CRC-32/CKSUM("123456789") = 0x765E7680 (no length suffix) -/
theorem check_value : crcBytes ("123456789".toList.map Char.toNat) = 0x765E7680 := by
  decide +kernel

/-! ## the loop -/

/-- **`crc_loop_spec`.** For every segment size and count (in particular `1 ≤ size ≤ 256`, `n ≤ 16384`; the bounds
    are not needed), on any flash where the reads are in range, the digest state after the loop of `crc_valid`
    is the digest of exactly `dataRegion[68 .. n·size]`, the empty string if `n·size ≤ 68`. -/
theorem crc_loop_spec (f : Flash) (base size n : Nat) (log : ReadLog)
    (hr : 68 < n * size → base + 0x4400 + n * size ≤ f.size) :
    (segLoop f (base + 0x4400) size n 0 (some 68) crcInit log).1 =
      some (crcUpdate crcInit (covered f base size n)) := by
  rw [segLoop_spec]
  have : n * size ≤ 68 ∨ base + 0x4400 + n * size ≤ f.size := by
    by_cases h : 68 < n * size
    · exact Or.inr (hr h)
    · exact Or.inl (by omega)
  simp [this, covered]

/-- the loop fails (read outside the device) exactly when there is something to digest and it ends outside -/
theorem crc_loop_oob (f : Flash) (base size n : Nat) (log : ReadLog)
    (h1 : 68 < n * size) (h2 : f.size < base + 0x4400 + n * size) :
    (segLoop f (base + 0x4400) size n 0 (some 68) crcInit log).1 = none := by
  rw [segLoop_spec]
  have : ¬ (n * size ≤ 68 ∨ base + 0x4400 + n * size ≤ f.size) := by omega
  simp [this]

theorem read4 (f : Flash) (d : Nat) : f.read d 4 = [f.byte d, f.byte (d + 1), f.byte (d + 2), f.byte (d + 3)] := rfl

theorem takeU32_prefix (f : Flash) (d : Nat) :
    takeU32 (f.read d 68) =
      some (le32 (f.byte d) (f.byte (d + 1)) (f.byte (d + 2)) (f.byte (d + 3)), f.read (d + 4) 64) := by
  rw [show (68 : Nat) = 4 + 64 from rfl, read_append, read4]
  rfl

/-- closed form of `crc_valid` for a header within the codec's limits -/
theorem crcValid_fst (f : Flash) (base : Nat) (hd : Header) (log : ReadLog)
    (hn : hd.n ≤ 16384) (hs : hd.size ≤ 256) :
    (crcValid f base hd log).1 =
      if InRange f base hd.size hd.n then
        (if CrcOk f base hd.size hd.n then .ok else .crc32Mismatch)
      else .spiOutOfBounds := by
  unfold crcValid
  have c1 : Consts.MAX_SEGMENTS = 16384 := rfl
  have c2 : Consts.MAX_SEGMENT_SIZE = 256 := rfl
  have c3 : dataOff = 0x4400 := rfl
  have c4 : prefixLen = 68 := rfl
  have c5 : Consts.SIG_SIZE = 64 := rfl
  have h1 : ¬ (hd.n > 16384) := by omega
  have h2 : ¬ (hd.size > 256) := by omega
  simp only [c1, c2, c3, c4, c5, h1, h2, if_false, readChecked_eq]
  by_cases hp : base + 0x4400 + 68 ≤ f.size
  · simp only [hp, if_true, takeU32_prefix, read_length, Nat.lt_irrefl, if_false]
    rcases hl : segLoop f (base + 0x4400) hd.size hd.n 0 (some 68) crcInit ((base + 0x4400, 68) :: log)
      with ⟨r, l⟩
    have hspec := segLoop_spec f (base + 0x4400) hd.size hd.n 68 crcInit ((base + 0x4400, 68) :: log)
    rw [hl] at hspec
    simp only at hspec
    by_cases hin : 68 < hd.n * hd.size → base + 0x4400 + hd.n * hd.size ≤ f.size
    · have hcond : hd.n * hd.size ≤ 68 ∨ base + 0x4400 + hd.n * hd.size ≤ f.size := by
        by_cases h : 68 < hd.n * hd.size
        · exact Or.inr (hin h)
        · exact Or.inl (by omega)
      have hIR : InRange f base hd.size hd.n := ⟨hp, hin⟩
      rw [if_pos hcond] at hspec
      subst hspec
      simp only [hIR, if_true]
      by_cases hc : CrcOk f base hd.size hd.n
      · have : storedCrc f base = crcFinalize (crcUpdate crcInit (f.read (base + 0x4400 + 68) (hd.n * hd.size - 68))) := hc
        unfold storedCrc at this
        simp [hc, this]
      · have : ¬ (storedCrc f base = crcFinalize (crcUpdate crcInit (f.read (base + 0x4400 + 68) (hd.n * hd.size - 68)))) := hc
        unfold storedCrc at this
        simp [hc, this]
    · have hcond : ¬ (hd.n * hd.size ≤ 68 ∨ base + 0x4400 + hd.n * hd.size ≤ f.size) := by omega
      have hIR : ¬ InRange f base hd.size hd.n := fun h => hin h.2
      rw [if_neg hcond] at hspec
      subst hspec
      simp [hIR]
  · have hIR : ¬ InRange f base hd.size hd.n := fun h => hp h.1
    simp [hp, hIR]

/-! ## `is_valid_firmware` -/

theorem parsed_bounds (bs rest : List Nat) (hd : Header) (h : parseHeader Codec.new bs = some (hd, rest)) :
    0 < hd.size ∧ hd.size ≤ 256 ∧ 0 < hd.n ∧ hd.n ≤ 16384 := by
  obtain ⟨w0, w1, w2, w3, w4, w5, w6, _, _, _, hs, hn, _⟩ := (C11.parseHeader_eq_some _ _ _ _).mp h
  have := C11.parseSize_some _ _ _ hs
  have := C11.parseNseg_some _ _ _ hn
  have e1 : Codec.new.maxSegmentSize = 256 := rfl
  have e2 : Codec.new.maxSegments = 16384 := rfl
  omega

/-- the verdict of `is_valid_firmware` as a decision list, in the order of the code -/
def verdict (f : Flash) (base : Nat) : Res :=
  if base + 28 ≤ f.size then
    match parseHeader Codec.new (f.read base 28) with
    | none => .unexpectedMissingHeader
    | some (hd, _) =>
      if hd.kind ≠ Kind.firmware then .checkFailNotFirmware
      else if hd.ext ≠ Ext.complete then .checkFailNotDone
      else if InRange f base hd.size hd.n then
        (if CrcOk f base hd.size hd.n then .ok else .crc32Mismatch)
      else .spiOutOfBounds
  else .spiOutOfBounds

theorem loadHeader_eq (f : Flash) (base : Nat) :
    loadHeader f base =
      if base + 28 ≤ f.size then some ((parseHeader Codec.new (f.read base 28)).map (·.1)) else none := by
  unfold loadHeader
  rw [readChecked_eq, show Consts.SLOT_HEADER_SIZE = 28 from rfl]
  by_cases h : base + 28 ≤ f.size <;> simp [h]

/-- closed form of `is_valid_firmware` -/
theorem isValidFirmware_fst (f : Flash) (slotSize idx : Nat) :
    (isValidFirmware f slotSize idx).1 = verdict f (idx * slotSize) := by
  unfold isValidFirmware verdict
  simp only [loadHeader_eq]
  by_cases hb : idx * slotSize + 28 ≤ f.size
  · simp only [hb, if_true]
    rcases hp : parseHeader Codec.new (f.read (idx * slotSize) 28) with _ | ⟨hd, rest⟩
    · simp
    · obtain ⟨_, hs, _, hn⟩ := parsed_bounds _ _ _ hp
      simp only [Option.map_some]
      by_cases hk : hd.kind = Kind.firmware
      · by_cases he : hd.ext = Ext.complete
        · simp only [hk, he, ne_eq, not_true_eq_false, if_false]
          exact crcValid_fst f _ hd _ hn hs
        · simp [hk, he]
      · simp [hk]
  · simp [hb]

/-- **`valid_iff`.** Validation succeeds exactly when the slot's first 28 bytes parse as a header of kind
    `Firmware` with external write status `Complete`, the reads are inside the device, and the little-endian word
    at the start of the data region equals CRC-32/CKSUM of `dataRegion[68 .. n·size]`. -/
theorem valid_iff (f : Flash) (slotSize idx : Nat) :
    (isValidFirmware f slotSize idx).1 = .ok ↔
      ∃ hd rest, parseHeader Codec.new (f.read (idx * slotSize) 28) = some (hd, rest) ∧
        hd.kind = Kind.firmware ∧ hd.ext = Ext.complete ∧
        InRange f (idx * slotSize) hd.size hd.n ∧
        storedCrc f (idx * slotSize) = crcBytes (covered f (idx * slotSize) hd.size hd.n) := by
  rw [isValidFirmware_fst]
  unfold verdict
  constructor
  · intro h
    by_cases hb : idx * slotSize + 28 ≤ f.size
    · simp only [hb, if_true] at h
      rcases hp : parseHeader Codec.new (f.read (idx * slotSize) 28) with _ | ⟨hd, rest⟩
      · simp [hp] at h
      · simp only [hp] at h
        by_cases hk : hd.kind = Kind.firmware
        · by_cases he : hd.ext = Ext.complete
          · by_cases hi : InRange f (idx * slotSize) hd.size hd.n
            · by_cases hc : CrcOk f (idx * slotSize) hd.size hd.n
              · exact ⟨hd, rest, rfl, hk, he, hi, hc⟩
              · simp [hk, he, hi, hc] at h
            · simp [hk, he, hi] at h
          · simp [hk, he] at h
        · simp [hk] at h
    · simp [hb] at h
  · rintro ⟨hd, rest, hp, hk, he, hi, hc⟩
    have hb : idx * slotSize + 28 ≤ f.size := by have := hi.1; omega
    have hc' : CrcOk f (idx * slotSize) hd.size hd.n := hc
    simp [hb, hp, hk, he, hi, hc']

/-! ### the exact error for each failing conjunct -/

theorem valid_err_header_oob (f : Flash) (slotSize idx : Nat) (h : f.size < idx * slotSize + 28) :
    (isValidFirmware f slotSize idx).1 = .spiOutOfBounds := by
  rw [isValidFirmware_fst]; unfold verdict
  have : ¬ (idx * slotSize + 28 ≤ f.size) := by omega
  simp [this]

theorem valid_err_unparseable (f : Flash) (slotSize idx : Nat) (hb : idx * slotSize + 28 ≤ f.size)
    (hp : parseHeader Codec.new (f.read (idx * slotSize) 28) = none) :
    (isValidFirmware f slotSize idx).1 = .unexpectedMissingHeader := by
  rw [isValidFirmware_fst]; unfold verdict; simp [hb, hp]

theorem valid_err_not_firmware (f : Flash) (slotSize idx : Nat) (hd : Header) (rest : List Nat)
    (hb : idx * slotSize + 28 ≤ f.size)
    (hp : parseHeader Codec.new (f.read (idx * slotSize) 28) = some (hd, rest)) (hk : hd.kind ≠ Kind.firmware) :
    (isValidFirmware f slotSize idx).1 = .checkFailNotFirmware := by
  rw [isValidFirmware_fst]; unfold verdict; simp [hb, hp, hk]

theorem valid_err_not_done (f : Flash) (slotSize idx : Nat) (hd : Header) (rest : List Nat)
    (hb : idx * slotSize + 28 ≤ f.size)
    (hp : parseHeader Codec.new (f.read (idx * slotSize) 28) = some (hd, rest)) (hk : hd.kind = Kind.firmware)
    (he : hd.ext ≠ Ext.complete) :
    (isValidFirmware f slotSize idx).1 = .checkFailNotDone := by
  rw [isValidFirmware_fst]; unfold verdict; simp [hb, hp, hk, he]

theorem valid_err_data_oob (f : Flash) (slotSize idx : Nat) (hd : Header) (rest : List Nat)
    (hb : idx * slotSize + 28 ≤ f.size)
    (hp : parseHeader Codec.new (f.read (idx * slotSize) 28) = some (hd, rest)) (hk : hd.kind = Kind.firmware)
    (he : hd.ext = Ext.complete) (hi : ¬ InRange f (idx * slotSize) hd.size hd.n) :
    (isValidFirmware f slotSize idx).1 = .spiOutOfBounds := by
  rw [isValidFirmware_fst]; unfold verdict; simp [hb, hp, hk, he, hi]

theorem valid_err_crc (f : Flash) (slotSize idx : Nat) (hd : Header) (rest : List Nat)
    (hp : parseHeader Codec.new (f.read (idx * slotSize) 28) = some (hd, rest)) (hk : hd.kind = Kind.firmware)
    (he : hd.ext = Ext.complete) (hi : InRange f (idx * slotSize) hd.size hd.n)
    (hc : storedCrc f (idx * slotSize) ≠ crcBytes (covered f (idx * slotSize) hd.size hd.n)) :
    (isValidFirmware f slotSize idx).1 = .crc32Mismatch := by
  rw [isValidFirmware_fst]; unfold verdict
  have hb : idx * slotSize + 28 ≤ f.size := by have := hi.1; omega
  have hc' : ¬ CrcOk f (idx * slotSize) hd.size hd.n := hc
  simp [hb, hp, hk, he, hi, hc']

/-- `Fatal`, `TooManySegments`, `SegmentsTooLarge` (and the deprecated crate's errors) are unreachable -/
theorem valid_result_range (f : Flash) (slotSize idx : Nat) :
    (isValidFirmware f slotSize idx).1 ∈
      [Res.ok, .crc32Mismatch, .spiOutOfBounds, .unexpectedMissingHeader, .checkFailNotFirmware, .checkFailNotDone] := by
  rw [isValidFirmware_fst]; unfold verdict
  split
  · split
    · simp
    · split
      · simp
      · split
        · simp
        · split
          · split <;> simp
          · simp
  · simp

/-! ## a single corrupted bit -/

/-- flip bit `k` of the byte at address `a` (no effect outside the device) -/
def flipBit (f : Flash) (a k : Nat) : Flash := { f with mem := f.mem.setIfInBounds a (f.byte a ^^^ 2 ^ k) }

theorem size_flipBit (f : Flash) (a k : Nat) : (flipBit f a k).size = f.size := by
  simp [flipBit, Flash.size]

theorem byte_flipBit (f : Flash) (a k x : Nat) :
    (flipBit f a k).byte x = if x = a ∧ a < f.size then f.byte a ^^^ 2 ^ k else f.byte x := by
  unfold flipBit Flash.byte Flash.size
  simp only [Array.getD_eq_getD_getElem?, Array.getElem?_setIfInBounds]
  by_cases h : a = x
  · subst h; by_cases h2 : a < f.mem.size <;> simp [h2]
  · have : ¬ (x = a) := fun e => h e.symm
    simp [h, this]

theorem read_flipBit_outside (f : Flash) (a k s len : Nat) (h : a < s ∨ s + len ≤ a) :
    (flipBit f a k).read s len = f.read s len := by
  apply List.ext_getElem?
  intro i
  simp only [read_get, byte_flipBit]
  by_cases hi : i < len
  · have : ¬ (s + i = a ∧ a < f.size) := by omega
    simp [hi, this]
  · simp [hi]

theorem read_split (f : Flash) (a s len : Nat) (h1 : s ≤ a) (h2 : a < s + len) :
    f.read s len = f.read s (a - s) ++ f.byte a :: f.read (a + 1) (s + len - a - 1) := by
  have e : len = (a - s) + (1 + (s + len - a - 1)) := by omega
  have e2 : s + (a - s) = a := by omega
  conv => lhs; rw [e]
  rw [read_append, read_append, e2]
  rfl

theorem read_flipBit_inside (f : Flash) (a k s len : Nat) (h1 : s ≤ a) (h2 : a < s + len) (h3 : a < f.size) :
    (flipBit f a k).read s len =
      f.read s (a - s) ++ (f.byte a ^^^ 2 ^ k) :: f.read (a + 1) (s + len - a - 1) := by
  rw [read_split _ a s len h1 h2, read_flipBit_outside _ _ _ _ _ (by omega),
    read_flipBit_outside _ _ _ _ _ (by omega), byte_flipBit]
  simp [h3]

/-- the core: if the CRC test holds on `f`, it fails after flipping one bit of the stored word or of a covered byte -/
theorem crcOk_flip (f : Flash) (base size n a k : Nat) (hk : k < 8)
    (hir : InRange f base size n) (hcrc : CrcOk f base size n)
    (ha : (base + 0x4400 ≤ a ∧ a < base + 0x4400 + 4) ∨ (base + 0x4400 + 68 ≤ a ∧ a < base + 0x4400 + n * size)) :
    ¬ CrcOk (flipBit f a k) base size n := by
  unfold CrcOk at hcrc ⊢
  rcases ha with ⟨h1, h2⟩ | ⟨h1, h2⟩
  · -- the stored CRC word changes, the covered bytes do not
    have hcov : covered (flipBit f a k) base size n = covered f base size n :=
      read_flipBit_outside _ _ _ _ _ (by omega)
    rw [hcov, ← hcrc]
    have hsz : a < f.size := by have := hir.1; omega
    have hne : f.byte a ^^^ 2 ^ k ≠ f.byte a :=
      xor_ne_self _ _ (Nat.pos_iff_ne_zero.mp (Nat.pow_pos (by decide)))
    unfold storedCrc
    simp only [byte_flipBit, hsz, and_true, Layout.le32]
    have hcases : a = base + 0x4400 ∨ a = base + 0x4400 + 1 ∨ a = base + 0x4400 + 2 ∨ a = base + 0x4400 + 3 := by
      omega
    rcases hcases with rfl | rfl | rfl | rfl <;> simp <;> omega
  · -- the covered bytes change in one bit, the stored CRC word does not
    have hst : storedCrc (flipBit f a k) base = storedCrc f base := by
      unfold storedCrc
      simp only [byte_flipBit]
      have n0 : ¬ (base + 0x4400 = a ∧ a < f.size) := by omega
      have n1 : ¬ (base + 0x4400 + 1 = a ∧ a < f.size) := by omega
      have n2 : ¬ (base + 0x4400 + 2 = a ∧ a < f.size) := by omega
      have n3 : ¬ (base + 0x4400 + 3 = a ∧ a < f.size) := by omega
      simp [n0, n1, n2, n3]
    have hlt : 68 < n * size := by omega
    have hsz : a < f.size := by have := hir.2 hlt; omega
    have hin2 : a < base + 0x4400 + 68 + (n * size - 68) := by omega
    rw [hst, hcrc]
    unfold covered
    rw [read_flipBit_inside _ _ _ _ _ h1 hin2 hsz, read_split f a _ _ h1 hin2]
    intro heq
    exact crcUpdate_flip_ne crcInit (f.byte a) k _ _ hk (crcFinalize_inj _ _ heq).symm

/-- **`crc_single_bit`.** Take a slot that validates. Flip any one bit (`k < 8`) of any byte that is either part of
    the stored CRC word (data-region offsets 0..3) or one of the covered bytes (data-region offsets
    `68 .. n·size − 1`): validation of the corrupted flash fails, with `Crc32Mismatch`. -/
theorem crc_single_bit (f : Flash) (slotSize idx a k : Nat) (hd : Header) (rest : List Nat) (hk : k < 8)
    (hp : parseHeader Codec.new (f.read (idx * slotSize) 28) = some (hd, rest))
    (hv : (isValidFirmware f slotSize idx).1 = .ok)
    (ha : (idx * slotSize + 0x4400 ≤ a ∧ a < idx * slotSize + 0x4400 + 4) ∨
          (idx * slotSize + 0x4400 + 68 ≤ a ∧ a < idx * slotSize + 0x4400 + hd.n * hd.size)) :
    (isValidFirmware (flipBit f a k) slotSize idx).1 = .crc32Mismatch := by
  obtain ⟨hd', rest', hp', hkind, hext, hir, hcrc⟩ := (valid_iff f slotSize idx).mp hv
  rw [hp] at hp'
  obtain ⟨rfl, rfl⟩ : hd = hd' ∧ rest = rest' := by simpa using hp'
  generalize hbase : idx * slotSize = base at *
  have hhdr : (flipBit f a k).read base 28 = f.read base 28 :=
    read_flipBit_outside _ _ _ _ _ (by omega)
  have hir' : InRange (flipBit f a k) base hd.size hd.n := by
    unfold InRange at hir ⊢; rw [size_flipBit]; exact hir
  refine valid_err_crc _ slotSize idx hd rest (by rw [hbase, hhdr]; exact hp) hkind hext
    (by rw [hbase]; exact hir') ?_
  rw [hbase]
  exact crcOk_flip f base hd.size hd.n a k hk hir hcrc ha

/-! ## `check_and_mark_done` -/

theorem size_programBytes (mem : Array Nat) (a : Nat) (bs : List Nat) : (programBytes mem a bs).size = mem.size := by
  induction bs generalizing mem a with
  | nil => rfl
  | cons b bs ih => simp [programBytes, ih]

theorem size_apply_program (f : Flash) (a : Nat) (bs : List Nat) : (f.apply (.program a bs)).size = f.size := by
  simp [Flash.apply, Flash.size, size_programBytes]

/-- the two programs of a successful check: `44 44 44 44` at offset 16 of the firmware slot, then of the parity slot -/
def markOps (fw par : Nat) : List Op :=
  [.program (fw + 16) [0x44, 0x44, 0x44, 0x44], .program (par + 16) [0x44, 0x44, 0x44, 0x44]]

theorem completeWord_eq : completeWord = [0x44, 0x44, 0x44, 0x44] := by decide

/-- **`check_gate`.** `check_and_mark_done` performs no mutating operation unless the session is complete, the
    firmware slot's header parses and `crc_valid` returned `Ok` on the same flash. -/
theorem check_gate (f : Flash) (complete : Bool) (fw par : Nat)
    (h : (checkAndMarkDone f complete fw par).ops ≠ []) :
    complete = true ∧ ∃ hd, loadHeader f fw = some (some hd) ∧ (crcValid f fw hd [(fw, 28)]).1 = .ok := by
  unfold checkAndMarkDone at h
  cases complete with
  | false => simp at h
  | true =>
    refine ⟨rfl, ?_⟩
    simp only [Bool.not_true, Bool.false_eq_true, if_false] at h
    rcases hl : loadHeader f fw with _ | _ | hd
    · simp [hl] at h
    · simp [hl] at h
    · refine ⟨hd, rfl, ?_⟩
      simp only [hl] at h
      rw [show Consts.SLOT_HEADER_SIZE = 28 from rfl] at h
      rcases hc : crcValid f fw hd [(fw, 28)] with ⟨r, l⟩
      rw [hc] at h
      cases r <;> first | rfl | simp at h

/-- the operations are always a prefix of `markOps`; nothing else is ever programmed or erased -/
theorem check_ops_prefix (f : Flash) (complete : Bool) (fw par : Nat) :
    (checkAndMarkDone f complete fw par).ops = [] ∨
    (checkAndMarkDone f complete fw par).ops = (markOps fw par).take 1 ∨
    (checkAndMarkDone f complete fw par).ops = markOps fw par := by
  unfold checkAndMarkDone
  cases complete with
  | false => simp
  | true =>
    simp only [Bool.not_true, Bool.false_eq_true, if_false]
    rcases hl : loadHeader f fw with _ | _ | hd
    · simp
    · simp
    · simp only
      rcases hc : crcValid f fw hd [(fw, Consts.SLOT_HEADER_SIZE)] with ⟨r, l⟩
      cases r <;> simp only [List.take, markOps, completeWord_eq, show Consts.EXT_OFFSET = 16 from rfl] <;>
        (try simp) <;> (repeat' split) <;> simp

/-- **`check_gate`, positive half.** If `crc_valid` returns `Ok` (and the parity slot's status word is inside the
    device), the check succeeds and performs exactly the two programs of `markOps`, in that order. -/
theorem check_gate_ok (f : Flash) (fw par : Nat) (hd : Header)
    (hl : loadHeader f fw = some (some hd)) (hc : (crcValid f fw hd [(fw, 28)]).1 = .ok)
    (hpar : par + 20 ≤ f.size) :
    (checkAndMarkDone f true fw par).res = .ok ∧ (checkAndMarkDone f true fw par).ops = markOps fw par := by
  have hfw : fw + 28 ≤ f.size := by
    rw [loadHeader_eq] at hl
    by_cases h : fw + 28 ≤ f.size
    · exact h
    · simp [h] at hl
  unfold checkAndMarkDone
  simp only [Bool.not_true, Bool.false_eq_true, if_false, hl]
  rw [show Consts.SLOT_HEADER_SIZE = 28 from rfl]
  rcases hcv : crcValid f fw hd [(fw, 28)] with ⟨r, l⟩
  rw [hcv] at hc
  simp only at hc
  subst hc
  have e1 : f.canProgram (fw + Consts.EXT_OFFSET) completeWord.length = true := by
    simp only [Flash.canProgram, completeWord_eq, show Consts.EXT_OFFSET = 16 from rfl, List.length_cons,
      List.length_nil, decide_eq_true_eq]; omega
  have e2 : (f.apply (Op.program (fw + Consts.EXT_OFFSET) completeWord)).canProgram (par + Consts.EXT_OFFSET)
      completeWord.length = true := by
    simp only [Flash.canProgram, size_apply_program, completeWord_eq, show Consts.EXT_OFFSET = 16 from rfl,
      List.length_cons, List.length_nil, decide_eq_true_eq]; omega
  simp only [e1, e2, Bool.not_true, Bool.false_eq_true, if_false]
  simp [markOps, completeWord_eq, show Consts.EXT_OFFSET = 16 from rfl]

/-- **A failing check leaves the flash unmodified** (both slots inside the device). -/
theorem check_fail_unmodified (f : Flash) (complete : Bool) (fw par : Nat) (hpar : par + 20 ≤ f.size)
    (h : (checkAndMarkDone f complete fw par).res ≠ .ok) :
    (checkAndMarkDone f complete fw par).ops = [] ∧
    f.applyAll (checkAndMarkDone f complete fw par).ops = f := by
  have key : (checkAndMarkDone f complete fw par).ops = [] := by
    apply Decidable.by_contra
    intro hne
    obtain ⟨rfl, hd, hl, hc⟩ := check_gate f complete fw par hne
    exact h (check_gate_ok f fw par hd hl hc hpar).1
  exact ⟨key, by rw [key]; rfl⟩

/-- the test applied before marking is the test of `valid_iff` (without the kind / status gate, which cannot hold
    yet): header parses, reads in range, stored word = CRC-32/CKSUM of `dataRegion[68 .. n·size]`. -/
theorem check_gate_same_test (f : Flash) (complete : Bool) (fw par : Nat)
    (h : (checkAndMarkDone f complete fw par).ops ≠ []) :
    ∃ hd rest, parseHeader Codec.new (f.read fw 28) = some (hd, rest) ∧ InRange f fw hd.size hd.n ∧
      storedCrc f fw = crcBytes (covered f fw hd.size hd.n) := by
  obtain ⟨_, hd, hl, hc⟩ := check_gate f complete fw par h
  rw [loadHeader_eq] at hl
  by_cases hb : fw + 28 ≤ f.size
  · simp only [hb, if_true, Option.some.injEq] at hl
    rcases hp : parseHeader Codec.new (f.read fw 28) with _ | ⟨hd', rest⟩
    · simp [hp] at hl
    · simp only [hp, Option.map_some, Option.some.injEq] at hl
      subst hl
      obtain ⟨_, hs, _, hn⟩ := parsed_bounds _ _ _ hp
      rw [crcValid_fst f fw hd' _ hn hs] at hc
      refine ⟨hd', rest, rfl, ?_⟩
      by_cases hi : InRange f fw hd'.size hd'.n
      · by_cases hcr : CrcOk f fw hd'.size hd'.n
        · exact ⟨hi, hcr⟩
        · simp [hi, hcr] at hc
      · simp [hi] at hc
  · simp [hb] at hl

/-- **`crc_single_bit` for the final check.** If the check passes on `f` (it performs its programs), then on the
    flash with one flipped bit in the stored word or in the covered bytes it performs no operation at all. -/
theorem check_single_bit (f : Flash) (fw par a k : Nat) (hd : Header) (rest : List Nat) (hk : k < 8)
    (hp : parseHeader Codec.new (f.read fw 28) = some (hd, rest))
    (hv : (checkAndMarkDone f true fw par).ops ≠ [])
    (ha : (fw + 0x4400 ≤ a ∧ a < fw + 0x4400 + 4) ∨ (fw + 0x4400 + 68 ≤ a ∧ a < fw + 0x4400 + hd.n * hd.size)) :
    (checkAndMarkDone (flipBit f a k) true fw par).ops = [] := by
  obtain ⟨hd1, rest1, hp1, hir, hcrc⟩ := check_gate_same_test f true fw par hv
  rw [hp] at hp1
  obtain ⟨rfl, rfl⟩ : hd = hd1 ∧ rest = rest1 := by simpa using hp1
  apply Decidable.by_contra
  intro hne
  obtain ⟨hd2, rest2, hp2, _, hcrc2⟩ := check_gate_same_test (flipBit f a k) true fw par hne
  have hhdr : (flipBit f a k).read fw 28 = f.read fw 28 := read_flipBit_outside _ _ _ _ _ (by omega)
  rw [hhdr, hp] at hp2
  obtain ⟨rfl, rfl⟩ : hd = hd2 ∧ rest = rest2 := by simpa using hp2
  exact crcOk_flip f fw hd.size hd.n a k hk hir hcrc ha hcrc2

/-! ## the deprecated crate: `check_crc_from_index`, `validate_firmware_slot`

The segment loop is the same function `segLoop`, so `crc_loop_spec` is the loop theorem of both crates. -/

theorem parsed_bounds_orig (bs rest : List Nat) (hd : Header) (h : parseHeader Codec.orig bs = some (hd, rest)) :
    0 < hd.size ∧ hd.size ≤ 256 ∧ 0 < hd.n ∧ hd.n ≤ 16384 := by
  rw [C11.orig_codec_pinned, ← C11.new_codec_pinned] at h
  exact parsed_bounds bs rest hd h

theorem loadHeaderOrig_eq (f : Flash) (base : Nat) :
    loadHeaderOrig f base =
      if base + 28 ≤ f.size then some ((parseHeader Codec.orig (f.read base 28)).map (·.1)) else none := by
  unfold loadHeaderOrig
  rw [readChecked_eq, show Consts.O_SLOT_HEADER_SIZE = 28 from rfl]
  by_cases h : base + 28 ≤ f.size <;> simp [h]

/-- closed form of `check_crc_from_index` called (as `validate_firmware_slot` does) with the header's own geometry -/
theorem checkCrc_fst (f : Flash) (base : Nat) (hd : Header) (log : ReadLog)
    (hl : loadHeaderOrig f base = some (some hd)) (hn : hd.n ≤ 16384) (hs : hd.size ≤ 256) :
    (checkCrcFromIndex f (some hd.size) (some hd.n) base log).1 =
      if InRange f base hd.size hd.n then
        (if CrcOk f base hd.size hd.n then .ok else .crc32Mismatch)
      else .spiOutOfBounds := by
  unfold checkCrcFromIndex
  have c1 : Consts.O_MAX_SEGMENTS = 16384 := rfl
  have c2 : Consts.O_MAX_SEGMENT_SIZE = 256 := rfl
  have c3 : Consts.O_DATA_REGION_OFFSET = 0x4400 := rfl
  have c4 : prefixLen = 68 := rfl
  have c5 : Consts.SIG_SIZE = 64 := rfl
  have h1 : ¬ (hd.n > 16384) := by omega
  have h2 : ¬ (hd.size > 256) := by omega
  have m1 : hd.n % 2 ^ 32 = hd.n := Nat.mod_eq_of_lt (by omega)
  have m2 : hd.size % 2 ^ 32 = hd.size := Nat.mod_eq_of_lt (by omega)
  simp only [hl, c1, c2, c3, c4, c5, m1, m2, h1, h2, if_true, if_false, readChecked_eq]
  by_cases hp : base + 0x4400 + 68 ≤ f.size
  · simp only [hp, if_true, takeU32_prefix, read_length, Nat.lt_irrefl, if_false]
    rcases hlp : segLoop f (base + 0x4400) hd.size hd.n 0 (some 68) crcInit
      ((base + 0x4400, 68) :: (base, Consts.O_SLOT_HEADER_SIZE) :: log) with ⟨r, l⟩
    have hspec := segLoop_spec f (base + 0x4400) hd.size hd.n 68 crcInit
      ((base + 0x4400, 68) :: (base, Consts.O_SLOT_HEADER_SIZE) :: log)
    rw [hlp] at hspec
    simp only at hspec
    by_cases hin : 68 < hd.n * hd.size → base + 0x4400 + hd.n * hd.size ≤ f.size
    · have hcond : hd.n * hd.size ≤ 68 ∨ base + 0x4400 + hd.n * hd.size ≤ f.size := by
        by_cases h : 68 < hd.n * hd.size
        · exact Or.inr (hin h)
        · exact Or.inl (by omega)
      have hIR : InRange f base hd.size hd.n := ⟨hp, hin⟩
      rw [if_pos hcond] at hspec
      subst hspec
      simp only [hIR, if_true]
      by_cases hc : CrcOk f base hd.size hd.n
      · have : storedCrc f base = crcFinalize (crcUpdate crcInit (f.read (base + 0x4400 + 68) (hd.n * hd.size - 68))) := hc
        unfold storedCrc at this
        simp [hc, this]
      · have : ¬ (storedCrc f base = crcFinalize (crcUpdate crcInit (f.read (base + 0x4400 + 68) (hd.n * hd.size - 68)))) := hc
        unfold storedCrc at this
        simp [hc, this]
    · have hcond : ¬ (hd.n * hd.size ≤ 68 ∨ base + 0x4400 + hd.n * hd.size ≤ f.size) := by omega
      have hIR : ¬ InRange f base hd.size hd.n := fun h => hin h.2
      rw [if_neg hcond] at hspec
      subst hspec
      simp [hIR]
  · have hIR : ¬ InRange f base hd.size hd.n := fun h => hp h.1
    simp [hp, hIR]

/-- **`valid_iff` for the deprecated crate.** Same condition, plus: the boot outcome must not be `Unsuccessful`.
    (Every failure is reported as `Spi(HardwareFailure)`, see `validateFirmwareSlot`.) -/
theorem orig_valid_iff (f : Flash) (slotSize idx : Nat) :
    (validateFirmwareSlot f slotSize idx).1 = .ok ↔
      ∃ hd rest, parseHeader Codec.orig (f.read (idx * slotSize) 28) = some (hd, rest) ∧
        hd.kind = Kind.firmware ∧ hd.ext = Ext.complete ∧ hd.boot ≠ Boot.unsuccessful ∧
        InRange f (idx * slotSize) hd.size hd.n ∧
        storedCrc f (idx * slotSize) = crcBytes (covered f (idx * slotSize) hd.size hd.n) := by
  unfold validateFirmwareSlot
  generalize idx * slotSize = base
  by_cases hb : base + 28 ≤ f.size
  · rcases hp : parseHeader Codec.orig (f.read base 28) with _ | ⟨hd, rest⟩
    · have hl : loadHeaderOrig f base = some none := by rw [loadHeaderOrig_eq]; simp [hb, hp]
      simp [hl]
    · have hl : loadHeaderOrig f base = some (some hd) := by rw [loadHeaderOrig_eq]; simp [hb, hp]
      obtain ⟨_, hs, _, hn⟩ := parsed_bounds_orig _ _ _ hp
      simp only [hl]
      by_cases hg : hd.kind ≠ Kind.firmware ∨ hd.ext ≠ Ext.complete ∨ hd.boot = Boot.unsuccessful
      · simp only [hg, if_true]
        constructor
        · intro h; cases h
        · rintro ⟨hd', rest', he, hk, hx, hbo, _⟩
          obtain ⟨rfl, rfl⟩ : hd = hd' ∧ rest = rest' := by simpa using he
          rcases hg with h | h | h
          · exact absurd hk h
          · exact absurd hx h
          · exact absurd h hbo
      · simp only [hg, if_false]
        have hg' : hd.kind = Kind.firmware ∧ hd.ext = Ext.complete ∧ hd.boot ≠ Boot.unsuccessful := by
          refine ⟨?_, ?_, ?_⟩
          · exact Decidable.by_contra fun h => hg (Or.inl h)
          · exact Decidable.by_contra fun h => hg (Or.inr (Or.inl h))
          · exact fun h => hg (Or.inr (Or.inr h))
        have hcf := checkCrc_fst f base hd [(base, Consts.O_SLOT_HEADER_SIZE)] hl hn hs
        rcases hc : checkCrcFromIndex f (some hd.size) (some hd.n) base [(base, Consts.O_SLOT_HEADER_SIZE)]
          with ⟨r, l⟩
        rw [hc] at hcf
        simp only at hcf
        constructor
        · intro h
          have hr : r = .ok := by cases r <;> first | rfl | simp at h
          rw [hr] at hcf
          refine ⟨hd, rest, rfl, hg'.1, hg'.2.1, hg'.2.2, ?_⟩
          by_cases hi : InRange f base hd.size hd.n
          · by_cases hcr : CrcOk f base hd.size hd.n
            · exact ⟨hi, hcr⟩
            · simp [hi, hcr] at hcf
          · simp [hi] at hcf
        · rintro ⟨hd', rest', he, _, _, _, hi, hcr⟩
          obtain ⟨rfl, rfl⟩ : hd = hd' ∧ rest = rest' := by simpa using he
          have hcr' : CrcOk f base hd.size hd.n := hcr
          simp only [hi, hcr', if_true] at hcf
          rw [hcf]
  · have hl : loadHeaderOrig f base = none := by rw [loadHeaderOrig_eq]; simp [hb]
    simp only [hl]
    constructor
    · intro h; cases h
    · rintro ⟨hd, rest, _, _, _, _, hi, _⟩
      have := hi.1
      omega

/-! ## non-vacuity: a concrete device

The device is given by its byte function (`Array.ofFn`), so that reads reduce to small closed computations. -/

def flashOfFn (n : Nat) (g : Nat → Nat) : Flash := { mem := Array.ofFn (n := n) (fun i => g i.val), block := 4096 }

theorem size_ofFn (n : Nat) (g : Nat → Nat) : (flashOfFn n g).size = n := by simp [flashOfFn, Flash.size]

theorem byte_ofFn (n : Nat) (g : Nat → Nat) (a : Nat) (h : a < n) : (flashOfFn n g).byte a = g a := by
  simp [flashOfFn, Flash.byte, h]

theorem read_ofFn (n : Nat) (g : Nat → Nat) (a len : Nat) (h : a + len ≤ n) :
    (flashOfFn n g).read a len = (List.range len).map (fun i => g (a + i)) := by
  unfold Flash.read
  apply List.map_congr_left
  intro i hi
  exact byte_ofFn n g _ (by have := List.mem_range.mp hi; omega)

def sampleHeader (ext : Ext) : Header :=
  { kind := .firmware, seq := 1, size := 5, n := 16, ext := ext, ist := .inProgress, boot := .untested }

/-- 80-byte image: stored word 0x3C183E49 = CRC-32/CKSUM(01 02 … 0c), 64 signature bytes, 12 payload bytes -/
def sampleData : List Nat := [73, 62, 24, 60] ++ List.replicate 64 0xAF ++ [1, 2, 3, 4, 5, 6, 7, 8, 9, 10, 11, 12]

def sampleMem (ext : Ext) (i : Nat) : Nat :=
  if i < 28 then (encodeHeader Codec.new (sampleHeader ext)).getD i 0xFF
  else if 0x4400 ≤ i then sampleData.getD (i - 0x4400) 0xFF else 0xFF

/-- a device of `total` bytes whose slot 0 holds: fragment size 5, 16 fragments (80 bytes, the CRC covers bytes
    68..79), kind `Firmware`, the given external write status -/
def sampleFlash (ext : Ext) (total : Nat) : Flash := flashOfFn total (sampleMem ext)

theorem sample_size (ext : Ext) (total : Nat) : (sampleFlash ext total).size = total := size_ofFn _ _

theorem sample_parse (ext : Ext) (total : Nat) (h : 28 ≤ total) :
    parseHeader Codec.new ((sampleFlash ext total).read 0 28) = some (sampleHeader ext, []) := by
  unfold sampleFlash
  rw [read_ofFn _ _ _ _ (by omega)]
  cases ext <;> decide +kernel

theorem sample_inRange (ext : Ext) (total : Nat) (h : 17488 ≤ total) : InRange (sampleFlash ext total) 0 5 16 := by
  unfold InRange sampleFlash
  rw [size_ofFn]
  omega

theorem sample_crcOk (ext : Ext) (total : Nat) (h : 17488 ≤ total) : CrcOk (sampleFlash ext total) 0 5 16 := by
  unfold CrcOk storedCrc covered sampleFlash
  rw [byte_ofFn _ _ _ (by omega), byte_ofFn _ _ _ (by omega), byte_ofFn _ _ _ (by omega), byte_ofFn _ _ _ (by omega),
    read_ofFn _ _ _ _ (by omega)]
  cases ext <;> decide +kernel

/-- the sample slot validates … -/
theorem sample_valid : (isValidFirmware (sampleFlash .complete 17488) 17488 0).1 = .ok :=
  (valid_iff _ _ _).mpr ⟨sampleHeader .complete, [], sample_parse _ _ (by decide), rfl, rfl,
    sample_inRange _ _ (by decide), sample_crcOk _ _ (by decide)⟩

/-- … with any one bit flipped in the covered bytes or in the stored word it does not (instances of
    `crc_single_bit`: its hypotheses are satisfiable) … -/
example : (isValidFirmware (flipBit (sampleFlash .complete 17488) (0x4400 + 79) 0) 17488 0).1 = .crc32Mismatch :=
  crc_single_bit _ 17488 0 (0x4400 + 79) 0 _ _ (by decide) (sample_parse _ _ (by decide)) sample_valid (by decide)

example : (isValidFirmware (flipBit (sampleFlash .complete 17488) (0x4400 + 2) 7) 17488 0).1 = .crc32Mismatch :=
  crc_single_bit _ 17488 0 (0x4400 + 2) 7 _ _ (by decide) (sample_parse _ _ (by decide)) sample_valid (by decide)

/-- … with status `InProgress` it is `CheckFailNotDone`, and a slot beyond the device is a read error -/
example : (isValidFirmware (sampleFlash .inProgress 17488) 17488 0).1 = .checkFailNotDone :=
  valid_err_not_done _ _ _ _ _ (by rw [sample_size]; decide) (sample_parse _ _ (by decide)) rfl (by decide)

example : (isValidFirmware (sampleFlash .complete 17488) 17488 1).1 = .spiOutOfBounds :=
  valid_err_header_oob _ _ _ (by rw [sample_size]; decide)

/-- the final check of a session on a two-slot device whose firmware slot holds the image with status `InProgress`:
    it succeeds with exactly the two status programs -/
example : (checkAndMarkDone (sampleFlash .inProgress (2 * 17488)) true 0 17488).res = .ok ∧
    (checkAndMarkDone (sampleFlash .inProgress (2 * 17488)) true 0 17488).ops = markOps 0 17488 := by
  have hp := sample_parse .inProgress (2 * 17488) (by decide)
  have hl : loadHeader (sampleFlash .inProgress (2 * 17488)) 0 = some (some (sampleHeader .inProgress)) := by
    rw [loadHeader_eq, hp]
    simp [sampleFlash, size_ofFn]
  have hc : (crcValid (sampleFlash .inProgress (2 * 17488)) 0 (sampleHeader .inProgress) [(0, 28)]).1 = .ok := by
    rw [crcValid_fst _ _ _ _ (by decide) (by decide)]
    have h1 : InRange (sampleFlash .inProgress (2 * 17488)) 0 (sampleHeader .inProgress).size (sampleHeader .inProgress).n :=
      sample_inRange _ _ (by decide)
    have h2 : CrcOk (sampleFlash .inProgress (2 * 17488)) 0 (sampleHeader .inProgress).size (sampleHeader .inProgress).n :=
      sample_crcOk _ _ (by decide)
    simp [h1, h2]
  exact check_gate_ok _ 0 17488 _ hl hc (by rw [sample_size]; decide)

end Fuota.C14
