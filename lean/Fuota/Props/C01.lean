import Fuota.Props.C02
import Fuota.Lemmas.Counters
import Fuota.Lemmas.RefineSession
import Fuota.Lemmas.RefineStart
/-!
# C01 — a completed update is exact; progress counters are monotone, bounded and exact at completion

Part A (this section): the progress counter at the level of the reconstructor model `Fuota.Recon` (L0).
-/
namespace Fuota.C01
open Fuota.Recon Fuota.Gf2 Fuota.C02

/-- **C01 (counters, L0).** Along every fault-free run (same space of runs as C02; `is` is any prefix and `i` the
next delivery): the progress counter `received` = (data blocks present) + (pivots stored) never decreases, never
exceeds the block count `n`, and equals `n` exactly when the session is complete — which, after at least one
delivery, is exactly when the last delivery answered `Done`. The bit sets have no bits at or above `n` resp. `l`, so
clamping the population counts (as the Rust code does) changes nothing. -/
theorem counters (V : Variant) (n bs vbits numRows : Nat) (x P : Nat → Nat) (hP : Contract n P)
    (is : List Nat) (i : Nat) :
    let s := (run V n bs vbits numRows x P is).1
    let s' := (run V n bs vbits numRows x P (is ++ [i])).1
    received s ≤ received s' ∧
    received s ≤ n ∧ s.n = n ∧ s.done < 2 ^ n ∧ s.used < 2 ^ s.l ∧
    (received s = n ↔ isComplete s = true) ∧
    (is ≠ [] → (isComplete s = true ↔ ∃ b, (run V n bs vbits numRows x P is).2.getLast? = some (Res.done b))) := by
  intro s s'
  obtain ⟨hI, _, hlast⟩ := run_inv V n bs vbits numRows x P hP is
  have hC := hI.core
  refine ⟨?_, hC.received_le, hC.hn, hC.done_lt, hC.used_lt, hC.received_eq_iff, ?_⟩
  · have hs' : s' = (handleBlock V noFault P vbits numRows s i (combo x (P i) n) s.bs).1 := by
      show (run V n bs vbits numRows x P (is ++ [i])).1 = _
      unfold run
      rw [runBlocks_append]
      rfl
    rw [hs']
    exact (handleBlock_progress V P vbits numRows s i _ hC.hech hC.hst2).1
  · intro hne
    constructor
    · intro hc
      exact ⟨n * bs, runBlocks_last_done hP V is _ (inv_init n bs vbits numRows x) hne hc⟩
    · rintro ⟨b, hb⟩
      exact hlast b hb

/-- non-vacuity: in the crate's unit-test run (see C02) the counter goes 0, 1, 2, 2, 3, 4 (block 9
projects to the zero row on the unknown columns and adds nothing) -/
example :
    let P : Nat → Nat := fun m => if m < 4 then 2 ^ m else (m - 4) % 16
    let x : Nat → Nat := fun m => 17 * (m + 1)
    ([[], [0], [0, 2], [0, 2, 9], [0, 2, 9, 10], [0, 2, 9, 10, 14]].map
      fun is => received (run ⟨true⟩ 4 1 8 8 x P is).1) = [0, 1, 2, 2, 3, 4] := by
  decide +kernel

/-! ## Part B/C — the flash-backed updater refines the model; a completed session holds exactly the image -/

open Fuota.Updater Fuota.Fs Fuota.Nor Fuota.FlashAdapters

/-- the row generator is defined (does not run out of fuel or hit its assertions) at every fragment number of the
    delivery list -/
def RowsDefined (ffr : Bool) (n : Nat) (is : List Nat) : Prop := ∀ i ∈ is, (updaterRow ffr n (i - 1)).isSome = true

/-- without `force-full-r` the generator is defined at every `u32` fragment number, for every accepted count -/
theorem rowsDefined_std (n : Nat) (h1 : 1 ≤ n) (hn : n ≤ 16384) (is : List Nat) (h32 : ∀ i ∈ is, i < 2 ^ 32) :
    RowsDefined false n is := by
  intro i hi
  show (Lfdbt.updaterRow false n (i - 1)).isSome = true
  unfold Lfdbt.updaterRow
  by_cases hlt : i - 1 < n
  · simp [hlt]
  · have h := h32 i hi
    simp only [hlt, ↓reduceIte]
    have e1 : (i - 1 - n + 1) % 2 ^ 32 = i - 1 - n + 1 := Nat.mod_eq_of_lt (by omega)
    have e2 : n % 2 ^ 32 = n := Nat.mod_eq_of_lt (by omega)
    rw [e1, e2]
    obtain ⟨row, hrow⟩ := (C10.terminates h1 (by omega)).2.2 (i - 1 - n + 1) (by omega) hn
    rw [hrow]; rfl

/-- the rows the session uses, as a total function (undefined rows read as the zero row) -/
def rowFn (ffr : Bool) (n : Nat) : Nat → Nat := fun m => (updaterRow ffr n m).getD 0

/-- the fragment with 0-based index `i` of image `img`: block `i` below `n`, above it the XOR of the blocks
    selected by row `i` -/
def fragment (ffr : Bool) (n bs : Nat) (img : Nat → List Nat) (i : Nat) : List Nat :=
  if i < n then img i else codedFrag bs n img (rowFn ffr n i)

/-- all corresponding results are successes -/
theorem allCorr_ok : ∀ {as : List (Except MErr Outcome)} {bs : List Res}, AllCorr as bs →
    ∀ a ∈ as, ∃ o, a = .ok o
  | [], [], _, a, h => by simp at h
  | [], _ :: _, h, _, _ => h.elim
  | _ :: _, [], h, _, _ => h.elim
  | a :: as, b :: bs, h, a', ha' => by
    rcases List.mem_cons.1 ha' with rfl | ha'
    · cases a' with
      | ok o => exact ⟨o, rfl⟩
      | error e => cases b <;> exact h.1.elim
    · exact allCorr_ok h.2 a' ha'

/-- a `FirmwareComplete` on the flash side corresponds to a `Done` on the model side -/
theorem allCorr_complete : ∀ {as : List (Except MErr Outcome)} {bs : List Res}, AllCorr as bs →
    Except.ok Outcome.complete ∈ as → ∃ b, Res.done b ∈ bs
  | [], [], _, h => by simp at h
  | [], _ :: _, h, _ => h.elim
  | _ :: _, [], h, _ => h.elim
  | a :: as, b :: bs, h, ha => by
    rcases List.mem_cons.1 ha with rfl | ha
    · cases b with
      | done k => exact ⟨k, List.mem_cons_self⟩
      | needMore => exact h.1.elim
      | tooMany => exact h.1.elim
      | err e => exact h.1.elim
      | panic => exact h.1.elim
    · obtain ⟨k, hk⟩ := allCorr_complete h.2 ha
      exact ⟨k, List.mem_cons_of_mem _ hk⟩

/-- **C01 (simulation step, L2 → L0).** On an updater and device satisfying the session invariant `Lawful`, for a
block of `bs` bytes and an index at which the row generator is defined: one `handle_block` call of the flash-backed
reconstructor and one step of the model `Recon.handleBlock` (either store order, capacities 2048 and `maxL`, matrix =
the updater's row generator) from the abstraction `abs (u, d)` on the number the block denotes give corresponding
results (`some true` ↔ `Done`, `some false` ↔ `NeedMore`, `none` ↔ `TooMany`, never an error or panic); the invariant
holds of the new updater and device; the new abstraction has the contents of the model's new state (`C18.Equiv`);
and the static fields of the updater are unchanged. -/
theorem simulation_step (V : Variant) (ffr : Bool) (u : Upd) (d : Dev) (L : Lawful u d) (index : Nat)
    (bytes : List Nat) (hb : IsBytes bytes) (hlen : bytes.length = u.bs)
    (hrow : (updaterRow ffr u.n index).isSome = true) :
    let r2 := (Updater.handleBlock ffr index bytes).run (u, d)
    let r0 := Recon.handleBlock V noFault (rowFn ffr u.n) 2048 u.maxL (abs (u, d)) index (bytesToNat bytes) u.bs
    ResCorr r2.1 r0.2 ∧ Lawful r2.2.1 r2.2.2 ∧ C18.Equiv (abs r2.2) r0.1 ∧ Static u r2.2.1 :=
  handleBlock_sim V ffr L index bytes hb hlen hrow

/-- the progress counter of the updater (`received_firmware_segments`, with its clamp) is the model's counter on the
    abstraction: under the session invariant the clamp and the fixed counting widths change nothing -/
theorem received_abs {u : Upd} {d : Dev} (L : Lawful u d) : u.received = received (abs (u, d)) := by
  have hpc : ∀ m k, popcount m k = pop m k := by
    intro m k
    induction k with
    | zero => rfl
    | succ k ih => simp [popcount, pop, ih]
  have g := L.base.geo
  have hmax := g.slots.2.2.2.2.2.1
  have hdn : ∀ i, u.n ≤ i → u.done.testBit i = false := by
    intro i hi
    cases hb : u.done.testBit i with
    | false => rfl
    | true => have := L.base.hdone i hb; omega
  have hus : ∀ i, u.l ≤ i → u.used.testBit i = false := by
    intro i hi
    cases hb : u.used.testBit i with
    | false => rfl
    | true => have := (L.base.hech i hb).1; omega
  have h1 : pop u.done 16384 = pop u.done u.n := pop_of_lt _ _ _ g.hn.2 hdn
  have h2 : pop u.used 2048 = pop u.used u.l := pop_of_lt _ _ _ (by have := L.base.hl; omega) hus
  have h3 := pop_add_unknowns u.done u.n
  have h4 := pop_le u.used u.l
  have hle : pop u.done u.n + pop u.used u.l ≤ u.n := by
    by_cases hl : u.l = 0
    · rw [hl] at h4 ⊢; omega
    · have := L.base.hl2 hl
      have h5 : pop u.used u.l ≤ (unknowns u.done u.n).length := by rw [← this]; exact h4
      omega
  show min (popcount u.done MAX_SEGMENTS + popcount u.used VBITS) u.n = pop u.done u.n + pop u.used u.l
  rw [hpc, hpc, show MAX_SEGMENTS = 16384 from rfl, show VBITS = 2048 from rfl, h1, h2]
  exact Nat.min_eq_left hle

/-- **C01 (refinement of sessions).** A crash-free, fault-free session of the updater from a fresh state satisfying
the session invariant is, delivery by delivery, a run of the reconstructor model in the sense of C02 (store order
`bitBeforeStore = false`, capacities 2048 and `maxL`) on the numbers the image blocks denote: results correspond,
the invariant and the static fields are kept, and the final abstraction has the contents of the model's final state. -/
theorem session_refines (ffr : Bool) (u0 : Upd) (d0 : Dev) (img : Nat → List Nat) (is : List Nat)
    (hL : Lawful u0 d0) (hfresh : u0.l = 0 ∧ u0.done = 0 ∧ u0.used = 0)
    (himg : ∀ m, m < u0.n → IsBytes (img m) ∧ (img m).length = u0.bs)
    (hrows : RowsDefined ffr u0.n is) (hidx : ∀ i ∈ is, i ≠ 0) :
    Contract u0.n (rowFn ffr u0.n) ∧
    Lawful (session ffr (fragment ffr u0.n u0.bs img) is (u0, d0)).2.1
      (session ffr (fragment ffr u0.n u0.bs img) is (u0, d0)).2.2 ∧
    Fault.Eqv (abs (session ffr (fragment ffr u0.n u0.bs img) is (u0, d0)).2)
      (run ⟨false⟩ u0.n u0.bs 2048 u0.maxL (fun m => bytesToNat (img m)) (rowFn ffr u0.n) (is.map (· - 1))).1 ∧
    AllCorr (session ffr (fragment ffr u0.n u0.bs img) is (u0, d0)).1
      (run ⟨false⟩ u0.n u0.bs 2048 u0.maxL (fun m => bytesToNat (img m)) (rowFn ffr u0.n) (is.map (· - 1))).2 ∧
    Static u0 (session ffr (fragment ffr u0.n u0.bs img) is (u0, d0)).2.1 := by
  obtain ⟨hl0, hd0, hu0⟩ := hfresh
  have g := hL.base.geo
  have hC : Contract u0.n (rowFn ffr u0.n) := updaterRow_contract ffr u0.n g.hn.2
  -- the fragments are blocks of bytes denoting the model's combinations
  have hfrag : ∀ i, IsBytes (fragment ffr u0.n u0.bs img i) ∧ (fragment ffr u0.n u0.bs img i).length = u0.bs ∧
      bytesToNat (fragment ffr u0.n u0.bs img i) =
        combo (fun m => bytesToNat (img m)) (rowFn ffr u0.n i) u0.n := by
    intro i
    unfold fragment
    by_cases hi : i < u0.n
    · simp only [hi, ↓reduceIte]
      refine ⟨(himg i hi).1, (himg i hi).2, ?_⟩
      rw [hC.1 i hi, combo_two_pow _ i u0.n hi]
    · simp only [hi, ↓reduceIte]
      exact codedFrag_spec u0.bs u0.n img _ himg
  -- the initial abstraction is the model's initial state
  have hinc : rcComplete u0 = false := by
    cases hc : rcComplete u0 with
    | false => rfl
    | true =>
      have := (rcComplete_stage1 u0 hl0).1 hc 0 (by have := g.hn.1; omega)
      rw [hd0] at this; simp at this
  have hE0 : Fault.Eqv (abs (u0, d0)) (init u0.n u0.bs) := by
    obtain ⟨_, _, _, _, _, a6, a7, a8⟩ := sim_abs u0 d0
    refine ⟨rfl, rfl, hl0, hd0, hu0, fun k => ?_, fun k => ?_, fun k => ?_⟩
    · rw [a6]
      show dsVal u0 d0.flash k = 0
      unfold dsVal
      split
      · rename_i h
        have := (hL.base.herD k h.1 ⟨hinc, by rw [hd0]; simp⟩).2
        rw [this] at h; simp at h
      · rfl
    · rw [a7]; show psVal u0 d0.flash k = 0; simp [psVal, hu0]
    · rw [a8]; show msVal u0 d0.flash k = 0; simp [msVal, hu0]
  obtain ⟨c1, c2, c3, c4⟩ := session_sim ⟨false⟩ ffr u0.n u0.bs u0.maxL (fragment ffr u0.n u0.bs img)
    (fun i => ⟨(hfrag i).1, (hfrag i).2.1⟩) is u0 d0 (init u0.n u0.bs) hidx hrows hL rfl rfl rfl hE0
  -- the model side is a run in the sense of C02
  have hrun : runBlocks ⟨false⟩ noFault (fun m => (updaterRow ffr u0.n m).getD 0) 2048 u0.maxL
      (fun i => bytesToNat (fragment ffr u0.n u0.bs img i)) (init u0.n u0.bs) (is.map (· - 1)) =
      run ⟨false⟩ u0.n u0.bs 2048 u0.maxL (fun m => bytesToNat (img m)) (rowFn ffr u0.n) (is.map (· - 1)) :=
    runBlocks_congr _ _ _ _ _ _ _ _ _ (fun i _ => (hfrag i).2.2)
  rw [hrun] at c2 c3
  exact ⟨hC, c1, c2, c3, c4⟩

/-- a `Done` on the model side corresponds to a `FirmwareComplete` on the flash side -/
theorem allCorr_done : ∀ {as : List (Except MErr Outcome)} {bs : List Res} {k : Nat}, AllCorr as bs →
    Res.done k ∈ bs → Except.ok Outcome.complete ∈ as
  | [], [], _, _, h => by simp at h
  | [], _ :: _, _, h, _ => h.elim
  | _ :: _, [], _, h, _ => h.elim
  | a :: as, b :: bs, k, h, hb => by
    rcases List.mem_cons.1 hb with rfl | hb
    · cases a with
      | error e => exact h.1.elim
      | ok o =>
        cases o with
        | complete => exact List.mem_cons_self
        | consumed => exact h.1.elim
    · exact List.mem_cons_of_mem _ (allCorr_done h.2 hb)

/-- **C01 (completion is the model's).** In such a session some delivery answers `FirmwareComplete` exactly when
some delivery of the corresponding model run answers `Done` (so C03's rank criterion applies to the updater). -/
theorem complete_iff_model (ffr : Bool) (u0 : Upd) (d0 : Dev) (img : Nat → List Nat) (is : List Nat)
    (hL : Lawful u0 d0) (hfresh : u0.l = 0 ∧ u0.done = 0 ∧ u0.used = 0)
    (himg : ∀ m, m < u0.n → IsBytes (img m) ∧ (img m).length = u0.bs)
    (hrows : RowsDefined ffr u0.n is) (hidx : ∀ i ∈ is, i ≠ 0) :
    .ok .complete ∈ (session ffr (fragment ffr u0.n u0.bs img) is (u0, d0)).1 ↔
      ∃ b, Res.done b ∈ (run ⟨false⟩ u0.n u0.bs 2048 u0.maxL (fun m => bytesToNat (img m)) (rowFn ffr u0.n)
        (is.map (· - 1))).2 := by
  obtain ⟨_, _, _, c3, _⟩ := session_refines ffr u0 d0 img is hL hfresh himg hrows hidx
  exact ⟨allCorr_complete c3, fun ⟨_, hb⟩ => allCorr_done c3 hb⟩

/-- **C01 (exactness).** Take a session state satisfying the session invariant `Lawful` in which nothing has been
received yet (the state right after `start_update`), an image `img` of `n` blocks of `bs` bytes, a row generator
defined at every index, and any list of 1-based fragment numbers `is`; deliver fragment `i` of the image under number
`i + 1` (block `i` itself for `i < n`, the XOR of the blocks selected by row `i` otherwise), crash free and fault
free. Then no delivery fails, the invariant holds at the end, and if some delivery answered `FirmwareComplete`, the
firmware slot's data region holds the image byte for byte — block `m` at data offset `m * bs` — and every segment is
marked written. -/
theorem update_exact (ffr : Bool) (u0 : Upd) (d0 : Dev) (img : Nat → List Nat) (is : List Nat)
    (hL : Lawful u0 d0) (hfresh : u0.l = 0 ∧ u0.done = 0 ∧ u0.used = 0)
    (himg : ∀ m, m < u0.n → IsBytes (img m) ∧ (img m).length = u0.bs)
    (hrows : RowsDefined ffr u0.n is) (hidx : ∀ i ∈ is, i ≠ 0) :
    let r := session ffr (fragment ffr u0.n u0.bs img) is (u0, d0)
    (∀ res ∈ r.1, ∃ o, res = .ok o) ∧ Lawful r.2.1 r.2.2 ∧ r.2.1.fw = u0.fw ∧
    (.ok .complete ∈ r.1 → ∀ m, m < u0.n →
      r.2.2.flash.read (u0.fw.idx * u0.fw.size + 17408 + m * u0.bs) u0.bs = img m ∧
      r.2.2.flash.byte (u0.fw.idx * u0.fw.size + 1024 + m) = 0x33) := by
  intro r
  obtain ⟨hC, c1, c2, c3, c4⟩ := session_refines ffr u0 d0 img is hL hfresh himg hrows hidx
  obtain ⟨hI, _, _⟩ := run_inv ⟨false⟩ u0.n u0.bs 2048 u0.maxL (fun m => bytesToNat (img m)) (rowFn ffr u0.n) hC
    (is.map (· - 1))
  refine ⟨allCorr_ok c3, c1, c4.1, ?_⟩
  intro hcomp m hm
  obtain ⟨b, hb⟩ := allCorr_complete c3 hcomp
  have hcs : isComplete (run ⟨false⟩ u0.n u0.bs 2048 u0.maxL (fun m => bytesToNat (img m)) (rowFn ffr u0.n)
      (is.map (· - 1))).1 = true :=
    runBlocks_complete_of_done hC ⟨false⟩ _ _ (inv_init _ _ _ _ _) (Or.inr ⟨b, hb⟩)
  have hfull := hI.full hcs m hm
  generalize (run ⟨false⟩ u0.n u0.bs 2048 u0.maxL (fun m => bytesToNat (img m)) (rowFn ffr u0.n)
      (is.map (· - 1))).1 = s' at *
  obtain ⟨k1, k2, k3, k4, k5, k6⟩ := c4
  generalize hr : r.2 = p at *
  obtain ⟨u', d'⟩ := p
  dsimp only at k1 k2 k3 k4 k5 k6 c1 ⊢
  obtain ⟨e1, e2, e3, e4, e5, e6, e7, e8⟩ := c2
  have hcu : rcComplete u' = true := by
    have : isComplete (abs (u', d')) = isComplete s' := isComplete_congr e3 e1 e4 e5
    rw [rcComplete_eq u' d', this]; exact hcs
  have hmark := c1.marked hcu m (by rw [k3]; exact hm)
  have hsa : segAddr u' m = u0.fw.idx * u0.fw.size + 17408 + m * u0.bs := by
    simp only [segAddr, fwBase, k1, k4]
  have hst : statAddr u' m = u0.fw.idx * u0.fw.size + 1024 + m := by
    simp only [statAddr, fwBase, k1]
  rw [hst] at hmark
  refine ⟨?_, hmark⟩
  obtain ⟨_, _, _, _, _, a6, _, _⟩ := sim_abs u' d'
  have hv : dsVal u' d'.flash m = bytesToNat (img m) := by rw [← a6, e6, hfull]
  have hmn : m < u'.n := by rw [k3]; exact hm
  rw [← hst] at hmark
  simp only [dsVal, hmn, hmark, and_self, ↓reduceIte, hsa, k4] at hv
  exact bytesToNat_inj (isBytes_read c1.base.wf _ _) (himg m hm).1
    (by rw [length_read, (himg m hm).2]) hv

/-- **C01 (capstone).** On a device without armed crash or fault injection whose cells hold bytes, with at least two
slots of `S` bytes inside the device and `S` a multiple of the erase-block size: for every accepted geometry
(`is_reasonably_sized`), image `img` of `n` blocks of `sz` bytes, row generator defined at every index, and list `is`
of non-zero fragment numbers, `start_update` succeeds, and delivering the fragments of the image (fragment `i ≤ n` =
block `i − 1`, fragment `n + k` = the XOR of the blocks selected by row `n + k − 1`) under these numbers never fails;
if some delivery answers `FirmwareComplete`, the data region of the firmware slot (offset 17408 of slot `fw`) holds
the image byte for byte, block `m` at data offset `m * sz`, and every segment carries the written mark. -/
theorem update_exact_from_start (ffr : Bool) (nslots S sz n : Nat) (d : Dev) (hG : Good d)
    (hwf : FlashAdapters.WF d.flash) (hacc : reasonablySized S sz n = .ok ()) (hdev : nslots * S ≤ d.flash.size)
    (hb0 : 0 < d.flash.block) (hdiv : S % d.flash.block = 0) (hn : 2 ≤ nslots)
    (img : Nat → List Nat) (himg : ∀ m, m < n → IsBytes (img m) ∧ (img m).length = sz)
    (is : List Nat) (hrows : RowsDefined ffr n is) (hidx : ∀ i ∈ is, i ≠ 0) :
    ∃ u0 d0, (startUpdate nslots S sz n).run d = (.ok u0, d0) ∧ u0.fw.idx < nslots ∧ u0.fw.size = S ∧
      (∀ res ∈ (session ffr (fragment ffr n sz img) is (u0, d0)).1, ∃ o, res = .ok o) ∧
      (.ok .complete ∈ (session ffr (fragment ffr n sz img) is (u0, d0)).1 → ∀ m, m < n →
        (session ffr (fragment ffr n sz img) is (u0, d0)).2.2.flash.read (u0.fw.idx * S + 17408 + m * sz) sz = img m ∧
        (session ffr (fragment ffr n sz img) is (u0, d0)).2.2.flash.byte (u0.fw.idx * S + 1024 + m) = 0x33) := by
  obtain ⟨u0, d0, hrun, hL, h1, h2, h3, h4, h5, _, h7, _, h9, _⟩ :=
    startUpdate_lawful nslots S sz n d hG hwf hacc hdev hb0 hdiv hn
  have := update_exact ffr u0 d0 img is hL ⟨h1, h2, h3⟩ (by rw [h4, h5]; exact himg) (by rw [h4]; exact hrows) hidx
  simp only [h4, h5, h7] at this
  exact ⟨u0, d0, hrun, h9, h7, this.1, this.2.2.2⟩

/-- the capstone without `force-full-r`: the row generator is defined at every `u32` fragment number, so no
    hypothesis about it is needed -/
theorem update_exact_std (nslots S sz n : Nat) (d : Dev) (hG : Good d)
    (hwf : FlashAdapters.WF d.flash) (hacc : reasonablySized S sz n = .ok ()) (hdev : nslots * S ≤ d.flash.size)
    (hb0 : 0 < d.flash.block) (hdiv : S % d.flash.block = 0) (hn : 2 ≤ nslots)
    (img : Nat → List Nat) (himg : ∀ m, m < n → IsBytes (img m) ∧ (img m).length = sz)
    (is : List Nat) (hidx : ∀ i ∈ is, i ≠ 0 ∧ i < 2 ^ 32) :
    ∃ u0 d0, (startUpdate nslots S sz n).run d = (.ok u0, d0) ∧ u0.fw.idx < nslots ∧ u0.fw.size = S ∧
      (∀ res ∈ (session false (fragment false n sz img) is (u0, d0)).1, ∃ o, res = .ok o) ∧
      (.ok .complete ∈ (session false (fragment false n sz img) is (u0, d0)).1 → ∀ m, m < n →
        (session false (fragment false n sz img) is (u0, d0)).2.2.flash.read (u0.fw.idx * S + 17408 + m * sz) sz
          = img m ∧
        (session false (fragment false n sz img) is (u0, d0)).2.2.flash.byte (u0.fw.idx * S + 1024 + m) = 0x33) := by
  obtain ⟨_, _, a3, a4, _⟩ := reasonablySized_ok hacc
  exact update_exact_from_start false nslots S sz n d hG hwf hacc hdev hb0 hdiv hn img himg is
    (rowsDefined_std n a3 a4 is (fun i hi => (hidx i hi).2)) (fun i hi => (hidx i hi).1)

/-- a blank device has the announced size and block size and holds bytes -/
theorem blank_spec (block total : Nat) :
    (Flash.blank block total).size = total ∧ (Flash.blank block total).block = block ∧
    FlashAdapters.WF (Flash.blank block total) := by
  refine ⟨by simp [Flash.blank, Flash.size], rfl, fun x => ?_⟩
  simp only [Flash.byte, Flash.blank, Array.getD_eq_getD_getElem?, Array.getElem?_replicate]
  split <;> simp

/-- non-vacuity: a blank 64 KiB device with 4 KiB erase blocks and two 32 KiB slots meets every hypothesis on the
device, the geometry "2 fragments of 1 byte" is accepted, and (next example) on **every** such device delivering
fragments 1 and 2 of the image `[[7], [9]]` ends with `FirmwareComplete`, so the premise of the exactness statements
is attainable -/
example :
    Good { flash := Flash.blank 4096 65536 } ∧ FlashAdapters.WF (Flash.blank 4096 65536) ∧
      reasonablySized 32768 1 2 = .ok () ∧ 2 * 32768 ≤ (Flash.blank 4096 65536).size ∧
      0 < (Flash.blank 4096 65536).block ∧ 32768 % (Flash.blank 4096 65536).block = 0 := by
  obtain ⟨h1, h2, h3⟩ := blank_spec 4096 65536
  refine ⟨⟨rfl, rfl, rfl⟩, h3, (C15.accept_iff 32768 1 2 (by decide) (by decide)).2 (by decide), ?_, ?_, ?_⟩
  · rw [h1]; decide
  · rw [h2]; decide
  · rw [h2]

example (d : Dev) (hG : Good d) (hwf : FlashAdapters.WF d.flash) (hdev : 2 * 32768 ≤ d.flash.size)
    (hb0 : 0 < d.flash.block) (hdiv : 32768 % d.flash.block = 0) :
    ∃ u0 d0, (startUpdate 2 32768 1 2).run d = (.ok u0, d0) ∧
      .ok .complete ∈ (session false (fragment false 2 1 (fun m => [7 + 2 * m])) [1, 2] (u0, d0)).1 := by
  obtain ⟨u0, d0, hrun, hL, h1, h2, h3, h4, h5, h6, _⟩ :=
    startUpdate_lawful 2 32768 1 2 d hG hwf ((C15.accept_iff 32768 1 2 (by decide) (by decide)).2 (by decide))
      hdev hb0 hdiv (by omega)
  refine ⟨u0, d0, hrun, ?_⟩
  have himg : ∀ m, m < u0.n → IsBytes ((fun m => [7 + 2 * m]) m) ∧ ((fun m => [7 + 2 * m]) m).length = u0.bs := by
    intro m hm
    rw [h4] at hm
    refine ⟨fun b hb => ?_, by rw [h5]; rfl⟩
    simp only [List.mem_singleton] at hb
    omega
  have hrows : RowsDefined false u0.n [1, 2] := by
    rw [h4]; exact rowsDefined_std 2 (by omega) (by omega) _ (by decide)
  have := (complete_iff_model false u0 d0 (fun m => [7 + 2 * m]) [1, 2] hL ⟨h1, h2, h3⟩ himg hrows (by decide)).2
  rw [h4, h5] at this
  apply this
  rw [h6]
  exact ⟨2, by decide +kernel⟩

/-- **C01 (counters on the flash-backed updater).** Along every such session (`is` any prefix, `idx1` the next
fragment number) the updater's counter `received_firmware_segments` never decreases, never exceeds the fragment count
`n`, and equals `n` exactly when the reconstruction is complete. -/
theorem counters_flash (ffr : Bool) (u0 : Upd) (d0 : Dev) (img : Nat → List Nat) (is : List Nat) (idx1 : Nat)
    (hL : Lawful u0 d0) (hfresh : u0.l = 0 ∧ u0.done = 0 ∧ u0.used = 0)
    (himg : ∀ m, m < u0.n → IsBytes (img m) ∧ (img m).length = u0.bs)
    (hrows : RowsDefined ffr u0.n (is ++ [idx1])) (hidx : ∀ i ∈ is, i ≠ 0) (h1 : idx1 ≠ 0) :
    let u := (session ffr (fragment ffr u0.n u0.bs img) is (u0, d0)).2.1
    let u' := (session ffr (fragment ffr u0.n u0.bs img) (is ++ [idx1]) (u0, d0)).2.1
    u.received ≤ u'.received ∧ u.received ≤ u0.n ∧ (u.received = u0.n ↔ rcComplete u = true) := by
  intro u u'
  obtain ⟨hC, c1, c2, _, _⟩ := session_refines ffr u0 d0 img is hL hfresh himg
    (fun i hi => hrows i (List.mem_append_left _ hi)) hidx
  obtain ⟨_, c1', c2', _, _⟩ := session_refines ffr u0 d0 img (is ++ [idx1]) hL hfresh himg hrows (by
    intro i hi
    rcases List.mem_append.1 hi with h | h
    · exact hidx i h
    · simp at h; rw [h]; exact h1)
  have hcnt := counters ⟨false⟩ u0.n u0.bs 2048 u0.maxL (fun m => bytesToNat (img m)) (rowFn ffr u0.n) hC
    (is.map (· - 1)) (idx1 - 1)
  simp only at hcnt
  obtain ⟨m1, m2, _, _, _, m6, _⟩ := hcnt
  have hrec : ∀ {a b : St}, Fault.Eqv a b → received a = received b := by
    intro a b h
    obtain ⟨e1, _, e3, e4, e5, _⟩ := h
    unfold received; rw [e1, e3, e4, e5]
  have hmap : (is ++ [idx1]).map (· - 1) = is.map (· - 1) ++ [idx1 - 1] := by simp
  rw [hmap] at c2'
  have r1 : u.received = received (run ⟨false⟩ u0.n u0.bs 2048 u0.maxL (fun m => bytesToNat (img m))
      (rowFn ffr u0.n) (is.map (· - 1))).1 := by
    rw [← hrec c2]; exact received_abs c1
  have r2 : u'.received = received (run ⟨false⟩ u0.n u0.bs 2048 u0.maxL (fun m => bytesToNat (img m))
      (rowFn ffr u0.n) (is.map (· - 1) ++ [idx1 - 1])).1 := by
    rw [← hrec c2']; exact received_abs c1'
  have hcomp : rcComplete u = isComplete (run ⟨false⟩ u0.n u0.bs 2048 u0.maxL (fun m => bytesToNat (img m))
      (rowFn ffr u0.n) (is.map (· - 1))).1 := by
    obtain ⟨e1, _, e3, e4, e5, _⟩ := c2
    exact isComplete_congr e3.symm e1.symm e4.symm e5.symm |>.symm
  rw [r1, r2, hcomp]
  exact ⟨m1, m2, m6⟩

end Fuota.C01
