import Fuota.Lemmas.RingMachine
/-!
# C05 — starting an update never destroys the newest confirmed firmware

`choosePair` is the validated model of `alloc_slotpair`'s decision (`Model/Fs`), `fallbackSlot` of
`fallback_firmware_slot`; `startEffs` / `startSuccs` (`Model/Slots`) are the header-level effects of `start_update`
built from `choosePair`. `ArcInv` is stated with the very `low` / `high` scans `choosePair` uses.
-/
namespace Fuota.C05
open Fuota.Layout Fuota.Fs Fuota.Updater Fuota.Slots Fuota.Ring

/-- **the repaired allocation never panics**: `choosePair` has no failing path, for every slot count and every
    header arrangement (the third branch no longer unwraps a possibly blank slot) -/
theorem alloc_never_panics (n : Nat) (hs : Hdrs) : ∃ a b sa sb, choosePair n hs = .ok (a, b, sa, sb) := by
  obtain ⟨⟨a, b, sa, sb⟩, h⟩ := choosePair_ok n hs
  exact ⟨a, b, sa, sb, h⟩

/-- **the allocation spares the fallback image**: with at least four slots and every used slot on the arc from
    `low` to `high`, the chosen pair is a pair of two different slots of the ring, none of them the slot the
    fallback query names. -/
theorem alloc_spares_fallback (n : Nat) (hn : 4 ≤ n) (hs : Hdrs) (hlen : hs.length = n)
    (harc : ArcInv n hs) (f : Nat) (hf : fallbackSlot hs = some f) :
    ∃ a b sa sb, choosePair n hs = .ok (a, b, sa, sb) ∧ a ≠ f ∧ b ≠ f ∧ a < n ∧ b < n ∧ a ≠ b := by
  obtain ⟨hd, hfu, _⟩ := fallbackSlot_used hf
  obtain ⟨⟨low, ls, hl⟩, ⟨high, hsq, hh⟩⟩ := scans_of_used hfu
  have harc' := (arcInv_iff hl hh).mp harc
  obtain ⟨hlo, hlou, -⟩ := lowOf_eq_some.mp hl
  obtain ⟨hhi, hhiu, -⟩ := highOf_eq_some.mp hh
  have hlown : low < n := hlen ▸ used_lt hlou
  have hhighn : high < n := hlen ▸ used_lt hhiu
  have hfn : f < n := hlen ▸ used_lt hfu
  have hfarc := harc' f hd hfu
  unfold off at hfarc
  rw [choosePair_unfold, hl, hh]
  dsimp only
  rw [hf]
  simp only [Option.getD_some]
  have m1 := succ_cases n high hhighn
  have m2 := succ2_cases n high hhighn (by omega)
  have m3 := pred_cases n high hhighn
  have m4 := off_cases n low high hhighn hlown
  have m5 := off_cases n low f hfn hlown
  split
  · refine ⟨_, _, _, _, rfl, ?_⟩; omega
  · split
    · split
      · refine ⟨_, _, _, _, rfl, ?_⟩; omega
      · refine ⟨_, _, _, _, rfl, ?_⟩; omega
    · split
      · split
        · refine ⟨_, _, _, _, rfl, ?_⟩; omega
        · refine ⟨_, _, _, _, rfl, ?_⟩; omega
      · refine ⟨_, _, _, _, rfl, ?_⟩; omega

/-! ## the original code: witness of the defect -/

/-- `alloc_slotpair` as pinned (before the repair): guards `≤ N-2` / `= N-1`, and the third branch unwraps -/
def choosePairPinned (n : Nat) (hs : Hdrs) : Except MErr (Nat × Nat × Nat × Nat) :=
  match lowOf hs, highOf hs with
  | some (low, _), some (high, highSeq) =>
    if (high + n - low) % n ≤ n - 2 then
      .ok ((high + 1) % n, (high + 2) % n, seqNext highSeq, seqNext (seqNext highSeq))
    else if (high + n - low) % n = n - 1 then
      let fw := (fallbackSlot hs).getD low
      if fw = low then .ok (high, (high + 1) % n, highSeq, seqNext highSeq)
      else .ok ((high + 1) % n, (high + 2) % n, seqNext highSeq, seqNext (seqNext highSeq))
    else
      let fw := (fallbackSlot hs).getD low
      if (high + 1) % n = fw ∨ (high + 2) % n = fw then
        let first := (high + n - 1) % n
        match hs.getD first none with
        | none => .error .panic
        | some h => .ok (first, high, h.seq, highSeq)
      else .ok ((high + 1) % n, (high + 2) % n, seqNext highSeq, seqNext (seqNext highSeq))
  | _, _ => .ok (0, 1, 0, 1)

/-- equality of allocation results is decidable (instance kept inside this namespace) -/
instance exceptDecEq : DecidableEq (Except MErr (Nat × Nat × Nat × Nat)) := fun x y =>
  match x, y with
  | .ok a, .ok b => if h : a = b then isTrue (by rw [h]) else isFalse (by intro e; cases e; exact h rfl)
  | .error a, .error b => if h : a = b then isTrue (by rw [h]) else isFalse (by intro e; cases e; exact h rfl)
  | .ok _, .error _ => isFalse (by intro e; cases e)
  | .error _, .ok _ => isFalse (by intro e; cases e)

/-- four slots: a confirmed image (oldest), the completed parity slot of a later update, and the aborted
    firmware / parity slots of a third one -/
def witnessHs : Hdrs :=
  [ some { kind := .firmware, seq := 7, size := 32, n := 16, ext := .complete, ist := .complete, boot := .successful },
    some { kind := .parity, seq := 8, size := 32, n := 8, ext := .complete, ist := .inProgress, boot := .untested },
    some { kind := .firmware, seq := 9, size := 32, n := 16, ext := .aborted, ist := .inProgress, boot := .untested },
    some { kind := .parity, seq := 10, size := 32, n := 8, ext := .aborted, ist := .inProgress, boot := .untested } ]

/-- **witness for the pinned code**: on a full ring of four slots whose oldest slot is the fallback image, the
    original allocation answers the pair `(3, 0)`: slot 0, the only confirmed image, is erased. The arrangement
    satisfies the arc invariant, so the defect is in the guards, not in the precondition. -/
theorem alloc_destroys_fallback_witness :
    fallbackSlot witnessHs = some 0 ∧ ArcInv 4 witnessHs ∧ SeqInv 4 witnessHs ∧
    choosePairPinned 4 witnessHs = .ok (3, 0, 10, 11) ∧
    choosePair 4 witnessHs = .ok (2, 3, 9, 10) := by
  decide

/-! ## `start_update` -/

theorem fwHeader_not_conf (g : Geom) (s : Nat) : ¬ Conf (fwHeader g s) := by
  unfold Conf fwHeader totalStatus
  cases (s != 0xFFFFFFFF) <;> simp

theorem parHeader_not_conf (g : Geom) (s : Nat) : ¬ Conf (parHeader g s) := by
  unfold Conf parHeader totalStatus
  cases (s != 0xFFFFFFFF) <;> simp

/-- one effect on another slot that does not create a confirmed image keeps the fallback answer -/
theorem fallback_keep {hs : Hdrs} {f i : Nat} {v : Option Header} (hf : fallbackSlot hs = some f) (hi : i ≠ f)
    (hv : ∀ h, v = some h → ¬ Conf h) : fallbackSlot (hs.set i v) = some f := by
  rw [fallbackSlot_eq_some] at hf ⊢
  obtain ⟨h, ⟨hu, hc⟩, hall⟩ := hf
  refine ⟨h, ⟨used_set.mpr (Or.inr ⟨fun e => hi e.symm, hu⟩), hc⟩, ?_⟩
  rintro j h' ⟨hu', hc'⟩
  rcases used_set.mp hu' with ⟨_, _, hv'⟩ | ⟨_, hu''⟩
  · exact absurd hc' (hv h' hv')
  · exact hall j h' ⟨hu'', hc'⟩

/-- a run of such effects keeps slot `f` and the fallback answer -/
theorem applyAll_keep {f : Nat} (es : List Eff) (hes : ∀ e ∈ es, e.1 ≠ f ∧ ∀ h, e.2 = some h → ¬ Conf h)
    (hs : Hdrs) (hf : fallbackSlot hs = some f) :
    fallbackSlot (applyAll hs es) = some f ∧ (applyAll hs es)[f]? = hs[f]? := by
  induction es generalizing hs with
  | nil => exact ⟨hf, rfl⟩
  | cons e es ih =>
    have he := hes e (by simp)
    have h1 := fallback_keep (v := e.2) hf he.1 he.2
    obtain ⟨h2, h3⟩ := ih (fun e' he' => hes e' (List.mem_cons_of_mem _ he')) (hs.set e.1 e.2) h1
    refine ⟨h2, ?_⟩
    show (applyAll (apply1 hs e) es)[f]? = hs[f]?
    unfold apply1
    rw [h3, List.getElem?_set]
    simp [he.1]

/-- **start spares the fallback image** (header level): after every crash prefix of the operations of
    `start_update` — `k = 0` (also: rejected parameters, no operation at all) up to the complete call — slot `f`
    reads exactly as before and the fallback query still answers `f`. -/
theorem start_spares_fallback (g : Geom) (n : Nat) (hn : 4 ≤ n) (hs : Hdrs) (hlen : hs.length = n)
    (harc : ArcInv n hs) (f : Nat) (hf : fallbackSlot hs = some f) :
    ∃ es a b, startEffs g n hs = .ok (es, a, b) ∧ a ≠ f ∧ b ≠ f ∧ (∀ e ∈ es, e.1 ≠ f) ∧
      ∀ k, fallbackSlot (applyAll hs (es.take k)) = some f ∧ (applyAll hs (es.take k))[f]? = hs[f]? := by
  obtain ⟨a, b, sa, sb, hc, haf, hbf, -, -, -⟩ := alloc_spares_fallback n hn hs hlen harc f hf
  unfold startEffs
  rw [hc]
  refine ⟨_, a, b, rfl, haf, hbf, ?_, ?_⟩
  · intro e he
    simp only [List.mem_cons, List.not_mem_nil, or_false] at he
    rcases he with rfl | rfl | rfl | rfl <;> assumption
  · intro k
    apply applyAll_keep _ _ hs hf
    intro e he
    have he' := List.mem_of_mem_take he
    simp only [List.mem_cons, List.not_mem_nil, or_false] at he'
    rcases he' with rfl | rfl | rfl | rfl
    · exact ⟨hbf, by simp⟩
    · exact ⟨haf, by simp⟩
    · refine ⟨haf, ?_⟩
      intro h hh
      simp only [Option.some.injEq] at hh
      subst hh
      exact fwHeader_not_conf g sa
    · refine ⟨hbf, ?_⟩
      intro h hh
      simp only [Option.some.injEq] at hh
      subst hh
      exact parHeader_not_conf g sb

/-- **start spares the fallback image** (machine level): no transition of `start` — any crash prefix or the
    successful call — changes slot `f` or the answer of the fallback query. -/
theorem start_transitions_spare_fallback (c : Cfg) (hn : 4 ≤ c.n) (s : State) (hlen : s.hs.length = c.n)
    (harc : ArcInv c.n s.hs) (f : Nat) (hf : fallbackSlot s.hs = some f) :
    ∀ t ∈ startSuccs c s, fallbackSlot t.2.hs = some f ∧ t.2.hs[f]? = s.hs[f]? := by
  obtain ⟨es, a, b, he, -, -, -, hk⟩ := start_spares_fallback c.geom c.n hn s.hs hlen harc f hf
  intro t ht
  unfold startSuccs at ht
  rw [he] at ht
  simp only [List.mem_map, List.mem_range] at ht
  obtain ⟨k, -, rfl⟩ := ht
  split <;> exact hk (k + 1)

/-! ## the ring invariant is preserved by every transition -/

/-- **`arc_preserved`**: every transition of the header-level machine — every crash prefix of `start`, both steps
    of completion, every crash prefix of cancel and of recovery (either remediation order), the bootloader /
    application marks, reboot — preserves the ring invariant `RingInv = length ∧ ArcInv ∧ SeqInv`, for every slot
    count `N ≥ 4`. Explicit assumption: `SeqRoom 2` — every sequence number in use is at least two allocations
    below the reserved value `0xFFFFFFFF`, i.e. `seqNext` does not wrap around in this step. -/
theorem arc_preserved (c : Cfg) (hn : 4 ≤ c.n) (s : State) (hinv : RingInv c.n s.hs) (hroom : SeqRoom 2 s.hs) :
    ∀ t ∈ succs c s, RingInv c.n t.2.hs := by
  have hn0 : 0 < c.n := by omega
  intro t ht
  unfold succs at ht
  simp only [List.mem_append] at ht
  rcases ht with ((((ht | ht) | ht) | ht) | ht) | ht
  · obtain ⟨a, b, sa, sb, k, hc, he⟩ := startSuccs_hs c s t ht
    rw [he]
    exact start_preserved hn hinv hroom hc _ _ rfl rfl k
  · obtain ⟨hl, hsub⟩ := completeSuccs_sub s t ht
    exact hinv.sub hn0 (hl.trans hinv.1) hsub
  · obtain ⟨k, he⟩ := cancelSuccs_hs c s t ht
    rw [he]
    exact hinv.sub hn0 ((applyAll_length _ _).trans hinv.1) (take_sub (cancelEffs_src s.hs) k)
  · obtain ⟨k, he⟩ := recoverSuccs_hs c s t ht
    rw [he]
    exact hinv.sub hn0 ((applyAll_length _ _).trans hinv.1) (take_sub (recoverEffs_src c s.hs) k)
  · obtain ⟨hl, hsub⟩ := blSuccs_sub s t ht
    exact hinv.sub hn0 (hl.trans hinv.1) hsub
  · rw [rebootSuccs_hs s t ht]
    exact hinv

/-- states reachable from the blank ring by transitions that do not wrap the sequence numbers around -/
inductive Reachable (c : Cfg) : State → Prop
  | init : Reachable c (State.init c.n)
  | step {s : State} {l : Label} {t : State} : Reachable c s → SeqRoom 2 s.hs → (l, t) ∈ succs c s → Reachable c t

theorem init_ringInv (n : Nat) (hn : 0 < n) : RingInv n (State.init n).hs := by
  apply cut_ringInv (c := 0) (by simp [State.init]) hn
  intro i h _ _ hu
  exfalso
  unfold Used State.init at hu
  simp only [List.getElem?_replicate] at hu
  split at hu <;> simp at hu

/-- every reachable arrangement satisfies the ring invariant (all `N ≥ 4`, no wrap-around) -/
theorem reachable_ringInv (c : Cfg) (hn : 4 ≤ c.n) {s : State} (h : Reachable c s) : RingInv c.n s.hs := by
  induction h with
  | init => exact init_ringInv c.n (by omega)
  | step _ hroom hstep ih => exact arc_preserved c hn _ ih hroom _ hstep

/-- **C05 on every reachable arrangement**: with at least four slots, in every state reachable from the blank ring
    (no sequence wrap-around), no transition of `start` changes the slot the fallback query names, and the query
    answers the same afterwards. -/
theorem start_spares_fallback_reachable (c : Cfg) (hn : 4 ≤ c.n) {s : State} (h : Reachable c s)
    (f : Nat) (hf : fallbackSlot s.hs = some f) :
    ∀ t ∈ startSuccs c s, fallbackSlot t.2.hs = some f ∧ t.2.hs[f]? = s.hs[f]? := by
  obtain ⟨hlen, harc, _⟩ := reachable_ringInv c hn h
  exact start_transitions_spare_fallback c hn s hlen harc f hf

/-! ## non-vacuity -/

/-- the hypotheses of `alloc_spares_fallback` are satisfiable (and the conclusion is the pair `(2, 3)` here) -/
example : witnessHs.length = 4 ∧ ArcInv 4 witnessHs ∧ fallbackSlot witnessHs = some 0 := by decide

/-- the machine has start transitions out of the blank ring, and they lead to arrangements with used slots -/
example : (startSuccs { n := 4 } (State.init 4)).length = 4 := by decide

end Fuota.C05
