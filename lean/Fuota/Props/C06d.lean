import Fuota.Lemmas.RefineTornWitnessResume
import Fuota.Props.C06c
/-!
# C06d — machine-checked witness: a torn matrix-row program breaks resumption (flash-level model)

`C06c.crash_resume_resend_torn_L2_partial` needs the hypothesis `hdiags` (the tear changed no diagonal byte of the
matrix). This file shows that the statement without it is **false**, by the scenario of `C06c`'s header, checked step
by step on the byte-level model: two 32 KiB slots, image `[[7], [9]]` (`n = 2`, `bs = 1`), a session opened by
`start_update` on a blank device; the first delivery is the genuine coded fragment 3 (row `10`, payload `[9]`); the
power is lost inside the second program of that call — the matrix row of pivot 1, the single byte `0x00` — with tear
`(p, keep) = (0, 0x01)`, which leaves `0x01`: diagonal bit cleared, bit 0 not. Every other hypothesis of `C06c` holds
(`herr`, `hinc`, headers, newest pair, not the stage corner), `try_recover_inner` succeeds, and redelivering the same
fragment answers `FirmwareComplete` — with block 0 rebuilt as `0` instead of `7`.

The proof is symbolic (no evaluation of the 64 KiB array): `start_update`'s establishing theorems give the lawful
state; `Stage2Store.run_torn` gives the torn flash; with the rebuilt updater that flash satisfies the *whole* session
invariant (`witness_wrong_state`: the row of pivot 1 reads `11`, a valid echelon row) and stands for the model state
"pivot 1: x0 + x1 = 9"; so `recover_refines` and the simulation `handleBlock_sim_gen` apply, and the model's step from
that state is evaluated by the kernel (`wrongSt_step`: `Done`, block 0 = 0).
-/
namespace Fuota.C06d
open Fuota.Nor Fuota.Fs Fuota.Updater Fuota.Recon Fuota.Layout Fuota.FlashAdapters Fuota.C07b

/-- **C06d (the statement of C06c without `hdiags` is false).** On the blank two-slot device: `start_update 2 32768 1 2`
succeeds and establishes every hypothesis of `C06c.crash_resume_resend_torn_L2_partial` except `hdiags`; the
genuine coded fragment 3 of the image `[[7], [9]]` is `[9]`; delivered with the tear `(k, p, keep) = (1, 0, 0x01)` the
call answers an error with the updater incomplete, the device is dead, the rebooted device has no injection armed,
its diagonal byte of row 1 reads `0x01` where it read `0xFF` (so `hdiags` fails, and only it); `try_recover_inner`
returns an updater `u'`; and delivering fragment 3 again to `(u', rebooted device)` answers `FirmwareComplete` while
the final device has block 0 marked written and reading `[0]`, not `[7]`. -/
theorem torn_row_breaks_resume :
    ∃ (u0 : Upd) (d0 : Dev) (sa sb : Nat),
      (startUpdate 2 32768 1 2).run { flash := Flash.blank 4096 (2 * 32768) } = (.ok u0, d0) ∧
      LawfulH u0 d0 sa sb ∧ 2 * u0.fw.size ≤ d0.flash.size ∧ NewestPair 2 u0 d0 sa sb ∧ OthersSettled 2 u0 d0 ∧
      (u0.l = 0 ∨ u0.used ≠ 0) ∧ u0.n = 2 ∧ u0.bs = 1 ∧
      C01.fragment false 2 1 (fun m => [7 + 2 * m]) 2 = [9] ∧
      (∃ er, ((handleSegment false 3 [9]).run (u0, d0.withTear 1 0 1)).1 = .error er) ∧
      rcComplete ((handleSegment false 3 [9]).run (u0, d0.withTear 1 0 1)).2.1 = false ∧
      ((handleSegment false 3 [9]).run (u0, d0.withTear 1 0 1)).2.2.dead = true ∧
      Good ((handleSegment false 3 [9]).run (u0, d0.withTear 1 0 1)).2.2.reboot ∧
      ((handleSegment false 3 [9]).run (u0, d0.withTear 1 0 1)).2.2.reboot.flash.byte (diagAddr u0 1) = 0x01 ∧
      d0.flash.byte (diagAddr u0 1) = 0xFF ∧
      ∃ u', (tryRecoverInner 2 u0.fw.size).run ((handleSegment false 3 [9]).run (u0, d0.withTear 1 0 1)).2.2.reboot =
          (.ok (some u'), ((handleSegment false 3 [9]).run (u0, d0.withTear 1 0 1)).2.2.reboot) ∧
        ((handleSegment false 3 [9]).run
          (u', ((handleSegment false 3 [9]).run (u0, d0.withTear 1 0 1)).2.2.reboot)).1 = .ok .complete ∧
        ((handleSegment false 3 [9]).run
          (u', ((handleSegment false 3 [9]).run (u0, d0.withTear 1 0 1)).2.2.reboot)).2.2.flash.byte (statAddr u0 0) =
            0x33 ∧
        ((handleSegment false 3 [9]).run
          (u', ((handleSegment false 3 [9]).run (u0, d0.withTear 1 0 1)).2.2.reboot)).2.2.flash.read (segAddr u0 0) u0.bs
            = [0] ∧
        (fun m => [7 + 2 * m]) 0 = [7] := by
  have hacc : reasonablySized 32768 1 2 = .ok () := (C15.accept_iff 32768 1 2 (by decide) (by decide)).2 (by decide)
  have hcap : 1 ≤ capacity 32768 1 := by decide +kernel
  obtain ⟨u0, d0, sa, sb, hrun, LH, h3, h4, h5⟩ :=
    recover_hyps_after_start 32768 1 2 4096 (by decide) (by decide) hacc hcap
  obtain ⟨hsz, hblk, hwf⟩ := C01.blank_spec 4096 (2 * 32768)
  obtain ⟨u1, d1, _, _, hrun1, _, _, hl, hd, hu, hn, hbs, hm, _⟩ :=
    startUpdate_lawfulH 2 32768 1 2 { flash := Flash.blank 4096 (2 * 32768) } ⟨rfl, rfl, rfl⟩ hwf hacc
      (by rw [hsz]; exact Nat.le_refl _) (by rw [hblk]; decide) (by rw [hblk]) (by omega) hcap
  have he := hrun.symm.trans hrun1
  obtain ⟨e1, rfl⟩ := Prod.mk.inj he
  obtain rfl := Except.ok.inj e1
  have hm' : u0.maxL = 483 := by rw [hm]; decide +kernel
  have F : Fresh2 u0 d0 sa sb := ⟨LH, hl, hd, hu, hn, hbs, hm'⟩
  obtain ⟨e1, t1, t2, t3, t4, t5⟩ := witness_torn_call F
  obtain ⟨_, _, _, _, hbr⟩ := tornFlash_bytes F
  obtain ⟨u', r1, r2, r3, r4⟩ := witness_resume F h3 h4 h5 t3 t4
  have hdiag : diagAddr u0 1 = rAddr u0 1 := by simp [diagAddr]
  have hd0 : d0.flash.byte (diagAddr u0 1) = 0xFF := by
    rw [hdiag]
    exact (LH.law.base.herP 1 (by rw [hm']; omega) (by rw [hu]; rfl)).2 _ (Nat.le_refl _) (by omega)
  refine ⟨u0, d0, sa, sb, hrun, LH, h3, h4, h5, Or.inl hl, hn, hbs, by decide +kernel, ?_⟩
  rw [t1]
  refine ⟨⟨_, rfl⟩, t5, t2, t3, by rw [hdiag]; show e1.reboot.flash.byte _ = 1; rw [t4]; exact hbr, hd0,
    u', r1, r2, r3, ?_, rfl⟩
  rw [hbs, read_one]
  show [_] = [0]
  rw [r4]

/-- **C06d (negation of the unrestricted claim).** The same scenario contradicts the conclusion of
`C06c.crash_resume_resend_torn_L2_partial` itself: there are a lawful started session, a genuine fragment and a tear
satisfying `herr` and `hinc` such that recovery on the rebooted device returns `u'`, but the redelivery is **not**
answered as the uninterrupted delivery (`FirmwareComplete` instead of `Consumed`) — so `Repaired`, whose first field
is that equality, fails. -/
theorem torn_row_not_repaired :
    ∃ (u0 : Upd) (d0 : Dev) (sa sb : Nat),
      (startUpdate 2 32768 1 2).run { flash := Flash.blank 4096 (2 * 32768) } = (.ok u0, d0) ∧
      LawfulH u0 d0 sa sb ∧ 2 * u0.fw.size ≤ d0.flash.size ∧ NewestPair 2 u0 d0 sa sb ∧ OthersSettled 2 u0 d0 ∧
      (u0.l = 0 ∨ u0.used ≠ 0) ∧
      (∃ er, ((handleSegment false 3 [9]).run (u0, d0.withTear 1 0 1)).1 = .error er) ∧
      rcComplete ((handleSegment false 3 [9]).run (u0, d0.withTear 1 0 1)).2.1 = false ∧
      ∃ u', (tryRecoverInner 2 u0.fw.size).run ((handleSegment false 3 [9]).run (u0, d0.withTear 1 0 1)).2.2.reboot =
          (.ok (some u'), ((handleSegment false 3 [9]).run (u0, d0.withTear 1 0 1)).2.2.reboot) ∧
        ((handleSegment false 3 [9]).run (u0, d0)).1 = .ok .consumed ∧
        ((handleSegment false 3 [9]).run
          (u', ((handleSegment false 3 [9]).run (u0, d0.withTear 1 0 1)).2.2.reboot)).1 = .ok .complete ∧
        ¬ Repaired false 3 [9] u0 d0 u' ((handleSegment false 3 [9]).run (u0, d0.withTear 1 0 1)).2.2.reboot := by
  have hacc : reasonablySized 32768 1 2 = .ok () := (C15.accept_iff 32768 1 2 (by decide) (by decide)).2 (by decide)
  have hcap : 1 ≤ capacity 32768 1 := by decide +kernel
  obtain ⟨u0, d0, sa, sb, hrun, LH, h3, h4, h5⟩ :=
    recover_hyps_after_start 32768 1 2 4096 (by decide) (by decide) hacc hcap
  obtain ⟨hsz, hblk, hwf⟩ := C01.blank_spec 4096 (2 * 32768)
  obtain ⟨u1, d1, _, _, hrun1, _, _, hl, hd, hu, hn, hbs, hm, _⟩ :=
    startUpdate_lawfulH 2 32768 1 2 { flash := Flash.blank 4096 (2 * 32768) } ⟨rfl, rfl, rfl⟩ hwf hacc
      (by rw [hsz]; exact Nat.le_refl _) (by rw [hblk]; decide) (by rw [hblk]) (by omega) hcap
  have he := hrun.symm.trans hrun1
  obtain ⟨e1, rfl⟩ := Prod.mk.inj he
  obtain rfl := Except.ok.inj e1
  have hm' : u0.maxL = 483 := by rw [hm]; decide +kernel
  have F : Fresh2 u0 d0 sa sb := ⟨LH, hl, hd, hu, hn, hbs, hm'⟩
  obtain ⟨e1, t1, t2, t3, t4, t5⟩ := witness_torn_call F
  obtain ⟨u', r1, r2, _, _⟩ := witness_resume F h3 h4 h5 t3 t4
  have hff := witness_uninterrupted F
  refine ⟨u0, d0, sa, sb, hrun, LH, h3, h4, h5, Or.inl hl, ?_⟩
  rw [t1]
  refine ⟨⟨_, rfl⟩, t5, u', r1, hff, r2, fun R => ?_⟩
  have := R.res
  rw [hff] at this
  have h2 : ((handleSegment false 3 [9]).run (u', e1.reboot)).1 = .ok .complete := r2
  rw [h2] at this
  cases this

end Fuota.C06d
