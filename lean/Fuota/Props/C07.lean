import Fuota.Props.C18
import Fuota.Props.C03
import Fuota.Lemmas.PersistStage
import Fuota.Lemmas.PersistCorner
/-!
# C07 — a clean reboot between two fragments is transparent (L0 part)

What survives a reboot is what is on flash: `n`, `bs` (headers), the `done` bits (status table), the matrix rows
`ms` (whose diagonal is how recovery reconstructs `used`), the parity blocks `ps` and the data `ds`.
Only `l`, the call log and the call counter live in memory. Recovery recomputes
`l := if used.any() { n − done.count_ones() } else { 0 }`.

* `stageInv_init`, `stageInv_preserved`, `stageInv_runBlocks` — the invariant that makes `l` recomputable;
* `rehydrate_equiv`, `reboot_transparent`, `rehydrate_idempotent`, `counters_agree` — outside the corner
  "parity processing began but no row is stored yet" a reboot changes nothing any later delivery can see;
* `reboot_transparent_corner` — in the corner the reboot falls back to stage 1, the later answers may differ in
  between, but the session completes (`Done`) on exactly the same fragment;
  `reboot_transparent_corner_parity_next` — and if the next fragment is parity-range nothing differs at all.
-/
namespace Fuota.C07
open Fuota.Recon Fuota.Gf2 Fuota.C02 Fuota.C18

/-- what recovery rebuilds from the persisted state -/
def rehydrate (s : St) : St :=
  { s with l := if s.used = 0 then 0 else (unknowns s.done s.n).length, log := [], calls := 0 }

/-- states in which the in-memory fields agree with what can be recomputed, except possibly `l` in the corner
    "parity processing began (l ≠ 0) but no row stored yet (used = 0)" -/
def StageInv (s : St) : Prop := (s.l = 0 → s.used = 0) ∧ (s.l ≠ 0 → s.l = (unknowns s.done s.n).length)

instance (s : St) : Decidable (StageInv s) := by unfold StageInv; infer_instance

/-- the lemma files call these `Fault.reh` and `Fault.SInv` (same terms) -/
theorem rehydrate_eq_reh (s : St) : rehydrate s = Fault.reh s := rfl
theorem stageInv_iff_sinv (s : St) : StageInv s ↔ Fault.SInv s := Iff.rfl

/-! ## 1. the stage invariant -/

/-- a fresh session satisfies the stage invariant -/
theorem stageInv_init (n bs : Nat) : StageInv (init n bs) := Fault.sinv_init n bs

/-- **Every delivery keeps the stage invariant** — for every fault oracle (so also for a delivery cut short by a
    failing or never-executed storage call), both store orders, every matrix, capacity, block and buffer length. -/
theorem stageInv_preserved (V : Variant) (F : Nat → Bool) (P : Nat → Nat) (vb nr : Nat) (s : St) (i d len : Nat)
    (h : StageInv s) : StageInv (handleBlock V F P vb nr s i d len).1 :=
  Fault.sinv_handleBlock V F P vb nr s i d len h

/-- hence every state of every run (any oracle) from a state with the invariant has it -/
theorem stageInv_runBlocks (V : Variant) (F : Nat → Bool) (P : Nat → Nat) (vb nr : Nat) (blk : Nat → Nat) :
    ∀ (js : List Nat) (s : St), StageInv s → StageInv (runBlocks V F P vb nr blk s js).1 := by
  intro js
  induction js with
  | nil => intro s h; exact h
  | cons j js ih =>
    intro s h
    simp only [runBlocks]
    exact ih _ (stageInv_preserved V F P vb nr s j (blk j) s.bs h)

/-- rehydration keeps the stage invariant (so it can be followed by deliveries and further reboots) -/
theorem stageInv_rehydrate {s : St} (h : StageInv s) : StageInv (rehydrate s) := Fault.sinv_reh h

/-! ## 2. transparency outside the corner -/

/-- **Outside the corner, recovery rebuilds the state exactly** (up to call log and call counter): stage 1
    (`l = 0`, hence no row stored) is rebuilt as stage 1, and stage 2 with at least one stored row gets back the `l`
    it had, because `done` is frozen from the first parity block on. -/
theorem rehydrate_equiv {s : St} (h : StageInv s) (hc : s.l = 0 ∨ s.used ≠ 0) : Equiv (rehydrate s) s :=
  Fault.reh_eqv h hc

/-- **A clean reboot between two fragments is transparent.** Outside the corner, every continuation `js` (any
    blocks, any order) run from the rehydrated state gives the same answers as from the state before the reboot —
    in particular `Done` on the same fragment — and ends in a state with the same contents (same data). -/
theorem reboot_transparent (V : Variant) (P : Nat → Nat) (vb nr : Nat) (blk : Nat → Nat) {s : St}
    (h : StageInv s) (hc : s.l = 0 ∨ s.used ≠ 0) (js : List Nat) :
    (runBlocks V noFault P vb nr blk (rehydrate s) js).2 = (runBlocks V noFault P vb nr blk s js).2 ∧
    Equiv (runBlocks V noFault P vb nr blk (rehydrate s) js).1 (runBlocks V noFault P vb nr blk s js).1 :=
  Fault.runBlocks_congr_eqv V P vb nr blk js _ _ (rehydrate_equiv h hc)

/-- rebooting twice (or any number of times) in a row is rebooting once: exactly the same state -/
theorem rehydrate_idempotent (s : St) : rehydrate (rehydrate s) = rehydrate s := rfl

/-! ## 4. the counters -/

/-- **The received/remaining counters survive a reboot**, corner or not: they are functions of `n`, `done` and
    `used`, which recovery takes from flash as they are. -/
theorem counters_agree (s : St) :
    (rehydrate s).n = s.n ∧ (rehydrate s).bs = s.bs ∧ (rehydrate s).done = s.done ∧ (rehydrate s).used = s.used ∧
    (rehydrate s).ds = s.ds ∧ (rehydrate s).ps = s.ps ∧ (rehydrate s).ms = s.ms :=
  ⟨rfl, rfl, rfl, rfl, rfl, rfl, rfl⟩

/-- non-vacuity of `reboot_transparent`, stage 1 and stage 2: the crate's unit-test session (4 one-byte blocks,
    rows `(m-4) % 16`). After `[0, 2]` (stage 1) and after `[0, 2, 10]` (stage 2, one row stored) the hypotheses hold,
    and the continuation from the rehydrated state ends with `Done 4` exactly as without the reboot. -/
example :
    let P : Nat → Nat := fun m => if m < 4 then 2 ^ m else (m - 4) % 16
    let blk : Nat → Nat := fun i => combo (fun m => 17 * (m + 1)) (P i) 4
    let s1 := (runBlocks ⟨false⟩ noFault P 8 8 blk (init 4 1) [0, 2]).1
    let s2 := (runBlocks ⟨false⟩ noFault P 8 8 blk (init 4 1) [0, 2, 10]).1
    (s1.l = 0 ∧ s2.l = 2 ∧ s2.used = 1) ∧
      (runBlocks ⟨false⟩ noFault P 8 8 blk (rehydrate s1) [10, 14]).2 = [.needMore, .done 4] ∧
      (runBlocks ⟨false⟩ noFault P 8 8 blk (rehydrate s2) [14]).2 = [.done 4] ∧
      (List.range 4).map (get (runBlocks ⟨false⟩ noFault P 8 8 blk (rehydrate s2) [14]).1.ds) = [17, 34, 51, 68] := by
  decide +kernel

/-! ## 3. the corner `l ≠ 0 ∧ used = 0` -/

/-- in the corner, recovery yields the stage-1 state with the same `done` bits (and the same stores) -/
theorem rehydrate_corner {s : St} (hu : s.used = 0) : rehydrate s = { s with l := 0, log := [], calls := 0 } := by
  simp [rehydrate, hu]

/-- `l` never exceeds the two capacities of the refusal test (every oracle, both store orders); so the capacity
    hypothesis of the corner theorems holds in every state of every run of a fresh session -/
theorem capacity_preserved (V : Variant) (F : Nat → Bool) (P : Nat → Nat) (vb nr : Nat) (s : St) (i d len : Nat)
    (h : s.l ≤ vb ∧ s.l ≤ nr) :
    (handleBlock V F P vb nr s i d len).1.l ≤ vb ∧ (handleBlock V F P vb nr s i d len).1.l ≤ nr :=
  Fault.cap_handleBlock V F P vb nr s i d len h

/-- **The corner, next fragment parity-range: fully transparent.** In the corner the session has entered stage 2 but
    every parity fragment so far reduced to the zero row, so nothing was stored; recovery sees no row and falls back
    to stage 1. If the continuation starts with a fragment `j ≥ n`, that fragment re-enters stage 2 with the same
    `done`, hence the same `l`, and from there on the run from the rehydrated state and the run without reboot give
    the same answers and states with the same contents. (No assumption on the matrix.) -/
theorem reboot_transparent_corner_parity_next (V : Variant) (P : Nat → Nat) (vb nr : Nat) (blk : Nat → Nat) {s : St}
    (h : StageInv s) (hl : s.l ≠ 0) (hu : s.used = 0) (hcap : s.l ≤ vb ∧ s.l ≤ nr)
    (j : Nat) (hj : s.n ≤ j) (js : List Nat) :
    (runBlocks V noFault P vb nr blk (rehydrate s) (j :: js)).2
        = (runBlocks V noFault P vb nr blk s (j :: js)).2 ∧
    Equiv (runBlocks V noFault P vb nr blk (rehydrate s) (j :: js)).1
          (runBlocks V noFault P vb nr blk s (j :: js)).1 := by
  obtain ⟨hr, hs⟩ := Fault.corner_parity_step V P vb nr s j (blk j) h hl hu hcap hj
  obtain ⟨ihr, ihs⟩ := Fault.runBlocks_congr_eqv V P vb nr blk js _ _ hs
  change (handleBlock V noFault P vb nr (rehydrate s) j (blk j) s.bs).2 = _ at hr
  change (runBlocks V noFault P vb nr blk (handleBlock V noFault P vb nr (rehydrate s) j (blk j) s.bs).1 js).2
    = _ at ihr
  simp only [runBlocks]
  exact ⟨by rw [show (rehydrate s).bs = s.bs from rfl, hr, ihr], ihs⟩

/-- **The corner, any continuation: the session completes on the same fragment.** `s` is in the corner (stage 2
    entered, no row stored), within capacity (as every reachable state is, `capacity_preserved`), the matrix respects
    the `ParityMatrix` contract. For *every* continuation `js` — data-range and parity-range fragments in any order,
    any contents — the last answer is `Done` from the rehydrated state iff it is `Done` from the state before the
    reboot. (In between the answers and the states may differ: without the reboot a new data fragment is processed as
    a unit row of the frozen unknown space, after it the block is stored directly and the next parity fragment freezes
    a smaller unknown space. Both `Done` conditions say that the rows received, together with the unit rows of the
    blocks present, have full rank: `Fault.stage1_done_iff`, `Gf2.span_project_iff`, `C03.done_iff_span`.) -/
theorem reboot_transparent_corner (V : Variant) (P : Nat → Nat) (vb nr : Nat) (blk : Nat → Nat) {s : St}
    (hP : Contract s.n P) (h : StageInv s) (hl : s.l ≠ 0) (hu : s.used = 0) (hcap : s.l ≤ vb ∧ s.l ≤ nr)
    (js : List Nat) :
    (∃ b, (runBlocks V noFault P vb nr blk (rehydrate s) js).2.getLast? = some (Res.done b)) ↔
    (∃ b, (runBlocks V noFault P vb nr blk s js).2.getLast? = some (Res.done b)) :=
  Fault.corner_done_iff V P vb nr blk s hP.1 hP.2 h hl hu hcap js

/-- `Done` from any stage-1 state (for instance a rehydrated corner state), any continuation: iff the continuation is
    not empty and its rows, together with the unit rows of the blocks present, span every unit vector below `n` -/
theorem stage1_done_iff (V : Variant) (P : Nat → Nat) (vb nr : Nat) (blk : Nat → Nat) (r : St)
    (hP : Contract r.n P) (hl : r.l = 0) (hu : r.used = 0)
    (hcap : (unknowns r.done r.n).length ≤ vb ∧ (unknowns r.done r.n).length ≤ nr) (js : List Nat) :
    (∃ b, (runBlocks V noFault P vb nr blk r js).2.getLast? = some (Res.done b)) ↔
    (js ≠ [] ∧ ∀ m, m < r.n → InSpan (knownUnits r.done r.n ++ js.map P) (2 ^ m)) :=
  Fault.stage1_done_iff V P vb nr blk r.n hP.1 hP.2 js r rfl hl hu hcap.1 hcap.2

/-- **the corner is reachable**, and the hypotheses of both corner theorems hold in it: the crate's unit-test session
    (`n = 4`, rows `(m-4) % 16`), data blocks 0 and 2, then parity fragment 9 whose row `0101` only touches the known
    columns. The state has `l = 2`, `used = 0`; recovery gives `l = 0`. The continuation `[10, 14]` (parity next) ends
    with `Done 4` and the right data after the reboot as well; so does the continuation `[1, 14]` (new data fragment
    next), on the same fragment as without reboot. -/
example :
    let P : Nat → Nat := fun m => if m < 4 then 2 ^ m else (m - 4) % 16
    let blk : Nat → Nat := fun i => combo (fun m => 17 * (m + 1)) (P i) 4
    let s := (runBlocks ⟨false⟩ noFault P 8 8 blk (init 4 1) [0, 2, 9]).1
    (StageInv s ∧ s.l = 2 ∧ s.used = 0 ∧ s.done = 5 ∧ (s.l ≤ 8 ∧ s.l ≤ 8) ∧ s.n ≤ 10 ∧ (rehydrate s).l = 0) ∧
      (runBlocks ⟨false⟩ noFault P 8 8 blk (rehydrate s) [10, 14]).2 = [.needMore, .done 4] ∧
      (runBlocks ⟨false⟩ noFault P 8 8 blk s [10, 14]).2 = [.needMore, .done 4] ∧
      (List.range 4).map (get (runBlocks ⟨false⟩ noFault P 8 8 blk (rehydrate s) [10, 14]).1.ds) = [17, 34, 51, 68] ∧
      (runBlocks ⟨false⟩ noFault P 8 8 blk (rehydrate s) [1, 14]).2 = [.needMore, .done 4] ∧
      (runBlocks ⟨false⟩ noFault P 8 8 blk s [1, 14]).2 = [.needMore, .done 4] ∧
      (List.range 4).map (get (runBlocks ⟨false⟩ noFault P 8 8 blk (rehydrate s) [1, 14]).1.ds) = [17, 34, 51, 68] := by
  decide +kernel

end Fuota.C07
