import Fuota.Props.C03
import Fuota.Props.C15
import Fuota.Props.C07b
import Fuota.Lemmas.RefineFaultReadRun
import Fuota.Lemmas.RefineStartH
/-!
# C15b — the behavioural clause of C15 on the flash-level model

`C03` proves for the reconstructor model that a session finishes exactly at full rank and that a coded fragment is
refused exactly when too many data fragments are missing; `C15` computes the parity capacity of a slot. This file
transports the behavioural statements to the byte-level updater (`Updater.handleSegment` on the NOR device) through the
session simulation of C01 (`Updater.session_sim`): completion at exactly full rank, refusal exactly above the
capacity `maxL = capacity slot sz`, and hence tolerance of up to `capacity` missing data fragments.
-/
namespace Fuota.C15b
open Fuota.Nor Fuota.Fs Fuota.Updater Fuota.Recon Fuota.Layout Fuota.FlashAdapters Fuota.Gf2

/-- **C15b (completion exactly at full rank, from the stage-2 entry state).** `(u, d)` satisfies the session
invariant and parity processing has just begun (`l` = number of missing data fragments, non-zero, no pivot stored).
Deliver any fragments (`bs` bytes each) under the numbers `js` (non-zero, row generator defined). The last delivery
answers `FirmwareComplete` if and only if the rows of the delivered fragments, restricted to the missing data
fragments, span every unit vector — the received equations have full rank. Applied to every prefix of a sequence:
`FirmwareComplete` is answered at exactly the first delivery that brings the rank to `l`. -/
theorem complete_at_full_rank_entry_L2 (ffr : Bool) {u : Upd} {d : Dev} (L : Lawful u d)
    (hl : u.l = (unknowns u.done u.n).length) (hl0 : u.l ≠ 0) (hu : u.used = 0) (frag : Nat → List Nat)
    (hfrag : ∀ i, IsBytes (frag i) ∧ (frag i).length = u.bs) (js : List Nat) (hidx : ∀ i ∈ js, i ≠ 0)
    (hrows : C01.RowsDefined ffr u.n js) :
    (session ffr frag js (u, d)).1.getLast? = some (.ok .complete) ↔
      ∀ v, v < u.l → InSpan (C03.acceptedRows (C01.rowFn ffr u.n) u.done u.n (js.map (· - 1))) (2 ^ v) := by
  obtain ⟨_, _, c3, _⟩ := session_sim ⟨false⟩ ffr u.n u.bs u.maxL frag hfrag js u d (abs (u, d)) hidx hrows L
    rfl rfl rfl (Fault.Eqv.refl _)
  rw [C07b.allCorr_getLast c3]
  exact C03.done_iff_span ⟨false⟩ (C01.rowFn ffr u.n) 2048 u.maxL (fun i => bytesToNat (frag i)) (abs (u, d)) hl hl0 hu
    (js.map (· - 1))

/-- the capacity test of `handle_block`, for an accepted geometry, is the comparison with the slot's parity capacity -/
theorem tooMany_iff_over_capacity {u : Upd} {d : Dev} (L : Lawful u d) (index : Nat) (hidx : u.n ≤ index)
    (hl : u.l = 0) :
    tooManyCond u index ↔ capacity u.fw.size u.bs < (unknowns u.done u.n).length := by
  have g := L.base.geo
  have h6 : u.maxL < 2048 := g.slots.2.2.2.2.2.1
  rw [← g.hmaxL]
  constructor
  · intro h
    rcases h.2.2 with h | h
    · have : (2048 : Nat) < (unknowns u.done u.n).length := h
      omega
    · exact h
  · intro h
    exact ⟨hidx, hl, Or.inr h⟩

/-- **C15b (refusal exactly above the capacity).** `(u, d)` satisfies the session invariant, the session is
incomplete and in stage 1, and a coded fragment (`n ≤ index`, `bs` bytes) is delivered. It is refused — answer
`TooManyMissing` (`none`; `Consumed` at `handle_segment`), in-memory updater and device exactly as before, hence the
same abstraction — if and only if the number of missing data fragments exceeds the slot's parity capacity
`capacity slot sz` (`= maxL`, `C15.capacity_spec`). In particular, as soon as enough further data fragments have
arrived that at most `capacity` are missing, a coded fragment is accepted. -/
theorem refuse_iff_over_capacity_L2 (ffr : Bool) {u : Upd} {d : Dev} (L : Lawful u d) (hinc : rcComplete u = false)
    (hl : u.l = 0) (index : Nat) (hidx : u.n ≤ index) (bytes : List Nat) (hb : IsBytes bytes)
    (hlen : bytes.length = u.bs) (hrow : (updaterRow ffr u.n index).isSome = true) :
    ((handleBlock ffr index bytes).run (u, d) = (.ok none, (u, d)) ↔
      capacity u.fw.size u.bs < (unknowns u.done u.n).length) ∧
    (capacity u.fw.size u.bs < (unknowns u.done u.n).length →
      (handleSegment ffr (index + 1) bytes).run (u, d) = (.ok .consumed, (u, d))) ∧
    (¬ capacity u.fw.size u.bs < (unknowns u.done u.n).length →
      ((handleBlock ffr index bytes).run (u, d)).1 ≠ .ok none) := by
  have hcap := tooMany_iff_over_capacity L index hidx hl
  have hrun := handleBlock_eqU' ffr u d index bytes hlen
  rw [if_neg (by rw [hinc]; simp)] at hrun
  -- an answer `TooManyMissing` is the model's `TooMany`, which C03 characterises
  have hback : ((handleBlock ffr index bytes).run (u, d)).1 = .ok none → tooManyCond u index := by
    intro h
    obtain ⟨k1, _⟩ := handleBlock_sim ⟨false⟩ ffr L index bytes hb hlen hrow
    rw [h] at k1
    have hres : (C03.step ⟨false⟩ (fun m => (updaterRow ffr u.n m).getD 0) 2048 u.maxL (abs (u, d)) index
        (bytesToNat bytes)).2 = Res.tooMany := by
      show (Recon.handleBlock ⟨false⟩ noFault (fun m => (updaterRow ffr u.n m).getD 0) 2048 u.maxL (abs (u, d)) index
        (bytesToNat bytes) u.bs).2 = Res.tooMany
      generalize (Recon.handleBlock ⟨false⟩ noFault (fun m => (updaterRow ffr u.n m).getD 0) 2048 u.maxL (abs (u, d))
        index (bytesToNat bytes) u.bs).2 = X at k1
      cases X <;> first | rfl | exact k1.elim
    obtain ⟨_, h1, h2, h3⟩ := (C03.refuse_iff _ _ _ _ _ _ _).1 hres
    exact ⟨h1, h2, h3⟩
  refine ⟨⟨fun h => hcap.1 (hback (by rw [h])), fun h => ?_⟩, fun h => ?_, fun h h' => h (hcap.1 (hback h'))⟩
  · have ht : u.n ≤ index ∧ u.l = 0 ∧
        (VBITS < (unknowns u.done u.n).length ∨ u.maxL < (unknowns u.done u.n).length) := hcap.2 h
    rw [hrun, if_pos ht]
  · have ht : u.n ≤ index ∧ u.l = 0 ∧
        (VBITS < (unknowns u.done u.n).length ∨ u.maxL < (unknowns u.done u.n).length) := hcap.2 h
    rw [handleSegment_run ffr (index + 1) bytes (by omega), Nat.add_sub_cancel, hrun, if_pos ht]

/-- **C15b (completion exactly at full rank, from stage 1).** `(u, d)` satisfies the session invariant, the session is
incomplete and still in stage 1; the next delivery `idx1` is a coded fragment and at most `capacity slot sz` data
fragments are missing (so it is accepted, `refuse_iff_over_capacity_L2`); then any fragments `js` follow. The last
delivery of `idx1 :: js` answers `FirmwareComplete` if and only if the rows of the delivered fragments, restricted to
the data fragments missing when parity processing began, span every unit vector. -/
theorem complete_at_full_rank_L2 (ffr : Bool) {u : Upd} {d : Dev} (L : Lawful u d) (hinc : rcComplete u = false)
    (hl : u.l = 0) (frag : Nat → List Nat) (hfrag : ∀ i, IsBytes (frag i) ∧ (frag i).length = u.bs)
    (idx1 : Nat) (js : List Nat) (hidx : ∀ i ∈ idx1 :: js, i ≠ 0) (hrows : C01.RowsDefined ffr u.n (idx1 :: js))
    (hcoded : u.n ≤ idx1 - 1) (hcap : (unknowns u.done u.n).length ≤ capacity u.fw.size u.bs) :
    (session ffr frag (idx1 :: js) (u, d)).1.getLast? = some (.ok .complete) ↔
      ∀ v, v < (unknowns u.done u.n).length →
        InSpan (C03.acceptedRows (C01.rowFn ffr u.n) u.done u.n ((idx1 :: js).map (· - 1))) (2 ^ v) := by
  have hi1 : idx1 ≠ 0 := hidx idx1 List.mem_cons_self
  obtain ⟨hb, hlen⟩ := hfrag (idx1 - 1)
  have hnt : ¬ tooManyCond u (idx1 - 1) := fun h =>
    absurd ((tooMany_iff_over_capacity L (idx1 - 1) hcoded hl).1 h) (by omega)
  have hne : (unknowns u.done u.n).length ≠ 0 := by
    have hcA : isComplete (abs (u, d)) = false := by rw [← rcComplete_eq]; exact hinc
    exact unknowns_length_ne_zero (abs (u, d)) hl hcA
  have hadj : adjU u (idx1 - 1) = { u with l := (unknowns u.done u.n).length } := by
    unfold adjU; rw [if_pos ⟨hcoded, hl⟩]
  have hl1 : (adjU u (idx1 - 1)).l ≠ 0 := by rw [hadj]; exact hne
  obtain ⟨L1, hinc1⟩ := adjU_stage2 L hinc (idx1 - 1) hnt hl1
  have LA : Lawful (adjU u (idx1 - 1)) d := ⟨L1.mono (fun i hi => hi.2), fun hc => by rw [hinc1] at hc; cases hc⟩
  have hu0 : u.used = 0 := by
    apply Nat.eq_of_testBit_eq
    intro p
    cases hb' : u.used.testBit p with
    | false => simp
    | true => have := (L.base.hech p hb').1; omega
  -- the first call on the adjusted updater is the first call on `u`
  have hfirst : (handleSegment ffr idx1 (frag (idx1 - 1))).run (adjU u (idx1 - 1), d) =
      (handleSegment ffr idx1 (frag (idx1 - 1))).run (u, d) := by
    rw [handleSegment_run ffr idx1 _ hi1, handleSegment_run ffr idx1 _ hi1,
      handleBlock_adjU ffr L (idx1 - 1) (frag (idx1 - 1)) hlen hinc hnt hl1]
  have hsess : session ffr frag (idx1 :: js) (u, d) = session ffr frag (idx1 :: js) (adjU u (idx1 - 1), d) := by
    show (_, _) = (_, _)
    simp only [hfirst]
  rw [hsess]
  have key := complete_at_full_rank_entry_L2 ffr LA (by rw [hadj]) hl1 (by rw [hadj]; exact hu0) frag
    (by rw [hadj]; exact hfrag) (idx1 :: js) hidx (by rw [hadj]; exact hrows)
  rw [hadj] at key ⊢
  exact key

/-- **C15b (up to `capacity` missing data fragments are tolerated).** `(u, d)` satisfies the session invariant, the
session is incomplete and in stage 1; at most `capacity slot sz` data fragments are missing when the first coded
fragment `idx1` arrives; and the fragments `idx1 :: js` delivered from then on have rows that, restricted to the
missing data fragments, span every unit vector. Then the session completes: the last delivery answers
`FirmwareComplete`, and the session invariant holds at the end. -/
theorem tolerates_up_to_capacity_L2 (ffr : Bool) {u : Upd} {d : Dev} (L : Lawful u d) (hinc : rcComplete u = false)
    (hl : u.l = 0) (frag : Nat → List Nat) (hfrag : ∀ i, IsBytes (frag i) ∧ (frag i).length = u.bs)
    (idx1 : Nat) (js : List Nat) (hidx : ∀ i ∈ idx1 :: js, i ≠ 0) (hrows : C01.RowsDefined ffr u.n (idx1 :: js))
    (hcoded : u.n ≤ idx1 - 1) (hcap : (unknowns u.done u.n).length ≤ capacity u.fw.size u.bs)
    (hspan : ∀ v, v < (unknowns u.done u.n).length →
      InSpan (C03.acceptedRows (C01.rowFn ffr u.n) u.done u.n ((idx1 :: js).map (· - 1))) (2 ^ v)) :
    (session ffr frag (idx1 :: js) (u, d)).1.getLast? = some (.ok .complete) ∧
    Lawful (session ffr frag (idx1 :: js) (u, d)).2.1 (session ffr frag (idx1 :: js) (u, d)).2.2 := by
  refine ⟨(complete_at_full_rank_L2 ffr L hinc hl frag hfrag idx1 js hidx hrows hcoded hcap).2 hspan, ?_⟩
  exact (session_sim ⟨false⟩ ffr u.n u.bs u.maxL frag hfrag (idx1 :: js) u d (abs (u, d)) hidx hrows L rfl rfl rfl
    (Fault.Eqv.refl _)).1

/-! ## non-vacuity -/

/-- non-vacuity: on every device that meets the hypotheses of `start_update` for two 32 KiB slots, a session of two
1-byte fragments in which **both** data fragments are lost (2 ≤ capacity = 483) and the coded fragments 3 (row `10`)
and 4 (row `01`) arrive meets every hypothesis of `tolerates_up_to_capacity_L2` — so it completes on fragment 4 — for
any payloads of one byte -/
example (d : Dev) (hG : Good d) (hwf : WF d.flash) (hdev : 2 * 32768 ≤ d.flash.size)
    (hb0 : 0 < d.flash.block) (hdiv : 32768 % d.flash.block = 0) (frag : Nat → List Nat)
    (hfrag : ∀ i, IsBytes (frag i) ∧ (frag i).length = 1) :
    ∃ u0 d0, (startUpdate 2 32768 1 2).run d = (.ok u0, d0) ∧ Lawful u0 d0 ∧ rcComplete u0 = false ∧ u0.l = 0 ∧
      (∀ i, IsBytes (frag i) ∧ (frag i).length = u0.bs) ∧ (∀ i ∈ [3, 4], i ≠ 0) ∧
      C01.RowsDefined false u0.n [3, 4] ∧ u0.n ≤ 3 - 1 ∧
      (unknowns u0.done u0.n).length ≤ capacity u0.fw.size u0.bs ∧
      (∀ v, v < (unknowns u0.done u0.n).length →
        InSpan (C03.acceptedRows (C01.rowFn false u0.n) u0.done u0.n ([3, 4].map (· - 1))) (2 ^ v)) ∧
      (session false frag [3, 4] (u0, d0)).1.getLast? = some (.ok .complete) := by
  obtain ⟨u0, d0, sa, sb, hrun, LH, _, hl, hd, hu, hn, hbs, hm, hsz, _⟩ :=
    startUpdate_lawfulH 2 32768 1 2 d hG hwf ((C15.accept_iff 32768 1 2 (by decide) (by decide)).2 (by decide))
      hdev hb0 hdiv (by omega) (by decide +kernel)
  have L := LH.law
  have hinc : rcComplete u0 = false := by
    cases hc : rcComplete u0 with
    | false => rfl
    | true =>
      have := (rcComplete_stage1 u0 hl).1 hc 0 (by omega)
      rw [hd] at this; simp at this
  have h1 : ∀ i, IsBytes (frag i) ∧ (frag i).length = u0.bs := fun i => by rw [hbs]; exact hfrag i
  have h2 : ∀ i ∈ [3, 4], i ≠ 0 := by decide
  have h3 : C01.RowsDefined false u0.n [3, 4] := by
    rw [hn]; exact C01.rowsDefined_std 2 (by omega) (by omega) _ (by decide)
  have h4 : u0.n ≤ 3 - 1 := by rw [hn]; decide
  have hunk : (unknowns u0.done u0.n).length = 2 := by rw [hd, hn]; decide
  have h5 : (unknowns u0.done u0.n).length ≤ capacity u0.fw.size u0.bs := by
    rw [hunk, hsz, hbs, show capacity 32768 1 = 483 from by decide +kernel]; omega
  have hacc : C03.acceptedRows (C01.rowFn false u0.n) u0.done u0.n ([3, 4].map (· - 1)) = [2, 1] := by
    rw [hn, hd]; decide +kernel
  have h6 : ∀ v, v < (unknowns u0.done u0.n).length →
      InSpan (C03.acceptedRows (C01.rowFn false u0.n) u0.done u0.n ([3, 4].map (· - 1))) (2 ^ v) := by
    intro v hv
    rw [hunk] at hv
    rw [hacc]
    match v, hv with
    | 0, _ => exact ⟨[1], by decide, by decide⟩
    | 1, _ => exact ⟨[2], by decide, by decide⟩
  exact ⟨u0, d0, hrun, L, hinc, hl, h1, h2, h3, h4, h5, h6,
    (tolerates_up_to_capacity_L2 false L hinc hl frag h1 3 [4] h2 h3 h4 h5 h6).1⟩

end Fuota.C15b
