import Fuota.Props.C07
import Fuota.Props.C01
import Fuota.Lemmas.RefineWarmStep
import Fuota.Lemmas.RefineStartH
/-!
# C07b — recovery on the flash-level model rebuilds what C07's storage-level theorems talk about

`C07` proves, for the reconstructor model `Fuota.Recon`, that rebuilding the in-memory state from the persisted state
(`rehydrate`) is transparent. This file ties it to the byte-level model: on a device that holds an open session
(`Updater.LawfulH`: the session invariant of C01 plus the two slot headers `start_update` wrote),
`try_recover_inner` only reads, and returns an updater whose abstraction is `rehydrate` of the abstraction of the
updater that was lost — so every continuation behaves as C07 says.
-/
namespace Fuota.C07b
open Fuota.Nor Fuota.Fs Fuota.Updater Fuota.Recon Fuota.Layout Fuota.FlashAdapters

/-- the two session headers are the two newest parsed headers of the ring, the parity slot's being the newest
    (the header-level fact the ring machine of C13 maintains) -/
def NewestPair (nslots : Nat) (u : Upd) (d : Dev) (sa sb : Nat) : Prop :=
  twoNewest (indexed (NoPanic.hdrs d.flash nslots u.fw.size)) =
    (some (u.par.idx, parHdr u sb), some (u.fw.idx, fwHdr u sa))

/-- every other parsed header of the ring is settled (needs neither an abort mark nor an erase) -/
def OthersSettled (nslots : Nat) (u : Upd) (d : Dev) : Prop :=
  ∀ p ∈ indexed (NoPanic.hdrs d.flash nslots u.fw.size), p.1 = u.par.idx ∨ p.1 = u.fw.idx ∨ Settled p.2

/-- **C07b (recovery refines rehydration).** Device and lost updater satisfy the session invariant with headers, the
session headers are the two newest of the ring and all other slots are settled. Then `try_recover_inner` succeeds,
leaves the device exactly as it was (it only reads), and the updater `u'` it returns has the slots, geometry and
pivots of the lost one, the status marks read from flash as `done`, and `l` recomputed from them. While the session is
incomplete: `done` is the lost `done`, the abstraction of `u'` has the contents of `C07.rehydrate` of the lost
abstraction, `u'` (with its segment-size cache filled; the empty cache is transparent, `CacheOK`) satisfies the
session invariant again, and the progress counter is unchanged. In the completed-but-unmarked position every mark is
set: `u'.complete = true` and the counter reads `n`. -/
theorem recover_refines (nslots : Nat) {u : Upd} {d : Dev} {sa sb : Nat} (LH : LawfulH u d sa sb)
    (hin : nslots * u.fw.size ≤ d.flash.size) (hnew : NewestPair nslots u d sa sb)
    (hoth : OthersSettled nslots u d) :
    ∃ u', (tryRecoverInner nslots u.fw.size).run d = (.ok (some u'), d) ∧
      u'.fw.idx = u.fw.idx ∧ u'.fw.size = u.fw.size ∧ u'.par.idx = u.par.idx ∧ u'.par.size = u.par.size ∧
      u'.n = u.n ∧ u'.bs = u.bs ∧ u'.maxL = u.maxL ∧ u'.matrixOffset = u.matrixOffset ∧ u'.used = u.used ∧
      (∀ j, u'.done.testBit j = (decide (j < u.n) && decide (d.flash.byte (statAddr u j) = 0x33))) ∧
      u'.l = (if u.used = 0 then 0 else (unknowns u'.done u.n).length) ∧
      (rcComplete u = false →
        u'.done = u.done ∧ C18.Equiv (abs (u', d)) (C07.rehydrate (abs (u, d))) ∧
        Lawful (warm u') d ∧ CacheOK u' d ∧ u'.received = u.received) ∧
      (rcComplete u = true → u'.complete = true ∧ u'.received = u.n) := by
  have L := LH.law
  have g := L.base.geo
  obtain ⟨done', hrun, hbits, hinc, hcomp⟩ := recover_run nslots u.fw.size LH rfl hin hnew hoth
  have hdn : ∀ i, u.n ≤ i → done'.testBit i = false := by
    intro i hi; rw [hbits i]; simp [show ¬ i < u.n by omega]
  have hcnt : popcount done' MAX_SEGMENTS = pop done' u.n := by
    rw [popcount_eq_pop]; exact pop_of_lt _ _ _ g.hn.2 hdn
  refine ⟨recovered u u.fw.size done', hrun, rfl, rfl, rfl, g.hsz.symm, rfl, rfl, rfl, g.hmo.symm, rfl, hbits, ?_, ?_, ?_⟩
  · have := pop_add_unknowns done' u.n
    show (if u.used ≠ 0 then u.n - popcount done' MAX_SEGMENTS else 0) = _
    rw [hcnt]
    by_cases hu : u.used = 0
    · simp [hu]
    · simp only [hu, ne_eq, not_false_eq_true, ↓reduceIte]
      show u.n - pop done' u.n = (unknowns done' u.n).length
      omega
  · intro hc
    have e := hinc hc
    subst e
    refine ⟨rfl, abs_recovered_eqv L, lawful_recovered L hc, Or.inr ⟨rfl, ?_⟩, rfl⟩
    have := hdrAt_size LH.hfw
    rw [Nat.mul_comm]
    exact this
  · intro hc
    have hall : pop done' u.n = u.n := (pop_eq_iff _ _).2 (fun i hi => by rw [hcomp hc i]; simpa using hi)
    refine ⟨?_, ?_⟩
    · show (popcount done' MAX_SEGMENTS == u.n) = true
      rw [hcnt, hall]; simp
    · show min (popcount done' MAX_SEGMENTS + popcount u.used VBITS) u.n = u.n
      rw [hcnt, hall]
      exact Nat.min_eq_right (Nat.le_add_right _ _)

/-- corresponding result lists are determined by the model's -/
theorem allCorr_unique : ∀ {as as' : List (Except MErr Outcome)} {bs : List Res}, AllCorr as bs → AllCorr as' bs →
    as = as'
  | [], [], [], _, _ => rfl
  | [], _ :: _, [], _, h => h.elim
  | _ :: _, _, [], h, _ => h.elim
  | [], _, _ :: _, h, _ => h.elim
  | _ :: _, [], _ :: _, _, h => h.elim
  | a :: as, a' :: as', b :: bs, h, h' => by
    have e : a = a' := by
      cases a with
      | error e => cases b <;> exact h.1.elim
      | ok o =>
        cases a' with
        | error e => cases b <;> exact h'.1.elim
        | ok o' =>
          cases o <;> cases o' <;> cases b <;>
            first | rfl | exact h.1.elim | exact h'.1.elim
    rw [e, allCorr_unique h.2 h'.2]

/-- **C07b (a clean reboot between two fragments is transparent, flash level).** Outside the corner "parity
processing began but no row stored yet", for an incomplete session: after a reboot (in-memory updater lost),
`try_recover_inner` followed by any continuation — any fragment numbers, payloads of `bs` bytes, row generator
defined at these numbers — answers every fragment exactly as the uninterrupted session does (in particular
`FirmwareComplete` on the same fragment), and ends in a state with the same contents. -/
theorem reboot_transparent_L2 (ffr : Bool) (nslots : Nat) {u : Upd} {d : Dev} {sa sb : Nat} (LH : LawfulH u d sa sb)
    (hin : nslots * u.fw.size ≤ d.flash.size) (hnew : NewestPair nslots u d sa sb)
    (hoth : OthersSettled nslots u d) (hinc : rcComplete u = false) (hcorner : u.l = 0 ∨ u.used ≠ 0)
    (frag : Nat → List Nat) (hfrag : ∀ i, IsBytes (frag i) ∧ (frag i).length = u.bs) (is : List Nat)
    (hidx : ∀ i ∈ is, i ≠ 0) (hrows : C01.RowsDefined ffr u.n is) :
    ∃ u', (tryRecoverInner nslots u.fw.size).run d = (.ok (some u'), d) ∧
      (session ffr frag is (u', d)).1 = (session ffr frag is (u, d)).1 ∧
      C18.Equiv (abs (session ffr frag is (u', d)).2) (abs (session ffr frag is (u, d)).2) := by
  obtain ⟨u', hrun, _, _, _, _, hn', hbs', hmaxL', _, _, _, _, hI, _⟩ := recover_refines nslots LH hin hnew hoth
  obtain ⟨_, hE, hLw, hc, _⟩ := hI hinc
  refine ⟨u', hrun, ?_⟩
  have L := LH.law
  -- the empty cache is transparent
  obtain ⟨w1, w2, w3⟩ := session_warm ffr frag is u' d hLw hc (fun i => by rw [hbs']; exact hfrag i)
    (fun i hi => by rw [hn']; exact hrows i hi)
  -- both sessions simulate model runs
  obtain ⟨_, b2, b3, _⟩ := session_sim ⟨false⟩ ffr u.n u.bs u.maxL frag hfrag is (warm u') d
    (C07.rehydrate (abs (u, d))) hidx hrows hLw hn' hbs' hmaxL' hE
  obtain ⟨_, c2, c3, _⟩ := session_sim ⟨false⟩ ffr u.n u.bs u.maxL frag hfrag is u d (abs (u, d)) hidx hrows L
    rfl rfl rfl (Fault.Eqv.refl _)
  -- the model runs agree (C07)
  have hSI : C07.StageInv (abs (u, d)) := by
    refine ⟨fun h0 => ?_, fun h0 => L.base.hl2 h0⟩
    apply Nat.eq_of_testBit_eq
    intro p
    cases hb : u.used.testBit p with
    | false => simp [abs, hb]
    | true => have := (L.base.hech p hb).1; have h0' : u.l = 0 := h0; omega
  obtain ⟨t1, t2⟩ := C07.reboot_transparent ⟨false⟩ (fun m => (updaterRow ffr u.n m).getD 0) 2048 u.maxL
    (fun i => bytesToNat (frag i)) hSI hcorner (is.map (· - 1))
  rw [t1] at b3
  refine ⟨by rw [w1]; exact allCorr_unique b3 c3, ?_⟩
  have e : abs (session ffr frag is (u', d)).2 = abs (session ffr frag is (warm u', d)).2 := by
    have h1 : (session ffr frag is (warm u', d)).2 =
        (warm (session ffr frag is (u', d)).2.1, (session ffr frag is (u', d)).2.2) := Prod.ext w3.symm w2.symm
    rw [h1]; rfl
  rw [e]
  exact Fault.Eqv.trans b2 (Fault.Eqv.trans t2 (Fault.Eqv.symm c2))

/-- the last results of corresponding lists correspond -/
theorem allCorr_getLast : ∀ {as : List (Except MErr Outcome)} {bs : List Res}, AllCorr as bs →
    (as.getLast? = some (.ok .complete) ↔ ∃ b, bs.getLast? = some (Res.done b))
  | [], [], _ => by simp
  | [], _ :: _, h => h.elim
  | _ :: _, [], h => h.elim
  | [a], [b], h => by
    simp only [List.getLast?_singleton, Option.some.injEq]
    cases a with
    | error e => cases b <;> exact h.1.elim
    | ok o =>
      cases o <;> cases b <;> first | exact h.1.elim | simp
  | [_], _ :: _ :: _, h => h.2.elim
  | _ :: _ :: _, [_], h => h.2.elim
  | a :: a' :: as, b :: b' :: bs, h => by
    rw [List.getLast?_cons_cons, List.getLast?_cons_cons]
    exact allCorr_getLast h.2

/-- **C07b (the invariant with headers is kept along sessions).** -/
theorem session_lawfulH (ffr : Bool) (frag : Nat → List Nat) {sa sb : Nat} :
    ∀ (is : List Nat) (u : Upd) (d : Dev), LawfulH u d sa sb →
      (∀ i, IsBytes (frag i) ∧ (frag i).length = u.bs) → C01.RowsDefined ffr u.n is →
      LawfulH (session ffr frag is (u, d)).2.1 (session ffr frag is (u, d)).2.2 sa sb := by
  intro is
  induction is with
  | nil => intro u d LH _ _; exact LH
  | cons idx1 is ih =>
    intro u d LH hfrag hrows
    obtain ⟨hfb, hfl⟩ := hfrag (idx1 - 1)
    obtain ⟨hL', hS'⟩ := handleSegment_lawful ffr idx1 (frag (idx1 - 1)) LH.law hfb hfl
      (hrows idx1 List.mem_cons_self)
    have hLH' := handleSegment_lawfulH ffr idx1 (frag (idx1 - 1)) LH hL' hS'
    simp only [session]
    generalize (handleSegment ffr idx1 (frag (idx1 - 1))).run (u, d) = p at hS' hLH' ⊢
    obtain ⟨res, u', d'⟩ := p
    obtain ⟨k1, k2, k3, k4, k5, k6⟩ := hS'
    simp only at hLH' k3 k4
    exact ih u' d' hLH' (fun i => by rw [k4]; exact hfrag i)
      (fun i hi => by rw [k3]; exact hrows i (List.mem_cons_of_mem _ hi))

/-- **C07b (the corner, flash level).** In the corner "parity processing began but no row stored yet" recovery falls
back to stage 1; for every continuation the session after reboot and recovery ends with `FirmwareComplete` on its
last fragment exactly when the uninterrupted session does. -/
theorem reboot_transparent_corner_L2 (ffr : Bool) (nslots : Nat) {u : Upd} {d : Dev} {sa sb : Nat}
    (LH : LawfulH u d sa sb) (hin : nslots * u.fw.size ≤ d.flash.size) (hnew : NewestPair nslots u d sa sb)
    (hoth : OthersSettled nslots u d) (hinc : rcComplete u = false) (hl : u.l ≠ 0) (hu : u.used = 0)
    (frag : Nat → List Nat) (hfrag : ∀ i, IsBytes (frag i) ∧ (frag i).length = u.bs) (is : List Nat)
    (hidx : ∀ i ∈ is, i ≠ 0) (hrows : C01.RowsDefined ffr u.n is) :
    ∃ u', (tryRecoverInner nslots u.fw.size).run d = (.ok (some u'), d) ∧
      ((session ffr frag is (u', d)).1.getLast? = some (.ok .complete) ↔
        (session ffr frag is (u, d)).1.getLast? = some (.ok .complete)) := by
  obtain ⟨u', hrun, _, _, _, _, hn', hbs', hmaxL', _, _, _, _, hI, _⟩ := recover_refines nslots LH hin hnew hoth
  obtain ⟨_, hE, hLw, hc, _⟩ := hI hinc
  refine ⟨u', hrun, ?_⟩
  have L := LH.law
  obtain ⟨w1, _, _⟩ := session_warm ffr frag is u' d hLw hc (fun i => by rw [hbs']; exact hfrag i)
    (fun i hi => by rw [hn']; exact hrows i hi)
  obtain ⟨_, _, b3, _⟩ := session_sim ⟨false⟩ ffr u.n u.bs u.maxL frag hfrag is (warm u') d
    (C07.rehydrate (abs (u, d))) hidx hrows hLw hn' hbs' hmaxL' hE
  obtain ⟨_, _, c3, _⟩ := session_sim ⟨false⟩ ffr u.n u.bs u.maxL frag hfrag is u d (abs (u, d)) hidx hrows L
    rfl rfl rfl (Fault.Eqv.refl _)
  have hSI : C07.StageInv (abs (u, d)) :=
    ⟨fun h0 => absurd (show u.l = 0 from h0) hl, fun h0 => L.base.hl2 h0⟩
  have hC : Gf2.Contract (abs (u, d)).n (fun m => (updaterRow ffr u.n m).getD 0) :=
    updaterRow_contract ffr u.n L.base.geo.hn.2
  have hcapL := L.base.geo.slots.2.2.2.2.2.1
  have key := C07.reboot_transparent_corner ⟨false⟩ (fun m => (updaterRow ffr u.n m).getD 0) 2048 u.maxL
    (fun i => bytesToNat (frag i)) hC hSI hl hu ⟨by show u.l ≤ 2048; have := L.base.hl; omega, L.base.hl⟩
    (is.map (· - 1))
  rw [w1, allCorr_getLast b3, allCorr_getLast c3]
  exact key

/-! ## non-vacuity: right after `start_update` on a blank two-slot device every hypothesis holds -/

/-- an erased slot carries no header -/
theorem hdrAt_erased {f : Flash} {a : Nat} (h : Erased f a (a + 28)) : NoPanic.hdrAt f a = none := by
  unfold NoPanic.hdrAt
  rw [show Consts.SLOT_HEADER_SIZE = 28 from rfl, read_erased h]
  decide

/-- **the hypotheses of `recover_refines` are attainable**: on a blank device of two slots (erase-block size dividing
the slot size), for every accepted geometry with room for at least one parity row, `start_update` leaves an updater
and device satisfying the invariant with headers, and the two session headers are the two newest of the ring with all
other slots settled — so `recover_refines` applies to it and to every state a fault-free session reaches from it
(`session_lawfulH`; the headers, hence `NewestPair` and `OthersSettled`, do not change). -/
theorem recover_hyps_after_start (S sz n block : Nat) (hb0 : 0 < block) (hdiv : S % block = 0)
    (hacc : reasonablySized S sz n = .ok ()) (hcap : 1 ≤ capacity S sz) :
    ∃ u0 d0 sa sb, (startUpdate 2 S sz n).run { flash := Flash.blank block (2 * S) } = (.ok u0, d0) ∧
      LawfulH u0 d0 sa sb ∧ 2 * u0.fw.size ≤ d0.flash.size ∧ NewestPair 2 u0 d0 sa sb ∧ OthersSettled 2 u0 d0 := by
  obtain ⟨hsz, hblk, hwf⟩ := C01.blank_spec block (2 * S)
  have hbyte : ∀ x, (Flash.blank block (2 * S)).byte x = 0xFF := by
    intro x
    simp only [Flash.byte, Flash.blank, Array.getD_eq_getD_getElem?, Array.getElem?_replicate]
    split <;> rfl
  obtain ⟨u0, d0, sa, sb, hrun, LH, hcp, _, _, _, _, _, _, h7, h8, _, _⟩ :=
    startUpdate_lawfulH 2 S sz n { flash := Flash.blank block (2 * S) } ⟨rfl, rfl, rfl⟩ hwf hacc
      (by rw [hsz]; exact Nat.le_refl _) (by rw [hblk]; exact hb0) (by rw [hblk]; exact hdiv) (by omega) hcap
  have hnone : ∀ a, NoPanic.hdrAt (Flash.blank block (2 * S)) a = none :=
    fun a => hdrAt_erased (fun x _ _ => hbyte x)
  have hhs : NoPanic.hdrs (Flash.blank block (2 * S)) 2 S = [none, none] := by
    simp only [NoPanic.hdrs, show List.range 2 = [0, 1] from rfl, List.map, hnone]
  rw [show ({ flash := Flash.blank block (2 * S) } : Dev).flash = Flash.blank block (2 * S) from rfl, hhs] at hcp
  have hcp' : (Except.ok (0, 1, 0, 1) : Except MErr (Nat × Nat × Nat × Nat)) = .ok (u0.fw.idx, u0.par.idx, sa, sb) := hcp
  injection hcp' with e
  simp only [Prod.mk.injEq] at e
  obtain ⟨e1, e2, e3, e4⟩ := e
  have hfw := LH.hfw
  have hpar := LH.hpar
  rw [← e1, h7] at hfw
  rw [← e2, h8] at hpar
  have hd0 : NoPanic.hdrs d0.flash 2 u0.fw.size = [some (fwHdr u0 sa), some (parHdr u0 sb)] := by
    simp only [NoPanic.hdrs, show List.range 2 = [0, 1] from rfl, List.map, h7, hfw, hpar]
  have hidx : indexed [some (fwHdr u0 sa), some (parHdr u0 sb)] = [(0, fwHdr u0 sa), (1, parHdr u0 sb)] := rfl
  refine ⟨u0, d0, sa, sb, hrun, LH, ?_, ?_, ?_⟩
  · have := LH.law.base.geo.hparin
    rw [← e2, h8] at this
    rw [h7]; omega
  · unfold NewestPair
    rw [hd0, ← e1, ← e2, ← e3, ← e4]
    rfl
  · unfold OthersSettled
    rw [hd0, hidx]
    intro p hp
    simp only [List.mem_cons, List.not_mem_nil, or_false] at hp
    rcases hp with rfl | rfl
    · exact Or.inr (Or.inl e1)
    · exact Or.inl e2

end Fuota.C07b
