import Fuota.Lemmas.RefineCrashResume
import Fuota.Lemmas.RefineStartH
/-!
# C06b — a power loss inside a `handle_segment` call, outside `finish`: reboot, recovery, redelivery (flash level)

`C06` proves, for the reconstructor model `Fuota.Recon`, that a session interrupted by a power loss inside a delivery
resumes correctly when the interrupted fragment is sent again. This file proves it for the byte-level model
`Fuota.Updater` on the NOR device of `Fuota.Fs`: the power is lost at the `k`-th mutating flash operation from now
(`Dev.crashAt = some (nmut + k, none)`: that operation and everything after it fails, the array keeps what was
programmed before), the device reboots (`Dev.reboot`), the in-memory updater is gone, `try_recover_inner` rebuilds it
from flash, and the interrupted fragment is delivered again.

The rebooted device is in one of the states of `Updater.Interrupted` / `Updater.LawfulUpTo`: untouched; **(i)** the data
of one segment programmed without its written mark; **(ii)** one orphan parity block programmed without its matrix
row. Recovery does not see (i) (the mark reads erased) nor (ii) (the scan reads the matrix rows only), and the
redelivery programs identical bytes over them.

**Which crash points and which continuation are covered.** Every operation boundary of a call outside `finish`:
before/after the data program of a stage-1 store, before/between the (block, row) pair of a stage-2 pivot store —
selected, as in C18b, by "the call answered an error and the in-memory updater was still incomplete". The
continuation covered is: recovery, then the *same* fragment again, then anything. Excluded: a power loss inside
`finish`; a power loss inside `start_update`; in situation (ii), a continuation in which the interrupted fragment is
lost and another coded fragment reaches the same pivot with different bytes first (orphan + lost fragment: the region
is not erased on NOR; finding `row-lost`); and the stage corner of C07b (`l ≠ 0` with no row stored yet), where
recovery falls back to stage 1.
-/
namespace Fuota.C06b
open Fuota.Nor Fuota.Fs Fuota.Updater Fuota.Recon Fuota.Layout Fuota.FlashAdapters Fuota.C07b

/-- **C06b (power loss outside `finish`, fragment sent again).** `(u, d)` satisfies the session invariant with
headers; the session headers are the two newest of the ring and all other slots are settled; the state is not in the
stage corner. A genuine fragment is delivered while the power is lost at the `k`-th mutating flash operation from now;
the call answers an error and the in-memory updater was still incomplete. Then: the device is dead; the rebooted
device satisfies the relaxed invariant `LawfulUpTo` (with the lost updater); `try_recover_inner` on it succeeds
without touching it and returns an updater `u'`; and delivering the interrupted fragment to `(u', rebooted device)` is
answered exactly as the uninterrupted delivery on `(u, d)`, re-establishes the session invariant (for `u'` with its
segment-size cache filled; an empty cache is fillable from the header, `CacheOK`), and ends with the same abstraction. -/
theorem crash_resume_resend_L2 (ffr : Bool) (nslots : Nat) {u : Upd} {d : Dev} {sa sb : Nat} (LH : LawfulH u d sa sb)
    (hin : nslots * u.fw.size ≤ d.flash.size) (hnew : NewestPair nslots u d sa sb)
    (hoth : OthersSettled nslots u d) (hcorner : u.l = 0 ∨ u.used ≠ 0) (idx1 : Nat) (hidx : idx1 ≠ 0)
    (bytes : List Nat) (hb : IsBytes bytes) (hlen : bytes.length = u.bs)
    (hrow : (updaterRow ffr u.n (idx1 - 1)).isSome = true) (k : Nat)
    (herr : ∃ er, ((handleSegment ffr idx1 bytes).run (u, d.withCrash k)).1 = .error er)
    (hinc : rcComplete ((handleSegment ffr idx1 bytes).run (u, d.withCrash k)).2.1 = false) :
    ((handleSegment ffr idx1 bytes).run (u, d.withCrash k)).2.2.dead = true ∧
    Good ((handleSegment ffr idx1 bytes).run (u, d.withCrash k)).2.2.reboot ∧
    LawfulUpTo ((handleSegment ffr idx1 bytes).run (u, d.withCrash k)).2.1
      ((handleSegment ffr idx1 bytes).run (u, d.withCrash k)).2.2.reboot ∧
    ∃ u', (tryRecoverInner nslots u.fw.size).run ((handleSegment ffr idx1 bytes).run (u, d.withCrash k)).2.2.reboot =
        (.ok (some u'), ((handleSegment ffr idx1 bytes).run (u, d.withCrash k)).2.2.reboot) ∧
      ((handleSegment ffr idx1 bytes).run (u', ((handleSegment ffr idx1 bytes).run (u, d.withCrash k)).2.2.reboot)).1 =
        ((handleSegment ffr idx1 bytes).run (u, d)).1 ∧
      Lawful
        (warm ((handleSegment ffr idx1 bytes).run
          (u', ((handleSegment ffr idx1 bytes).run (u, d.withCrash k)).2.2.reboot)).2.1)
        ((handleSegment ffr idx1 bytes).run
          (u', ((handleSegment ffr idx1 bytes).run (u, d.withCrash k)).2.2.reboot)).2.2 ∧
      CacheOK
        ((handleSegment ffr idx1 bytes).run
          (u', ((handleSegment ffr idx1 bytes).run (u, d.withCrash k)).2.2.reboot)).2.1
        ((handleSegment ffr idx1 bytes).run
          (u', ((handleSegment ffr idx1 bytes).run (u, d.withCrash k)).2.2.reboot)).2.2 ∧
      C18.Equiv
        (abs ((handleSegment ffr idx1 bytes).run
          (u', ((handleSegment ffr idx1 bytes).run (u, d.withCrash k)).2.2.reboot)).2)
        (abs ((handleSegment ffr idx1 bytes).run (u, d)).2) := by
  obtain ⟨index, rfl⟩ : ∃ index, idx1 = index + 1 := ⟨idx1 - 1, by omega⟩
  rw [Nat.add_sub_cancel] at hrow
  obtain ⟨hdead, I, _⟩ := crash_call ffr LH.law index bytes hb hlen hrow k herr hinc
  obtain ⟨_, hrec, R⟩ := crash_resume ffr nslots LH hin hnew hoth hcorner index bytes hb hlen hrow k herr hinc
  exact ⟨hdead, (I.basic LH.law).1, I.lawfulUpTo LH.law, _, hrec, R.res, R.law, R.cache, R.eqv⟩

/-- **C06b (the whole resumed session).** The fragments `frag` are delivered under the numbers `idx1 :: is`; the power
is lost inside the first call (outside `finish`, as above). After reboot and recovery, delivering the *same* sequence
`idx1 :: is` to the recovered updater — the interrupted fragment again, then the rest — is answered exactly as the
uninterrupted session from `(u, d)` (in particular `FirmwareComplete` on the same fragment), and ends with the same
abstraction. -/
theorem crash_resume_continue_L2 (ffr : Bool) (nslots : Nat) {u : Upd} {d : Dev} {sa sb : Nat}
    (LH : LawfulH u d sa sb) (hin : nslots * u.fw.size ≤ d.flash.size) (hnew : NewestPair nslots u d sa sb)
    (hoth : OthersSettled nslots u d) (hcorner : u.l = 0 ∨ u.used ≠ 0) (frag : Nat → List Nat)
    (hfrag : ∀ i, IsBytes (frag i) ∧ (frag i).length = u.bs) (idx1 : Nat) (is : List Nat)
    (his : ∀ i ∈ idx1 :: is, i ≠ 0) (hrows : C01.RowsDefined ffr u.n (idx1 :: is)) (k : Nat)
    (herr : ∃ er, ((handleSegment ffr idx1 (frag (idx1 - 1))).run (u, d.withCrash k)).1 = .error er)
    (hinc : rcComplete ((handleSegment ffr idx1 (frag (idx1 - 1))).run (u, d.withCrash k)).2.1 = false) :
    ∃ u', (tryRecoverInner nslots u.fw.size).run
          ((handleSegment ffr idx1 (frag (idx1 - 1))).run (u, d.withCrash k)).2.2.reboot =
        (.ok (some u'), ((handleSegment ffr idx1 (frag (idx1 - 1))).run (u, d.withCrash k)).2.2.reboot) ∧
      (session ffr frag (idx1 :: is)
          (u', ((handleSegment ffr idx1 (frag (idx1 - 1))).run (u, d.withCrash k)).2.2.reboot)).1 =
        (session ffr frag (idx1 :: is) (u, d)).1 ∧
      C18.Equiv
        (abs (session ffr frag (idx1 :: is)
          (u', ((handleSegment ffr idx1 (frag (idx1 - 1))).run (u, d.withCrash k)).2.2.reboot)).2)
        (abs (session ffr frag (idx1 :: is) (u, d)).2) := by
  have hidx : idx1 ≠ 0 := his idx1 List.mem_cons_self
  obtain ⟨index, rfl⟩ : ∃ index, idx1 = index + 1 := ⟨idx1 - 1, by omega⟩
  obtain ⟨hb, hlen⟩ := hfrag (index + 1 - 1)
  have hrow : (updaterRow ffr u.n index).isSome = true := by
    have := hrows (index + 1) List.mem_cons_self
    rwa [Nat.add_sub_cancel] at this
  obtain ⟨_, hrec, R⟩ := crash_resume ffr nslots LH hin hnew hoth hcorner index (frag (index + 1 - 1)) hb hlen hrow k
    herr hinc
  obtain ⟨c1, c2⟩ := R.continuation frag hfrag is (fun i hi => his i (List.mem_cons_of_mem _ hi))
    (fun i hi => hrows i (List.mem_cons_of_mem _ hi))
  refine ⟨_, hrec, ?_, c2⟩
  show _ :: _ = _ :: _
  rw [R.res, c1]

/-- an interrupted call was made on an incomplete session -/
theorem interrupted_incomplete {ffr : Bool} {u : Upd} {d : Dev} {index : Nat} {bytes : List Nat} {u1 : Upd}
    {d1 : Dev} (I : Interrupted ffr u d index bytes u1 d1) : rcComplete u = false := by
  cases I with
  | store1 S _ _ => exact S.inc
  | store2 _ _ _ _ hinc _ _ _ _ _ => exact hinc

/-- **C06b (power lost before the first program of the call: the fragment may be lost).** As above with `k = 0`: the
call did not change the flash, the rebooted device is `d` itself, and after recovery **every** continuation — whether
or not it contains the interrupted fragment — is answered exactly as the same continuation of the uninterrupted
session from `(u, d)`, and ends with the same abstraction. (Crash points after a program of the call with the
fragment lost are not covered: see the header.) -/
theorem crash_resume_lost_clean_L2 (ffr : Bool) (nslots : Nat) {u : Upd} {d : Dev} {sa sb : Nat}
    (LH : LawfulH u d sa sb) (hin : nslots * u.fw.size ≤ d.flash.size) (hnew : NewestPair nslots u d sa sb)
    (hoth : OthersSettled nslots u d) (hcorner : u.l = 0 ∨ u.used ≠ 0) (idx1 : Nat) (hidx : idx1 ≠ 0)
    (bytes : List Nat) (hb : IsBytes bytes) (hlen : bytes.length = u.bs)
    (hrow : (updaterRow ffr u.n (idx1 - 1)).isSome = true)
    (herr : ∃ er, ((handleSegment ffr idx1 bytes).run (u, d.withCrash 0)).1 = .error er)
    (hinc : rcComplete ((handleSegment ffr idx1 bytes).run (u, d.withCrash 0)).2.1 = false)
    (frag : Nat → List Nat) (hfrag : ∀ i, IsBytes (frag i) ∧ (frag i).length = u.bs) (is : List Nat)
    (his : ∀ i ∈ is, i ≠ 0) (hrows : C01.RowsDefined ffr u.n is) :
    ((handleSegment ffr idx1 bytes).run (u, d.withCrash 0)).2.2.reboot = d ∧
    ∃ u', (tryRecoverInner nslots u.fw.size).run d = (.ok (some u'), d) ∧
      (session ffr frag is (u', d)).1 = (session ffr frag is (u, d)).1 ∧
      C18.Equiv (abs (session ffr frag is (u', d)).2) (abs (session ffr frag is (u, d)).2) := by
  obtain ⟨index, rfl⟩ : ∃ index, idx1 = index + 1 := ⟨idx1 - 1, by omega⟩
  rw [Nat.add_sub_cancel] at hrow
  obtain ⟨_, I, h0⟩ := crash_call ffr LH.law index bytes hb hlen hrow 0 herr hinc
  exact ⟨h0 rfl, reboot_transparent_L2 ffr nslots LH hin hnew hoth (interrupted_incomplete I) hcorner frag hfrag is his hrows⟩

/-! ## non-vacuity -/

/-- non-vacuity 1: in **every** stage-1 store situation a power loss at the first or at the second program of the
call satisfies the two hypotheses of `crash_resume_resend_L2` -/
theorem crash_hyps_store1 (ffr : Bool) {u : Upd} {d : Dev} {i : Nat} {buf : List Nat} (S : Stage1Store u d i buf)
    (k : Nat) (hk : k < 2) :
    (∃ er, ((handleSegment ffr (i + 1) buf).run (u, d.withCrash k)).1 = .error er) ∧
    rcComplete ((handleSegment ffr (i + 1) buf).run (u, d.withCrash k)).2.1 = false := by
  obtain ⟨e, h1, _, _⟩ := stage1_crash ffr S k hk
  rw [h1]
  exact ⟨⟨_, rfl⟩, S.inc⟩

/-- non-vacuity 2: in **every** stage-2 situation in which the elimination loop decides to store a new pivot, a power
loss at the first or at the second program of the pair satisfies the two hypotheses of `crash_resume_resend_L2` -/
theorem crash_hyps_store2 (ffr : Bool) {u : Upd} {d : Dev} {index : Nat} {bytes : List Nat} {r p row' : Nat}
    {data' : List Nat} (hlen : bytes.length = u.bs) (hinc : rcComplete u = false) (hnt : ¬ tooManyCond u index)
    (hl0 : (adjU u index).l ≠ 0) (S : Stage2Store ffr (adjU u index) d index bytes r p row' data') (k : Nat)
    (hk : k < 2) :
    (∃ er, ((handleSegment ffr (index + 1) bytes).run (u, d.withCrash k)).1 = .error er) ∧
    rcComplete ((handleSegment ffr (index + 1) bytes).run (u, d.withCrash k)).2.1 = false := by
  obtain ⟨e, h1, _, _⟩ := S.run_crash k hk
  have hrun := handleSegment_of_error ffr (index + 1) bytes (by omega) (u, d.withCrash k) _ _ (by
    rw [Nat.add_sub_cancel, handleBlock_stage2_eq ffr u _ index bytes hlen hinc hnt hl0]
    exact h1)
  rw [hrun]
  obtain ⟨hp, _, hup, _, _⟩ := S.facts
  exact ⟨⟨_, rfl⟩, rcComplete_stage2_false hl0 hp hup⟩

/-- non-vacuity 3: right after `start_update` on a blank two-slot device every hypothesis of
`crash_resume_resend_L2` holds for the first data fragment with the power lost at the status-mark program (`k = 1`:
the data of segment 0 is on flash, its mark is not) -/
theorem crash_scenario_after_start (ffr : Bool) (S sz n block : Nat) (hb0 : 0 < block) (hdiv : S % block = 0)
    (hacc : reasonablySized S sz n = .ok ()) (hcap : 1 ≤ capacity S sz) (buf : List Nat) (hbuf : IsBytes buf)
    (hlen : buf.length = sz) :
    ∃ u0 d0 sa sb, (startUpdate 2 S sz n).run { flash := Flash.blank block (2 * S) } = (.ok u0, d0) ∧
      LawfulH u0 d0 sa sb ∧ 2 * u0.fw.size ≤ d0.flash.size ∧ NewestPair 2 u0 d0 sa sb ∧ OthersSettled 2 u0 d0 ∧
      (u0.l = 0 ∨ u0.used ≠ 0) ∧ buf.length = u0.bs ∧
      (∃ er, ((handleSegment ffr 1 buf).run (u0, d0.withCrash 1)).1 = .error er) ∧
      rcComplete ((handleSegment ffr 1 buf).run (u0, d0.withCrash 1)).2.1 = false := by
  obtain ⟨u0, d0, sa, sb, hrun, LH, h3, h4, h5⟩ := recover_hyps_after_start S sz n block hb0 hdiv hacc hcap
  obtain ⟨hsz, hblk, hwf⟩ := C01.blank_spec block (2 * S)
  obtain ⟨u1, d1, _, _, hrun1, _, _, hl, hd, hu, hn, hbs, _⟩ :=
    startUpdate_lawfulH 2 S sz n { flash := Flash.blank block (2 * S) } ⟨rfl, rfl, rfl⟩ hwf hacc
      (by rw [hsz]; exact Nat.le_refl _) (by rw [hblk]; exact hb0) (by rw [hblk]; exact hdiv) (by omega) hcap
  have he := hrun.symm.trans hrun1
  obtain ⟨e1, rfl⟩ := Prod.mk.inj he
  obtain rfl := Except.ok.inj e1
  have hn1 : 1 ≤ u0.n := LH.law.base.geo.hn.1
  have hinc : rcComplete u0 = false := by
    cases hc : rcComplete u0 with
    | false => rfl
    | true =>
      have := (rcComplete_stage1 u0 hl).1 hc 0 (by omega)
      rw [hd] at this; simp at this
  have St : Stage1Store u0 d0 0 buf :=
    ⟨LH.law, hinc, hl, by omega, by rw [hd]; simp, hbuf, by rw [hbs]; exact hlen⟩
  obtain ⟨c1, c2⟩ := crash_hyps_store1 ffr St 1 (by omega)
  exact ⟨u0, d0, sa, sb, hrun, LH, h3, h4, h5, Or.inl hl, by rw [hbs]; exact hlen, c1, c2⟩

end Fuota.C06b
